/-
  Lemmas/Cbind.lean — C09: `cbind` (names, first of duplicates, receiver untouched, exact rejection
  condition) and `rename` (requested names, order and values).
-/
import Model.Bind
import Lemmas.Bind
import Lemmas.BindMore

namespace DI.Bind

/-! ### `mapM` in `Option` -/

theorem map_some_inj {β : Type} : ∀ (a b : List β), a.map some = b.map some → a = b
  | [], [], _ => rfl
  | [], _ :: _, h => by simp at h
  | _ :: _, [], h => by simp at h
  | x :: a, y :: b, h => by
    simp only [List.map_cons, List.cons.injEq, Option.some.injEq] at h
    rw [h.1, map_some_inj a b h.2]

theorem mapM_some_iff {α β : Type} (f : α → Option β) :
    ∀ (l : List α) (out : List β), l.mapM f = some out ↔ l.map f = out.map some
  | [], out => by
    cases out <;> simp
  | a :: l, out => by
    rw [List.mapM_cons]
    cases hfa : f a with
    | none => cases out <;> simp [hfa]
    | some b =>
      cases hl : l.mapM f with
      | none =>
        cases out with
        | nil => simp
        | cons o os =>
          have : ¬ (l.map f = os.map some) := fun h => by
            have := (mapM_some_iff f l os).mpr h
            rw [hl] at this; cases this
          simp [hfa, this]
      | some bs =>
        have hbs := (mapM_some_iff f l bs).mp hl
        cases out with
        | nil => simp
        | cons o os =>
          simp only [hfa, List.map_cons, List.cons.injEq, Option.some.injEq]
          simp only [bind, Option.bind, pure, Option.some.injEq, List.cons.injEq]
          constructor
          · rintro ⟨rfl, rfl⟩; exact ⟨rfl, hbs⟩
          · rintro ⟨rfl, h⟩
            refine ⟨rfl, ?_⟩
            rw [hbs] at h
            exact map_some_inj _ _ h

theorem mapM_none_iff {α β : Type} (f : α → Option β) (l : List α) :
    l.mapM f = none ↔ ∃ x ∈ l, f x = none := by
  constructor
  · intro h
    false_or_by_contra
    rename_i hne
    have hall : ∀ x ∈ l, ∃ b, f x = some b := by
      intro x hx
      cases hfx : f x with
      | none => exact absurd ⟨x, hx, hfx⟩ hne
      | some b => exact ⟨b, rfl⟩
    have : ∃ out : List β, l.map f = out.map some := by
      clear h hne
      induction l with
      | nil => exact ⟨[], rfl⟩
      | cons a l ih =>
        obtain ⟨b, hb⟩ := hall a (by simp)
        obtain ⟨os, hos⟩ := ih (fun x hx => hall x (by simp [hx]))
        exact ⟨b :: os, by simp [hb, hos]⟩
    obtain ⟨out, hout⟩ := this
    rw [(mapM_some_iff f l out).mpr hout] at h
    cases h
  · rintro ⟨x, hx, hfx⟩
    cases h : l.mapM f with
    | none => rfl
    | some out =>
      have := (mapM_some_iff f l out).mp h
      have hm : f x ∈ l.map f := List.mem_map.mpr ⟨x, hx, rfl⟩
      rw [this, hfx] at hm
      simp at hm

/-! ### the fold that keeps the first of duplicate names -/

/-- candidate column: (name, index of the frame, row count of that frame). -/
abbrev Cand := String × Nat × Nat

/-- the `found_colnames` loop of `cbind`, started from an accumulator. -/
def firstsFrom (acc : List Cand) (l : List Cand) : List Cand :=
  l.foldl (fun acc p => if acc.any (fun q => q.1 == p.1) then acc else acc ++ [p]) acc

/-- all columns of all frames in argument order, frames numbered from `k`. -/
def candsFrom (k : Nat) (frames : List Frame) : List Cand :=
  (frames.zipIdx k).flatMap (fun (f, i) => f.names.map (fun c => (c, i, f.nrow)))

theorem cbind_unfold (self : Frame) (others : List Frame) :
    cbind (self :: others) =
      (firstsFrom [] (candsFrom 0 (self :: others))).mapM
        (fun (c, i, len) => (reconcile i c len self.nrow self.names.isEmpty).map (fun s => (c, s))) := rfl

theorem firstsFrom_cons (acc : List Cand) (p : Cand) (l : List Cand) :
    firstsFrom acc (p :: l) = firstsFrom (if acc.any (fun q => q.1 == p.1) then acc else acc ++ [p]) l := rfl

theorem any_key_eq_contains (acc : List Cand) (c : String) :
    acc.any (fun q => q.1 == c) = (acc.map (·.1)).contains c := by
  induction acc with
  | nil => rfl
  | cons a acc ih =>
    simp only [List.any_cons, List.map_cons, List.contains_cons, ih]
    congr 1
    exact Bool.beq_comm

/-- the names kept are the first-seen-unique names. -/
theorem firstsFrom_names (l acc : List Cand) :
    (firstsFrom acc l).map (·.1) =
      (l.map (·.1)).foldl (fun acc k => if acc.contains k then acc else acc ++ [k]) (acc.map (·.1)) := by
  induction l generalizing acc with
  | nil => rfl
  | cons p l ih =>
    rw [firstsFrom_cons, ih]
    simp only [List.map_cons, List.foldl_cons, any_key_eq_contains]
    congr 1
    split <;> simp

/-- the accumulator is only ever extended at the end. -/
theorem firstsFrom_prefix (l acc : List Cand) : ∃ ext, firstsFrom acc l = acc ++ ext := by
  induction l generalizing acc with
  | nil => exact ⟨[], by simp [firstsFrom]⟩
  | cons p l ih =>
    rw [firstsFrom_cons]
    split
    · exact ih acc
    · obtain ⟨e, he⟩ := ih (acc ++ [p])
      exact ⟨p :: e, by rw [he]; simp⟩

/-- every kept candidate is the first one with its name. -/
theorem firstsFrom_mem (l acc : List Cand) (p : Cand) (hp : p ∈ firstsFrom acc l) :
    p ∈ acc ∨ (acc.any (fun q => q.1 == p.1) = false ∧ l.find? (fun q => q.1 == p.1) = some p) := by
  induction l generalizing acc with
  | nil => exact Or.inl hp
  | cons x l ih =>
    rw [firstsFrom_cons] at hp
    by_cases hx : acc.any (fun q => q.1 == x.1) = true
    · simp only [hx, if_true] at hp
      rcases ih acc hp with h | ⟨h1, h2⟩
      · exact Or.inl h
      · refine Or.inr ⟨h1, ?_⟩
        have hne : (x.1 == p.1) = false := by
          cases hxe : x.1 == p.1
          · rfl
          · rw [beq_iff_eq.mp hxe] at hx; rw [hx] at h1; cases h1
        simp only [List.find?_cons, hne]
        exact h2
    · simp only [hx, Bool.false_eq_true, if_false] at hp
      have hx' : acc.any (fun q => q.1 == x.1) = false := by
        cases hh : acc.any (fun q => q.1 == x.1)
        · rfl
        · exact absurd hh hx
      rcases ih (acc ++ [x]) hp with h | ⟨h1, h2⟩
      · rcases List.mem_append.mp h with h | h
        · exact Or.inl h
        · simp only [List.mem_singleton] at h
          subst h
          exact Or.inr ⟨hx', by simp⟩
      · simp only [List.any_append, List.any_cons, List.any_nil, Bool.or_false, Bool.or_eq_false_iff] at h1
        refine Or.inr ⟨h1.1, ?_⟩
        simp only [List.find?_cons, h1.2]
        exact h2

/-- distinct names: everything is kept. -/
theorem firstsFrom_of_nodup (l acc : List Cand) (h : ((acc ++ l).map (·.1)).Nodup) :
    firstsFrom acc l = acc ++ l := by
  induction l generalizing acc with
  | nil => simp [firstsFrom]
  | cons p l ih =>
    rw [firstsFrom_cons]
    have hn : acc.any (fun q => q.1 == p.1) = false := by
      rw [List.any_eq_false]
      intro q hq hqe
      simp only [List.map_append, List.map_cons] at h
      rw [List.nodup_append] at h
      exact h.2.2 q.1 (List.mem_map.mpr ⟨q, hq, rfl⟩) p.1 (by simp) (beq_iff_eq.mp hqe)
    simp only [hn, Bool.false_eq_true, if_false]
    rw [ih (acc ++ [p]) (by simpa using h)]
    simp

theorem firstsFrom_append (acc l1 l2 : List Cand) :
    firstsFrom acc (l1 ++ l2) = firstsFrom (firstsFrom acc l1) l2 := by
  simp [firstsFrom, List.foldl_append]

/-! ### the candidates -/

theorem candsFrom_cons (k : Nat) (f : Frame) (fs : List Frame) :
    candsFrom k (f :: fs) = f.names.map (fun c => (c, k, f.nrow)) ++ candsFrom (k + 1) fs := by
  simp [candsFrom, List.zipIdx_cons, List.flatMap_cons]

theorem candsFrom_names (k : Nat) (frames : List Frame) :
    (candsFrom k frames).map (·.1) = frames.flatMap (·.names) := by
  induction frames generalizing k with
  | nil => rfl
  | cons f fs ih =>
    rw [candsFrom_cons, List.map_append, ih, List.flatMap_cons]
    congr 1
    rw [List.map_map]
    have : ((fun (x : Cand) => x.1) ∘ fun c => (c, k, f.nrow)) = id := by funext c; rfl
    rw [this, List.map_id]

theorem find_own (names : List String) (k n : Nat) (c : String) :
    (names.map (fun c' => ((c', k, n) : Cand))).find? (fun q => q.1 == c) =
      if c ∈ names then some (c, k, n) else none := by
  induction names with
  | nil => simp
  | cons a names ih =>
    simp only [List.map_cons, List.find?_cons, List.mem_cons]
    by_cases ha : a = c
    · subst ha; simp
    · have : (a == c) = false := by simpa using ha
      simp only [this, ih]
      have hne : ¬ c = a := fun e => ha e.symm
      simp [hne]

/-- the first candidate named `c` comes from the first frame that has a column `c`. -/
theorem candsFrom_find_first (frames : List Frame) (k : Nat) (c : String) (i : Nat) (hi : i < frames.length)
    (hc : c ∈ (frames[i]).names) (hfirst : ∀ i' (h : i' < i), c ∉ (frames[i']).names) :
    (candsFrom k frames).find? (fun q => q.1 == c) = some (c, k + i, (frames[i]).nrow) := by
  induction frames generalizing k i with
  | nil => simp at hi
  | cons f fs ih =>
    rw [candsFrom_cons, List.find?_append, find_own]
    cases i with
    | zero =>
      have : c ∈ f.names := by simpa using hc
      simp [this]
    | succ j =>
      have h0 : c ∉ f.names := by simpa using hfirst 0 (by omega)
      simp only [h0, if_false, Option.none_or]
      have hj : j < fs.length := by simpa using hi
      rw [ih (k + 1) j hj (by simpa using hc) (fun i' h => by
        have := hfirst (i' + 1) (by omega)
        simpa using this)]
      simp only [List.getElem_cons_succ]
      have : k + 1 + j = k + (j + 1) := by omega
      rw [this]

/-- conversely. -/
theorem candsFrom_find_some (frames : List Frame) (k : Nat) (c : String) (p : Cand)
    (h : (candsFrom k frames).find? (fun q => q.1 == c) = some p) :
    ∃ i, ∃ hi : i < frames.length, p = (c, k + i, (frames[i]).nrow) ∧ c ∈ (frames[i]).names ∧
      ∀ i' (h : i' < i), c ∉ (frames[i']).names := by
  induction frames generalizing k with
  | nil => simp [candsFrom] at h
  | cons f fs ih =>
    rw [candsFrom_cons, List.find?_append, find_own] at h
    by_cases hc : c ∈ f.names
    · simp only [hc, if_true, Option.some_or, Option.some.injEq] at h
      exact ⟨0, by simp, by simp [← h], by simpa using hc, fun i' h => absurd h (Nat.not_lt_zero _)⟩
    · simp only [hc, if_false, Option.none_or] at h
      obtain ⟨j, hj, e1, e2, e3⟩ := ih (k + 1) h
      refine ⟨j + 1, by simpa using hj, ?_, by simpa using e2, ?_⟩
      · rw [e1]; simp only [List.getElem_cons_succ]
        have : k + 1 + j = k + (j + 1) := by omega
        rw [this]
      · intro i' h'
        cases i' with
        | zero => simpa using hc
        | succ i'' => simpa using e3 i'' (by omega)

/-- a kept candidate for every name that occurs: the first one. -/
theorem firstsFrom_complete (l : List Cand) (c : String) (p : Cand)
    (h : l.find? (fun q => q.1 == c) = some p) : p ∈ firstsFrom [] l := by
  have hp1 : p.1 = c := by simpa using List.find?_some h
  have hmem : c ∈ (firstsFrom [] l).map (·.1) := by
    rw [firstsFrom_names]
    have := (mem_uniqueKeys (l.map (·.1)) c).mpr
      (List.mem_map.mpr ⟨p, List.mem_of_find?_eq_some h, hp1⟩)
    simpa [uniqueKeys] using this
  obtain ⟨p', hp', hp'1⟩ := List.mem_map.mp hmem
  rcases firstsFrom_mem l [] p' hp' with h' | ⟨_, h'⟩
  · cases h'
  · simp only [hp'1] at h'
    rw [h] at h'
    cases h'
    exact hp'

theorem mapM_key {α β γ : Type} (f : α → Option β) (g : α → γ) (k : β → γ)
    (hk : ∀ x b, f x = some b → k b = g x) :
    ∀ (l : List α) (out : List β), l.mapM f = some out → out.map k = l.map g := by
  intro l out h
  have h' := (mapM_some_iff f l out).mp h
  clear h
  induction l generalizing out with
  | nil => cases out <;> simp at h' ⊢
  | cons a l ih =>
    cases out with
    | nil => simp at h'
    | cons o os =>
      simp only [List.map_cons, List.cons.injEq] at h' ⊢
      exact ⟨hk a o h'.1, ih os h'.2⟩

theorem mapM_mem {α β : Type} (f : α → Option β) (l : List α) (out : List β) (h : l.mapM f = some out)
    (b : β) (hb : b ∈ out) : ∃ x ∈ l, f x = some b := by
  have h' := (mapM_some_iff f l out).mp h
  have : some b ∈ l.map f := by rw [h']; exact List.mem_map.mpr ⟨b, hb, rfl⟩
  obtain ⟨x, hx, hfx⟩ := List.mem_map.mp this
  exact ⟨x, hx, hfx⟩

theorem reconcile_none_iff (i : Nat) (c : String) (len nrow : Nat) (e : Bool) :
    reconcile i c len nrow e = none ↔ e = false ∧ len ≠ nrow ∧ ¬ (len = 1 ∧ 1 ≤ nrow) := by
  unfold reconcile
  by_cases h1 : (len = nrow || e) = true
  · simp only [h1, if_true]
    simp only [Bool.or_eq_true, decide_eq_true_eq] at h1
    constructor
    · intro h; cases h
    · rintro ⟨he, hl, _⟩
      rcases h1 with h1 | h1
      · exact absurd h1 hl
      · rw [he] at h1; cases h1
  · simp only [h1, Bool.false_eq_true, if_false]
    simp only [Bool.or_eq_true, decide_eq_true_eq, not_or] at h1
    by_cases h2 : len = 1 ∧ 1 ≤ nrow
    · rw [if_pos h2]
      constructor
      · intro h; cases h
      · rintro ⟨_, _, h⟩; exact absurd h2 h
    · rw [if_neg h2]
      simp only [true_iff]
      refine ⟨by simpa using h1.2, h1.1, h2⟩

/-! ### cbind -/

/-- 1. the result's names: all names of all frames in argument order, first-seen-unique. -/
theorem cbind_names_eq (frames : List Frame) (out : List OutCol) (h : cbind frames = some out) :
    out.map (·.1) = uniqueKeys (frames.flatMap (·.names)) ∧ (out.map (·.1)).Nodup := by
  have key : out.map (·.1) = uniqueKeys (frames.flatMap (·.names)) := by
    cases frames with
    | nil =>
      have : out = [] := by simpa [cbind] using h.symm
      subst this; rfl
    | cons self others =>
      rw [cbind_unfold] at h
      rw [mapM_key _ (fun (p : Cand) => p.1) (fun (o : OutCol) => o.1) ?_ _ _ h]
      · rw [firstsFrom_names, candsFrom_names]; rfl
      · rintro ⟨c, i, len⟩ b hb
        simp only [Option.map_eq_some_iff] at hb
        obtain ⟨s, _, rfl⟩ := hb
        rfl
  exact ⟨key, key ▸ uniqueKeys_nodup _⟩

/-- 2. every output column comes from the FIRST frame that has a column of that name, taken whole
    or as a single row broadcast. -/
theorem cbind_first (self : Frame) (others : List Frame) (out : List OutCol)
    (h : cbind (self :: others) = some out) (c : String) (cells : List Src) (hc : (c, cells) ∈ out) :
    ∃ i, ∃ hi : i < (self :: others).length,
      c ∈ ((self :: others)[i]).names ∧ (∀ i' (h' : i' < i), c ∉ ((self :: others)[i']).names) ∧
      Fitted i c ((self :: others)[i]).nrow self.nrow cells := by
  rw [cbind_unfold] at h
  obtain ⟨⟨c', i, len⟩, hp, hrec⟩ := mapM_mem _ _ _ h _ hc
  simp only [Option.map_eq_some_iff, Prod.mk.injEq] at hrec
  obtain ⟨s, hs, rfl, rfl⟩ := hrec
  rcases firstsFrom_mem _ [] _ hp with h' | ⟨_, h'⟩
  · cases h'
  · obtain ⟨j, hj, e1, e2, e3⟩ := candsFrom_find_some _ 0 _ _ h'
    simp only [Prod.mk.injEq, true_and, Nat.zero_add] at e1
    obtain ⟨rfl, rfl⟩ := e1
    exact ⟨i, hj, e2, e3, reconcile_fitted _ _ _ _ _ _ hs⟩

/-- 3. the receiver's own columns come first, in order, each whole. -/
theorem cbind_self_first (self : Frame) (others : List Frame) (out : List OutCol)
    (h : cbind (self :: others) = some out) (hnd : self.names.Nodup) :
    out.take self.names.length = self.names.map (fun c => (c, colCells 0 c self.nrow)) := by
  rw [cbind_unfold, candsFrom_cons, firstsFrom_append] at h
  have hown : firstsFrom [] (self.names.map (fun c => ((c, 0, self.nrow) : Cand))) =
      self.names.map (fun c => ((c, 0, self.nrow) : Cand)) := by
    rw [firstsFrom_of_nodup]
    · simp
    · simp only [List.nil_append, List.map_map]
      have : ((fun (x : Cand) => x.1) ∘ fun c => (c, 0, self.nrow)) = id := by funext c; rfl
      rw [this, List.map_id]; exact hnd
  rw [hown] at h
  obtain ⟨ext, hext⟩ := firstsFrom_prefix (candsFrom (0 + 1) others)
    (self.names.map (fun c => ((c, 0, self.nrow) : Cand)))
  rw [hext] at h
  have h' := (mapM_some_iff _ _ _).mp h
  apply map_some_inj
  rw [List.map_take, ← h', ← List.map_take]
  rw [List.take_left' (by simp)]
  rw [List.map_map, List.map_map]
  apply List.map_congr_left
  intro c _
  simp [reconcile]

/-- 4. the exact rejection condition. -/
theorem cbind_none_iff (self : Frame) (others : List Frame) :
    cbind (self :: others) = none ↔
      self.names ≠ [] ∧ ∃ c i, ∃ hi : i < (self :: others).length,
        c ∈ ((self :: others)[i]).names ∧ (∀ i' (h' : i' < i), c ∉ ((self :: others)[i']).names) ∧
        ((self :: others)[i]).nrow ≠ self.nrow ∧ ¬ (((self :: others)[i]).nrow = 1 ∧ 1 ≤ self.nrow) := by
  rw [cbind_unfold, mapM_none_iff]
  constructor
  · rintro ⟨⟨c, i, len⟩, hp, hrec⟩
    simp only [Option.map_eq_none_iff] at hrec
    rw [reconcile_none_iff] at hrec
    obtain ⟨he, h1, h2⟩ := hrec
    rcases firstsFrom_mem _ [] _ hp with h' | ⟨_, h'⟩
    · cases h'
    · obtain ⟨j, hj, e1, e2, e3⟩ := candsFrom_find_some _ 0 _ _ h'
      simp only [Prod.mk.injEq, true_and, Nat.zero_add] at e1
      obtain ⟨rfl, rfl⟩ := e1
      refine ⟨?_, c, i, hj, e2, e3, h1, h2⟩
      intro hnil; rw [hnil] at he; cases he
  · rintro ⟨hne, c, i, hi, e2, e3, h1, h2⟩
    have hf := candsFrom_find_first (self :: others) 0 c i hi e2 e3
    refine ⟨_, firstsFrom_complete _ _ _ hf, ?_⟩
    simp only [Option.map_eq_none_iff]
    rw [reconcile_none_iff]
    refine ⟨?_, h1, h2⟩
    cases hs : self.names with
    | nil => exact absurd hs hne
    | cons _ _ => rfl

/-- an empty receiver (no columns) accepts everything: every first-occurrence column is taken whole. -/
theorem cbind_empty_self (self : Frame) (others : List Frame) (hemp : self.names = []) :
    ∃ out, cbind (self :: others) = some out ∧
      ∀ c cells, (c, cells) ∈ out → ∃ i, ∃ hi : i < (self :: others).length,
        c ∈ ((self :: others)[i]).names ∧ (∀ i' (h' : i' < i), c ∉ ((self :: others)[i']).names) ∧
        cells = colCells i c ((self :: others)[i]).nrow := by
  cases hcb : cbind (self :: others) with
  | none => exact absurd hemp ((cbind_none_iff self others).mp hcb).1
  | some out =>
    refine ⟨out, rfl, ?_⟩
    intro c cells hc
    rw [cbind_unfold] at hcb
    obtain ⟨⟨c', i, len⟩, hp, hrec⟩ := mapM_mem _ _ _ hcb _ hc
    simp only [Option.map_eq_some_iff, Prod.mk.injEq] at hrec
    obtain ⟨s, hs, rfl, rfl⟩ := hrec
    rcases firstsFrom_mem _ [] _ hp with h' | ⟨_, h'⟩
    · cases h'
    · obtain ⟨j, hj, e1, e2, e3⟩ := candsFrom_find_some _ 0 _ _ h'
      simp only [Prod.mk.injEq, true_and, Nat.zero_add] at e1
      obtain ⟨rfl, rfl⟩ := e1
      refine ⟨i, hj, e2, e3, ?_⟩
      simp only [reconcile, hemp, List.isEmpty_nil, Bool.or_true, if_true, Option.some.injEq] at hs
      exact hs.symm

/-! ### rename -/

/-- the name requested for column `c`: the `to` of the pair whose `from` is `c`, else `c` itself. -/
def renameTo (toFrom : List (String × String)) (c : String) : String :=
  ((toFrom.find? (fun p => p.2 == c)).map (·.1)).getD c

theorem fromTo_of_nodup (toFrom acc : List (String × String))
    (h : (acc.map (·.1) ++ toFrom.map (·.2)).Nodup) :
    toFrom.foldl (fun acc p =>
      if acc.any (fun q => q.1 == p.2) then acc.map (fun q => if q.1 == p.2 then (p.2, p.1) else q)
      else acc ++ [(p.2, p.1)]) acc = acc ++ toFrom.map (fun p => (p.2, p.1)) := by
  induction toFrom generalizing acc with
  | nil => simp
  | cons p l ih =>
    simp only [List.foldl_cons]
    have hn : acc.any (fun q => q.1 == p.2) = false := by
      rw [List.any_eq_false]
      intro q hq hqe
      rw [List.nodup_append] at h
      exact h.2.2 q.1 (List.mem_map.mpr ⟨q, hq, rfl⟩) p.2 (by simp) (beq_iff_eq.mp hqe)
    simp only [hn, Bool.false_eq_true, if_false]
    rw [ih (acc ++ [(p.2, p.1)]) (by simpa using h)]
    simp

theorem rename_unfold (self : Frame) (toFrom : List (String × String)) (h : (toFrom.map (·.2)).Nodup) :
    rename self toFrom = dictOf (self.names.map (fun c => (renameTo toFrom c, colCells 0 c self.nrow))) := by
  unfold rename
  simp only
  rw [fromTo_of_nodup toFrom [] (by simpa using h)]
  congr 1
  apply List.map_congr_left
  intro c _
  simp only [List.nil_append, List.find?_map, renameTo, Option.map_map]
  congr 1

theorem renameTo_of_mem (toFrom : List (String × String)) (h : (toFrom.map (·.2)).Nodup)
    (p : String × String) (hp : p ∈ toFrom) : renameTo toFrom p.2 = p.1 := by
  induction toFrom with
  | nil => cases hp
  | cons x l ih =>
    simp only [List.map_cons, List.nodup_cons] at h
    simp only [renameTo, List.find?_cons]
    rcases List.mem_cons.mp hp with rfl | hp'
    · simp
    · have : (x.2 == p.2) = false := by
        cases hxe : x.2 == p.2
        · rfl
        · exact absurd (List.mem_map.mpr ⟨p, hp', (beq_iff_eq.mp hxe).symm⟩) h.1
      simp only [this]
      exact ih h.2 hp'

theorem renameTo_of_not_mem (toFrom : List (String × String)) (c : String) (h : c ∉ toFrom.map (·.2)) :
    renameTo toFrom c = c := by
  have : toFrom.find? (fun p => p.2 == c) = none := by
    rw [List.find?_eq_none]
    intro x hx hxe
    exact h (List.mem_map.mpr ⟨x, hx, beq_iff_eq.mp hxe⟩)
  simp [renameTo, this]

theorem renameTo_cases (toFrom : List (String × String)) (c : String) :
    (∃ p ∈ toFrom, p.2 = c ∧ renameTo toFrom c = p.1) ∨ (c ∉ toFrom.map (·.2) ∧ renameTo toFrom c = c) := by
  cases hf : toFrom.find? (fun p => p.2 == c) with
  | none =>
    right
    rw [List.find?_eq_none] at hf
    refine ⟨?_, by simp [renameTo, List.find?_eq_none.mpr hf]⟩
    intro hm
    obtain ⟨x, hx, hxe⟩ := List.mem_map.mp hm
    exact hf x hx (by simp [hxe])
  | some p =>
    left
    exact ⟨p, List.mem_of_find?_eq_some hf, by simpa using List.find?_some hf, by simp [renameTo, hf]⟩

/-- the requested names do not collide when the new names are distinct and a new name equals an
    existing column name only if that column is itself renamed away. -/
theorem renameTo_nodup (names : List String) (toFrom : List (String × String)) (hnd : names.Nodup)
    (hto : (toFrom.map (·.1)).Nodup)
    (hclash : ∀ p ∈ toFrom, p.2 ∈ names → p.1 ∈ names → p.1 ∈ toFrom.map (·.2)) :
    (names.map (renameTo toFrom)).Nodup := by
  have hfst : ∀ p1 ∈ toFrom, ∀ p2 ∈ toFrom, p1.1 = p2.1 → p1 = p2 := by
    clear hclash
    induction toFrom with
    | nil => intro p1 h1; cases h1
    | cons x l ih =>
      simp only [List.map_cons, List.nodup_cons] at hto
      intro p1 h1 p2 h2 e
      rcases List.mem_cons.mp h1 with rfl | h1' <;> rcases List.mem_cons.mp h2 with rfl | h2'
      · rfl
      · exact absurd (List.mem_map.mpr ⟨p2, h2', e.symm⟩) hto.1
      · exact absurd (List.mem_map.mpr ⟨p1, h1', e⟩) hto.1
      · exact ih hto.2 p1 h1' p2 h2' e
  unfold List.Nodup
  rw [List.pairwise_map]
  refine List.Pairwise.imp_of_mem ?_ hnd
  intro c1 c2 h1 h2 hne e
  apply hne
  rcases renameTo_cases toFrom c1 with ⟨p1, hp1, rfl, r1⟩ | ⟨n1, r1⟩ <;>
    rcases renameTo_cases toFrom c2 with ⟨p2, hp2, rfl, r2⟩ | ⟨n2, r2⟩
  · rw [r1, r2] at e
    rw [hfst p1 hp1 p2 hp2 e]
  · rw [r1, r2] at e
    exact absurd (hclash p1 hp1 h1 (e ▸ h2)) (e ▸ n2)
  · rw [r1, r2] at e
    exact absurd (hclash p2 hp2 h2 (e ▸ h1)) (e ▸ n1)
  · rw [r1, r2] at e; exact e

/-- 5. rename: same order, each column whole under the requested name. -/
theorem rename_spec (self : Frame) (toFrom : List (String × String))
    (hfrom : (toFrom.map (·.2)).Nodup) (hnames : (self.names.map (renameTo toFrom)).Nodup) :
    rename self toFrom = self.names.map (fun c => (renameTo toFrom c, colCells 0 c self.nrow)) := by
  rw [rename_unfold self toFrom hfrom, dictOf_of_nodup]
  rw [List.map_map]
  exact hnames

end DI.Bind

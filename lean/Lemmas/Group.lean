/-
  Lemmas/Group.lean — grouping (C04) and joins (C05).
-/
import Model.Group
import Lemmas.Frame
import Lemmas.DfSort

namespace DI

/-! ### np.split: the chunks concatenate back to the array -/

theorem splitAt_go_flatten (arr : List Nat) (prev : Nat) (bounds : List Nat)
    (hsorted : (prev :: bounds).Pairwise (· ≤ ·)) (hlast : (prev :: bounds).getLast? = some arr.length) :
    (splitAt.go arr prev bounds).flatten = arr.drop prev := by
  induction bounds generalizing prev with
  | nil =>
    simp at hlast
    simp [splitAt.go, hlast]
  | cons b bs ih =>
    have hpb : prev ≤ b := (List.pairwise_cons.mp hsorted).1 b (by simp)
    have hs' : (b :: bs).Pairwise (· ≤ ·) := (List.pairwise_cons.mp hsorted).2
    have hl' : (b :: bs).getLast? = some arr.length := by
      simpa [List.getLast?_cons_cons] using hlast
    simp only [splitAt.go, List.flatten_cons]
    rw [ih b hs' hl']
    have : arr.drop b = (arr.drop prev).drop (b - prev) := by
      rw [List.drop_drop]; congr 1; omega
    rw [this, List.take_append_drop]

/-- `np.split(arr, starts[1:])` loses and duplicates nothing, whatever the (increasing, in range)
    start positions are. -/
theorem splitAt_flatten (arr : List Nat) (starts : List Nat)
    (hsorted : starts.Pairwise (· ≤ ·)) (hrange : ∀ s ∈ starts, s ≤ arr.length) :
    (splitAt arr starts).flatten = arr := by
  unfold splitAt
  cases starts with
  | nil => simp
  | cons s rest =>
    simp only []
    have h := splitAt_go_flatten arr 0 (rest ++ [arr.length]) ?_ ?_
    · simpa using h
    · rw [List.pairwise_cons]
      refine ⟨fun _ _ => Nat.zero_le _, ?_⟩
      rw [List.pairwise_append]
      refine ⟨(List.pairwise_cons.mp hsorted).2, by simp, ?_⟩
      intro a ha b hb
      simp at hb; subst hb
      exact hrange a (by simp [ha])
    · have : (0 :: (rest ++ [arr.length])) = (0 :: rest) ++ [arr.length] := by simp
      rw [this, List.getLast?_append]; simp

theorem uniqueIdx_range (n : Nat) (cols : List (List Cell)) : ∀ j ∈ uniqueIdx n cols, j ≤ n := by
  intro j hj
  have := (mem_uniqueIdx.mp hj).1
  omega

/-- the groups of `aggregate` / `split` concatenate to the sorted row order: they are pairwise
    disjoint, cover every row exactly once and their sizes sum to `nrow`. -/
theorem groupsOf_flatten (n : Nat) (keys : List (ColKind × List Cell)) :
    (groupsOf n keys).flatten = groupSortIdx n keys := by
  unfold groupsOf
  simp only []
  apply splitAt_flatten
  · exact (uniqueIdx_sorted _ _).imp (fun h => Nat.le_of_lt h)
  · intro s hs
    have h1 := uniqueIdx_range _ _ s hs
    have h2 : (groupSortIdx n keys).length = n := by
      have := (dfSortIdx_perm n (keys.map (fun k => (k.1, false, k.2)))).length_eq
      simpa [groupSortIdx] using this
    omega

theorem groupsOf_partition (n : Nat) (keys : List (ColKind × List Cell)) :
    (groupsOf n keys).flatten.Perm (List.range n) := by
  rw [groupsOf_flatten]
  exact dfSortIdx_perm n _

theorem groupsOf_sizes (n : Nat) (keys : List (ColKind × List Cell)) :
    ((groupsOf n keys).map List.length).sum = n := by
  have := (groupsOf_partition n keys).length_eq
  simpa [List.length_flatten] using this

/-! ### joins -/

theorem joinSrc_length (n : Nat) (lk : List (List Cell)) (m : Nat) (rk : List (List Cell)) (d : Bool) :
    (joinSrc n lk m rk d).length = n := by
  simp [joinSrc, rowsOf]

/-- left_join returns every left row exactly once, in order. -/
theorem leftJoinPairs_left (n : Nat) (lk : List (List Cell)) (m : Nat) (rk : List (List Cell)) :
    (leftJoinPairs n lk m rk).map (·.1) = (List.range n).map some := by
  unfold leftJoinPairs
  have hl := joinSrc_length n lk m rk true
  generalize joinSrc n lk m rk = src at hl
  rw [List.map_map]
  have : ∀ (k : Nat) (l : List (Option Nat)),
      (l.zipIdx k).map ((fun p : Option Nat × Option Nat => p.1) ∘ fun (x : Option Nat × Nat) => (some x.2, x.1))
        = (List.range' k l.length).map some := by
    intro k l
    induction l generalizing k with
    | nil => simp
    | cons a l ih => simp [List.zipIdx_cons, List.range'_succ, ih (k + 1)]
  have h2 := this 0 src
  rw [hl, ← List.range_eq_range'] at h2
  exact h2

/-- inner_join is exactly the matched subset of left_join, same order. -/
theorem innerJoinPairs_eq (n : Nat) (lk : List (List Cell)) (m : Nat) (rk : List (List Cell)) :
    innerJoinPairs n lk m rk = (leftJoinPairs n lk m rk).filter (fun p => p.2.isSome) := rfl

/-- semi_join and anti_join partition the left rows. -/
theorem semi_anti_partition (n : Nat) (lk : List (List Cell)) (m : Nat) (rk : List (List Cell)) :
    (semiJoinIdx n lk m rk ++ antiJoinIdx n lk m rk).Perm (List.range n) := by
  unfold semiJoinIdx antiJoinIdx
  have hl := joinSrc_length n lk m rk true
  generalize joinSrc n lk m rk = src at hl
  rw [← List.map_append]
  have h1 : (src.zipIdx.filter (fun p => p.1.isSome) ++ src.zipIdx.filter (fun p => p.1.isNone)).Perm src.zipIdx := by
    have := List.filter_append_perm (fun p : Option Nat × Nat => p.1.isSome) src.zipIdx
    refine List.Perm.trans ?_ this
    apply List.Perm.append_left
    apply List.Perm.of_eq
    apply List.filter_congr
    intro p _; cases p.1 <;> simp
  have h2 := h1.map (·.2)
  refine h2.trans ?_
  rw [List.zipIdx_map_snd, hl]
  simp [List.range_eq_range']

theorem zipIdx_snd_sorted {α : Type} (l : List α) :
    l.zipIdx.Pairwise (fun a b => a.2 < b.2) := by
  have h : (l.zipIdx.map (fun p : α × Nat => p.2)).Pairwise (· < ·) := by
    rw [List.zipIdx_map_snd]; exact List.pairwise_lt_range'
  exact List.pairwise_map.mp h

theorem semiJoinIdx_sorted (n : Nat) (lk : List (List Cell)) (m : Nat) (rk : List (List Cell)) :
    (semiJoinIdx n lk m rk).Pairwise (· < ·) := by
  unfold semiJoinIdx
  rw [List.pairwise_map]
  apply List.Pairwise.filter
  exact zipIdx_snd_sorted _

theorem antiJoinIdx_sorted (n : Nat) (lk : List (List Cell)) (m : Nat) (rk : List (List Cell)) :
    (antiJoinIdx n lk m rk).Pairwise (· < ·) := by
  unfold antiJoinIdx
  rw [List.pairwise_map]
  apply List.Pairwise.filter
  exact zipIdx_snd_sorted _

end DI

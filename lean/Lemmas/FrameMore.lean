/-
  Lemmas/FrameMore.lean — more of C02 (row subsetting): sample, the three interchangeable
  forms of `filter`, `drop_na` over several columns, `unique` as first-occurrence
  representatives, and the head / tail partition.
-/
import Model.Frame
import Lemmas.Sort
import Lemmas.Frame

namespace DI.FrameMore

/-! ### sample: `slice(np.sort(chosen))` -/

theorem sampleIdx_perm (chosen : List Nat) : (sampleIdx chosen).Perm chosen := by
  unfold sampleIdx; exact List.mergeSort_perm _ _

theorem sampleIdx_length (chosen : List Nat) : (sampleIdx chosen).length = chosen.length :=
  (sampleIdx_perm chosen).length_eq

theorem sampleIdx_mem {chosen : List Nat} {i : Nat} : i ∈ sampleIdx chosen ↔ i ∈ chosen :=
  (sampleIdx_perm chosen).mem_iff

theorem sampleIdx_sorted (chosen : List Nat) : (sampleIdx chosen).Pairwise (· ≤ ·) := by
  unfold sampleIdx
  have := List.pairwise_mergeSort (le := fun a b : Nat => decide (a ≤ b))
    (fun a b c h1 h2 => by simp at h1 h2 ⊢; omega) (fun a b => by simp; omega) chosen
  exact this.imp (by intro a b h; simpa using h)

theorem sampleIdx_nodup {chosen : List Nat} (h : chosen.Nodup) : (sampleIdx chosen).Nodup :=
  ((sampleIdx_perm chosen).nodup_iff).mpr h

/-- positions drawn without replacement come out strictly increasing: the sampled rows keep
    their original relative order. -/
theorem sampleIdx_increasing {chosen : List Nat} (h : chosen.Nodup) :
    (sampleIdx chosen).Pairwise (· < ·) := by
  have hs := sampleIdx_sorted chosen
  have hn := sampleIdx_nodup h
  unfold List.Nodup at hn
  have := hs.and hn
  exact this.imp (by intro a b ⟨h1, h2⟩; omega)

theorem sampleIdx_inrange {chosen : List Nat} {n : Nat} (h : ∀ i ∈ chosen, i < n) :
    ∀ i ∈ sampleIdx chosen, i < n := fun i hi => h i (sampleIdx_mem.mp hi)

/-- the sorted list is determined: any strictly increasing arrangement of the chosen positions
    is the one `sample` produces. -/
theorem sampleIdx_unique {chosen l : List Nat} (hn : chosen.Nodup) (hp : l.Perm chosen)
    (hl : l.Pairwise (· < ·)) : sampleIdx chosen = l := by
  apply List.Perm.eq_of_pairwise (le := fun a b => a < b) _ (sampleIdx_increasing hn) hl
    ((sampleIdx_perm chosen).trans hp.symm)
  intro a b _ _ h1 h2; omega

/-! ### filter: mask form, callable form, column = value form -/

theorem nonzero_map {α : Type} [Inhabited α] (rows : List α) (p : α → Bool) :
    nonzero (rows.map p) = (List.range rows.length).filter (fun i => p rows[i]!) := by
  unfold nonzero
  rw [List.length_map]
  apply List.filter_congr
  intro i hi
  have hi' : i < rows.length := by simpa using hi
  simp [hi']

/-- mask form = callable form: filtering by the Boolean vector `[p(row) for row in rows]` keeps
    the positions of the rows satisfying `p`. -/
theorem filterIdx_map {α : Type} [Inhabited α] (rows : List α) (p : α → Bool) :
    filterIdx (rows.map p) = (List.range rows.length).filter (fun i => p rows[i]!) :=
  nonzero_map rows p

/-- what `column == value` means cell by cell. -/
def cellEq (naEq : Bool) (x v : Cell) : Bool :=
  match v with
  | some b => decide (x = some b)
  | none => naEq && isNa x

theorem eqMask_eq_map (naEq : Bool) (col : List Cell) (v : Cell) :
    eqMask naEq col v = col.map (fun x => cellEq naEq x v) := by
  unfold eqMask
  apply List.map_congr_left
  intro x _
  cases x <;> cases v <;> simp [cellEq, isNa] <;> rfl

theorem eqMask_length (naEq : Bool) (col : List Cell) (v : Cell) :
    (eqMask naEq col v).length = col.length := by simp [eqMask]

theorem eqMask_get (naEq : Bool) (col : List Cell) (v : Cell) (i : Nat) (hi : i < col.length) :
    (eqMask naEq col v)[i]! = cellEq naEq col[i]! v := by
  rw [eqMask_eq_map]; simp [hi]

/-- against a non-missing value the mask is plain equality of cells. -/
theorem eqMask_some_get (naEq : Bool) (col : List Cell) (b : Key) (i : Nat) (hi : i < col.length) :
    (eqMask naEq col (some b))[i]! = decide (col[i]! = some b) := by
  rw [eqMask_get naEq col _ i hi]; rfl

/-- column = value form = mask form = callable form with the predicate `cell == value`. -/
theorem filterIdx_eqMask (naEq : Bool) (col : List Cell) (v : Cell) :
    filterIdx (eqMask naEq col v) = (List.range col.length).filter (fun i => cellEq naEq col[i]! v) := by
  rw [eqMask_eq_map]; exact filterIdx_map col _

theorem mem_filterIdx_eqMask_some {naEq : Bool} {col : List Cell} {b : Key} {i : Nat} :
    i ∈ filterIdx (eqMask naEq col (some b)) ↔ i < col.length ∧ col[i]! = some b := by
  rw [filterIdx_eqMask]; simp [cellEq]

theorem andMasks_length (n : Nat) (masks : List (List Bool)) : (andMasks n masks).length = n := by
  simp [andMasks]

theorem andMasks_get (n : Nat) (masks : List (List Bool)) (i : Nat) (hi : i < n) :
    (andMasks n masks)[i]! = masks.all (fun m => m[i]!) := by
  simp [andMasks, hi]

theorem filterIdx_andMasks (n : Nat) (masks : List (List Bool)) :
    filterIdx (andMasks n masks) = (List.range n).filter (fun i => masks.all (fun m => m[i]!)) := by
  unfold filterIdx nonzero
  rw [andMasks_length]
  apply List.filter_congr
  intro i hi
  exact andMasks_get n masks i (by simpa using hi)

/-- several column = value pairs: the rows kept are the intersection of the rows kept by each
    pair alone. -/
theorem mem_filterIdx_andMasks {n : Nat} {masks : List (List Bool)} (hlen : ∀ m ∈ masks, m.length = n)
    {i : Nat} : i ∈ filterIdx (andMasks n masks) ↔ i < n ∧ ∀ m ∈ masks, i ∈ filterIdx m := by
  rw [filterIdx_andMasks]
  simp only [List.mem_filter, List.mem_range, List.all_eq_true, mem_filterIdx]
  constructor
  · rintro ⟨h1, h2⟩
    exact ⟨h1, fun m hm => ⟨by rw [hlen m hm]; exact h1, h2 m hm⟩⟩
  · rintro ⟨h1, h2⟩
    exact ⟨h1, fun m hm => (h2 m hm).2⟩

theorem filterIdx_andMasks_cons (n : Nat) (m : List Bool) (ms : List (List Bool)) (hm : m.length = n) :
    filterIdx (andMasks n (m :: ms)) = (filterIdx m).filter (fun i => (filterIdx (andMasks n ms)).contains i) := by
  rw [filterIdx_andMasks, filterIdx_andMasks]
  unfold filterIdx nonzero
  rw [hm, List.filter_filter]
  apply List.filter_congr
  intro i hi
  have hi' : i < n := by simpa using hi
  rw [Bool.eq_iff_iff]
  simp [hi']
  exact and_comm

theorem filterIdx_andMasks_sorted (n : Nat) (masks : List (List Bool)) :
    (filterIdx (andMasks n masks)).Pairwise (· < ·) := nonzero_sorted _

/-! ### drop_na over several columns -/

theorem dropNaIdx_eq_filter (n : Nat) (cols : List (List Cell)) :
    dropNaIdx n cols = (List.range n).filter (fun i => cols.all (fun c => !isNa c[i]!)) := by
  unfold dropNaIdx filterOutIdx deleteIdx
  simp only [List.length_map, List.length_range]
  apply List.filter_congr
  intro i hi
  have hi' : i < n := by simpa using hi
  have hmem : i ∈ nonzero ((List.range n).map (fun i => cols.any (fun c => isNa c[i]!))) ↔
      cols.any (fun c => isNa c[i]!) = true := by
    rw [mem_nonzero]; simp [hi']
  rw [Bool.eq_iff_iff]
  simp only [Bool.not_eq_true', List.contains_eq_mem, decide_eq_false_iff_not, hmem]
  simp

/-- the rows dropped are exactly those with a missing value in ANY named column. -/
theorem not_mem_dropNaIdx {n : Nat} {cols : List (List Cell)} {i : Nat} (hi : i < n) :
    i ∉ dropNaIdx n cols ↔ ∃ c ∈ cols, isNa c[i]! = true := by
  rw [mem_dropNaIdx]
  constructor
  · intro h
    apply Classical.byContradiction
    intro hne
    apply h
    refine ⟨hi, fun c hc => ?_⟩
    cases hna : isNa c[i]!
    · rfl
    · exact absurd ⟨c, hc, hna⟩ hne
  · rintro ⟨c, hc, hna⟩ ⟨_, h2⟩
    rw [h2 c hc] at hna; cases hna

/-- `drop_na()` without column names: the loop over `colnames` does not run, nothing is
    dropped.  (The Python code does NOT default to all columns.) -/
theorem dropNaIdx_nil (n : Nat) : dropNaIdx n [] = List.range n := by
  rw [dropNaIdx_eq_filter]; simp

/-- naming the columns one after the other = naming them together. -/
theorem dropNaIdx_append (n : Nat) (cs ds : List (List Cell)) :
    dropNaIdx n (cs ++ ds) = (dropNaIdx n cs).filter (fun i => (dropNaIdx n ds).contains i) := by
  simp only [dropNaIdx_eq_filter, List.filter_filter]
  apply List.filter_congr
  intro i hi
  have hi' : i < n := by simpa using hi
  rw [Bool.eq_iff_iff]
  simp [hi']
  exact and_comm

/-! ### unique: first occurrences represent every row -/

theorem contains_dec_iff {α : Type} [DecidableEq α] (l : List α) (a : α) :
    l.contains a = true ↔ a ∈ l := by simp

theorem contains_dec_false {α : Type} [DecidableEq α] (l : List α) (a : α) (h : a ∉ l) :
    l.contains a = false := by simpa using h

/-- the values picked by the first-seen scan are `eraseDups` of the not-yet-seen values
    (for any lawful `==` used by `eraseDups`). -/
theorem uniqueScan_vals {α : Type} [DecidableEq α] [Inhabited α] [inst : BEq α] [LawfulBEq α]
    (rs : List α) :
    ∀ (pre seen : List α),
      (uniqueScan rs pre.length seen).map (fun j => (pre ++ rs)[j]!)
        = @List.eraseDups α inst (rs.filter (fun r => decide (r ∉ seen))) := by
  induction rs with
  | nil => intro pre seen; simp [uniqueScan]
  | cons r rs ih =>
    intro pre seen
    have e : pre ++ r :: rs = (pre ++ [r]) ++ rs := by simp
    have ih' := ih (pre ++ [r])
    simp only [List.length_append, List.length_singleton] at ih'
    unfold uniqueScan
    by_cases hr : r ∈ seen
    · have hc := (contains_dec_iff seen r).mpr hr
      simp only [hc, if_true]
      rw [e, ih' seen]
      simp [hr]
    · have hc := contains_dec_false seen r hr
      simp only [hc, Bool.false_eq_true, if_false, List.map_cons]
      rw [List.filter_cons]
      simp only [hr, not_false_eq_true, decide_true, if_true]
      rw [List.eraseDups_cons]
      congr 1
      · simp
      · rw [e, ih' (r :: seen), List.filter_filter]
        congr 1
        apply List.filter_congr
        intro x _
        by_cases h1 : x = r <;> by_cases h2 : x ∈ seen <;> simp [h1, h2]

/-- the kept rows, read off the frame, are the distinct key tuples in order of first
    appearance. -/
theorem gather_uniqueIdx (n : Nat) (cols : List (List Cell)) :
    gather (rowsOf n cols) (uniqueIdx n cols) = (rowsOf n cols).eraseDups := by
  have := uniqueScan_vals (rowsOf n cols) [] []
  have e : ∀ l : List (List Cell), l.filter (fun _ => true) = l := fun l =>
    List.filter_eq_self.mpr (by simp)
  simp only [List.not_mem_nil, not_false_eq_true, decide_true, e, List.nil_append,
    List.length_nil] at this
  exact this

theorem uniqueIdx_length (n : Nat) (cols : List (List Cell)) :
    (uniqueIdx n cols).length = (rowsOf n cols).eraseDups.length := by
  rw [← gather_uniqueIdx, gather_length]

/-- every row has a representative among the kept rows: a kept row with the same key tuple,
    at or before it; and there is only one kept row with that key tuple. -/
theorem uniqueIdx_represents (n : Nat) (cols : List (List Cell)) (j : Nat) (hj : j < n) :
    ∃ k, (k ∈ uniqueIdx n cols ∧ k ≤ j ∧ (rowsOf n cols)[k]! = (rowsOf n cols)[j]!) ∧
      ∀ k', k' ∈ uniqueIdx n cols → (rowsOf n cols)[k']! = (rowsOf n cols)[j]! → k' = k := by
  have hex : ∃ k, k ∈ uniqueIdx n cols ∧ k ≤ j ∧ (rowsOf n cols)[k]! = (rowsOf n cols)[j]! := by
    induction j using Nat.strongRecOn with
    | _ j ih =>
      by_cases hmem : j ∈ uniqueIdx n cols
      · exact ⟨j, hmem, Nat.le_refl _, rfl⟩
      · rw [mem_uniqueIdx] at hmem
        have : ∃ j', j' < j ∧ (rowsOf n cols)[j']! = (rowsOf n cols)[j]! := by
          apply Classical.byContradiction
          intro hne
          apply hmem
          refine ⟨hj, fun j' hj' heq => hne ⟨j', hj', heq⟩⟩
        obtain ⟨j', hj', heq⟩ := this
        obtain ⟨k, hk1, hk2, hk3⟩ := ih j' hj' (by omega)
        exact ⟨k, hk1, by omega, hk3.trans heq⟩
  obtain ⟨k, hk1, hk2, hk3⟩ := hex
  refine ⟨k, ⟨hk1, hk2, hk3⟩, ?_⟩
  intro k' hk' heq'
  have h1 := (mem_uniqueIdx.mp hk1).2
  have h2 := (mem_uniqueIdx.mp hk').2
  rcases Nat.lt_trichotomy k' k with h | h | h
  · exact absurd (heq'.trans hk3.symm) (h1 k' h)
  · exact h
  · exact absurd (hk3.trans heq'.symm) (h2 k h)

/-! ### head / tail -/

/-- the first `n` rows followed by the last `nrow - n` rows are all rows, in order. -/
theorem head_tail_append (nrow n : Nat) (h : n ≤ nrow) :
    headIdx nrow n ++ tailIdx nrow (nrow - n) = List.range nrow := by
  unfold headIdx tailIdx
  have e1 : min nrow n = n := by omega
  have e2 : min nrow (nrow - n) = nrow - n := by omega
  have e3 : nrow - (nrow - n) = n := by omega
  rw [e1, e2, e3]
  have : nrow = n + (nrow - n) := by omega
  conv => rhs; rw [this, List.range_add]

end DI.FrameMore

/-
  Lemmas/PyEvalSort.lean — proofs about the evaluator of `Model/PyEvalSort.lean`.

  Part 1  `np.lexsort` (one stable pass per key, first key first) IS the model's `lexsortIdx` of the reversed key list: ONE
          stable sort by the lexicographic order in which the LAST key is primary (`lexsortPasses_eq`).
  Part 2  unfolding the evaluator; the loop rule; `for colname, column in self.items(): yield colname, g(column)`.
  Part 3  the body of `DataFrame.sort` (`run_sort`, `run_sort_no_keys`); the term `sort_key` returns.
  Part 4  the list primitives of the grouping bodies (`select`, `dict.fromkeys`, `np.split`, slices, integer columns).
  Part 5  `split` and the grouping part of `aggregate`.
-/
import Model.PyEvalSort
import Lemmas.VectorOrd
import Lemmas.DfSort
import Lemmas.DfSortMore
import Lemmas.PyEvalFrame
import Lemmas.Group
import Lemmas.GroupRuns
import Lemmas.GroupOrder
import Lemmas.PyEvalFrameJoin
import Proofs.TieC03
import Proofs.TieC04

namespace DI.PyEvalS

open DI DI.Py
open DI.PyEval (Frame nrow ncol names colOf? colOf normIdx allSome npTake Flow Rect wholeRows)
open DI.PyEvalX (uniqueFrame reconcileCol takeRows keyCols)

/-! ## Part 1: `np.lexsort` -/

theorem cellLe_pre : PreOrd (leNaLast Key.le) := cellLinOrd.pre

/-- the invariant of the passes: after the keys `done` (most significant first) the index vector is a permutation of the
    row numbers, strictly ordered by (key row, row number). -/
def PassInv (n : Nat) (done : List (List Cell)) (perm : List Nat) : Prop :=
  perm.Perm (List.range n) ∧ perm.Pairwise (fun i j => ilt leLex (rowsOf n done) i j = true)

theorem passInv_init (n : Nat) : PassInv n [] (List.range n) := by
  refine ⟨List.Perm.refl _, ?_⟩
  refine List.Pairwise.imp_of_mem ?_ List.pairwise_lt_range
  intro i j hi hj hij
  have hi' : i < n := List.mem_range.mp hi
  have hj' : j < n := List.mem_range.mp hj
  simp [ilt, slt, rowsOf_get n [] i hi', rowsOf_get n [] j hj', leLex, hij]

theorem leLex_cons (a b : Cell) (as bs : List Cell) :
    leLex (a :: as) (b :: bs) = (if cellLt a b then true else if cellLt b a then false else leLex as bs) := by
  simp [leLex]

/-- one more pass: the new key becomes the most significant one. -/
theorem stablePass_inv (n : Nat) (key : List Cell) (done : List (List Cell)) (perm : List Nat)
    (h : PassInv n done perm) : PassInv n (key :: done) (stablePass key perm) := by
  obtain ⟨hp, hs⟩ := h
  have hlen : perm.length = n := by simpa using hp.length_eq
  have hxl : (gather key perm).length = perm.length := by simp [gather]
  have hA : (argsort (leNaLast Key.le) (gather key perm)).Perm (List.range perm.length) := by
    have := argsort_perm (leNaLast Key.le) (gather key perm)
    rwa [hxl] at this
  refine ⟨(DI.PyEval.gather_perm perm _ hA).trans hp, ?_⟩
  unfold stablePass
  unfold gather
  rw [List.pairwise_map]
  refine List.Pairwise.imp_of_mem ?_ (argsort_pairwise_ilt cellLe_pre (perm.map (fun i => key[i]!)))
  intro p q hpm hqm hpq
  have hp' : p < perm.length := by simpa using hA.mem_iff.mp hpm
  have hq' : q < perm.length := by simpa using hA.mem_iff.mp hqm
  have hi : perm[p]! < n := by
    have : perm[p]! ∈ perm := by simp [hp']
    simpa using hp.mem_iff.mp this
  have hj : perm[q]! < n := by
    have : perm[q]! ∈ perm := by simp [hq']
    simpa using hp.mem_iff.mp this
  have vp : (perm.map (fun i => key[i]!))[p]! = key[perm[p]!]! := map_get! _ perm p hp'
  have vq : (perm.map (fun i => key[i]!))[q]! = key[perm[q]!]! := map_get! _ perm q hq'
  unfold ilt slt at hpq ⊢
  simp only [vp, vq] at hpq
  simp only [rowsOf_get n (key :: done) _ hi, rowsOf_get n (key :: done) _ hj, List.map_cons, leLex_cons]
  generalize key[perm[p]!]! = a at hpq ⊢
  generalize key[perm[q]!]! = b at hpq ⊢
  have eab : cellLt a b = (leNaLast Key.le a b && !leNaLast Key.le b a) := cellLt_eq a b
  have eba : cellLt b a = (leNaLast Key.le b a && !leNaLast Key.le a b) := cellLt_eq b a
  rw [eab, eba]
  simp only [Bool.and_eq_true, Bool.or_eq_true, Bool.not_eq_true', decide_eq_true_eq] at hpq
  obtain ⟨hab, hor⟩ := hpq
  cases hba : leNaLast Key.le b a
  · simp [hab]
  · have hlt : p < q := by
      rcases hor with h | h
      · rw [hba] at h; cases h
      · exact h
    have := (List.pairwise_iff_getElem.mp hs) p q hp' hq' hlt
    unfold ilt slt at this
    have ep : perm[p]! = perm[p] := by simp [hp']
    have eq : perm[q]! = perm[q] := by simp [hq']
    rw [ep, eq]
    simp only [rowsOf_get n done _ (ep ▸ hi), rowsOf_get n done _ (eq ▸ hj)] at this
    simpa [hab] using this

theorem passes_inv (n : Nat) (keys : List (List Cell)) : ∀ (done : List (List Cell)) (perm : List Nat),
    PassInv n done perm → PassInv n (keys.reverse ++ done) (keys.foldl (fun perm key => stablePass key perm) perm) := by
  induction keys with
  | nil => intro done perm h; simpa using h
  | cons k t ih =>
    intro done perm h
    have := ih (k :: done) (stablePass k perm) (stablePass_inv n k done perm h)
    simpa using this

/-- **`np.lexsort` as passes = ONE stable lexicographic sort with the LAST key primary**: the model's `lexsortIdx` of
    the reversed key list (any number of keys, any lengths, any missing values). -/
theorem lexsortPasses_eq (n : Nat) (keys : List (List Cell)) :
    lexsortPasses n keys = lexsortIdx n keys.reverse := by
  obtain ⟨hp, hs⟩ := passes_inv n keys [] (List.range n) (passInv_init n)
  simp only [List.append_nil] at hs
  unfold lexsortPasses lexsortIdx
  refine eq_argsort_of_pairwise_ilt leLex_pre (rowsOf n keys.reverse) _ ?_ hs
  rw [rowsOf_length]; exact hp

/-! ## Part 2: unfolding the evaluator -/

theorem get?_cons_self (x : String) (v : SVal) (e : Env) : Env.get? ((x, v) :: e) x = some v := by
  simp [Env.get?]

theorem get?_cons_ne {x y : String} (v : SVal) (e : Env) (h : x ≠ y) : Env.get? ((x, v) :: e) y = Env.get? e y := by
  have : (x == y) = false := by simpa using h
  simp [Env.get?, this]

/-- `e` agrees with `e0` on every name outside the loop variables `vars`. -/
def Stable (vars : List String) (e0 e : Env) : Prop := ∀ x, x ∉ vars → Env.get? e x = Env.get? e0 x

theorem Stable.refl (vars : List String) (e : Env) : Stable vars e e := fun _ _ => rfl

theorem Stable.push {vars : List String} {e0 e : Env} (h : Stable vars e0 e) {x : String} (hx : x ∈ vars) (v : SVal) :
    Stable vars e0 ((x, v) :: e) := by
  intro y hy
  have : x ≠ y := fun hxy => hy (hxy ▸ hx)
  rw [get?_cons_ne v e this]
  exact h y hy

/-- a name that is not one of the constants / literals of `lookupSym`. -/
def PlainName (x : String) : Prop :=
  x ≠ "True" ∧ x ≠ "False" ∧ x ≠ "None" ∧ x ≠ "'_index_'" ∧ x ≠ "'_group_'" ∧ x ≠ "'min'"

instance (x : String) : Decidable (PlainName x) := by unfold PlainName; infer_instance

theorem evalS_sym (kinds : String → ColKind) (st : Store) (env : Env) (x : String) (h : PlainName x) :
    evalS kinds st env (.sym x) = Env.get? env x := by
  obtain ⟨h1, h2, h3, h4, h5, h6⟩ := h
  unfold evalS lookupSym
  split <;> simp_all

theorem evalArgsS_nil (kinds : String → ColKind) (st : Store) (env : Env) : evalArgsS kinds st env [] = some [] := rfl

theorem evalArgsS_cons {kinds : String → ColKind} {st : Store} {env : Env} {t : Term} {ts : List Term} {v : SVal}
    {vs : List SVal} (h : evalS kinds st env t = some v) (hs : evalArgsS kinds st env ts = some vs) :
    evalArgsS kinds st env (t :: ts) = some (v :: vs) := by
  rw [evalArgsS, h, hs]

theorem evalArgsS_head_none {kinds : String → ColKind} {st : Store} {env : Env} {t : Term} {ts : List Term}
    (h : evalS kinds st env t = none) : evalArgsS kinds st env (t :: ts) = none := by
  rw [evalArgsS, h]

theorem evalArgsS_tail_none {kinds : String → ColKind} {st : Store} {env : Env} {t : Term} {ts : List Term}
    (h : evalArgsS kinds st env ts = none) : evalArgsS kinds st env (t :: ts) = none := by
  rw [evalArgsS, h]
  split <;> simp_all

theorem evalArgsS1 {kinds : String → ColKind} {st : Store} {env : Env} {a : Term} {va : SVal}
    (ha : evalS kinds st env a = some va) : evalArgsS kinds st env [a] = some [va] :=
  evalArgsS_cons ha rfl

theorem evalArgsS2 {kinds : String → ColKind} {st : Store} {env : Env} {a b : Term} {va vb : SVal}
    (ha : evalS kinds st env a = some va) (hb : evalS kinds st env b = some vb) :
    evalArgsS kinds st env [a, b] = some [va, vb] := evalArgsS_cons ha (evalArgsS1 hb)

theorem evalArgsS3 {kinds : String → ColKind} {st : Store} {env : Env} {a b c : Term} {va vb vc : SVal}
    (ha : evalS kinds st env a = some va) (hb : evalS kinds st env b = some vb) (hc : evalS kinds st env c = some vc) :
    evalArgsS kinds st env [a, b, c] = some [va, vb, vc] := evalArgsS_cons ha (evalArgsS2 hb hc)

/-- an application that is not an object of the store: special form or primitive. -/
theorem evalS_app (kinds : String → ColKind) (st : Store) (env : Env) (f : String) (args : List Term)
    (hst : st.find (.app f args) = none) (hf : specialNames.contains f = false) :
    evalS kinds st env (.app f args) =
      (match evalArgsS kinds st env args with | none => none | some vs => prim kinds f vs) := by
  rw [evalS]
  · simp only [hst, hf, Bool.false_eq_true, if_false]; rfl
  · intro _ _ _ h _; subst h; revert hf; decide
  · intro _ h _; subst h; revert hf; decide
  · intro h _; subst h; revert hf; decide

/-- a call of a primitive: the arguments are evaluated, left to right, and handed to `prim`. -/
theorem evalS_prim {kinds : String → ColKind} {st : Store} {env : Env} {f : String} {args : List Term} {vs : List SVal}
    (hst : st.find (.app f args) = none) (hf : specialNames.contains f = false)
    (h : evalArgsS kinds st env args = some vs) : evalS kinds st env (.app f args) = prim kinds f vs := by
  rw [evalS_app kinds st env f args hst hf, h]

/-- a failing argument (a Python exception) fails the call. -/
theorem evalS_args_none {kinds : String → ColKind} {st : Store} {env : Env} {f : String} {args : List Term}
    (hst : st.find (.app f args) = none) (hf : specialNames.contains f = false)
    (h : evalArgsS kinds st env args = none) : evalS kinds st env (.app f args) = none := by
  rw [evalS_app kinds st env f args hst hf, h]

/-- an object of the store. -/
theorem evalS_stored {kinds : String → ColKind} {st : Store} {env : Env} {f : String} {args : List Term} {v : SVal}
    (hst : st.find (.app f args) = some v) : evalS kinds st env (.app f args) = some v := by
  unfold evalS
  split <;> simp_all

theorem find_nil (t : Term) : Store.find [] t = none := rfl

/-- `tuple(elem for pat in src)`. -/
theorem evalS_tuple_gen (kinds : String → ColKind) (st : Store) (env : Env) (elem pat src : Term)
    (hst : st.find (.app "tuple()" [.app "GeneratorExp" [elem, .app "in" [pat, src, .app "if" []]]]) = none) :
    evalS kinds st env (.app "tuple()" [.app "GeneratorExp" [elem, .app "in" [pat, src, .app "if" []]]]) =
      (match evalS kinds st env src with
       | none => none
       | some s => match itemsOf s with
         | none => none
         | some xs =>
           (allSome (xs.map (fun x => match bindPat env pat x with
             | none => none
             | some env' => match evalS kinds st env' elem with
               | some (.col c) => some c
               | _ => none))).map SVal.cols) := by
  rw [evalS]
  simp only [hst]
  rfl

/-- the local function `sort_key`. -/
theorem evalS_local_def (kinds : String → ColKind) (st : Store) (env : Env) (rest : List Term)
    (hst : st.find (.app "local-def" [.app "def" (.sym "sort_key" :: rest)]) = none) :
    evalS kinds st env (.app "local-def" [.app "def" (.sym "sort_key" :: rest)]) =
      (match env.get? "self" with
       | some (.frame self) => some (.sortKeyFn self)
       | _ => none) := by
  rw [evalS]
  simp only [hst]
  rfl

theorem evalS_group_colnames (kinds : String → ColKind) (st : Store) (env : Env)
    (hst : st.find (.app "._group_colnames" [.sym "self"]) = none) :
    evalS kinds st env (.app "._group_colnames" [.sym "self"]) = env.get? "self._group_colnames" := by
  rw [evalS]
  simp only [hst]
  rfl

/-! ### statements -/

theorem execStmtS_yield {kinds : String → ColKind} {st : Store} {env : Env} {out : Frame} {n c : Term} {vn : String}
    {vc : List Cell} (hn : evalS kinds st env n = some (.str vn)) (hc : evalS kinds st env c = some (.col vc)) :
    execStmtS kinds st env out (.app "yield" [.app "tuple" [n, c]]) = some (.next, env, out ++ [(vn, vc)]) := by
  rw [execStmtS, hn, hc]

theorem execStmtS_yield_none {kinds : String → ColKind} {st : Store} {env : Env} {out : Frame} {n c : Term}
    (hc : evalS kinds st env c = none) :
    execStmtS kinds st env out (.app "yield" [.app "tuple" [n, c]]) = none := by
  rw [execStmtS, hc]
  split <;> simp_all

theorem execBlockS_nil (kinds : String → ColKind) (st : Store) (env : Env) (out : Frame) :
    execBlockS kinds st env out [] = some (.next, env, out) := rfl

theorem execBlockS_cons_next {kinds : String → ColKind} {st : Store} {env env' : Env} {out out' : Frame} {s : Term}
    {ss : List Term} (h : execStmtS kinds st env out s = some (.next, env', out')) :
    execBlockS kinds st env out (s :: ss) = execBlockS kinds st env' out' ss := by
  rw [execBlockS, h]

theorem execBlockS_cons_none {kinds : String → ColKind} {st : Store} {env : Env} {out : Frame} {s : Term}
    {ss : List Term} (h : execStmtS kinds st env out s = none) :
    execBlockS kinds st env out (s :: ss) = none := by
  rw [execBlockS, h]

/-- one iteration of `for pat in …: body`. -/
def stepOf (kinds : String → ColKind) (st : Store) (pat : Term) (body : List Term) :
    Env × Frame → SVal → Option (Env × Frame) :=
  fun s it => match bindPat s.1 pat it with
    | none => none
    | some env' => match execBlockS kinds st env' s.2 body with
      | none => none
      | some r => some (r.2.1, r.2.2)

theorem execStmtS_for (kinds : String → ColKind) (st : Store) (env : Env) (out : Frame) (pat iter : Term)
    (body : List Term) :
    execStmtS kinds st env out (.app "for" [pat, iter, .app "block" body]) =
      (match (match evalS kinds st env iter with | some v => itemsOf v | none => none) with
       | none => none
       | some its => match loop (stepOf kinds st pat body) (env, out) its with
         | none => none
         | some s => some (.next, s.1, s.2)) := by
  rw [execStmtS]
  rfl

/-- **the loop rule**: if every iteration (in any environment satisfying the invariant) appends the pairs `y a` for its
    item `mk a` and re-establishes the invariant, the loop appends `y` of every item, in order. -/
theorem loop_collect {α : Type} (kinds : String → ColKind) (st : Store) (pat : Term) (body : List Term) (mk : α → SVal)
    (Inv : Env → Prop) (y : α → Frame) (l : List α)
    (hstep : ∀ env out a, a ∈ l → Inv env → ∃ env1, bindPat env pat (mk a) = some env1 ∧
      ∃ fl env2, execBlockS kinds st env1 out body = some (fl, env2, out ++ y a) ∧ Inv env2) :
    ∀ env out, Inv env →
      ∃ env', loop (stepOf kinds st pat body) (env, out) (l.map mk) = some (env', out ++ l.flatMap y) ∧ Inv env' := by
  induction l with
  | nil => intro env out hinv; exact ⟨env, by simp [loop], hinv⟩
  | cons a t ih =>
    intro env out hinv
    obtain ⟨env1, hb, fl, env2, hx, hinv2⟩ := hstep env out a List.mem_cons_self hinv
    obtain ⟨env', hl, hinv'⟩ :=
      ih (fun env out b hb => hstep env out b (List.mem_cons_of_mem _ hb)) env2 (out ++ y a) hinv2
    refine ⟨env', ?_, hinv'⟩
    have hs : stepOf kinds st pat body (env, out) (mk a) = some (env2, out ++ y a) := by
      simp only [stepOf, hb, hx]
    simp only [List.map_cons, loop, hs, hl, List.flatMap_cons, List.append_assoc]

/-- a first iteration that fails (a Python exception) fails the loop. -/
theorem loop_head_none {kinds : String → ColKind} {st : Store} {pat : Term} {body : List Term} {s : Env × Frame}
    {v : SVal} {vs : List SVal} (h : stepOf kinds st pat body s v = none) :
    loop (stepOf kinds st pat body) s (v :: vs) = none := by
  simp only [loop, h]

/-! ### `for colname, column in self.items(): yield colname, g(column)` -/

def lvCol : List String := ["colname", "column"]

theorem eval_self {kinds : String → ColKind} {st : Store} {e0 e : Env} {vars : List String} {self : Frame}
    (hs : Stable vars e0 e) (hv : "self" ∉ vars) (hself : Env.get? e0 "self" = some (.frame self)) :
    evalS kinds st e (.sym "self") = some (.frame self) := by
  rw [evalS_sym kinds st e "self" (by decide), hs "self" hv, hself]

theorem stable_col {e0 e : Env} (h : Stable lvCol e0 e) (n : String) (c : List Cell) :
    Stable lvCol e0 (("column", .col c) :: ("colname", .str n) :: e) :=
  (h.push (by decide) _).push (by decide) _

theorem eval_items_self {kinds : String → ColKind} {e0 env : Env} {self : Frame}
    (hself : Env.get? e0 "self" = some (.frame self)) (hs : Stable lvCol e0 env) :
    evalS kinds [] env (.app ".items" [.sym "self"]) = some (.items (.frame self)) := by
  rw [evalS_prim (find_nil _) (by decide) (evalArgsS1 (eval_self hs (by decide) hself))]; rfl

/-- **every column goes through the same expression**: if `g(column)` evaluates to `h column` for every column of the
    receiver, the loop yields `(name, h column)` for every column, in dict order. -/
theorem exec_perColumn (kinds : String → ColKind) (g : Term → Term) (h : List Cell → List Cell) (e0 : Env) (self : Frame)
    (hself : Env.get? e0 "self" = some (.frame self))
    (hg : ∀ e p, p ∈ self → Stable lvCol e0 e →
      evalS kinds [] (("column", .col p.2) :: ("colname", .str p.1) :: e) (g (.sym "column")) = some (.col (h p.2)))
    (env : Env) (out : Frame) (hs : Stable lvCol e0 env) :
    ∃ env', execStmtS kinds [] env out (perColumn g) = some (.next, env', out ++ self.map (fun p => (p.1, h p.2))) := by
  unfold perColumn
  rw [execStmtS_for, eval_items_self hself hs]
  obtain ⟨env', hl, _⟩ := loop_collect kinds [] (.app "tuple" [.sym "colname", .sym "column"])
    [.app "yield" [.app "tuple" [.sym "colname", g (.sym "column")]]]
    (fun (p : String × List Cell) => SVal.pair (.str p.1) (.col p.2)) (Stable lvCol e0) (fun p => [(p.1, h p.2)]) self
    (by
      intro env out p hp hinv
      refine ⟨("column", .col p.2) :: ("colname", .str p.1) :: env, rfl, .next, _, ?_, stable_col hinv p.1 p.2⟩
      have hn : evalS kinds [] (("column", .col p.2) :: ("colname", .str p.1) :: env) (.sym "colname") = some (.str p.1) := rfl
      rw [execBlockS_cons_next (execStmtS_yield hn (hg env p hp hinv))]
      rfl) env out hs
  refine ⟨env', ?_⟩
  simp only [itemsOf, hl]
  rw [DI.PyEval.flatMap_single]

/-- … and if `g(column)` fails for the first column (a Python exception), the loop fails. -/
theorem exec_perColumn_none (kinds : String → ColKind) (g : Term → Term) (e0 : Env) (p : String × List Cell)
    (rest : Frame) (hself : Env.get? e0 "self" = some (.frame (p :: rest)))
    (hg : ∀ e, Stable lvCol e0 e →
      evalS kinds [] (("column", .col p.2) :: ("colname", .str p.1) :: e) (g (.sym "column")) = none)
    (env : Env) (out : Frame) (hs : Stable lvCol e0 env) :
    execStmtS kinds [] env out (perColumn g) = none := by
  unfold perColumn
  rw [execStmtS_for, eval_items_self hself hs]
  have hstep : stepOf kinds [] (.app "tuple" [.sym "colname", .sym "column"])
      [.app "yield" [.app "tuple" [.sym "colname", g (.sym "column")]]] (env, out)
      (SVal.pair (.str p.1) (.col p.2)) = none := by
    simp only [stepOf, bindPat]
    rw [execBlockS_cons_none (execStmtS_yield_none (hg env hs))]
  simp only [itemsOf, List.map_cons, loop_head_none hstep]

theorem runBody_single {kinds : String → ColKind} {env env' : Env} {s : Term} {out : Frame}
    (h : execStmtS kinds [] env [] s = some (.next, env', out)) : runBody kinds env (.fall [s]) = some out := by
  simp only [runBody, execBlockS_cons_next h, execBlockS_nil]

theorem runBody_single_none {kinds : String → ColKind} {env : Env} {s : Term}
    (h : execStmtS kinds [] env [] s = none) : runBody kinds env (.fall [s]) = none := by
  simp only [runBody, execBlockS_cons_none h]

/-! ## Part 3: the body of `DataFrame.sort` -/

/-- the local function definition as the translator writes it (`rest`: its parameters and body). -/
def localSortKey (rest : List Term) : Term := .app "local-def" [.app "def" (.sym "sort_key" :: rest)]

/-- `np.lexsort(tuple(k(*x) for x in reversed(colname_dir_pairs.items())))`. -/
def lexsortTerm (k : Term) : Term :=
  .app "np.lexsort" [.app "tuple()" [.app "GeneratorExp" [.app "call" [k, .app "*" [.sym "x"]],
    .app "in" [.sym "x", .app "reversed" [.app ".items" [.sym "colname_dir_pairs"]], .app "if" []]]]]

/-- the one statement of the body of `sort`. -/
def sortLoop (k : Term) : Term := perColumn (fun c => .app ".copy" [.app "getitem" [c, lexsortTerm k]])

/-- the index vector of `frame.sort(**pairs)`. -/
def sortIndices (kinds : String → ColKind) (f : Frame) (pairs : List (String × Int)) : Option (List Nat) :=
  match allSome (pairs.reverse.map (fun p => sortKeyCall kinds f p.1 p.2)) with
  | none => none
  | some ks => npLexsort ks

theorem sortFrame_eq (kinds : String → ColKind) (f : Frame) (pairs : List (String × Int)) :
    sortFrame kinds f pairs = (sortIndices kinds f pairs).map (wholeRows f) := by
  unfold sortFrame sortIndices
  cases allSome (pairs.reverse.map (fun p => sortKeyCall kinds f p.1 p.2)) <;> rfl

theorem allSome_some_mem {α : Type} : ∀ (l : List (Option α)) (r : List α), allSome l = some r → ∀ k ∈ r, some k ∈ l
  | [], r, h, k, hk => by simp [allSome] at h; subst h; cases hk
  | none :: t, r, h, k, hk => by simp [allSome] at h
  | some a :: t, r, h, k, hk => by
    rw [allSome] at h
    cases ht : allSome t with
    | none => rw [ht] at h; cases h
    | some r' =>
      rw [ht] at h
      simp only [Option.some.injEq] at h
      subst h
      rcases List.mem_cons.mp hk with rfl | hk'
      · exact List.mem_cons_self
      · exact List.mem_cons_of_mem _ (allSome_some_mem t r' ht k hk')

theorem colOf?_some {f : Frame} {n : String} {c : List Cell} (h : colOf? f n = some c) :
    n ∈ names f ∧ c = colOf f n := by
  by_cases hn : n ∈ names f
  · refine ⟨hn, ?_⟩
    rw [DI.PyEval.colOf?_of_name hn] at h
    exact (Option.some.inj h).symm
  · rw [DI.PyEval.colOf?_none hn] at h; cases h

theorem sortKeyCall_length {kinds : String → ColKind} {f : Frame} (hrect : Rect f) {n : String} {d : Int}
    {k : List Cell} (h : sortKeyCall kinds f n d = some k) : k.length = nrow f := by
  unfold sortKeyCall at h
  have key : ∀ desc, (colOf? f n).map (sortKey (kinds n) desc) = some k → k.length = nrow f := by
    intro desc h
    cases hc : colOf? f n with
    | none => rw [hc] at h; cases h
    | some c =>
      rw [hc] at h
      simp only [Option.map_some, Option.some.injEq] at h
      obtain ⟨hn, rfl⟩ := colOf?_some hc
      rw [← h, sortKey_length]
      exact DI.PyEval.colOf_length hrect hn
  split at h
  · exact key _ h
  · split at h
    · exact key _ h
    · cases h

/-- the index vector, when there is one, is a permutation of the row numbers of the frame. -/
theorem sortIndices_perm {kinds : String → ColKind} {f : Frame} (hrect : Rect f) {pairs : List (String × Int)}
    {idx : List Nat} (h : sortIndices kinds f pairs = some idx) : idx.Perm (List.range (nrow f)) := by
  unfold sortIndices at h
  cases hk : allSome (pairs.reverse.map (fun p => sortKeyCall kinds f p.1 p.2)) with
  | none => rw [hk] at h; cases h
  | some ks =>
    rw [hk] at h
    cases ks with
    | nil => cases h
    | cons k t =>
      simp only [npLexsort] at h
      split at h
      · simp only [Option.some.injEq] at h
        have hmem := allSome_some_mem _ _ hk k List.mem_cons_self
        obtain ⟨p, _, hp⟩ := List.mem_map.mp hmem
        have hlen := sortKeyCall_length hrect hp
        rw [← h, hlen, lexsortPasses_eq]
        exact lexsortIdx_perm _ _
      · cases h

/-- the generator element `sort_key(*x)` for one (name, dir) pair. -/
theorem eval_sort_key_call {kinds : String → ColKind} {e : Env} {self : Frame} (rest : List Term)
    (hself : Env.get? e "self" = some (.frame self)) (n : String) (d : Int) :
    evalS kinds [] (("x", SVal.pair (.str n) (.int d)) :: e)
      (.app "call" [localSortKey rest, .app "*" [.sym "x"]]) = (sortKeyCall kinds self n d).map SVal.col := by
  have hk : evalS kinds [] (("x", SVal.pair (.str n) (.int d)) :: e) (localSortKey rest) = some (.sortKeyFn self) := by
    unfold localSortKey
    rw [evalS_local_def kinds [] _ rest (find_nil _), get?_cons_ne _ _ (by decide), hself]
  have hx : evalS kinds [] (("x", SVal.pair (.str n) (.int d)) :: e) (.app "*" [.sym "x"]) =
      some (.star (.pair (.str n) (.int d))) := by
    rw [evalS_prim (find_nil _) (by decide) (evalArgsS1 (by
      rw [evalS_sym _ _ _ "x" (by decide), get?_cons_self]))]
    rfl
  rw [evalS_prim (find_nil _) (by decide) (evalArgsS2 hk hx)]
  rfl

/-- the index expression of `sort`, in any environment that binds the receiver and the pairs. -/
theorem eval_lexsortTerm {kinds : String → ColKind} {e : Env} {self : Frame} {pairs : List (String × Int)}
    (rest : List Term) (hself : Env.get? e "self" = some (.frame self))
    (hpairs : Env.get? e "colname_dir_pairs" = some (.dirs pairs)) :
    evalS kinds [] e (lexsortTerm (localSortKey rest)) =
      (sortIndices kinds self pairs).map (fun idx => SVal.ints (idx.map (fun (k : Nat) => (k : Int)))) := by
  have h1 : evalS kinds [] e (.app ".items" [.sym "colname_dir_pairs"]) = some (.items (.dirs pairs)) := by
    rw [evalS_prim (find_nil _) (by decide) (evalArgsS1 (by
      rw [evalS_sym _ _ _ "colname_dir_pairs" (by decide), hpairs]))]
    rfl
  have h2 : evalS kinds [] e (.app "reversed" [.app ".items" [.sym "colname_dir_pairs"]]) =
      some (.items (.dirs pairs.reverse)) := by
    rw [evalS_prim (find_nil _) (by decide) (evalArgsS1 h1)]; rfl
  have h3 : evalS kinds [] e (.app "tuple()" [.app "GeneratorExp" [.app "call" [localSortKey rest, .app "*" [.sym "x"]],
      .app "in" [.sym "x", .app "reversed" [.app ".items" [.sym "colname_dir_pairs"]], .app "if" []]]]) =
      (allSome (pairs.reverse.map (fun p => sortKeyCall kinds self p.1 p.2))).map SVal.cols := by
    rw [evalS_tuple_gen kinds [] e _ _ _ (find_nil _), h2]
    simp only [itemsOf, List.map_map]
    congr 2
    apply List.map_congr_left
    intro p _
    simp only [Function.comp, bindPat]
    rw [eval_sort_key_call rest hself]
    cases sortKeyCall kinds self p.1 p.2 <;> rfl
  unfold lexsortTerm sortIndices
  cases hk : allSome (pairs.reverse.map (fun p => sortKeyCall kinds self p.1 p.2)) with
  | none =>
    rw [hk] at h3
    rw [evalS_args_none (find_nil _) (by decide) (evalArgsS_head_none h3)]
    rfl
  | some ks =>
    rw [hk] at h3
    rw [evalS_prim (find_nil _) (by decide) (evalArgsS1 h3)]
    rfl

/-- `column[indices].copy()` for one column of the receiver. -/
theorem eval_sort_column {kinds : String → ColKind} {e : Env} {self : Frame} {pairs : List (String × Int)}
    (rest : List Term) (hself : Env.get? e "self" = some (.frame self))
    (hpairs : Env.get? e "colname_dir_pairs" = some (.dirs pairs)) (n : String) (c : List Cell) :
    evalS kinds [] (("column", .col c) :: ("colname", .str n) :: e)
      (.app ".copy" [.app "getitem" [.sym "column", lexsortTerm (localSortKey rest)]]) =
    match sortIndices kinds self pairs with
    | none => none
    | some idx => (npTake c (idx.map (fun (k : Nat) => (k : Int)))).map SVal.col := by
  have hs' : Env.get? (("column", SVal.col c) :: ("colname", SVal.str n) :: e) "self" = some (.frame self) := by
    rw [get?_cons_ne _ _ (by decide), get?_cons_ne _ _ (by decide), hself]
  have hp' : Env.get? (("column", SVal.col c) :: ("colname", SVal.str n) :: e) "colname_dir_pairs" =
      some (.dirs pairs) := by
    rw [get?_cons_ne _ _ (by decide), get?_cons_ne _ _ (by decide), hpairs]
  have hc : evalS kinds [] (("column", SVal.col c) :: ("colname", SVal.str n) :: e) (.sym "column") = some (.col c) := rfl
  have hi := eval_lexsortTerm (kinds := kinds) rest hs' hp'
  cases hx : sortIndices kinds self pairs with
  | none =>
    rw [hx] at hi
    rw [evalS_args_none (find_nil _) (by decide) (evalArgsS_head_none
      (evalS_args_none (find_nil _) (by decide) (evalArgsS_tail_none (evalArgsS_head_none hi))))]
  | some idx =>
    rw [hx] at hi
    show _ = (npTake c (idx.map (fun (k : Nat) => (k : Int)))).map SVal.col
    have hg : evalS kinds [] (("column", SVal.col c) :: ("colname", SVal.str n) :: e)
        (.app "getitem" [.sym "column", lexsortTerm (localSortKey rest)]) =
        (npTake c (idx.map (fun (k : Nat) => (k : Int)))).map SVal.col := by
      rw [evalS_prim (find_nil _) (by decide) (evalArgsS2 hc hi)]; rfl
    cases ht : npTake c (idx.map (fun (k : Nat) => (k : Int))) with
    | none =>
      rw [ht] at hg
      rw [evalS_args_none (find_nil _) (by decide) (evalArgsS_head_none hg)]
      rfl
    | some r =>
      rw [ht] at hg
      rw [evalS_prim (find_nil _) (by decide) (evalArgsS1 hg)]
      rfl

/-- **the body of `sort` IS the primitive `sortFrame`** — for every receiver with at least one column, every pairs
    dict (also none, bad directions, unknown names: then both are the exception `none`). -/
theorem run_sort_total (kinds : String → ColKind) (rest : List Term) (env : Env) (self : Frame)
    (pairs : List (String × Int)) (hself : Env.get? env "self" = some (.frame self))
    (hpairs : Env.get? env "colname_dir_pairs" = some (.dirs pairs)) (hne : self ≠ []) (hrect : Rect self) :
    runBody kinds env (.fall [sortLoop (localSortKey rest)]) = sortFrame kinds self pairs := by
  rw [sortFrame_eq]
  have hst : ∀ e, Stable lvCol env e → Env.get? e "self" = some (.frame self) ∧
      Env.get? e "colname_dir_pairs" = some (.dirs pairs) := by
    intro e he
    exact ⟨by rw [he "self" (by decide), hself], by rw [he "colname_dir_pairs" (by decide), hpairs]⟩
  cases hx : sortIndices kinds self pairs with
  | none =>
    obtain ⟨p, t, rfl⟩ := List.exists_cons_of_ne_nil hne
    apply runBody_single_none
    unfold sortLoop
    refine exec_perColumn_none kinds _ env p t hself ?_ env [] (Stable.refl _ _)
    intro e he
    rw [eval_sort_column rest (hst e he).1 (hst e he).2, hx]
  | some idx =>
    have hperm := sortIndices_perm hrect hx
    unfold sortLoop
    obtain ⟨env', h⟩ := exec_perColumn kinds (fun c => .app ".copy" [.app "getitem" [c, lexsortTerm (localSortKey rest)]])
      (fun c => gather c idx) env self hself (by
        intro e p hp he
        rw [eval_sort_column rest (hst e he).1 (hst e he).2, hx]
        simp only
        rw [DI.PyEval.npTake_nat p.2 idx (by
          intro k hk
          have : k < nrow self := by simpa using hperm.mem_iff.mp hk
          rw [hrect p hp]; exact this)]
        rfl) env [] (Stable.refl _ _)
    rw [runBody_single h]
    rfl

/-- the keys of the model for a pairs dict: dtype flags, descending?, the column. -/
def modelKeys (kinds : String → ColKind) (self : Frame) (pairs : List (String × Int)) :
    List (ColKind × Bool × List Cell) :=
  pairs.map (fun p => (kinds p.1, decide (p.2 = -1), colOf self p.1))

/-- with at least one pair, directions 1 / -1 and existing names: the index vector is the model's `dfSortIdx`. -/
theorem sortIndices_model (kinds : String → ColKind) (self : Frame) (pairs : List (String × Int))
    (hne : pairs ≠ []) (hdir : ∀ p ∈ pairs, p.2 = 1 ∨ p.2 = -1) (hnames : ∀ p ∈ pairs, p.1 ∈ names self)
    (hrect : Rect self) :
    sortIndices kinds self pairs = some (dfSortIdx (nrow self) (modelKeys kinds self pairs)) := by
  have hcall : ∀ p ∈ pairs.reverse, sortKeyCall kinds self p.1 p.2 =
      some (sortKey (kinds p.1) (decide (p.2 = -1)) (colOf self p.1)) := by
    intro p hp
    have hp' : p ∈ pairs := List.mem_reverse.mp hp
    unfold sortKeyCall
    rw [DI.PyEval.colOf?_of_name (hnames p hp')]
    rcases hdir p hp' with h | h <;> simp [h]
  unfold sortIndices
  rw [DI.PyEval.allSome_map _ _ _ hcall]
  simp only
  have hlen : ∀ k ∈ pairs.reverse.map (fun p => sortKey (kinds p.1) (decide (p.2 = -1)) (colOf self p.1)),
      k.length = nrow self := by
    intro k hk
    obtain ⟨p, hp, rfl⟩ := List.mem_map.mp hk
    rw [sortKey_length]
    exact DI.PyEval.colOf_length hrect (hnames p (List.mem_reverse.mp hp))
  have hrev : pairs.reverse ≠ [] := by simpa using hne
  obtain ⟨q, t, hqt⟩ := List.exists_cons_of_ne_nil hrev
  have e : npLexsort (pairs.reverse.map (fun p => sortKey (kinds p.1) (decide (p.2 = -1)) (colOf self p.1))) =
      some (lexsortPasses (nrow self)
        (pairs.reverse.map (fun p => sortKey (kinds p.1) (decide (p.2 = -1)) (colOf self p.1)))) := by
    rw [hqt] at hlen ⊢
    simp only [List.map_cons, npLexsort]
    have h0 := hlen _ List.mem_cons_self
    have hall : (t.map (fun p => sortKey (kinds p.1) (decide (p.2 = -1)) (colOf self p.1))).all
        (fun c => c.length == (sortKey (kinds q.1) (decide (q.2 = -1)) (colOf self q.1)).length) = true := by
      rw [List.all_eq_true]
      intro c hc
      have := hlen c (List.mem_cons_of_mem _ hc)
      simp [this, h0]
    rw [hall, h0]
    rfl
  rw [e, lexsortPasses_eq, ← List.map_reverse, List.reverse_reverse]
  unfold dfSortIdx modelKeys
  simp only [List.map_map]
  rfl

/-- without pairs `np.lexsort` gets an empty tuple: TypeError. -/
theorem sortIndices_no_keys (kinds : String → ColKind) (self : Frame) : sortIndices kinds self [] = none := rfl

/-- a direction other than 1 / -1: the ValueError of `sort_key`. -/
theorem sortIndices_bad_dir (kinds : String → ColKind) (self : Frame) (pairs : List (String × Int))
    (p : String × Int) (hp : p ∈ pairs) (hd : p.2 ≠ 1 ∧ p.2 ≠ -1) : sortIndices kinds self pairs = none := by
  unfold sortIndices
  rw [DI.PyEval.allSome_none _ _ p (List.mem_reverse.mpr hp) (by simp [sortKeyCall, hd.1, hd.2])]

/-- a name that is not a column: KeyError. -/
theorem sortIndices_bad_name (kinds : String → ColKind) (self : Frame) (pairs : List (String × Int))
    (p : String × Int) (hp : p ∈ pairs) (hn : p.1 ∉ names self) : sortIndices kinds self pairs = none := by
  unfold sortIndices
  rw [DI.PyEval.allSome_none _ _ p (List.mem_reverse.mpr hp) (by
    simp only [sortKeyCall, DI.PyEval.colOf?_none hn]
    split
    · rfl
    · split <;> rfl)]

/-! ### the term the regenerated `sort_key` returns -/

open DI.Tie.C03 in
theorem eval_rankT {kinds : String → ColKind} {e : Env} {t : Term} {c : List Cell}
    (h : evalS kinds [] e t = some (.col c)) : evalS kinds [] e (rankT t) = some (.col (rankKey c)) := by
  have hq : evalS kinds [] e (.sym "'min'") = some (.str "min") := by unfold evalS; rfl
  have hm : evalS kinds [] e (.app "=method" [.sym "'min'"]) = some (.pair (.str "method") (.str "min")) := by
    rw [evalS_prim (find_nil _) (by decide) (evalArgsS1 hq)]; rfl
  unfold rankT
  rw [evalS_prim (find_nil _) (by decide) (evalArgsS2 h hm)]; rfl

open DI.Tie.C03 in
theorem eval_optT {kinds : String → ColKind} {e : Env} {t : Term} {c : List Cell}
    (h : evalS kinds [] e t = some (.col c)) : evalS kinds [] e (optT t) = some (.col c) := by
  unfold optT
  rw [evalS_prim (find_nil _) (by decide) (evalArgsS1 h)]; rfl

theorem eval_invert {kinds : String → ColKind} {e : Env} {t : Term} {c : List Cell}
    (h : evalS kinds [] e t = some (.col c)) :
    evalS kinds [] e (.app "~" [t]) = some (.col (c.map (invertKey true))) ∧
    evalS kinds [] e (.app "neg" [t]) = some (.col (c.map (invertKey false))) := by
  constructor
  · rw [evalS_prim (find_nil _) (by decide) (evalArgsS1 h)]; rfl
  · rw [evalS_prim (find_nil _) (by decide) (evalArgsS1 h)]; rfl

open DI.Tie.C03 in
/-- the expression `sort_key` returns (`Tie.C03.sort_key_code`: `skTerm` of the shape its tests select), evaluated with
    the column primitives, is the key column `skEval` of that shape. -/
theorem eval_skTerm (kinds : String → ColKind) (e : Env) (self : Frame) (n : String) (col : List Cell) (s : SK)
    (hself : Env.get? e "self" = some (.frame self)) (hname : Env.get? e "colname" = some (.str n))
    (hcol : colOf? self n = some col) :
    evalS kinds [] e (skTerm s) = some (.col (skEval s col)) := by
  have h0 : evalS kinds [] e c0 = some (.col col) := by
    unfold c0
    rw [evalS_prim (find_nil _) (by decide) (evalArgsS2
      (by rw [evalS_sym _ _ _ "self" (by decide), hself]) (by rw [evalS_sym _ _ _ "colname" (by decide), hname]))]
    show (colOf? self n).map SVal.col = _
    rw [hcol]; rfl
  have h2 : evalS kinds [] e (optT (if s.rank1 then rankT c0 else c0)) =
      some (.col (if s.rank1 then rankKey col else col)) := by
    cases s.rank1
    · exact eval_optT h0
    · exact eval_optT (eval_rankT h0)
  have h3 : evalS kinds [] e (if s.rank2 then rankT (optT (if s.rank1 then rankT c0 else c0))
        else optT (if s.rank1 then rankT c0 else c0)) =
      some (.col (if s.rank2 then rankKey (if s.rank1 then rankKey col else col)
        else (if s.rank1 then rankKey col else col))) := by
    cases s.rank2
    · exact h2
    · exact eval_rankT h2
  unfold skTerm skEval
  rcases hi : s.inv with _ | b
  · simpa [hi] using h3
  · cases b
    · simpa [hi] using (eval_invert h3).2
    · simpa [hi] using (eval_invert h3).1

/-! ## Part 4: the list primitives of the grouping bodies -/

/-- the row numbers `l` as an integer column. -/
def idxCol (l : List Nat) : List Cell := l.map (fun (k : Nat) => some (Key.i (k : Int)))

theorem idxCol_length (l : List Nat) : (idxCol l).length = l.length := by simp [idxCol]

theorem arange_nat (n : Nat) : arange 0 (n : Int) = (List.range n).map (fun (k : Nat) => (k : Int)) := by
  simp [arange]

theorem asCol_arange (n : Nat) : asCol (.ints (arange 0 (n : Int))) = some (idxCol (List.range n)) := by
  simp [asCol, arange_nat, idxCol, List.map_map, Function.comp_def]

/-- the rows `idx` of the column of row numbers are the row numbers `idx`. -/
theorem gather_idxCol (n : Nat) (idx : List Nat) (h : ∀ k ∈ idx, k < n) :
    gather (idxCol (List.range n)) idx = idxCol idx := by
  unfold gather idxCol
  apply List.map_congr_left
  intro k hk
  have := h k hk
  simp [this]

theorem cellsToInts_idxCol (l : List Nat) : cellsToInts (idxCol l) = some (l.map (fun (k : Nat) => (k : Int))) := by
  unfold cellsToInts idxCol
  rw [List.map_map]
  exact DI.PyEval.allSome_map _ _ _ (fun k _ => rfl)

theorem natCuts_nat (l : List Nat) : natCuts (l.map (fun (k : Nat) => (k : Int))) = some l := by
  unfold natCuts
  have h : (l.map (fun (k : Nat) => (k : Int))).all (fun c => decide (0 ≤ c)) = true := by
    rw [List.all_eq_true]
    intro c hc
    obtain ⟨k, _, rfl⟩ := List.mem_map.mp hc
    simp
  rw [h]
  simp [List.map_map, Function.comp_def]

/-- `l[1:]`. -/
theorem pySlice_one {α : Type} (l : List α) : pySlice l (some 1) none = l.drop 1 := by
  unfold pySlice normBound pmin pmax
  cases l with
  | nil => simp
  | cons a t =>
    have h : ¬ ((t.length : Int) + 1 < 1) := by omega
    simp [h]

theorem npSplitGo_map {α β : Type} (f : α → β) (arr : List α) (cuts : List Nat) : ∀ prev,
    npSplitGo (arr.map f) prev cuts = (npSplitGo arr prev cuts).map (List.map f) := by
  induction cuts with
  | nil => intro prev; simp [npSplitGo, List.map_drop]
  | cons c cs ih => intro prev; simp [npSplitGo, ih, List.map_drop, List.map_take]

theorem npSplit_map {α β : Type} (f : α → β) (arr : List α) (cuts : List Nat) :
    npSplit (arr.map f) cuts = (npSplit arr cuts).map (List.map f) := npSplitGo_map f arr cuts 0

theorem npSplitGo_eq (arr : List Nat) (cuts : List Nat) : ∀ prev,
    npSplitGo arr prev cuts = splitAt.go arr prev (cuts ++ [arr.length]) := by
  induction cuts with
  | nil =>
    intro prev
    simp only [npSplitGo, List.nil_append, splitAt.go]
    rw [List.take_of_length_le (by simp)]
  | cons c cs ih =>
    intro prev
    simp only [npSplitGo, List.cons_append, splitAt.go, ih c, List.drop_take]

/-- **`np.split(arr, starts[1:])` is the model's `splitAt arr starts`** (an empty `starts` — an empty frame — gives the
    one chunk `arr`). -/
theorem npSplit_eq_splitAt (arr : List Nat) (starts : List Nat) :
    npSplit arr (starts.drop 1) = splitAt arr starts := by
  cases starts with
  | nil => simp [npSplit, npSplitGo, splitAt]
  | cons s rest => simp [npSplit, splitAt, npSplitGo_eq]

theorem splitAt_go_map (f : Nat → Nat) (arr : List Nat) (bounds : List Nat) : ∀ prev,
    splitAt.go (arr.map f) prev bounds = (splitAt.go arr prev bounds).map (List.map f) := by
  induction bounds with
  | nil => intro prev; simp [splitAt.go]
  | cons b bs ih => intro prev; simp [splitAt.go, ih, List.map_drop, List.map_take]

/-- cutting commutes with renaming the elements. -/
theorem splitAt_map (f : Nat → Nat) (arr : List Nat) (starts : List Nat) :
    splitAt (arr.map f) starts = (splitAt arr starts).map (List.map f) := by
  cases starts with
  | nil => simp [splitAt]
  | cons s rest => simp [splitAt, splitAt_go_map]

theorem gather_range_self (order : List Nat) : gather order (List.range order.length) = order :=
  DI.PyEval.gather_range order

/-- the chunks of sorted POSITIONS, read through the sort permutation, are the chunks of ROW numbers. -/
theorem splitAt_positions (order : List Nat) (starts : List Nat) :
    (splitAt (List.range order.length) starts).map (fun c => gather order c) = splitAt order starts := by
  have h := splitAt_map (fun i => order[i]!) (List.range order.length) starts
  have e : (List.range order.length).map (fun i => order[i]!) = order := gather_range_self order
  rw [e] at h
  rw [h]
  rfl

theorem head_take_drop (arr : List Nat) (p k : Nat) (hp : p < arr.length) (hk : 0 < k) :
    ((arr.drop p).take k).head! = arr[p]! := by
  rw [List.drop_eq_getElem_cons hp]
  obtain ⟨k', rfl⟩ : ∃ k', k = k' + 1 := ⟨k - 1, by omega⟩
  rw [List.take_succ_cons]
  simp only [hp, getElem!_pos]
  rfl

/-- the first elements of the chunks are the elements at the start positions. -/
theorem splitAt_go_heads (arr : List Nat) (rest : List Nat) : ∀ prev,
    (prev :: (rest ++ [arr.length])).Pairwise (· < ·) →
    (splitAt.go arr prev (rest ++ [arr.length])).map (fun g => g.head!) = gather arr (prev :: rest) := by
  induction rest with
  | nil =>
    intro prev h
    have hp : prev < arr.length := by simpa using h
    simp only [List.nil_append, splitAt.go, List.map_cons, List.map_nil, gather]
    rw [head_take_drop arr prev _ hp (by omega)]
  | cons b bs ih =>
    intro prev h
    have hpb : prev < b := (List.pairwise_cons.mp h).1 b (by simp)
    have hb' := (List.pairwise_cons.mp h).2
    have hbl : b < arr.length := (List.pairwise_cons.mp hb').1 arr.length (by simp)
    have hp : prev < arr.length := by omega
    simp only [List.cons_append, splitAt.go, List.map_cons]
    rw [ih b hb', head_take_drop arr prev _ hp (by omega)]
    rfl

theorem splitAt_heads (arr : List Nat) (starts : List Nat) (h0 : starts.head? = some 0)
    (hs : (starts ++ [arr.length]).Pairwise (· < ·)) :
    (splitAt arr starts).map (fun g => g.head!) = gather arr starts := by
  cases starts with
  | nil => cases h0
  | cons s rest =>
    simp only [List.head?_cons, Option.some.injEq] at h0
    subst h0
    simp only [splitAt]
    exact splitAt_go_heads arr rest 0 (by simpa using hs)

/-! ### dict stores of columns -/

theorem colOf?_map_put (f : Frame) (a : String) (c : List Cell) (x : String) :
    colOf? (f.map (fun q => if q.1 == a then (a, c) else q)) x =
      if a == x then (if f.any (fun q => q.1 == a) then some c else none) else colOf? f x := by
  induction f with
  | nil => cases a == x <;> rfl
  | cons q t ih =>
    rw [List.map_cons, DI.PyEval.colOf?_cons, DI.PyEval.colOf?_cons, ih, List.any_cons]
    by_cases hax : a = x
    · subst hax
      by_cases hqa : q.1 = a
      · simp [hqa]
      · have : (q.1 == a) = false := by simpa using hqa
        simp only [this, Bool.false_eq_true, if_false, Bool.false_or]
    · have hax' : (a == x) = false := by simpa using hax
      by_cases hqa : q.1 = a
      · have : (q.1 == a) = true := by simpa using hqa
        have hqx : (q.1 == x) = false := by rw [hqa]; exact hax'
        simp [this, hax', hqx]
      · have : (q.1 == a) = false := by simpa using hqa
        simp [this, hax']

theorem colOf?_append_single (f : Frame) (a : String) (c : List Cell) (x : String)
    (h : f.any (fun q => q.1 == a) = false) :
    colOf? (f ++ [(a, c)]) x = if a == x then some c else colOf? f x := by
  induction f with
  | nil => rw [List.nil_append, DI.PyEval.colOf?_cons]
  | cons q t ih =>
    rw [List.any_cons, Bool.or_eq_false_iff] at h
    rw [List.cons_append, DI.PyEval.colOf?_cons, DI.PyEval.colOf?_cons, ih h.2]
    by_cases hax : a = x
    · subst hax
      simp [h.1]
    · have hax' : (a == x) = false := by simpa using hax
      simp [hax']

/-- `d[a] = c` then `d[x]`. -/
theorem colOf?_dictPut (f : Frame) (a : String) (c : List Cell) (x : String) :
    colOf? (dictPut f a c) x = if a == x then some c else colOf? f x := by
  unfold dictPut
  cases h : f.any (fun q => q.1 == a)
  · simp only [Bool.false_eq_true, if_false]
    exact colOf?_append_single f a c x h
  · simp only [if_true]
    rw [colOf?_map_put, h]
    simp

theorem names_dictPut_new {f : Frame} {a : String} (h : a ∉ names f) (c : List Cell) :
    dictPut f a c = f ++ [(a, c)] := by
  unfold dictPut
  have : f.any (fun q => q.1 == a) = false := by
    rw [List.any_eq_false]
    intro q hq hqa
    apply h
    have : q.1 = a := by simpa using hqa
    rw [← this]
    exact List.mem_map_of_mem hq
  rw [this]
  rfl

/-- with distinct new names the constructor's `dict` keeps the pairs as they are. -/
theorem foldl_dictPut_nodup (ps : List (String × List Cell)) : ∀ d : Frame, (names (d ++ ps)).Nodup →
    ps.foldl (fun d p => dictPut d p.1 p.2) d = d ++ ps := by
  induction ps with
  | nil => intro d _; simp
  | cons p t ih =>
    intro d h
    have hp : p.1 ∉ names d := by
      intro hm
      simp only [names, List.map_append, List.map_cons] at h hm
      have := (List.nodup_append.mp h).2.2 p.1 hm p.1 (by simp)
      exact this rfl
    rw [List.foldl_cons, names_dictPut_new hp, ih]
    · simp
    · simpa using h

/-- the frame of the columns `l` of `f`. -/
def keysFrame (f : Frame) (l : List String) : Frame := l.map (fun b => (b, colOf f b))

theorem names_keysFrame (f : Frame) (l : List String) : names (keysFrame f l) = l := by
  simp [keysFrame, names, List.map_map, Function.comp_def]

theorem selectFrame_nodup (f : Frame) (l : List String) (hnd : l.Nodup) (hn : ∀ b ∈ l, b ∈ names f) :
    selectFrame f l = some (keysFrame f l) := by
  unfold selectFrame
  rw [DI.PyEval.allSome_map _ (fun b => (b, colOf f b)) l (fun b hb => by
    rw [DI.PyEval.colOf?_of_name (hn b hb)]; rfl)]
  simp only [Option.map_some]
  rw [foldl_dictPut_nodup _ [] (by
    simp only [List.nil_append]
    have := names_keysFrame f l
    unfold keysFrame at this
    rw [this]; exact hnd)]
  rfl

theorem colOf?_keysFrame (f : Frame) (l : List String) (b : String) (hb : b ∈ l) :
    colOf? (keysFrame f l) b = some (colOf f b) := by
  unfold keysFrame
  induction l with
  | nil => cases hb
  | cons a t ih =>
    rw [List.map_cons, DI.PyEval.colOf?_cons]
    cases hab : a == b
    · simp only [Bool.false_eq_true, if_false]
      rcases List.mem_cons.mp hb with h | h
      · subst h; simp at hab
      · exact ih h
    · have : a = b := by simpa using hab
      subst this
      simp

theorem fromKeys_aux (i : Int) (l : List String) : ∀ d : List (String × Int), ((d.map (·.1)) ++ l).Nodup →
    l.foldl (fun d k => if d.any (fun q => q.1 == k) then d else d ++ [(k, i)]) d = d ++ l.map (fun k => (k, i)) := by
  induction l with
  | nil => intro d _; simp
  | cons k t ih =>
    intro d h
    have hk : d.any (fun q => q.1 == k) = false := by
      rw [List.any_eq_false]
      intro q hq hqk
      have hqk' : q.1 = k := by simpa using hqk
      have := (List.nodup_append.mp h).2.2 q.1 (List.mem_map_of_mem hq) k (by simp)
      exact this hqk'
    rw [List.foldl_cons, hk]
    simp only [Bool.false_eq_true, if_false]
    rw [ih]
    · simp
    · simpa using h

/-- `dict.fromkeys(names, i)` for distinct names. -/
theorem fromKeys_nodup (l : List String) (i : Int) (h : l.Nodup) : fromKeys l i = l.map (fun k => (k, i)) := by
  unfold fromKeys
  rw [fromKeys_aux i l [] (by simpa using h)]
  rfl

theorem flatNames_star (l : List String) : flatNames [.star (.strs l)] = some l := by
  simp [flatNames]

theorem flatNames_str_star (a : String) (l : List String) : flatNames [.str a, .star (.strs l)] = some (a :: l) := by
  simp [flatNames]

theorem flatNames_str_str (a b : String) : flatNames [.str a, .str b] = some [a, b] := by
  simp [flatNames]

/-! ## Part 5: `split` and the grouping part of `aggregate` -/

/-! ### the store -/

theorem find_cons_self (t : Term) (v : SVal) (r : Store) : Store.find ((t, v) :: r) t = some v := by
  unfold Store.find
  simp

theorem find_cons_head_ne {g f : String} {as bs : List Term} {v : SVal} {r : Store} (h : g ≠ f) :
    Store.find ((.app g as, v) :: r) (.app f bs) = Store.find r (.app f bs) := by
  have : ¬ (Term.app g as = Term.app f bs) := fun e => h (Term.app.inj e).1
  rw [Store.find]
  simp [this]

/-- the heads of the terms written to in `split` / `aggregate`. -/
def groupHeads : List String := [".select", ".sort"]

/-- every key of the store is an application of one of the names `hs`. -/
def HeadsIn (st : Store) (hs : List String) : Prop := ∀ p ∈ st, ∃ g as, p.1 = Term.app g as ∧ g ∈ hs

theorem headsIn_nil (hs : List String) : HeadsIn [] hs := fun _ h => by cases h

theorem HeadsIn.cons {st : Store} {hs : List String} (h : HeadsIn st hs) {g : String} (as : List Term) (v : SVal)
    (hg : g ∈ hs) : HeadsIn ((.app g as, v) :: st) hs := by
  intro p hp
  rcases List.mem_cons.mp hp with rfl | hp
  · exact ⟨g, as, rfl, hg⟩
  · exact h p hp

theorem find_none_of_heads {st : Store} {hs : List String} (h : HeadsIn st hs) {f : String} (hf : f ∉ hs)
    (args : List Term) : st.find (.app f args) = none := by
  induction st with
  | nil => rfl
  | cons p r ih =>
    obtain ⟨k, v⟩ := p
    obtain ⟨g, as, hk, hg⟩ := h (k, v) List.mem_cons_self
    simp only at hk
    subst hk
    have hgf : g ≠ f := fun e => hf (by rw [← e]; exact hg)
    rw [find_cons_head_ne hgf]
    exact ih (fun q hq => h q (List.mem_cons_of_mem _ hq))

/-- a call of a primitive whose name is not the head of a stored object. -/
theorem evalS_prim' {kinds : String → ColKind} {st : Store} {env : Env} {f : String} {args : List Term}
    {vs : List SVal} (hst : HeadsIn st groupHeads) (hf : f ∉ groupHeads ∧ specialNames.contains f = false)
    (h : evalArgsS kinds st env args = some vs) : evalS kinds st env (.app f args) = prim kinds f vs :=
  evalS_prim (find_none_of_heads hst hf.1 args) hf.2 h

theorem eval_var {kinds : String → ColKind} {st : Store} {env : Env} {x : String} {v : SVal} (hx : PlainName x)
    (h : Env.get? env x = some v) : evalS kinds st env (.sym x) = some v := by
  rw [evalS_sym kinds st env x hx, h]

theorem eval_star {kinds : String → ColKind} {st : Store} {env : Env} {t : Term} {v : SVal}
    (hst : HeadsIn st groupHeads) (h : evalS kinds st env t = some v) :
    evalS kinds st env (.app "*" [t]) = some (.star v) := by
  rw [evalS_prim' hst (by decide) (evalArgsS1 h)]; rfl

open DI.Tie.C04 in
theorem eval_byOnes {kinds : String → ColKind} {st : Store} {env : Env} {t : Term} {l : List String}
    (hst : HeadsIn st groupHeads) (h : evalS kinds st env t = some (.strs l)) (hnd : l.Nodup) :
    evalS kinds st env (byOnes t) = some (.kwargs (.dirs (l.map (fun k => (k, (1 : Int)))))) := by
  unfold byOnes
  have h1 : evalS kinds st env (.app "dict.fromkeys" [t, .int 1]) = some (.dirs (l.map (fun k => (k, (1 : Int))))) := by
    rw [evalS_prim' hst (by decide) (evalArgsS2 h (by rw [evalS]))]
    show some (SVal.dirs (fromKeys l 1)) = _
    rw [fromKeys_nodup l 1 hnd]
  rw [evalS_prim' hst (by decide) (evalArgsS1 h1)]; rfl

theorem eval_nrow {kinds : String → ColKind} {st : Store} {env : Env} {t : Term} {F : Frame}
    (hst : HeadsIn st groupHeads) (h : evalS kinds st env t = some (.frame F)) :
    evalS kinds st env (.app ".nrow" [t]) = some (.int (nrow F : Nat)) := by
  rw [evalS_prim' hst (by decide) (evalArgsS1 h)]; rfl

theorem eval_arange_nrow {kinds : String → ColKind} {st : Store} {env : Env} {t : Term} {F : Frame}
    (hst : HeadsIn st groupHeads) (h : evalS kinds st env t = some (.frame F)) :
    evalS kinds st env (.app "np.arange" [.app ".nrow" [t]]) = some (.ints (arange 0 (nrow F : Nat))) := by
  rw [evalS_prim' hst (by decide) (evalArgsS1 (eval_nrow hst h))]; rfl

/-! ### frames -/

theorem reconcileCol_same (f : Frame) (c : List Cell) (h : c.length = nrow f) : reconcileCol f c = some c := by
  simp [reconcileCol, h]

theorem setCol_same (f : Frame) (a : String) (c : List Cell) (h : c.length = nrow f) :
    setCol f a c = some (dictPut f a c) := by
  simp [setCol, reconcileCol_same f c h]

theorem mem_dictPut {f : Frame} {a : String} {c : List Cell} {p : String × List Cell} (h : p ∈ dictPut f a c) :
    p ∈ f ∨ p = (a, c) := by
  unfold dictPut at h
  split at h
  · obtain ⟨q, hq, rfl⟩ := List.mem_map.mp h
    split
    · exact Or.inr rfl
    · exact Or.inl hq
  · rcases List.mem_append.mp h with h | h
    · exact Or.inl h
    · exact Or.inr (by simpa using h)

theorem nrow_dictPut (f : Frame) (a : String) (c : List Cell) (h : c.length = nrow f) :
    nrow (dictPut f a c) = nrow f := by
  unfold dictPut
  cases f with
  | nil => simp [nrow, h]
  | cons q t =>
    split
    · rw [List.map_cons]
      simp only [nrow]
      split
      · exact h
      · rfl
    · rfl

theorem rect_dictPut {f : Frame} (hr : Rect f) (a : String) (c : List Cell) (h : c.length = nrow f) :
    Rect (dictPut f a c) := by
  intro p hp
  rw [nrow_dictPut f a c h]
  rcases mem_dictPut hp with hp | rfl
  · exact hr p hp
  · exact h

theorem mem_names_of_colOf? {f : Frame} {x : String} {c : List Cell} (h : colOf? f x = some c) : x ∈ names f :=
  (colOf?_some h).1

theorem colOf_of_colOf? {f : Frame} {x : String} {c : List Cell} (h : colOf? f x = some c) : colOf f x = c := by
  unfold DI.PyEval.colOf; rw [h]; rfl

theorem rect_takeRows (f : Frame) (idx : List Nat) : Rect (takeRows f idx) := by
  cases f with
  | nil => intro p hp; cases hp
  | cons q t =>
    intro p hp
    rw [DI.PyEvalX.nrow_takeRows (by simp)]
    obtain ⟨r, _, rfl⟩ := List.mem_map.mp hp
    simp [gather]

theorem nrow_keysFrame {f : Frame} (hr : Rect f) {l : List String} (hne : l ≠ []) (hn : ∀ b ∈ l, b ∈ names f) :
    nrow (keysFrame f l) = nrow f := by
  cases l with
  | nil => exact absurd rfl hne
  | cons b t =>
    simp only [keysFrame, List.map_cons, nrow]
    exact DI.PyEval.colOf_length hr (hn b List.mem_cons_self)

theorem rect_keysFrame {f : Frame} (hr : Rect f) {l : List String} (hne : l ≠ []) (hn : ∀ b ∈ l, b ∈ names f) :
    Rect (keysFrame f l) := by
  intro p hp
  rw [nrow_keysFrame hr hne hn]
  obtain ⟨b, hb, rfl⟩ := List.mem_map.mp hp
  exact DI.PyEval.colOf_length hr (hn b hb)

/-- the model's group keys: dtype flags and column for every name. -/
def gkeys (kinds : String → ColKind) (f : Frame) (l : List String) : List (ColKind × List Cell) :=
  l.map (fun b => (kinds b, colOf f b))

/-- **`frame.sort(**dict.fromkeys(names, 1))`**: the frame at the rows `groupSortIdx` of the model. -/
theorem sortFrame_ones (kinds : String → ColKind) (F : Frame) (l : List String) (hne : l ≠ [])
    (hn : ∀ b ∈ l, b ∈ names F) (hr : Rect F) :
    sortFrame kinds F (l.map (fun k => (k, (1 : Int)))) =
      some (takeRows F (groupSortIdx (nrow F) (gkeys kinds F l))) := by
  rw [sortFrame_eq, sortIndices_model kinds F _ (by simpa using hne) (by
      intro p hp; obtain ⟨b, _, rfl⟩ := List.mem_map.mp hp; exact Or.inl rfl) (by
      intro p hp; obtain ⟨b, hb, rfl⟩ := List.mem_map.mp hp; exact hn b hb) hr]
  simp only [Option.map_some, groupSortIdx, gkeys, modelKeys, List.map_map, Function.comp_def]
  have : (decide ((1 : Int) = -1)) = false := by decide
  simp only [this]
  rfl

/-- one effect `obj.a = v`. -/
theorem runEff_setattr {kinds : String → ColKind} {env : Env} {st : Store} {obj v : Term} {a : String} {F : Frame}
    {val : SVal} {c : List Cell} (ho : evalS kinds st env obj = some (.frame F)) (hv : evalS kinds st env v = some val)
    (hc : asCol val = some c) (hl : c.length = nrow F) :
    runEff kinds env st (.app "setattr" [obj, .sym a, v]) = some ((obj, .frame (dictPut F a c)) :: st) := by
  rw [runEff, ho, hv]
  simp only [hc, setCol_same F a c hl, Option.map_some]

/-! ### split -/

def keysT : Term := .app ".select" [.sym "self", .app "*" [.sym "by"]]
def indexT : Term := .app "np.arange" [.app ".nrow" [keysT]]
def sortedT : Term := .app ".sort" [keysT, DI.Tie.C04.byOnes (.sym "by")]
def sposT : Term := .app "np.arange" [.app ".nrow" [sortedT]]
def uniqT : Term := .app ".unique" [sortedT, .app "*" [.sym "by"]]

/-- the two attribute writes of `split`. -/
def splitEffs : List Term :=
  [.app "setattr" [keysT, .sym "_index_", indexT], .app "setattr" [sortedT, .sym "_sorted_index_", sposT]]

/-- the value `split` returns. -/
def splitRetT : Term :=
  .app "np.split" [.app "._index_" [sortedT],
    .app "getitem" [.app "._sorted_index_" [uniqT], .slice (some 1) none]]

/-- the hypotheses of `split_eval`: the receiver and the names are bound; at least one name (Python raises the TypeError of
    `np.lexsort(())` otherwise), distinct, all of them columns, none of them one of the two bookkeeping names the method
    itself writes; every column has `nrow` cells. -/
structure SplitCtx (env : Env) (fr : Frame) (bys : List String) : Prop where
  hself : Env.get? env "self" = some (.frame fr)
  hby : Env.get? env "by" = some (.strs bys)
  hne : bys ≠ []
  hnd : bys.Nodup
  hnames : ∀ b ∈ bys, b ∈ names fr
  hres : "_index_" ∉ bys ∧ "_sorted_index_" ∉ bys
  hrect : Rect fr

section Split

variable {kinds : String → ColKind} {env : Env} {self : Frame} {bys : List String}

/-- the key columns, tagged with the row numbers. -/
def splitK1 (self : Frame) (bys : List String) : Frame :=
  dictPut (keysFrame self bys) "_index_" (idxCol (List.range (nrow self)))

/-- the sort permutation of the model. -/
def splitOrder (kinds : String → ColKind) (self : Frame) (bys : List String) : List Nat :=
  groupSortIdx (nrow self) (gkeys kinds self bys)

/-- the sorted key frame, tagged with the sorted positions. -/
def splitS2 (kinds : String → ColKind) (self : Frame) (bys : List String) : Frame :=
  dictPut (takeRows (splitK1 self bys) (splitOrder kinds self bys)) "_sorted_index_" (idxCol (List.range (nrow self)))

/-- the first sorted position of every key combination (the model's `starts`). -/
def splitStarts (kinds : String → ColKind) (self : Frame) (bys : List String) : List Nat :=
  uniqueIdx (nrow self) ((gkeys kinds self bys).map (fun k => gather k.2 (splitOrder kinds self bys)))

theorem splitOrder_length (kinds : String → ColKind) (self : Frame) (bys : List String) :
    (splitOrder kinds self bys).length = nrow self := groupSortIdx_length _ _

theorem splitOrder_lt (kinds : String → ColKind) (self : Frame) (bys : List String) :
    ∀ k ∈ splitOrder kinds self bys, k < nrow self := fun k hk => (mem_groupSortIdx _ _ k).mp hk

theorem splitStarts_lt (kinds : String → ColKind) (self : Frame) (bys : List String) :
    ∀ k ∈ splitStarts kinds self bys, k < nrow self := fun _ hk => (mem_uniqueIdx.mp hk).1

theorem groupsOf_eq_splitAt (kinds : String → ColKind) (self : Frame) (bys : List String) :
    groupsOf (nrow self) (gkeys kinds self bys) = splitAt (splitOrder kinds self bys) (splitStarts kinds self bys) := rfl

theorem k1_facts (h : SplitCtx env self bys) :
    nrow (splitK1 self bys) = nrow self ∧ Rect (splitK1 self bys) ∧
    (∀ b ∈ bys, colOf? (splitK1 self bys) b = some (colOf self b)) ∧
    colOf? (splitK1 self bys) "_index_" = some (idxCol (List.range (nrow self))) := by
  have hn := nrow_keysFrame h.hrect h.hne h.hnames
  have hl : (idxCol (List.range (nrow self))).length = nrow (keysFrame self bys) := by rw [idxCol_length, hn]; simp
  refine ⟨by rw [splitK1, nrow_dictPut _ _ _ hl, hn],
    rect_dictPut (rect_keysFrame h.hrect h.hne h.hnames) _ _ hl, ?_, ?_⟩
  · intro b hb
    have hbi : ("_index_" == b) = false := by
      have : ¬ "_index_" = b := fun e => h.hres.1 (e ▸ hb)
      simpa using this
    rw [splitK1, colOf?_dictPut, hbi]
    exact colOf?_keysFrame self bys b hb
  · rw [splitK1, colOf?_dictPut]; simp

theorem gkeys_k1 (h : SplitCtx env self bys) : gkeys kinds (splitK1 self bys) bys = gkeys kinds self bys := by
  unfold gkeys
  apply List.map_congr_left
  intro b hb
  rw [colOf_of_colOf? ((k1_facts h).2.2.1 b hb)]

theorem s2_facts (h : SplitCtx env self bys) :
    nrow (takeRows (splitK1 self bys) (splitOrder kinds self bys)) = nrow self ∧
    nrow (splitS2 kinds self bys) = nrow self ∧
    (∀ b ∈ bys, colOf? (splitS2 kinds self bys) b = some (gather (colOf self b) (splitOrder kinds self bys))) ∧
    colOf? (splitS2 kinds self bys) "_index_" = some (idxCol (splitOrder kinds self bys)) ∧
    colOf? (splitS2 kinds self bys) "_sorted_index_" = some (idxCol (List.range (nrow self))) := by
  obtain ⟨hk1, _, hk3, hk4⟩ := k1_facts h
  have hne1 : splitK1 self bys ≠ [] :=
    DI.PyEvalX.ne_nil_of_names h.hne (fun b hb => mem_names_of_colOf? (hk3 b hb))
  have hn1 : nrow (takeRows (splitK1 self bys) (splitOrder kinds self bys)) = nrow self := by
    rw [DI.PyEvalX.nrow_takeRows hne1, splitOrder_length]
  have hl : (idxCol (List.range (nrow self))).length =
      nrow (takeRows (splitK1 self bys) (splitOrder kinds self bys)) := by rw [idxCol_length, hn1]; simp
  refine ⟨hn1, by rw [splitS2, nrow_dictPut _ _ _ hl, hn1], ?_, ?_, ?_⟩
  · intro b hb
    have hbi : ("_sorted_index_" == b) = false := by
      have : ¬ "_sorted_index_" = b := fun e => h.hres.2 (e ▸ hb)
      simpa using this
    rw [splitS2, colOf?_dictPut, hbi]
    simp only [Bool.false_eq_true, if_false]
    rw [DI.PyEvalX.colOf?_takeRows, hk3 b hb]; rfl
  · rw [splitS2, colOf?_dictPut]
    have : ("_sorted_index_" == "_index_") = false := by decide
    rw [this]
    simp only [Bool.false_eq_true, if_false]
    rw [DI.PyEvalX.colOf?_takeRows, hk4]
    simp only [Option.map_some]
    rw [gather_idxCol _ _ (splitOrder_lt kinds self bys)]
  · rw [splitS2, colOf?_dictPut]; simp

/-- `sorted.unique(*by)` is the sorted frame at the model's `starts`. -/
theorem unique_s2 (h : SplitCtx env self bys) :
    uniqueFrame (splitS2 kinds self bys) bys = some (takeRows (splitS2 kinds self bys) (splitStarts kinds self bys)) := by
  obtain ⟨_, hn2, hc, _, _⟩ := s2_facts (kinds := kinds) h
  unfold uniqueFrame
  have he : bys.isEmpty = false := by
    cases hb : bys with
    | nil => exact absurd hb h.hne
    | cons _ _ => rfl
  have hk : keyCols (splitS2 kinds self bys) bys =
      some ((gkeys kinds self bys).map (fun k => gather k.2 (splitOrder kinds self bys))) := by
    unfold keyCols gkeys
    rw [List.map_map]
    exact DI.PyEval.allSome_map _ _ _ (fun b hb => hc b hb)
  simp only [he, Bool.false_eq_true, if_false, hk, Option.map_some, hn2]
  rfl

/-- **`split`**: the value the body returns is the list of the model's groups `groupsOf` (row numbers as integers). -/
theorem run_split (kinds : String → ColKind) (h : SplitCtx env self bys) :
    runRet kinds env (.ret splitEffs splitRetT) =
      some (.chunks ((groupsOf (nrow self) (gkeys kinds self bys)).map
        (fun g => g.map (fun (k : Nat) => (k : Int))))) := by
  obtain ⟨hk1, hk2, hk3, hk4⟩ := k1_facts h
  obtain ⟨hn1, hn2, hc, hci, hcs⟩ := s2_facts (kinds := kinds) h
  have hby : ∀ st, evalS kinds st env (.sym "by") = some (.strs bys) := fun st => eval_var (by decide) h.hby
  have hstar : ∀ st, HeadsIn st groupHeads → evalS kinds st env (.app "*" [.sym "by"]) = some (.star (.strs bys)) :=
    fun st hst => eval_star hst (hby st)
  -- store 0
  have h0 : HeadsIn ([] : Store) groupHeads := headsIn_nil _
  have e1 : evalS kinds [] env keysT = some (.frame (keysFrame self bys)) := by
    unfold keysT
    rw [evalS_prim (find_nil _) (by decide) (evalArgsS2 (eval_var (by decide) h.hself) (hstar [] h0))]
    show (flatNames [.star (.strs bys)]).bind (fun l => (selectFrame self l).map SVal.frame) = _
    rw [flatNames_star, Option.bind_some, selectFrame_nodup self bys h.hnd h.hnames]; rfl
  have e2 : evalS kinds [] env indexT = some (.ints (arange 0 (nrow self : Nat))) := by
    have := eval_arange_nrow h0 e1
    rwa [nrow_keysFrame h.hrect h.hne h.hnames] at this
  have r1 : runEff kinds env [] (.app "setattr" [keysT, .sym "_index_", indexT]) =
      some [(keysT, .frame (splitK1 self bys))] :=
    runEff_setattr e1 e2 (asCol_arange _) (by
      rw [idxCol_length, nrow_keysFrame h.hrect h.hne h.hnames]; simp)
  -- store 1
  have h1 : HeadsIn [(keysT, SVal.frame (splitK1 self bys))] groupHeads :=
    h0.cons _ _ (by decide)
  have e3 : evalS kinds [(keysT, .frame (splitK1 self bys))] env keysT = some (.frame (splitK1 self bys)) :=
    evalS_stored (find_cons_self _ _ _)
  have e5 : evalS kinds [(keysT, .frame (splitK1 self bys))] env sortedT =
      some (.frame (takeRows (splitK1 self bys) (splitOrder kinds self bys))) := by
    have hf1 : Store.find [(keysT, SVal.frame (splitK1 self bys))] sortedT = none :=
      (find_cons_head_ne (g := ".select") (as := [.sym "self", .app "*" [.sym "by"]]) (by decide)).trans (find_nil _)
    unfold sortedT at hf1 ⊢
    rw [evalS_prim hf1 (by decide) (evalArgsS2 e3 (eval_byOnes h1 (hby _) h.hnd))]
    show (sortFrame kinds (splitK1 self bys) (bys.map (fun k => (k, (1 : Int))))).map SVal.frame = _
    rw [sortFrame_ones kinds (splitK1 self bys) bys h.hne (fun b hb => mem_names_of_colOf? (hk3 b hb)) hk2,
      hk1, gkeys_k1 h]
    rfl
  have e6 : evalS kinds [(keysT, .frame (splitK1 self bys))] env sposT = some (.ints (arange 0 (nrow self : Nat))) := by
    have := eval_arange_nrow h1 e5
    rwa [hn1] at this
  have r2 : runEff kinds env [(keysT, .frame (splitK1 self bys))]
      (.app "setattr" [sortedT, .sym "_sorted_index_", sposT]) =
      some [(sortedT, .frame (splitS2 kinds self bys)), (keysT, .frame (splitK1 self bys))] :=
    runEff_setattr e5 e6 (asCol_arange _) (by rw [idxCol_length, hn1]; simp)
  -- store 2
  have h2 : HeadsIn [(sortedT, SVal.frame (splitS2 kinds self bys)), (keysT, SVal.frame (splitK1 self bys))]
      groupHeads := h1.cons _ _ (by decide)
  generalize hst2 : [(sortedT, SVal.frame (splitS2 kinds self bys)), (keysT, SVal.frame (splitK1 self bys))] = st2
    at r2 h2
  have e7 : evalS kinds st2 env sortedT = some (.frame (splitS2 kinds self bys)) := by
    rw [← hst2]; exact evalS_stored (find_cons_self _ _ _)
  have e8 : evalS kinds st2 env (.app "._index_" [sortedT]) = some (.col (idxCol (splitOrder kinds self bys))) := by
    rw [evalS_prim' h2 (by decide) (evalArgsS1 e7)]
    show (colOf? (splitS2 kinds self bys) "_index_").map SVal.col = _
    rw [hci]; rfl
  have e10 : evalS kinds st2 env uniqT =
      some (.frame (takeRows (splitS2 kinds self bys) (splitStarts kinds self bys))) := by
    unfold uniqT
    rw [evalS_prim' h2 (by decide) (evalArgsS2 e7 (hstar st2 h2))]
    show (uniqueFrame (splitS2 kinds self bys) bys).map SVal.frame = _
    rw [unique_s2 h]; rfl
  have e11 : evalS kinds st2 env (.app "._sorted_index_" [uniqT]) =
      some (.col (idxCol (splitStarts kinds self bys))) := by
    rw [evalS_prim' h2 (by decide) (evalArgsS1 e10)]
    show (colOf? (takeRows (splitS2 kinds self bys) (splitStarts kinds self bys)) "_sorted_index_").map SVal.col = _
    rw [DI.PyEvalX.colOf?_takeRows, hcs]
    simp only [Option.map_some]
    rw [gather_idxCol _ _ (splitStarts_lt kinds self bys)]
  have e12 : evalS kinds st2 env (.app "getitem" [.app "._sorted_index_" [uniqT], .slice (some 1) none]) =
      some (.col (idxCol ((splitStarts kinds self bys).drop 1))) := by
    rw [evalS_prim' h2 (by decide) (evalArgsS2 e11 (by rw [evalS]))]
    show some (SVal.col (pySlice (idxCol (splitStarts kinds self bys)) (some 1) none)) = _
    rw [pySlice_one]
    simp [idxCol]
  have e13 : evalS kinds st2 env splitRetT =
      some (.chunks ((groupsOf (nrow self) (gkeys kinds self bys)).map (fun g => g.map (fun (k : Nat) => (k : Int))))) := by
    unfold splitRetT
    rw [evalS_prim' h2 (by decide) (evalArgsS2 e8 e12)]
    show (match asInts (.col (idxCol (splitOrder kinds self bys))),
        asInts (.col (idxCol ((splitStarts kinds self bys).drop 1))) with
      | some arr, some cuts => (natCuts cuts).map (fun cs => SVal.chunks (npSplit arr cs))
      | _, _ => none) = _
    simp only [asInts, cellsToInts_idxCol, natCuts_nat, Option.map_some]
    rw [npSplit_map, npSplit_eq_splitAt, groupsOf_eq_splitAt]
  simp only [runRet, splitEffs, runEffs, r1, r2, e13]

end Split

/-! ### the grouping part of `aggregate` -/

def gT : Term := .app "._group_colnames" [.sym "self"]
def dataT : Term := .app ".sort" [.sym "self", DI.Tie.C04.byOnes gT]
def aindexT : Term := .app "np.arange" [.app ".nrow" [dataT]]
def aggEff0 : Term := .app "setattr" [dataT, .sym "_index_", aindexT]
def statT : Term := .app ".select" [.app ".unique" [dataT, .app "*" [gT]], .sym "'_index_'", .app "*" [gT]]
def aggResT : Term := .app ".unselect" [statT, .sym "'_index_'", .sym "'_group_'"]
/-- `indices` when the summary has rows … -/
def aggSplitT : Term :=
  .app "np.split" [aindexT, .app "getitem" [.app "._index_" [statT], .slice (some 1) none]]
/-- … and when it has none. -/
def aggEmptyT : Term := .app "list" []

/-- the hypotheses of `aggregate_groups_eval`: the receiver and its group column names are bound; at least one name,
    distinct, all of them columns, none of them one of the two bookkeeping names; every column has `nrow` cells. -/
structure AggCtx (env : Env) (fr : Frame) (bys : List String) : Prop where
  hself : Env.get? env "self" = some (.frame fr)
  hg : Env.get? env "self._group_colnames" = some (.strs bys)
  hne : bys ≠ []
  hnd : bys.Nodup
  hnames : ∀ b ∈ bys, b ∈ names fr
  hres : "_index_" ∉ bys ∧ "_group_" ∉ bys
  hrect : Rect fr

section Agg

variable {kinds : String → ColKind} {env : Env} {self : Frame} {bys : List String}

/-- the sorted frame, its rows numbered. -/
def aggD1 (kinds : String → ColKind) (self : Frame) (bys : List String) : Frame :=
  dictPut (takeRows self (splitOrder kinds self bys)) "_index_" (idxCol (List.range (nrow self)))

/-- the original row number of the first row of every group. -/
def firstRows (kinds : String → ColKind) (self : Frame) (bys : List String) : List Nat :=
  gather (splitOrder kinds self bys) (splitStarts kinds self bys)

theorem d1_facts (h : AggCtx env self bys) :
    nrow (takeRows self (splitOrder kinds self bys)) = nrow self ∧
    nrow (aggD1 kinds self bys) = nrow self ∧
    (∀ b ∈ bys, colOf? (aggD1 kinds self bys) b = some (gather (colOf self b) (splitOrder kinds self bys))) ∧
    colOf? (aggD1 kinds self bys) "_index_" = some (idxCol (List.range (nrow self))) := by
  have hne0 : self ≠ [] := DI.PyEvalX.ne_nil_of_names h.hne h.hnames
  have hn0 : nrow (takeRows self (splitOrder kinds self bys)) = nrow self := by
    rw [DI.PyEvalX.nrow_takeRows hne0, splitOrder_length]
  have hl : (idxCol (List.range (nrow self))).length = nrow (takeRows self (splitOrder kinds self bys)) := by
    rw [idxCol_length, hn0]; simp
  refine ⟨hn0, by rw [aggD1, nrow_dictPut _ _ _ hl, hn0], ?_, ?_⟩
  · intro b hb
    have hbi : ("_index_" == b) = false := by
      have : ¬ "_index_" = b := fun e => h.hres.1 (e ▸ hb)
      simpa using this
    rw [aggD1, colOf?_dictPut, hbi]
    simp only [Bool.false_eq_true, if_false]
    rw [DI.PyEvalX.colOf?_takeRows, DI.PyEval.colOf?_of_name (h.hnames b hb)]; rfl
  · rw [aggD1, colOf?_dictPut]; simp

theorem unique_d1 (h : AggCtx env self bys) :
    uniqueFrame (aggD1 kinds self bys) bys = some (takeRows (aggD1 kinds self bys) (splitStarts kinds self bys)) := by
  obtain ⟨_, hn1, hc, _⟩ := d1_facts (kinds := kinds) h
  unfold uniqueFrame
  have he : bys.isEmpty = false := by
    cases hb : bys with
    | nil => exact absurd hb h.hne
    | cons _ _ => rfl
  have hk : keyCols (aggD1 kinds self bys) bys =
      some ((gkeys kinds self bys).map (fun k => gather k.2 (splitOrder kinds self bys))) := by
    unfold keyCols gkeys
    rw [List.map_map]
    exact DI.PyEval.allSome_map _ _ _ (fun b hb => hc b hb)
  simp only [he, Bool.false_eq_true, if_false, hk, Option.map_some, hn1]
  rfl

/-- the summary frame `stat`: the group starts and the key cells of the first row of every group. -/
def aggStat (kinds : String → ColKind) (self : Frame) (bys : List String) : Frame :=
  ("_index_", idxCol (splitStarts kinds self bys)) ::
    bys.map (fun b => (b, gather (colOf self b) (firstRows kinds self bys)))

theorem splitStarts_lt_order (kinds : String → ColKind) (self : Frame) (bys : List String) :
    ∀ k ∈ splitStarts kinds self bys, k < (splitOrder kinds self bys).length := by
  intro k hk; rw [splitOrder_length]; exact splitStarts_lt kinds self bys k hk

theorem select_stat (h : AggCtx env self bys) :
    selectFrame (takeRows (aggD1 kinds self bys) (splitStarts kinds self bys)) ("_index_" :: bys) =
      some (aggStat kinds self bys) := by
  obtain ⟨_, _, hc, hci⟩ := d1_facts (kinds := kinds) h
  have hu1 : colOf? (takeRows (aggD1 kinds self bys) (splitStarts kinds self bys)) "_index_" =
      some (idxCol (splitStarts kinds self bys)) := by
    rw [DI.PyEvalX.colOf?_takeRows, hci]
    simp only [Option.map_some]
    rw [gather_idxCol _ _ (splitStarts_lt kinds self bys)]
  have hu2 : ∀ b ∈ bys, colOf? (takeRows (aggD1 kinds self bys) (splitStarts kinds self bys)) b =
      some (gather (colOf self b) (firstRows kinds self bys)) := by
    intro b hb
    rw [DI.PyEvalX.colOf?_takeRows, hc b hb]
    simp only [Option.map_some]
    rw [DI.PyEvalX.gather_gather _ _ _ (splitStarts_lt_order kinds self bys)]
    rfl
  rw [selectFrame_nodup _ _ (List.nodup_cons.mpr ⟨h.hres.1, h.hnd⟩) (by
    intro b hb
    rcases List.mem_cons.mp hb with rfl | hb
    · exact mem_names_of_colOf? hu1
    · exact mem_names_of_colOf? (hu2 b hb))]
  unfold keysFrame aggStat
  rw [List.map_cons, colOf_of_colOf? hu1]
  congr 2
  apply List.map_congr_left
  intro b hb
  rw [colOf_of_colOf? (hu2 b hb)]

theorem unselect_stat (h : AggCtx env self bys) :
    unselectFrame (aggStat kinds self bys) ["_index_", "_group_"] =
      bys.map (fun b => (b, gather (colOf self b) (firstRows kinds self bys))) := by
  unfold unselectFrame aggStat
  rw [List.filter_cons]
  have : (!["_index_", "_group_"].contains "_index_") = false := by decide
  simp only [this, Bool.false_eq_true, if_false]
  rw [List.filter_eq_self]
  intro p hp
  obtain ⟨b, hb, rfl⟩ := List.mem_map.mp hp
  have h1 : b ≠ "_index_" := fun e => h.hres.1 (e ▸ hb)
  have h2 : b ≠ "_group_" := fun e => h.hres.2 (e ▸ hb)
  simp [h1, h2]

/-- **the grouping part of `aggregate`**: after `data._index_ = np.arange(data.nrow)` the summary `stat` is `aggStat`, the
    returned frame (`stat` without the bookkeeping columns) has the group columns, every one holding the key cells of the
    FIRST row of every group (`firstRows`); with rows in `stat`, `indices` are the sorted positions cut at the group starts,
    without rows `indices` is the empty list. -/
theorem run_aggregate_groups (kinds : String → ColKind) (h : AggCtx env self bys) :
    ∃ st, runEffs kinds env [] [aggEff0] = some st ∧
      evalS kinds st env aggResT =
        some (.frame (bys.map (fun b => (b, gather (colOf self b) (firstRows kinds self bys))))) ∧
      evalS kinds st env (.app "Gt" [.app ".nrow" [statT], .int 0]) =
        some (.bool (decide (0 < (splitStarts kinds self bys).length))) ∧
      evalS kinds st env aggSplitT =
        some (.chunks ((splitAt (List.range (nrow self)) (splitStarts kinds self bys)).map
          (fun g => g.map (fun (k : Nat) => (k : Int))))) ∧
      evalS kinds st env aggEmptyT = some (.chunks []) := by
  obtain ⟨hn0, hn1, hc, hci⟩ := d1_facts (kinds := kinds) h
  have h0 : HeadsIn ([] : Store) groupHeads := headsIn_nil _
  have hg : ∀ st, HeadsIn st groupHeads → evalS kinds st env gT = some (.strs bys) := by
    intro st hst
    unfold gT
    rw [evalS_group_colnames kinds st env (find_none_of_heads hst (by decide) _), h.hg]
  have hstar : ∀ st, HeadsIn st groupHeads → evalS kinds st env (.app "*" [gT]) = some (.star (.strs bys)) :=
    fun st hst => eval_star hst (hg st hst)
  have e1 : evalS kinds [] env dataT = some (.frame (takeRows self (splitOrder kinds self bys))) := by
    unfold dataT
    rw [evalS_prim (find_nil _) (by decide)
      (evalArgsS2 (eval_var (by decide) h.hself) (eval_byOnes h0 (hg [] h0) h.hnd))]
    show (sortFrame kinds self (bys.map (fun k => (k, (1 : Int))))).map SVal.frame = _
    rw [sortFrame_ones kinds self bys h.hne h.hnames h.hrect]
    rfl
  have e2 : evalS kinds [] env aindexT = some (.ints (arange 0 (nrow self : Nat))) := by
    have := eval_arange_nrow h0 e1
    rwa [hn0] at this
  have r1 : runEff kinds env [] aggEff0 = some [(dataT, .frame (aggD1 kinds self bys))] :=
    runEff_setattr e1 e2 (asCol_arange _) (by rw [idxCol_length, hn0]; simp)
  have h1 : HeadsIn [(dataT, SVal.frame (aggD1 kinds self bys))] groupHeads := h0.cons _ _ (by decide)
  generalize hst1 : [(dataT, SVal.frame (aggD1 kinds self bys))] = st1 at r1 h1
  have e3 : evalS kinds st1 env dataT = some (.frame (aggD1 kinds self bys)) := by
    rw [← hst1]; exact evalS_stored (find_cons_self _ _ _)
  have e4 : evalS kinds st1 env aindexT = some (.ints (arange 0 (nrow self : Nat))) := by
    have := eval_arange_nrow h1 e3
    rwa [hn1] at this
  have e5 : evalS kinds st1 env (.app ".unique" [dataT, .app "*" [gT]]) =
      some (.frame (takeRows (aggD1 kinds self bys) (splitStarts kinds self bys))) := by
    rw [evalS_prim' h1 (by decide) (evalArgsS2 e3 (hstar st1 h1))]
    show (uniqueFrame (aggD1 kinds self bys) bys).map SVal.frame = _
    rw [unique_d1 h]; rfl
  have hq : evalS kinds st1 env (.sym "'_index_'") = some (.str "_index_") := by unfold evalS; rfl
  have hq2 : evalS kinds st1 env (.sym "'_group_'") = some (.str "_group_") := by unfold evalS; rfl
  have e6 : evalS kinds st1 env statT = some (.frame (aggStat kinds self bys)) := by
    have hf : Store.find st1 statT = none := by
      rw [← hst1]
      exact (find_cons_head_ne (g := ".sort") (as := [.sym "self", DI.Tie.C04.byOnes gT]) (by decide)).trans (find_nil _)
    unfold statT at hf ⊢
    rw [evalS_prim hf (by decide) (evalArgsS3 e5 hq (hstar st1 h1))]
    show (flatNames [.str "_index_", .star (.strs bys)]).bind
      (fun l => (selectFrame (takeRows (aggD1 kinds self bys) (splitStarts kinds self bys)) l).map SVal.frame) = _
    rw [flatNames_str_star, Option.bind_some, select_stat h]; rfl
  have e7 : evalS kinds st1 env aggResT =
      some (.frame (bys.map (fun b => (b, gather (colOf self b) (firstRows kinds self bys))))) := by
    unfold aggResT
    rw [evalS_prim' h1 (by decide) (evalArgsS3 e6 hq hq2)]
    show (flatNames [.str "_index_", .str "_group_"]).map
      (fun l => SVal.frame (unselectFrame (aggStat kinds self bys) l)) = _
    rw [flatNames_str_str, Option.map_some, unselect_stat h]
  have e8 : evalS kinds st1 env (.app "Gt" [.app ".nrow" [statT], .int 0]) =
      some (.bool (decide (0 < (splitStarts kinds self bys).length))) := by
    rw [evalS_prim' h1 (by decide) (evalArgsS2 (eval_nrow h1 e6) (by rw [evalS]))]
    show some (SVal.bool (decide (((nrow (aggStat kinds self bys) : Nat) : Int) > 0))) = _
    simp [aggStat, nrow, idxCol_length]
  have e9 : evalS kinds st1 env (.app "getitem" [.app "._index_" [statT], .slice (some 1) none]) =
      some (.col (idxCol ((splitStarts kinds self bys).drop 1))) := by
    have : evalS kinds st1 env (.app "._index_" [statT]) = some (.col (idxCol (splitStarts kinds self bys))) := by
      rw [evalS_prim' h1 (by decide) (evalArgsS1 e6)]
      show (colOf? (aggStat kinds self bys) "_index_").map SVal.col = _
      rw [aggStat, DI.PyEval.colOf?_cons]; rfl
    rw [evalS_prim' h1 (by decide) (evalArgsS2 this (by rw [evalS]))]
    show some (SVal.col (pySlice (idxCol (splitStarts kinds self bys)) (some 1) none)) = _
    rw [pySlice_one]
    simp [idxCol]
  have e10 : evalS kinds st1 env aggSplitT =
      some (.chunks ((splitAt (List.range (nrow self)) (splitStarts kinds self bys)).map
        (fun g => g.map (fun (k : Nat) => (k : Int))))) := by
    unfold aggSplitT
    rw [evalS_prim' h1 (by decide) (evalArgsS2 e4 e9)]
    show (match asInts (.ints (arange 0 (nrow self : Nat))),
        asInts (.col (idxCol ((splitStarts kinds self bys).drop 1))) with
      | some arr, some cuts => (natCuts cuts).map (fun cs => SVal.chunks (npSplit arr cs))
      | _, _ => none) = _
    simp only [asInts, arange_nat, cellsToInts_idxCol, natCuts_nat, Option.map_some]
    rw [npSplit_map, npSplit_eq_splitAt]
  have e11 : evalS kinds st1 env aggEmptyT = some (.chunks []) := by
    unfold aggEmptyT
    rw [evalS_prim' h1 (by decide) (evalArgsS_nil kinds st1 env)]; rfl
  exact ⟨st1, by simp only [runEffs, r1], e7, e8, e10, e11⟩

/-- the position chunks, read through the sort permutation, are the model's groups. -/
theorem agg_chunks_are_groups (kinds : String → ColKind) (self : Frame) (bys : List String) :
    (splitAt (List.range (nrow self)) (splitStarts kinds self bys)).map (fun c => gather (splitOrder kinds self bys) c) =
      groupsOf (nrow self) (gkeys kinds self bys) := by
  have := splitAt_positions (splitOrder kinds self bys) (splitStarts kinds self bys)
  rw [splitOrder_length] at this
  rw [this, groupsOf_eq_splitAt]

theorem splitStarts_eq (kinds : String → ColKind) (self : Frame) (bys : List String) :
    splitStarts kinds self bys = uniqueScan (sortedRows (nrow self) (gkeys kinds self bys)) 0 [] := rfl

/-- with rows there is a group, and the first one starts at sorted position 0. -/
theorem splitStarts_head (kinds : String → ColKind) (self : Frame) (bys : List String) (hn : 0 < nrow self) :
    (splitStarts kinds self bys).head? = some 0 := by
  have h0 : 0 ∈ splitStarts kinds self bys := by
    rw [splitStarts_eq]
    exact (mem_uniqueScan_zero _ 0).mpr
      ⟨by rw [sortedRows_length]; exact hn, fun j' h' => absurd h' (Nat.not_lt_zero _)⟩
  have hs := uniqueIdx_sorted (nrow self)
    ((gkeys kinds self bys).map (fun k => gather k.2 (splitOrder kinds self bys)))
  change (splitStarts kinds self bys).Pairwise (· < ·) at hs
  cases hst : splitStarts kinds self bys with
  | nil => rw [hst] at h0; cases h0
  | cons s rest =>
    rw [hst] at h0 hs
    rcases List.mem_cons.mp h0 with e | e
    · rw [← e]; rfl
    · have := (List.pairwise_cons.mp hs).1 0 e; omega

/-- without rows there is no start. -/
theorem splitStarts_empty (kinds : String → ColKind) (self : Frame) (bys : List String) (hn : nrow self = 0) :
    splitStarts kinds self bys = [] := by
  cases hst : splitStarts kinds self bys with
  | nil => rfl
  | cons s rest =>
    have := splitStarts_lt kinds self bys s (by rw [hst]; exact List.mem_cons_self)
    omega

/-- **the summary rows are the first rows of the model's groups**, in the order of the groups. -/
theorem firstRows_heads (kinds : String → ColKind) (self : Frame) (bys : List String) (hn : 0 < nrow self) :
    firstRows kinds self bys = (groupsOf (nrow self) (gkeys kinds self bys)).map (fun g => g.head!) := by
  rw [groupsOf_eq_splitAt, splitAt_heads _ _ (splitStarts_head kinds self bys hn)]
  · rfl
  · rw [splitOrder_length, splitStarts_eq]
    exact starts_with_end_sorted (nrow self) (gkeys kinds self bys)

end Agg

/-! ### corollaries for `Proofs/EvalC04.lean` -/

/-- the group keys are well formed for the model when the numeric key columns are integer-coded. -/
theorem gkeys_wf (kinds : String → ColKind) (self : Frame) (bys : List String) (hn : ∀ b ∈ bys, b ∈ names self)
    (hr : Rect self) (hcoded : ∀ b ∈ bys, (kinds b).isNumber = true → IntCoded (colOf self b)) :
    WfKeys (nrow self) (ascKeys (gkeys kinds self bys)) := by
  intro k hk
  simp only [ascKeys, gkeys, List.map_map, List.mem_map, Function.comp] at hk
  obtain ⟨b, hb, rfl⟩ := hk
  exact ⟨DI.PyEval.colOf_length hr (hn b hb), hcoded b hb⟩

/-- **`split()` without names**: the key frame has no columns, its `sort()` gets no key — the TypeError of
    `np.lexsort(())`. -/
theorem run_split_no_keys (kinds : String → ColKind) (env : Env) (self : Frame)
    (hself : Env.get? env "self" = some (.frame self)) (hby : Env.get? env "by" = some (.strs [])) :
    runRet kinds env (.ret splitEffs splitRetT) = none := by
  have h0 : HeadsIn ([] : Store) groupHeads := headsIn_nil _
  have hbyv : ∀ st, evalS kinds st env (.sym "by") = some (.strs []) := fun st => eval_var (by decide) hby
  have e1 : evalS kinds [] env keysT = some (.frame []) := by
    unfold keysT
    rw [evalS_prim (find_nil _) (by decide)
      (evalArgsS2 (eval_var (by decide) hself) (eval_star h0 (hbyv [])))]
    rfl
  have e2 : evalS kinds [] env indexT = some (.ints (arange 0 ((0 : Nat) : Int))) := eval_arange_nrow h0 e1
  have r1 : runEff kinds env [] (.app "setattr" [keysT, .sym "_index_", indexT]) =
      some [(keysT, .frame (dictPut [] "_index_" (idxCol (List.range 0))))] :=
    runEff_setattr e1 e2 (asCol_arange 0) rfl
  have h1 : HeadsIn [(keysT, SVal.frame (dictPut [] "_index_" (idxCol (List.range 0))))] groupHeads :=
    h0.cons _ _ (by decide)
  have e5 : evalS kinds [(keysT, SVal.frame (dictPut [] "_index_" (idxCol (List.range 0))))] env sortedT = none := by
    have hf1 : Store.find [(keysT, SVal.frame (dictPut [] "_index_" (idxCol (List.range 0))))] sortedT = none :=
      (find_cons_head_ne (g := ".select") (as := [.sym "self", .app "*" [.sym "by"]]) (by decide)).trans (find_nil _)
    unfold sortedT at hf1 ⊢
    rw [evalS_prim hf1 (by decide) (evalArgsS2 (evalS_stored (find_cons_self _ _ _))
      (eval_byOnes h1 (hbyv _) List.nodup_nil))]
    rfl
  have r2 : runEff kinds env [(keysT, SVal.frame (dictPut [] "_index_" (idxCol (List.range 0))))]
      (.app "setattr" [sortedT, .sym "_sorted_index_", sposT]) = none := by
    rw [runEff, e5]
  simp only [runRet, splitEffs, runEffs, r1, r2]

/-- the key tuple of the first row of group `g1` is strictly before that of group `g2 > g1`. -/
theorem firstRows_ascending (kinds : String → ColKind) (self : Frame) (bys : List String)
    (hwf : WfKeys (nrow self) (ascKeys (gkeys kinds self bys))) (hn : 0 < nrow self)
    (g1 g2 : Nat) (h12 : g1 < g2) (h2 : g2 < (firstRows kinds self bys).length) :
    leLexBy (specLts (ascKeys (gkeys kinds self bys))) (keyRow (gkeys kinds self bys) (firstRows kinds self bys)[g1]!)
        (keyRow (gkeys kinds self bys) (firstRows kinds self bys)[g2]!) = true ∧
    leLexBy (specLts (ascKeys (gkeys kinds self bys))) (keyRow (gkeys kinds self bys) (firstRows kinds self bys)[g2]!)
        (keyRow (gkeys kinds self bys) (firstRows kinds self bys)[g1]!) = false ∧
    keyRow (gkeys kinds self bys) (firstRows kinds self bys)[g1]! ≠
      keyRow (gkeys kinds self bys) (firstRows kinds self bys)[g2]! := by
  have hf := firstRows_heads kinds self bys hn
  have hlen : (firstRows kinds self bys).length = (groupsOf (nrow self) (gkeys kinds self bys)).length := by
    rw [hf]; simp
  have hmem : ∀ g, g < (groupsOf (nrow self) (gkeys kinds self bys)).length →
      (firstRows kinds self bys)[g]! ∈ (groupsOf (nrow self) (gkeys kinds self bys))[g]! := by
    intro g hg
    rw [hf, map_get! _ _ g hg]
    have hne := groupsOf_nonempty (nrow self) (gkeys kinds self bys) hwf hn
      ((groupsOf (nrow self) (gkeys kinds self bys))[g]!) (by
        rw [getElem!_pos _ g hg]; exact List.getElem_mem _)
    cases hgg : (groupsOf (nrow self) (gkeys kinds self bys))[g]! with
    | nil => exact absurd hgg hne
    | cons a t => exact List.mem_cons_self
  exact groupsOf_ascending (nrow self) (gkeys kinds self bys) hwf g1 g2 h12 (by omega) _ _
    (hmem g1 (by omega)) (hmem g2 (by omega))

end DI.PyEvalS

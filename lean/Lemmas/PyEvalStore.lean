/-
  Lemmas/PyEvalStore.lean — the evaluator of `Model/PyEvalStore.lean`, run on the translated `__setitem__` /
  `_reconcile_column` / `DataFrameColumn.__new__` / `__delitem__` / `pop` (`Generated/CodeC01.lean`), computes the model's
  `FS.setitem` / `FS.delitem` (`Model/FrameState.lean`), step by step and over every history (C01).
  Cited by `Proofs/EvalC01.lean`.
-/
import Model.PyEvalStore
import Lemmas.FrameState

namespace DI.PyEvalStore

open DI DI.Py DI.FS DI.Gen

/-! ### the answers of `truthOf` -/

variable (nm : Names) (s : State) (k : String) (b : Bool)

theorem truth_self : truthOf nm s k b (Term.sym "self") = !s.cols.isEmpty := rfl
theorem truth_isinstance :
    truthOf nm s k b (Term.app "isinstance" [Term.sym "column", Term.sym "DataFrameColumn"]) = b := rfl
theorem truth_hasattr' : truthOf nm s k b (Term.app ".__hasattr" [Term.sym "self", Term.sym "key"]) = hasNonColumnAttr nm s k := rfl
theorem truth_ident : truthOf nm s k b (Term.app ".isidentifier" [Term.sym "key"]) = nm.ident k := rfl
theorem truth_hasattr : truthOf nm s k b (Term.app "hasattr" [Term.sym "self", Term.sym "key"]) =
    (nm.classAttr k || s.attrs.contains k || s.has k) := rfl
theorem truth_builtin : truthOf nm s k b (Term.app ".__is_builtin_attr" [Term.sym "self", Term.sym "key"]) = nm.classAttr k := rfl

/-! ### `DataFrameColumn.__new__` -/

/-- the broadcast rule, evaluated: `DataFrameColumn(value, nrow=…)` stores what the model's `FS.column` stores. -/
theorem columnNew_eq (truth : Term → Bool) (v : Value) (nrow : Option Nat) :
    columnNew truth v (nrow.map (fun (n : Nat) => (n : Int))) = FS.column v.shape nrow := by
  unfold columnNew
  cases hv : v.vectorLen with
  | none =>
    cases v <;> simp [Value.vectorLen] at hv
    simp [Value.shape, FS.column]
  | some len =>
    have hsh : FS.column v.shape nrow = FS.column (.seq len) nrow := by
      cases v <;> simp [Value.vectorLen] at hv <;> subst hv <;> simp [Value.shape, FS.column, Shape.length]
    rw [hsh]
    simp only [Option.bind_some]
    unfold DataFrameColumn_new FS.column
    cases nrow with
    | none => simp [viewLen, Shape.length]
    | some n =>
      simp only [Option.map_some, Option.isNone_some, Option.getD_some, Bool.not_false, Bool.true_and]
      by_cases h1 : n = len
      · subst h1; simp [viewLen, Shape.length]
      · have h1' : ((n : Int) ≠ (len : Int)) := by omega
        by_cases h2 : len = 1
        · subst h2
          have h1'' : ¬ ((n : Int) = 1) := by omega
          by_cases h3 : n < 1
          · have : ((n : Int) < 1) := by omega
            simp [viewLen, Shape.length, h1, h1'', h3, this]
          · have : ¬ ((n : Int) < 1) := by omega
            simp [viewLen, Shape.length, h1, h1'', h3, this]
        · have h2' : ((len : Int) ≠ 1) := by omega
          simp [viewLen, Shape.length, h1, h1', h2, h2']

/-! ### `_reconcile_column` -/

theorem column_seq_self (n : Nat) (nrow : Option Nat) (h : ∀ m, nrow = some m → m = n) :
    FS.column (.seq n) nrow = some n := by
  unfold FS.column
  cases nrow with
  | none => rfl
  | some m => have := h m rfl; subst this; simp [Shape.length]

/-- `self._reconcile_column(value)`, evaluated: the model's `FS.column` at `nrow = None` for a frame without columns and
    at the frame's row count otherwise. -/
theorem reconcile_eq (v : Value) :
    reconcile (truthOf nm s k v.isColumn) s v =
      FS.column v.shape (if s.cols.isEmpty then none else some s.nrow) := by
  unfold reconcile DataFrame_reconcile_column
  simp only [truth_isinstance, truth_self]
  have hnew : ∀ (t : Term → Bool),
      (nrowArg (if (!s.cols.isEmpty) = true then Term.int (s.nrow : Int) else Term.sym "None")).bind (columnNew t v) =
        FS.column v.shape (if s.cols.isEmpty then none else some s.nrow) := by
    intro t
    rw [← columnNew_eq t]
    cases s.cols.isEmpty <;> simp [nrowArg]
  cases v with
  | column n =>
    simp only [Value.isColumn, if_true, Value.vectorLen, Option.bind_some]
    by_cases h : n = s.nrow
    · have h' : ((n : Int) = (s.nrow : Int)) := by omega
      simp only [h', decide_true, if_true, Value.shape]
      rw [column_seq_self]
      intro m hm
      cases he : s.cols.isEmpty <;> simp [he] at hm
      omega
    · have h' : ¬ ((n : Int) = (s.nrow : Int)) := by omega
      simp only [h', decide_false, Bool.false_eq_true, if_false]
      exact hnew _
  | vector n =>
    simp only [Value.isColumn, Bool.false_eq_true, if_false, Option.bind_some]
    exact hnew _
  | scalar =>
    simp only [Value.isColumn, Bool.false_eq_true, if_false, Option.bind_some]
    exact hnew _
  | nd c =>
    cases c
    · simp only [Value.isColumn, Bool.false_eq_true, if_false, Option.bind_some]
      exact hnew _
    · simp [Value.isColumn, Value.vectorLen, Value.shape, FS.column]

/-! ### `__setitem__` -/

/-- the tests the three methods make. -/
def tHasattr' : Term := Term.app ".__hasattr" [Term.sym "self", Term.sym "key"]
def tIdent : Term := Term.app ".isidentifier" [Term.sym "key"]
def tHasattr : Term := Term.app "hasattr" [Term.sym "self", Term.sym "key"]
def tBuiltin : Term := Term.app ".__is_builtin_attr" [Term.sym "self", Term.sym "key"]
def ePlaceholder : Term := Term.app "super().__setattr__" [Term.sym "key", Term.app ".COLUMN_PLACEHOLDER" [Term.sym "self"]]
def eDelattr : Term := Term.app "super().__delattr__" [Term.sym "key"]

/-- `__setitem__` as translated, for every interpretation of its tests. -/
theorem setitem_code (truth : Term → Bool) :
    DataFrame_setitem truth = Out.ret (if (!truth tHasattr' && truth tIdent) = true then [ePlaceholder] else [])
      (Term.app "super().__setitem__" [Term.sym "key", Term.app "._reconcile_column" [Term.sym "self", Term.sym "value"]]) := by
  unfold DataFrame_setitem tHasattr' tIdent ePlaceholder
  cases truth (Term.app ".__hasattr" [Term.sym "self", Term.sym "key"]) <;>
    cases truth (Term.app ".isidentifier" [Term.sym "key"]) <;> rfl

/-- the placeholder effect of `__setitem__` is the model's `addPlaceholder`. -/
theorem setitem_effs_eq :
    evalEffs k (if (!truthOf nm s k b tHasattr' && truthOf nm s k b tIdent) = true then [ePlaceholder] else []) s =
      some (addPlaceholder nm s k) := by
  show evalEffs k (if (!hasNonColumnAttr nm s k && nm.ident k) = true then [ePlaceholder] else []) s = _
  unfold addPlaceholder ePlaceholder
  by_cases hm : k ∈ s.attrs <;> cases h1 : hasNonColumnAttr nm s k <;> cases h2 : nm.ident k <;>
    simp [evalEffs, evalEff, hm]

/-- **`data[k] = v`, evaluated** = the model's `FS.setitem`. -/
theorem evalSetitem_eq (v : Value) : evalSetitem nm s k v = FS.setitem nm s k v.shape := by
  unfold evalSetitem FS.setitem
  simp only [setitem_code, reconcile_eq, setitem_effs_eq, Option.map_some]
  cases FS.column v.shape (if s.cols.isEmpty then none else some s.nrow) with
  | none => rfl
  | some n => simp [dictSet]

/-! ### `__delitem__` and `pop` -/

theorem has_filter_ne : (({ s with cols := s.cols.filter (fun c => c.1 != k) } : State).has k) = false := by
  simp only [State.has, List.any_filter]
  rw [List.any_eq_false]
  intro c _
  cases h : c.1 == k <;> simp [h, bne]

theorem filter_ne_of_not_mem (l : List String) (h : k ∉ l) : l.filter (· != k) = l := by
  rw [List.filter_eq_self]
  intro a ha
  have : a ≠ k := fun e => h (e ▸ ha)
  simpa [bne_iff_ne] using this

theorem delitem_code (truth : Term → Bool) :
    DataFrame_delitem truth = Out.ret (if (truth tHasattr && !truth tBuiltin) = true then [eDelattr] else [])
      (Term.app "super().__delitem__" [Term.sym "key"]) := by
  unfold DataFrame_delitem tHasattr tBuiltin eDelattr
  cases truth (Term.app "hasattr" [Term.sym "self", Term.sym "key"]) <;>
    cases truth (Term.app ".__is_builtin_attr" [Term.sym "self", Term.sym "key"]) <;> rfl

theorem pop_code (truth : Term → Bool) :
    DataFrame_pop truth = Out.ret (if (truth tHasattr && !truth tBuiltin) = true then [eDelattr] else [])
      (Term.app "super().pop" [Term.sym "key", Term.app "*" [Term.sym "args"], Term.app "=**" [Term.sym "kwargs"]]) := by
  unfold DataFrame_pop tHasattr tBuiltin eDelattr
  cases truth (Term.app "hasattr" [Term.sym "self", Term.sym "key"]) <;>
    cases truth (Term.app ".__is_builtin_attr" [Term.sym "self", Term.sym "key"]) <;> rfl

/-- the clean-up effect of `__delitem__` / `pop`, run after the dict deletion, is the model's `dropAttr`. -/
theorem del_effs_eq (s1 : State) (h : s1.has k = false) :
    evalEffs k (if (truthOf nm s1 k b tHasattr && !truthOf nm s1 k b tBuiltin) = true then [eDelattr] else []) s1 =
      some (dropAttr nm s1 k) := by
  show evalEffs k (if ((nm.classAttr k || s1.attrs.contains k || s1.has k) && !nm.classAttr k) = true
    then [eDelattr] else []) s1 = _
  unfold dropAttr eDelattr
  rw [h]
  by_cases hm : k ∈ s1.attrs <;> cases h1 : nm.classAttr k <;> simp [evalEffs, evalEff, hm]
  rw [filter_ne_of_not_mem k s1.attrs hm]

/-- **`del data[k]`, evaluated** = the model's `FS.delitem`. -/
theorem evalDelitem_eq : evalDelitem nm s k = FS.delitem nm s k := by
  unfold evalDelitem FS.delitem dictDel
  cases hk : s.has k with
  | false => simp
  | true =>
    simp only [if_true, Option.bind_some, delitem_code]
    rw [del_effs_eq nm k false _ (has_filter_ne s k)]

/-- **`data.pop(k)`, evaluated** = the model's `FS.delitem`. -/
theorem evalPop_eq : evalPop nm s k = FS.delitem nm s k := by
  unfold evalPop FS.delitem dictDel
  cases hk : s.has k with
  | false => simp
  | true =>
    simp only [if_true, Option.bind_some, pop_code]
    rw [del_effs_eq nm k false _ (has_filter_ne s k)]

/-! ### histories -/

theorem stepCode_eq (op : COp) : stepCode nm s op = FS.step nm s op.toModel := by
  cases op with
  | setitem k v => exact evalSetitem_eq nm s k v
  | delitem k => exact evalDelitem_eq nm s k
  | pop k => exact evalPop_eq nm s k

theorem runCode_eq (ops : List COp) :
    runCode nm s ops = (ops.map COp.toModel).foldl (fun st op => (FS.step nm st op).getD st) s := by
  unfold runCode
  induction ops generalizing s with
  | nil => rfl
  | cons op ops ih => simp only [List.foldl_cons, List.map_cons]; rw [stepCode_eq]; exact ih _

/-! ### what a store does, explicitly -/

/-- the dict after `d[k] = <column of n elements>`: an existing key keeps its position, a new key goes last. -/
def put (cols : List (String × Nat)) (k : String) (n : Nat) : List (String × Nat) :=
  if cols.any (fun c => c.1 == k) then cols.map (fun c => if c.1 == k then (k, n) else c) else cols ++ [(k, n)]

/-- the row count `_reconcile_column` broadcasts to: `None` for a frame without columns. -/
def nrowOf (s : State) : Option Nat := if s.cols.isEmpty then none else some s.nrow

theorem evalSetitem_explicit (v : Value) :
    evalSetitem nm s k v =
      (FS.column v.shape (nrowOf s)).map fun n => { cols := put s.cols k n, attrs := (addPlaceholder nm s k).attrs } := by
  rw [evalSetitem_eq]
  unfold FS.setitem nrowOf
  dsimp only
  cases FS.column v.shape (if s.cols.isEmpty then none else some s.nrow) with
  | none => rfl
  | some n =>
    have hc : (addPlaceholder nm s k).cols = s.cols := by unfold addPlaceholder; split <;> rfl
    simp only [Option.map_some, State.has, put, hc]
    by_cases ha : s.cols.any (fun c => c.1 == k) = true
    · simp only [ha, if_true]
    · simp only [ha, if_false, Bool.false_eq_true]

theorem put_names (cols : List (String × Nat)) (k : String) (n : Nat) :
    (put cols k n).map (·.1) = if k ∈ cols.map (·.1) then cols.map (·.1) else cols.map (·.1) ++ [k] := by
  unfold put
  by_cases h : cols.any (fun c => c.1 == k) = true
  · have hm : k ∈ cols.map (·.1) := by
      obtain ⟨c, hc, he⟩ := List.any_eq_true.mp h
      exact List.mem_map.mpr ⟨c, hc, by simpa using he⟩
    simp only [h, if_true, hm, List.map_map]
    apply List.map_congr_left
    intro c _
    by_cases he : c.1 == k
    · simp only [Function.comp, he, if_true]; exact (by simpa using he : c.1 = k).symm
    · simp [Function.comp, he]
  · have hm : k ∉ cols.map (·.1) := by
      intro hm
      obtain ⟨c, hc, he⟩ := List.mem_map.mp hm
      exact h (List.any_eq_true.mpr ⟨c, hc, by simpa using he⟩)
    simp [h, hm]

theorem put_length (cols : List (String × Nat)) (k : String) (n : Nat) :
    (put cols k n).length = if cols.any (fun c => c.1 == k) then cols.length else cols.length + 1 := by
  unfold put; split <;> simp

/-- position by position: the slot of `k` takes the new length, every other column is untouched. -/
theorem put_getElem (cols : List (String × Nat)) (k : String) (n : Nat) (i : Nat) (h : i < cols.length) :
    (put cols k n)[i]? = some (if cols[i].1 == k then (k, n) else cols[i]) := by
  unfold put
  by_cases ha : cols.any (fun c => c.1 == k) = true
  · simp [ha, h]
  · have : (cols[i].1 == k) = false := by
      cases he : cols[i].1 == k
      · rfl
      · exact absurd (List.any_eq_true.mpr ⟨cols[i], List.getElem_mem h, he⟩) ha
    simp [ha, this, List.getElem?_append_left h]

theorem column_some_iff (sh : Shape) (n m : Nat) :
    FS.column sh (some n) = some m ↔ (m = n ∧ sh ≠ .nd ∧ (sh.length = n ∨ (sh.length = 1 ∧ 1 ≤ n))) := by
  constructor
  · exact column_some sh n m
  · rintro ⟨rfl, hnd, h⟩
    unfold FS.column
    cases sh with
    | nd => exact absurd rfl hnd
    | scalar =>
      simp only [Shape.length] at h ⊢
      rcases h with h | ⟨_, h⟩
      · subst h; simp
      · by_cases e : m = 1
        · subst e; simp
        · have : ¬ m < 1 := by omega
          simp [e, this]
    | seq l =>
      simp only [Shape.length] at h ⊢
      rcases h with h | ⟨h1, h⟩
      · subst h; simp
      · subst h1
        by_cases e : m = 1
        · subst e; simp
        · have : ¬ m < 1 := by omega
          simp [e, this]

theorem column_none_eq (sh : Shape) : FS.column sh none = if sh = .nd then none else some sh.length := by
  cases sh <;> simp [FS.column]

theorem evalDelitem_explicit :
    evalDelitem nm s k =
      if s.has k then some { cols := s.cols.filter (fun c => c.1 != k),
                             attrs := if nm.classAttr k then s.attrs else s.attrs.filter (· != k) }
      else none := by
  rw [evalDelitem_eq]
  unfold FS.delitem dropAttr
  cases s.has k <;> cases nm.classAttr k <;> simp

theorem filter_col_names (cols : List (String × Nat)) (k : String) :
    (cols.filter (fun c => c.1 != k)).map (·.1) = (cols.map (·.1)).filter (· != k) := by
  induction cols with
  | nil => rfl
  | cons c cs ih =>
    simp only [List.filter_cons, List.map_cons]
    cases h : c.1 != k <;> simp [ih]

end DI.PyEvalStore

/-
  Lemmas/Sort.lean — facts about the stable index sort `sortPairs` / `argsort`
  (stand-in for np.argsort(kind="stable"), np.lexsort, sorted()).
-/
import Model.Basic

namespace DI

/-- A Boolean order that is total, transitive and antisymmetric. -/
structure LinOrd (le : κ → κ → Bool) : Prop where
  total : ∀ a b, le a b || le b a
  trans : ∀ a b c, le a b → le b c → le a c
  antisymm : ∀ a b, le a b → le b a → a = b

/-- total + transitive is all that sorting needs. -/
structure PreOrd (le : κ → κ → Bool) : Prop where
  total : ∀ a b, le a b || le b a
  trans : ∀ a b c, le a b → le b c → le a c

theorem LinOrd.pre {le : κ → κ → Bool} (h : LinOrd le) : PreOrd le := ⟨h.total, h.trans⟩

theorem PreOrd.refl {le : κ → κ → Bool} (h : PreOrd le) (a : κ) : le a a := by
  have := h.total a a; simpa using this

variable {α : Type}

theorem sortPairs_perm (le : α → α → Bool) (xs : List α) :
    (sortPairs le xs).Perm xs.zipIdx := by
  unfold sortPairs; exact List.mergeSort_perm _ _

theorem mem_sortPairs {le : α → α → Bool} {xs : List α} {p : α × Nat} :
    p ∈ sortPairs le xs ↔ p ∈ xs.zipIdx :=
  (sortPairs_perm le xs).mem_iff

theorem mem_sortPairs_get {le : α → α → Bool} {xs : List α} {p : α × Nat}
    (h : p ∈ sortPairs le xs) : xs[p.2]? = some p.1 := by
  have := mem_sortPairs.mp h
  rcases p with ⟨x, i⟩
  have := List.mem_zipIdx this
  simp at this
  obtain ⟨h1, h2⟩ := this
  simp [h2, h1]

theorem sortPairs_sorted {le : α → α → Bool} (h : PreOrd le) (xs : List α) :
    (sortPairs le xs).Pairwise (fun p q => le p.1 q.1) := by
  unfold sortPairs
  exact List.pairwise_mergeSort (fun a b c => h.trans a.1 b.1 c.1) (fun a b => h.total a.1 b.1) _

/-- stability: a pair of entries that is in input order and already ordered stays in order. -/
theorem sortPairs_stable {le : α → α → Bool} (h : PreOrd le) (xs : List α)
    {p q : α × Nat} (hs : [p, q].Sublist xs.zipIdx) (hle : le p.1 q.1) :
    [p, q].Sublist (sortPairs le xs) := by
  unfold sortPairs
  exact List.pair_sublist_mergeSort (fun a b c => h.trans a.1 b.1 c.1)
    (fun a b => h.total a.1 b.1) hle hs

theorem argsort_perm (le : α → α → Bool) (xs : List α) :
    (argsort le xs).Perm (List.range xs.length) := by
  unfold argsort
  have h := (sortPairs_perm le xs).map (·.2)
  refine h.trans ?_
  rw [List.zipIdx_map_snd]
  simp [List.range_eq_range']

theorem length_argsort (le : α → α → Bool) (xs : List α) :
    (argsort le xs).length = xs.length := by
  simpa using (argsort_perm le xs).length_eq

end DI

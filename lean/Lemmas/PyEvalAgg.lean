import Model.PyEvalAgg
import Model.Aggregate
import Lemmas.PyEvalScan
import Lemmas.Aggregate
import Lemmas.AggSpec

/-
  Lemmas/PyEvalAgg.lean — proofs for Proofs/EvalC07b.lean: what the per-group bodies of `dataiter/aggregate.py` evaluate
  to (Model/PyEvalAgg.lean), and that this is the model's (Model/Aggregate.lean) kernel on the runs of the group scan.

  A. Python's containers: `set` / `Counter` / `max(…, key=…)` as written, for a lawful key equality: distinct keys in the
     order of first occurrence, exact counts, the first most common key;
  B. evaluation of the bodies;
  C. the model instance (cells `Option Rat`, results `Agg.Res`).
-/

set_option linter.unusedSimpArgs false

namespace DI.PyEvalAgg

open DI DI.Py

/-! ## A. containers -/

section Containers
variable {α : Type}

/-- the key equality is equality. -/
def Lawful (eq : α → α → Bool) : Prop := ∀ a b, eq a b = true ↔ a = b

theorem mem_setAdd (eq : α → α → Bool) (s : List α) (a k : α) (h : k ∈ setAdd eq s a) : k ∈ s ∨ k = a := by
  unfold setAdd at h
  split at h
  · exact Or.inl h
  · rcases List.mem_append.mp h with h | h
    · exact Or.inl h
    · exact Or.inr (by simpa using h)

theorem any_congr_mem (p q : α → Bool) (s : List α) (h : ∀ k ∈ s, p k = q k) : s.any p = s.any q := by
  induction s with
  | nil => rfl
  | cons k t ih =>
    simp only [List.any_cons]
    rw [h k (by simp), ih (fun k' hk' => h k' (List.mem_cons_of_mem _ hk'))]

/-- `set(xs)` depends on the key equality only through its values on the elements of `xs`. -/
theorem foldl_setAdd_congr (eq eq' : α → α → Bool) (Q : α → Prop)
    (h : ∀ a b, Q a → Q b → eq a b = eq' a b) :
    ∀ (xs s : List α), (∀ a ∈ xs, Q a) → (∀ k ∈ s, Q k) → xs.foldl (setAdd eq) s = xs.foldl (setAdd eq') s := by
  intro xs
  induction xs with
  | nil => intro s _ _; rfl
  | cons a t ih =>
    intro s hx hs
    have ha : Q a := hx a (by simp)
    have e : setAdd eq s a = setAdd eq' s a := by
      unfold setAdd
      rw [any_congr_mem (fun k => eq k a) (fun k => eq' k a) s (fun k hk => h k a (hs k hk) ha)]
    simp only [List.foldl_cons]
    rw [e]
    apply ih _ (fun b hb => hx b (List.mem_cons_of_mem _ hb))
    intro k hk
    rcases mem_setAdd eq' s a k hk with hk | hk
    · exact hs k hk
    · rw [hk]; exact ha

theorem pySet_congr (eq eq' : α → α → Bool) (xs : List α) (h : ∀ a ∈ xs, ∀ b ∈ xs, eq a b = eq' a b) :
    pySet eq xs = pySet eq' xs :=
  foldl_setAdd_congr eq eq' (· ∈ xs) (fun a b ha hb => h a ha b hb) xs [] (fun _ ha => ha) (by simp)

theorem mem_bump_fst (eq : α → α → Bool) (c : List (α × Nat)) (a : α) :
    ∀ p ∈ bump eq c a, p.1 = a ∨ ∃ q ∈ c, q.1 = p.1 := by
  induction c with
  | nil => intro p hp; simp [bump] at hp; left; rw [hp]
  | cons q t ih =>
    intro p hp
    obtain ⟨k, n⟩ := q
    simp only [bump] at hp
    split at hp
    · rcases List.mem_cons.mp hp with hp | hp
      · right; exact ⟨(k, n), by simp, by rw [hp]⟩
      · right; exact ⟨p, List.mem_cons_of_mem _ hp, rfl⟩
    · rcases List.mem_cons.mp hp with hp | hp
      · right; exact ⟨(k, n), by simp, by rw [hp]⟩
      · rcases ih p hp with h | ⟨q, hq, h⟩
        · exact Or.inl h
        · right; exact ⟨q, List.mem_cons_of_mem _ hq, h⟩

theorem bump_congr (eq eq' : α → α → Bool) (c : List (α × Nat)) (a : α) (h : ∀ p ∈ c, eq p.1 a = eq' p.1 a) :
    bump eq c a = bump eq' c a := by
  induction c with
  | nil => rfl
  | cons q t ih =>
    obtain ⟨k, n⟩ := q
    simp only [bump]
    rw [h (k, n) (by simp), ih (fun p hp => h p (List.mem_cons_of_mem _ hp))]

/-- `Counter(xs)` depends on the key equality only through its values on the elements of `xs`. -/
theorem foldl_bump_congr (eq eq' : α → α → Bool) (Q : α → Prop)
    (h : ∀ a b, Q a → Q b → eq a b = eq' a b) :
    ∀ (xs : List α) (c : List (α × Nat)), (∀ a ∈ xs, Q a) → (∀ p ∈ c, Q p.1) →
      xs.foldl (bump eq) c = xs.foldl (bump eq') c := by
  intro xs
  induction xs with
  | nil => intro c _ _; rfl
  | cons a t ih =>
    intro c hx hc
    have ha : Q a := hx a (by simp)
    simp only [List.foldl_cons]
    rw [bump_congr eq eq' c a (fun p hp => h p.1 a (hc p hp) ha)]
    apply ih _ (fun b hb => hx b (List.mem_cons_of_mem _ hb))
    intro p hp
    rcases mem_bump_fst eq' c a p hp with hp | ⟨q, hq, hp⟩
    · rw [hp]; exact ha
    · rw [← hp]; exact hc q hq

theorem counter_congr (eq eq' : α → α → Bool) (xs : List α) (h : ∀ a ∈ xs, ∀ b ∈ xs, eq a b = eq' a b) :
    counter eq xs = counter eq' xs :=
  foldl_bump_congr eq eq' (· ∈ xs) (fun a b ha hb => h a ha b hb) xs [] (fun _ ha => ha) (by simp)

variable [BEq α] [LawfulBEq α]

theorem setAdd_lawful {eq : α → α → Bool} (hl : Lawful eq) (s : List α) (a : α) :
    setAdd eq s a = if a ∈ s then s else s ++ [a] := by
  unfold setAdd
  have : (s.any fun k => eq k a) = true ↔ a ∈ s := by
    rw [List.any_eq_true]
    constructor
    · rintro ⟨k, hk, he⟩
      rw [← (hl k a).mp he]; exact hk
    · intro h; exact ⟨a, h, (hl a a).mpr rfl⟩
  by_cases h : a ∈ s
  · rw [if_pos (this.mpr h), if_pos h]
  · rw [if_neg (fun h' => h (this.mp h')), if_neg h]

theorem eraseDups_append_singleton (pre : List α) (a : α) :
    (pre ++ [a]).eraseDups = if a ∈ pre then pre.eraseDups else pre.eraseDups ++ [a] := by
  rw [List.eraseDups_append]
  by_cases h : a ∈ pre
  · simp [h, List.removeAll]
  · simp [h, List.removeAll, List.eraseDups_cons]

/-- **`set(xs)` for a lawful key equality**: the distinct elements in the order of their first occurrence. -/
theorem foldl_setAdd_eraseDups {eq : α → α → Bool} (hl : Lawful eq) :
    ∀ (xs pre : List α), xs.foldl (setAdd eq) pre.eraseDups = (pre ++ xs).eraseDups := by
  intro xs
  induction xs with
  | nil => intro pre; simp
  | cons a t ih =>
    intro pre
    have e : setAdd eq pre.eraseDups a = (pre ++ [a]).eraseDups := by
      rw [setAdd_lawful hl, eraseDups_append_singleton]
      simp only [List.mem_eraseDups]
    simp only [List.foldl_cons]
    rw [e, ih (pre ++ [a])]
    simp

theorem pySet_lawful {eq : α → α → Bool} (hl : Lawful eq) (xs : List α) : pySet eq xs = xs.eraseDups := by
  have := foldl_setAdd_eraseDups hl xs []
  simpa [pySet] using this

/-- the distinct elements come in the order of their first occurrences. -/
theorem eraseDups_order_aux : ∀ (xs pre : List α),
    pre.eraseDups.Pairwise (fun k k' => pre.idxOf k < pre.idxOf k') →
    (pre ++ xs).eraseDups.Pairwise (fun k k' => (pre ++ xs).idxOf k < (pre ++ xs).idxOf k') := by
  intro xs
  induction xs with
  | nil => intro pre h; simpa using h
  | cons a t ih =>
    intro pre h
    have step : (pre ++ [a]).eraseDups.Pairwise (fun k k' => (pre ++ [a]).idxOf k < (pre ++ [a]).idxOf k') := by
      have h' : pre.eraseDups.Pairwise (fun k k' => (pre ++ [a]).idxOf k < (pre ++ [a]).idxOf k') := by
        apply List.Pairwise.imp_of_mem _ h
        intro k k' hk hk' hlt
        rw [List.idxOf_append, List.idxOf_append, if_pos (List.mem_eraseDups.mp hk), if_pos (List.mem_eraseDups.mp hk')]
        exact hlt
      rw [eraseDups_append_singleton]
      by_cases ha : a ∈ pre
      · rw [if_pos ha]; exact h'
      · rw [if_neg ha, List.pairwise_append]
        refine ⟨h', by simp, ?_⟩
        intro k hk k' hk'
        have hk'' : k' = a := by simpa using hk'
        subst hk''
        have hkp := List.mem_eraseDups.mp hk
        rw [List.idxOf_append, List.idxOf_append, if_pos hkp, if_neg ha]
        have := List.idxOf_lt_length_of_mem hkp
        omega
    have := ih (pre ++ [a]) step
    simpa using this

theorem eraseDups_order (xs : List α) : xs.eraseDups.Pairwise (fun k k' => xs.idxOf k < xs.idxOf k') := by
  have := eraseDups_order_aux xs [] (by simp)
  simpa using this

theorem bump_map_of_mem {eq : α → α → Bool} (hl : Lawful eq) (cnt : α → Nat) (a : α) :
    ∀ (l : List α), l.Nodup → a ∈ l →
      bump eq (l.map fun k => (k, cnt k)) a = l.map fun k => (k, if k == a then cnt k + 1 else cnt k) := by
  intro l
  induction l with
  | nil => intro _ h; simp at h
  | cons k t ih =>
    intro hn hm
    have hn' := List.nodup_cons.mp hn
    simp only [List.map_cons, bump]
    by_cases hk : k = a
    · subst hk
      rw [if_pos ((hl k k).mpr rfl), if_pos (by simp)]
      congr 1
      apply List.map_congr_left
      intro k' hk'
      have : k' ≠ k := fun e => hn'.1 (e ▸ hk')
      rw [if_neg (by simpa using this)]
    · rw [if_neg (fun h => hk ((hl k a).mp h)), if_neg (by simpa using hk)]
      congr 1
      apply ih hn'.2
      rcases List.mem_cons.mp hm with h | h
      · exact absurd h.symm hk
      · exact h

omit [BEq α] [LawfulBEq α] in
theorem bump_map_of_not_mem {eq : α → α → Bool} (hl : Lawful eq) (cnt : α → Nat) (a : α) :
    ∀ (l : List α), a ∉ l → bump eq (l.map fun k => (k, cnt k)) a = (l.map fun k => (k, cnt k)) ++ [(a, 1)] := by
  intro l
  induction l with
  | nil => intro _; rfl
  | cons k t ih =>
    intro hm
    have hk : k ≠ a := fun e => hm (by simp [e])
    simp only [List.map_cons, bump]
    rw [if_neg (fun h => hk ((hl k a).mp h))]
    rw [ih (fun h => hm (List.mem_cons_of_mem _ h))]
    rfl

/-- **`Counter(xs)` for a lawful key equality**: one item per distinct element, in the order of first occurrence,
    with the number of its occurrences. -/
theorem foldl_bump_counts {eq : α → α → Bool} (hl : Lawful eq) :
    ∀ (xs pre : List α), xs.foldl (bump eq) (pre.eraseDups.map fun k => (k, pre.count k)) =
      (pre ++ xs).eraseDups.map fun k => (k, (pre ++ xs).count k) := by
  intro xs
  induction xs with
  | nil => intro pre; simp
  | cons a t ih =>
    intro pre
    have e : bump eq (pre.eraseDups.map fun k => (k, pre.count k)) a =
        (pre ++ [a]).eraseDups.map fun k => (k, (pre ++ [a]).count k) := by
      rw [eraseDups_append_singleton]
      by_cases ha : a ∈ pre
      · rw [if_pos ha, bump_map_of_mem hl _ a _ (Agg.nodup_eraseDups pre) (List.mem_eraseDups.mpr ha)]
        apply List.map_congr_left
        intro k _
        rw [List.count_append, List.count_singleton]
        by_cases hk : k = a
        · subst hk; simp
        · have : (a == k) = false := by simpa using fun e : a = k => hk e.symm
          simp [hk, this]
      · rw [if_neg ha, bump_map_of_not_mem hl _ a _ (fun h => ha (List.mem_eraseDups.mp h)), List.map_append]
        congr 1
        · apply List.map_congr_left
          intro k hk
          have hka : k ≠ a := fun e => ha (e ▸ List.mem_eraseDups.mp hk)
          have : (a == k) = false := by simpa using fun e : a = k => hka e.symm
          rw [List.count_append, List.count_singleton]
          simp [this]
        · simp [List.count_eq_zero_of_not_mem ha]
    simp only [List.foldl_cons]
    rw [e, ih (pre ++ [a])]
    simp

theorem counter_lawful {eq : α → α → Bool} (hl : Lawful eq) (xs : List α) :
    counter eq xs = xs.eraseDups.map fun k => (k, xs.count k) := by
  have := foldl_bump_counts hl xs []
  simpa [counter] using this

end Containers

/-- `max(items, key=count)`: the chosen item splits the list — strictly smaller counts before it, none larger after. -/
theorem firstMax_fold_spec {α : Type} (t : List (α × Nat)) :
    ∀ (L : List (α × Nat)) (b : α × Nat) (R : List (α × Nat)), (∀ p ∈ L, p.2 < b.2) → (∀ p ∈ R, p.2 ≤ b.2) →
      ∃ L' R', L ++ b :: R ++ t = L' ++ (t.foldl (fun b q => if q.2 > b.2 then q else b) b) :: R' ∧
        (∀ p ∈ L', p.2 < (t.foldl (fun b q => if q.2 > b.2 then q else b) b).2) ∧
        (∀ p ∈ R', p.2 ≤ (t.foldl (fun b q => if q.2 > b.2 then q else b) b).2) := by
  induction t with
  | nil => intro L b R hL hR; exact ⟨L, R, by simp, hL, hR⟩
  | cons q t ih =>
    intro L b R hL hR
    simp only [List.foldl_cons]
    by_cases hq : q.2 > b.2
    · rw [if_pos hq]
      obtain ⟨L', R', e, h1, h2⟩ := ih (L ++ b :: R) q [] (by
        intro p hp
        rcases List.mem_append.mp hp with hp | hp
        · have := hL p hp; omega
        · rcases List.mem_cons.mp hp with hp | hp
          · rw [hp]; exact hq
          · have := hR p hp; omega) (by simp)
      exact ⟨L', R', by rw [← e]; simp, h1, h2⟩
    · rw [if_neg hq]
      obtain ⟨L', R', e, h1, h2⟩ := ih L b (R ++ [q]) hL (by
        intro p hp
        rcases List.mem_append.mp hp with hp | hp
        · exact hR p hp
        · have : p = q := by simpa using hp
          rw [this]; omega)
      exact ⟨L', R', by rw [← e]; simp, h1, h2⟩

theorem firstMax_spec {α : Type} (ps : List (α × Nat)) (hne : ps ≠ []) :
    ∃ m L R, firstMax ps = some m ∧ ps = L ++ m :: R ∧ (∀ p ∈ L, p.2 < m.2) ∧ (∀ p ∈ R, p.2 ≤ m.2) := by
  cases ps with
  | nil => exact absurd rfl hne
  | cons p t =>
    obtain ⟨L, R, e, h1, h2⟩ := firstMax_fold_spec t [] p [] (by simp) (by simp)
    exact ⟨_, L, R, rfl, by simpa using e, h1, h2⟩

section Mode
variable {α : Type} [BEq α] [LawfulBEq α]

/-- "`m` is the most frequent element of `xs`, among equally frequent ones the one met first". -/
def ModeSpec (xs : List α) (m : α) : Prop :=
  m ∈ xs ∧ (∀ y, xs.count y ≤ xs.count m) ∧
  (∀ y ∈ xs, y ≠ m → xs.count y = xs.count m → xs.idxOf m < xs.idxOf y)

omit [LawfulBEq α] in
theorem modeSpec_unique (xs : List α) (m m' : α) (h : ModeSpec xs m) (h' : ModeSpec xs m') : m = m' := by
  apply Classical.byContradiction
  intro hne
  have hc : xs.count m = xs.count m' := Nat.le_antisymm (h'.2.1 m) (h.2.1 m')
  have h1 := h.2.2 m' h'.1 (fun e => hne e.symm) hc.symm
  have h2 := h'.2.2 m h.1 hne hc
  omega

/-- **the key `Counter(xs).most_common(1)[0][0]` picks**: the most frequent element, ties broken by first occurrence
    in the original order of `xs`. -/
theorem firstMax_counter_spec {eq : α → α → Bool} (hl : Lawful eq) (xs : List α) (hne : xs ≠ []) :
    ∃ m, firstMax (counter eq xs) = some (m, xs.count m) ∧ ModeSpec xs m := by
  have hcne : counter eq xs ≠ [] := by
    rw [counter_lawful hl]
    cases xs with
    | nil => exact absurd rfl hne
    | cons a t => rw [List.eraseDups_cons]; simp
  obtain ⟨m, L, R, hm, hsplit, hL, hR⟩ := firstMax_spec (counter eq xs) hcne
  rw [counter_lawful hl] at hsplit
  have hmem : m ∈ xs.eraseDups.map fun k => (k, xs.count k) := by rw [hsplit]; simp
  obtain ⟨k, hk, hkm⟩ := List.mem_map.mp hmem
  have hkeys : xs.eraseDups = (L ++ m :: R).map Prod.fst := by
    rw [← hsplit, List.map_map]
    simp [Function.comp_def]
  have hord := eraseDups_order xs
  rw [hkeys, List.map_append, List.map_cons, List.pairwise_append] at hord
  have hafter := (List.pairwise_cons.mp hord.2.1).1
  refine ⟨k, by rw [hm, ← hkm], List.mem_eraseDups.mp hk, ?_, ?_⟩
  · intro y
    by_cases hy : y ∈ xs
    · have : (y, xs.count y) ∈ L ++ m :: R := by
        rw [← hsplit]; exact List.mem_map.mpr ⟨y, List.mem_eraseDups.mpr hy, rfl⟩
      rcases List.mem_append.mp this with h | h
      · have := hL _ h; rw [← hkm] at this; simp at this; omega
      · rcases List.mem_cons.mp h with h | h
        · rw [← hkm] at h; simp at h; omega
        · have := hR _ h; rw [← hkm] at this; simpa using this
    · rw [List.count_eq_zero_of_not_mem hy]; exact Nat.zero_le _
  · intro y hy hyk hc
    have : (y, xs.count y) ∈ L ++ m :: R := by
      rw [← hsplit]; exact List.mem_map.mpr ⟨y, List.mem_eraseDups.mpr hy, rfl⟩
    rcases List.mem_append.mp this with h | h
    · have := hL _ h; rw [← hkm] at this; simp at this; omega
    · rcases List.mem_cons.mp h with h | h
      · rw [← hkm] at h; simp at h; exact absurd h.1 hyk
      · have := hafter y (List.mem_map.mpr ⟨_, h, rfl⟩)
        rw [← hkm] at this
        exact this

end Mode


/-! ## B. evaluation of the bodies -/

/-! ### the terms (the text of `Proofs/TieC07.lean`; `Proofs/EvalC07b.lean` identifies them by `rfl`) -/

/-- `for xg in yield_groups(x, group, drop_na): <body>`. -/
def forGroups (body : Term) : Term :=
  Term.app "for" [Term.sym "xg", Term.app "yield_groups" [Term.sym "x", Term.sym "group", Term.sym "drop_na"], body]

/-- `for xg in yield_groups(x, group, drop_na): yield <value>` (`DI.Tie.C07.perGroup`). -/
def perGroup (value : Term) : Term := forGroups (Term.app "block" [Term.app "yield" [value]])

/-- `try: yield xg[index]` / `except IndexError: yield None`. -/
def nthBody : Term :=
  Term.app "block" [Term.app "try" [Term.app "block" [Term.app "yield" [Term.app "getitem" [Term.sym "xg", Term.sym "index"]]],
    Term.app "except" [Term.sym "IndexError", Term.app "block" [Term.app "yield" [Term.sym "None"]]],
    Term.app "else" [Term.app "block" []], Term.app "finally" [Term.app "block" []]]]

/-- `mode1(xg) if len(xg) >= 1 else None`. -/
def modeValue : Term :=
  Term.app "ifexp" [Term.app "GtE" [Term.app "len" [Term.sym "xg"], Term.int 1], Term.app "mode1" [Term.sym "xg"], Term.sym "None"]

/-- the body of `mode1(x)`. -/
def mode1Body : List Term :=
  [Term.app "stmt" [Term.app "try" [Term.app "block" [Term.app "return" [Term.app "statistics.mode" [Term.sym "x"]]],
    Term.app "except" [Term.sym "statistics.StatisticsError", Term.app "block" [Term.app "return"
      [Term.app "getitem" [Term.app "getitem" [Term.app ".most_common" [Term.app "Counter" [Term.sym "x"], Term.int 1], Term.int 0], Term.int 0]]]],
    Term.app "else" [Term.app "block" []], Term.app "finally" [Term.app "block" []]]]]

/-- `len(set(xg))`. -/
def countUniqueValue : Term := Term.app "len" [Term.app "set()" [Term.sym "xg"]]

/-- `np.quantile(xg, q) if len(xg) >= 1 else np.nan`. -/
def quantileValue : Term :=
  Term.app "ifexp" [Term.app "GtE" [Term.app "len" [Term.sym "xg"], Term.int 1],
    Term.app "np.quantile" [Term.sym "xg", Term.sym "q"], Term.sym "np.nan"]

/-- `function(xg, **kwargs) if len(xg) >= nrequired else default`. -/
def genericValue : Term :=
  Term.app "ifexp" [Term.app "GtE" [Term.app "len" [Term.sym "xg"], Term.sym "nrequired"],
    Term.app "function" [Term.sym "xg", Term.app "=**" [Term.sym "kwargs"]], Term.sym "default"]

/-- the result expression of `handle_na` once the translator has decided `drop_na`. -/
def handleNaTerm (d : Bool) : Term :=
  if d then Term.app "getitem" [Term.sym "x", Term.app "~" [Term.app ".is_na" [Term.sym "x"]]] else Term.sym "x"

/-! ### what one run gives -/

section Runs
variable {α ρ : Type}

/-- `xg[index]`, `None` on IndexError. -/
def nthRun (index : Int) (xg : List α) : Val α ρ :=
  match pyIndex xg index with
  | some a => .elem a
  | none => .pyNone

/-- the first most common key of `Counter(xg)`, `None` for an empty run. -/
def modeRun (eq : α → α → Bool) (xg : List α) : Val α ρ :=
  match firstMax (counter eq xg) with
  | some m => .elem m.1
  | none => .pyNone

/-- `len(set(xg))`. -/
def countUniqueRun (eq : α → α → Bool) (xg : List α) : Val α ρ := .int (pySet eq xg).length

/-- `np.quantile(xg, q)`, `np.nan` for an empty run. -/
def quantileRun (quantile : List α → ρ → ρ) (q : ρ) (xg : List α) : Val α ρ :=
  if 1 ≤ xg.length then .res (quantile xg q) else .nan

/-- `function(xg)` when the run has at least `nrequired` elements (`none` if the function raises), else `default`. -/
def genericRun (function : List α → Option ρ) (default : Val α ρ) (nrequired : Int) (xg : List α) : Option (Val α ρ) :=
  if nrequired ≤ (xg.length : Int) then (function xg).map .res else some default

/-- all of them succeed. -/
def allSome {β : Type} : List (Option β) → Option (List β)
  | [] => some []
  | none :: _ => none
  | some v :: t => (allSome t).map (v :: ·)

theorem allSome_map_some {β γ : Type} (f : β → γ) (l : List β) : allSome (l.map fun b => some (f b)) = some (l.map f) := by
  induction l with
  | nil => rfl
  | cons b t ih => simp [allSome, ih]

theorem allSome_eq_some_iff {β : Type} (l : List (Option β)) (vs : List β) :
    allSome l = some vs ↔ l = vs.map some := by
  induction l generalizing vs with
  | nil => cases vs <;> simp [allSome]
  | cons o t ih =>
    cases o with
    | none => cases vs <;> simp [allSome]
    | some v =>
      cases vs with
      | nil => simp [allSome]
      | cons w ws =>
        simp only [allSome, Option.map_eq_some_iff, List.map_cons, List.cons.injEq, Option.some.injEq]
        constructor
        · rintro ⟨a, ha, rfl, rfl⟩; exact ⟨rfl, (ih _).mp ha⟩
        · rintro ⟨rfl, h⟩; exact ⟨ws, (ih _).mpr h, rfl, rfl⟩

/-! ### the loop over the runs -/

/-- the environment after the loop: `xg` bound once per run. -/
def pushAll (rs : List (List α)) (env : Env α ρ) : Env α ρ := rs.foldl (fun e r => ("xg", Val.vec r) :: e) env

/-- a body that yields exactly one value `f xg` per run (or is stuck when `f xg = none`), changes nothing else, and only
    looks at names whose binding `I` protects: the loop yields `f` of every run, in order. -/
theorem loopRuns_map (body : St α ρ → Option (Ctl α ρ × St α ρ)) (f : List α → Option (Val α ρ))
    (I : Env α ρ → Prop) (hpush : ∀ env r, I env → I (("xg", Val.vec r) :: env))
    (hbody : ∀ env out r, I env → body ⟨("xg", Val.vec r) :: env, out⟩ =
      (f r).map fun v => (Ctl.normal, ⟨("xg", Val.vec r) :: env, out ++ [v]⟩)) :
    ∀ (rs : List (List α)) (env : Env α ρ) (out : List (Val α ρ)), I env →
      loopRuns body "xg" rs ⟨env, out⟩ =
        (allSome (rs.map f)).map fun vs => (Ctl.normal, ⟨pushAll rs env, out ++ vs⟩) := by
  intro rs
  induction rs with
  | nil => intro env out _; simp [loopRuns, allSome, pushAll]
  | cons r rs ih =>
    intro env out hI
    simp only [loopRuns, hbody env out r hI, List.map_cons]
    cases hf : f r with
    | none => simp [allSome]
    | some v =>
      simp only [Option.map_some, allSome]
      rw [ih _ _ (hpush env r hI), Option.map_map]
      congr 1
      funext vs
      simp [pushAll]

/-- **the whole `for xg in yield_groups(x, group, drop_na): <body>`**, given what the call of `yield_groups` gives. -/
theorem run_forGroups (P : Prims α ρ) (F : Funs) (bodyT : Term) (f : List α → Option (Val α ρ))
    (I : Env α ρ → Prop) (hpush : ∀ env r, I env → I (("xg", Val.vec r) :: env))
    (hbody : ∀ env out r, I env → evalS P (call1 P F) bodyT ⟨("xg", Val.vec r) :: env, out⟩ =
      (f r).map fun v => (Ctl.normal, ⟨("xg", Val.vec r) :: env, out ++ [v]⟩))
    (env : Env α ρ) (hI : I env) (x : List α) (g : List Nat) (d : Bool) (rs : List (List α))
    (hx : env.lookup "x" = some (.vec x)) (hg : env.lookup "group" = some (.ids g))
    (hd : env.lookup "drop_na" = some (.bool d))
    (hscan : PyEvalScan.run P.scan F.yieldGroups (PyEvalScan.args x g d) = some rs) :
    run P F [forGroups bodyT] env = (allSome (rs.map f)).map Ans.ok := by
  have hit : evalE P (call1 P F) (Term.app "yield_groups" [Term.sym "x", Term.sym "group", Term.sym "drop_na"]) env
      = some (.ok (.runs rs)) := by
    simp [evalE, bindA, hx, hg, hd, call1, hscan]
  unfold run forGroups
  simp only [evalB, evalS, hit]
  rw [loopRuns_map _ f I hpush hbody rs env [] hI]
  cases allSome (rs.map f) with
  | none => rfl
  | some vs => simp [evalB]

/-! ### the values -/

/-- `try: yield xg[index]` / `except IndexError: yield None`. -/
theorem nthBody_eval (P : Prims α ρ) (call : String → List (Val α ρ) → Option (Ans (Val α ρ))) (index : Int)
    (env : Env α ρ) (out : List (Val α ρ)) (r : List α) (hi : env.lookup "index" = some (.int index)) :
    evalS P call nthBody ⟨("xg", Val.vec r) :: env, out⟩ =
      some (Ctl.normal, ⟨("xg", Val.vec r) :: env, out ++ [nthRun index r]⟩) := by
  have hi' : (("xg", Val.vec r) :: env).lookup "index" = some (.int index) := by simp [List.lookup, hi]
  unfold nthBody nthRun
  cases hp : pyIndex r index with
  | some a => simp [evalS, evalB, evalE, bindA, List.lookup, hi, hp]
  | none => simp [evalS, evalB, evalE, bindA, List.lookup, hi, hp]

theorem firstMax_ne_nil (ps : List (α × Nat)) (hne : ps ≠ []) : ∃ m, firstMax ps = some m := by
  cases ps with
  | nil => exact absurd rfl hne
  | cons p t => exact ⟨_, rfl⟩

theorem bump_ne_nil (eq : α → α → Bool) (c : List (α × Nat)) (a : α) : bump eq c a ≠ [] := by
  cases c with
  | nil => simp [bump]
  | cons q t =>
    obtain ⟨k, n⟩ := q
    simp only [bump]
    split <;> simp

theorem foldl_bump_ne_nil (eq : α → α → Bool) (xs : List α) (c : List (α × Nat)) (h : c ≠ []) :
    xs.foldl (bump eq) c ≠ [] := by
  induction xs generalizing c with
  | nil => exact h
  | cons a t ih => exact ih _ (bump_ne_nil eq c a)

theorem counter_ne_nil (eq : α → α → Bool) (xs : List α) (hne : xs ≠ []) : counter eq xs ≠ [] := by
  cases xs with
  | nil => exact absurd rfl hne
  | cons a t => exact foldl_bump_ne_nil eq t _ (bump_ne_nil eq [] a)

/-- **`mode1(x)`** on a non-empty `x`: the first most common key of `Counter(x)` — through `statistics.mode` or, when
    that refuses a tie (Python < 3.8), through the `except` branch; the same value either way. -/
theorem mode1_exec (P : Prims α ρ) (r : List α) (hne : r ≠ []) :
    execFun P mode1Body [("x", Val.vec r)] = some (.ok (modeRun P.keyEq r)) := by
  obtain ⟨m, hm⟩ := firstMax_ne_nil _ (counter_ne_nil P.keyEq r hne)
  unfold execFun mode1Body modeRun
  rw [hm]
  by_cases hs : (P.strictMode && ((counter P.keyEq r).filter (fun p => p.2 == m.2)).length != 1) = true
  · simp [evalS, evalB, evalE, bindA, List.lookup, statMode, hm, hs, pyIndex]
  · simp [evalS, evalB, evalE, bindA, List.lookup, statMode, hm, hs]

/-- an empty `x`: `statistics.mode` raises StatisticsError, `most_common(1)` is empty, `[0]` raises IndexError. -/
theorem mode1_exec_nil (P : Prims α ρ) : execFun P mode1Body [("x", Val.vec ([] : List α))] = some (.raised "IndexError") := by
  simp [execFun, mode1Body, evalS, evalB, evalE, bindA, List.lookup, statMode, counter, firstMax, pyIndex]

theorem modeValue_eval (P : Prims α ρ) (F : Funs) (hF : F.mode1 = mode1Body) (env : Env α ρ) (r : List α) :
    evalE P (call1 P F) modeValue (("xg", Val.vec r) :: env) = some (.ok (modeRun P.keyEq r)) := by
  unfold modeValue
  cases r with
  | nil => simp [evalE, bindA, List.lookup, modeRun, counter, firstMax]
  | cons a t =>
    have := mode1_exec P (a :: t) (by simp)
    have hge : ((t.length : Int) + 1 ≥ 1) := by omega
    simp [evalE, bindA, List.lookup, call1, hF, this, hge]

theorem countUniqueValue_eval (P : Prims α ρ) (call : String → List (Val α ρ) → Option (Ans (Val α ρ)))
    (env : Env α ρ) (r : List α) :
    evalE P call countUniqueValue (("xg", Val.vec r) :: env) = some (.ok (countUniqueRun P.keyEq r)) := by
  simp [countUniqueValue, countUniqueRun, evalE, bindA, List.lookup]

theorem quantileValue_eval (P : Prims α ρ) (call : String → List (Val α ρ) → Option (Ans (Val α ρ)))
    (env : Env α ρ) (q : ρ) (hq : env.lookup "q" = some (.res q)) (r : List α) :
    evalE P call quantileValue (("xg", Val.vec r) :: env) = some (.ok (quantileRun P.quantile q r)) := by
  unfold quantileValue quantileRun
  by_cases h : 1 ≤ r.length
  · have h' : (r.length : Int) ≥ 1 := by omega
    simp [evalE, bindA, List.lookup, hq, h, h']
  · have h' : ¬ (r.length : Int) ≥ 1 := by omega
    simp [evalE, bindA, List.lookup, hq, h, h']

theorem genericValue_eval (P : Prims α ρ) (call : String → List (Val α ρ) → Option (Ans (Val α ρ)))
    (env : Env α ρ) (default : Val α ρ) (nrequired : Int) (hd : env.lookup "default" = some default)
    (hn : env.lookup "nrequired" = some (.int nrequired)) (r : List α) :
    evalE P call genericValue (("xg", Val.vec r) :: env) = (genericRun P.function default nrequired r).map Ans.ok := by
  unfold genericValue genericRun
  by_cases h : nrequired ≤ (r.length : Int)
  · have h' : (r.length : Int) ≥ nrequired := h
    cases hf : P.function r <;> simp [evalE, bindA, List.lookup, hd, hn, h, h', hf]
  · have h' : ¬ (r.length : Int) ≥ nrequired := h
    simp [evalE, bindA, List.lookup, hd, hn, h, h']

/-- `yield <value>` for a value that evaluates to `f r`. -/
theorem yieldBlock_eval (P : Prims α ρ) (call : String → List (Val α ρ) → Option (Ans (Val α ρ))) (value : Term)
    (env : Env α ρ) (out : List (Val α ρ)) (o : Option (Val α ρ)) (h : evalE P call value env = o.map Ans.ok) :
    evalS P call (Term.app "block" [Term.app "yield" [value]]) ⟨env, out⟩ =
      o.map fun v => (Ctl.normal, ⟨env, out ++ [v]⟩) := by
  cases o with
  | none => simp [evalS, evalB, h]
  | some v => simp [evalS, evalB, h]

end Runs


/-! ### the five bodies -/

section Bodies
variable {α ρ : Type}

/-- the function table holds the bodies that `Proofs/TieC07.lean` shows the translated sources to be. -/
structure FunsOK (F : Funs) : Prop where
  yg : F.yieldGroups = [PyEvalScan.groupScan PyEvalScan.pyIsNa PyEvalScan.pyEmit]
  m1 : F.mode1 = mode1Body

theorem scan_call (P : Prims α ρ) (F : Funs) (hF : FunsOK F) (x : List α) (g : List Nat) (d : Bool)
    (hlen : x.length ≤ g.length) :
    PyEvalScan.run P.scan F.yieldGroups (PyEvalScan.args x g d) = some (PyEvalScan.scan g x d P.scan.isNa) := by
  rw [hF.yg]
  exact PyEvalScan.eval_groupScan_eq_scan P.scan _ _ P.scan.isNa (PyEvalScan.pyIsNa_term _) (PyEvalScan.pyEmit_term _)
    x g d hlen

/-- **`nth_apply(x, group, index, drop_na)`**: `xg[index]` of every run, `None` where the index is outside the run. -/
theorem nth_apply_run (P : Prims α ρ) (F : Funs) (hF : FunsOK F) (x : List α) (g : List Nat) (index : Int) (d : Bool)
    (hlen : x.length ≤ g.length) :
    run P F [forGroups nthBody] (nthArgs x g index d) =
      some (.ok ((PyEvalScan.scan g x d P.scan.isNa).map (nthRun index))) := by
  rw [run_forGroups P F nthBody (fun r => some (nthRun index r))
    (fun env => env.lookup "index" = some (.int index))
    (fun env r h => by simp [List.lookup, h])
    (fun env out r h => by rw [nthBody_eval P _ index env out r h]; rfl)
    (nthArgs x g index d) (by simp [nthArgs, List.lookup]) x g d _
    (by simp [nthArgs, args, List.lookup]) (by simp [nthArgs, args, List.lookup]) (by simp [nthArgs, args, List.lookup])
    (scan_call P F hF x g d hlen)]
  rw [allSome_map_some]; rfl

/-- a body `yield <value>` whose value needs only names protected by `I`. -/
theorem perGroup_run (P : Prims α ρ) (F : Funs) (hF : FunsOK F) (value : Term) (f : List α → Option (Val α ρ))
    (I : Env α ρ → Prop) (hpush : ∀ env r, I env → I (("xg", Val.vec r) :: env))
    (hval : ∀ env r, I env → evalE P (call1 P F) value (("xg", Val.vec r) :: env) = (f r).map Ans.ok)
    (env : Env α ρ) (hI : I env) (x : List α) (g : List Nat) (d : Bool) (hlen : x.length ≤ g.length)
    (hx : env.lookup "x" = some (.vec x)) (hg : env.lookup "group" = some (.ids g))
    (hd : env.lookup "drop_na" = some (.bool d)) :
    run P F [perGroup value] env = (allSome ((PyEvalScan.scan g x d P.scan.isNa).map f)).map Ans.ok :=
  run_forGroups P F _ f I hpush
    (fun env out r h => yieldBlock_eval P _ value _ out (f r) (hval env r h))
    env hI x g d _ hx hg hd (scan_call P F hF x g d hlen)

/-- **`mode_apply(x, group, drop_na)`**: the first most common key of `Counter(xg)`, `None` for an empty run. -/
theorem mode_apply_run (P : Prims α ρ) (F : Funs) (hF : FunsOK F) (x : List α) (g : List Nat) (d : Bool)
    (hlen : x.length ≤ g.length) :
    run P F [perGroup modeValue] (args x g d) =
      some (.ok ((PyEvalScan.scan g x d P.scan.isNa).map (modeRun P.keyEq))) := by
  rw [perGroup_run P F hF modeValue (fun r => some (modeRun P.keyEq r)) (fun _ => True) (fun _ _ _ => trivial)
    (fun env r _ => modeValue_eval P F hF.m1 env r) (args x g d) trivial x g d hlen
    (by simp [args, List.lookup]) (by simp [args, List.lookup]) (by simp [args, List.lookup])]
  rw [allSome_map_some]; rfl

/-- **`count_unique_apply(x, group, drop_na)`**: `len(set(xg))`. -/
theorem count_unique_apply_run (P : Prims α ρ) (F : Funs) (hF : FunsOK F) (x : List α) (g : List Nat) (d : Bool)
    (hlen : x.length ≤ g.length) :
    run P F [perGroup countUniqueValue] (args x g d) =
      some (.ok ((PyEvalScan.scan g x d P.scan.isNa).map (countUniqueRun P.keyEq))) := by
  rw [perGroup_run P F hF countUniqueValue (fun r => some (countUniqueRun P.keyEq r)) (fun _ => True)
    (fun _ _ _ => trivial) (fun env r _ => countUniqueValue_eval P _ env r) (args x g d) trivial x g d hlen
    (by simp [args, List.lookup]) (by simp [args, List.lookup]) (by simp [args, List.lookup])]
  rw [allSome_map_some]; rfl

/-- **`quantile_apply(x, group, q, drop_na)`**: `np.quantile(xg, q)`, `np.nan` for an empty run. -/
theorem quantile_apply_run (P : Prims α ρ) (F : Funs) (hF : FunsOK F) (x : List α) (g : List Nat) (q : ρ) (d : Bool)
    (hlen : x.length ≤ g.length) :
    run P F [perGroup quantileValue] (quantileArgs x g q d) =
      some (.ok ((PyEvalScan.scan g x d P.scan.isNa).map (quantileRun P.quantile q))) := by
  rw [perGroup_run P F hF quantileValue (fun r => some (quantileRun P.quantile q r))
    (fun env => env.lookup "q" = some (.res q)) (fun env r h => by simp [List.lookup, h])
    (fun env r h => quantileValue_eval P _ env q h r) (quantileArgs x g q d) (by simp [quantileArgs, List.lookup])
    x g d hlen (by simp [quantileArgs, args, List.lookup]) (by simp [quantileArgs, args, List.lookup])
    (by simp [quantileArgs, args, List.lookup])]
  rw [allSome_map_some]; rfl

/-- **`generic(function, **kwargs)(x, group, drop_na, default, nrequired)`**: `function` on the runs with at least
    `nrequired` elements, `default` for the others; the call fails iff `function` raises on one of the former. -/
theorem generic_run (P : Prims α ρ) (F : Funs) (hF : FunsOK F) (x : List α) (g : List Nat) (d : Bool)
    (default : Val α ρ) (nrequired : Int) (hlen : x.length ≤ g.length) :
    run P F [perGroup genericValue] (genericArgs x g d default nrequired) =
      (allSome ((PyEvalScan.scan g x d P.scan.isNa).map (genericRun P.function default nrequired))).map Ans.ok :=
  perGroup_run P F hF genericValue (genericRun P.function default nrequired)
    (fun env => env.lookup "default" = some default ∧ env.lookup "nrequired" = some (.int nrequired))
    (fun env r h => by simp [List.lookup, h.1, h.2])
    (fun env r h => genericValue_eval P _ env default nrequired h.1 h.2 r)
    (genericArgs x g d default nrequired) (by simp [genericArgs, List.lookup]) x g d hlen
    (by simp [genericArgs, args, List.lookup]) (by simp [genericArgs, args, List.lookup])
    (by simp [genericArgs, args, List.lookup])

/-- a `function` that never raises on a run it is given. -/
theorem generic_run_total (P : Prims α ρ) (F : Funs) (hF : FunsOK F) (fn : List α → ρ) (x : List α) (g : List Nat)
    (d : Bool) (default : Val α ρ) (nrequired : Int) (hlen : x.length ≤ g.length)
    (hfn : ∀ r ∈ PyEvalScan.scan g x d P.scan.isNa, nrequired ≤ (r.length : Int) → P.function r = some (fn r)) :
    run P F [perGroup genericValue] (genericArgs x g d default nrequired) =
      some (.ok ((PyEvalScan.scan g x d P.scan.isNa).map fun r =>
        if nrequired ≤ (r.length : Int) then Val.res (fn r) else default)) := by
  rw [generic_run P F hF x g d default nrequired hlen]
  have : (PyEvalScan.scan g x d P.scan.isNa).map (genericRun P.function default nrequired) =
      (PyEvalScan.scan g x d P.scan.isNa).map fun r =>
        some (if nrequired ≤ (r.length : Int) then Val.res (fn r) else default) := by
    apply List.map_congr_left
    intro r hr
    unfold genericRun
    by_cases h : nrequired ≤ (r.length : Int)
    · rw [if_pos h, if_pos h, hfn r hr h]; rfl
    · rw [if_neg h, if_neg h]
  rw [this, allSome_map_some]; rfl

/-- **`handle_na(x, drop_na)`**: `x[~x.is_na()]` when `drop_na`, else `x` itself. -/
theorem handleNa_eval (P : Prims α ρ) (call : String → List (Val α ρ) → Option (Ans (Val α ρ))) (x : List α) (d : Bool) :
    evalE P call (handleNaTerm d) [("x", Val.vec x), ("drop_na", Val.bool d)] =
      some (.ok (.vec (PyEvalScan.post d P.scan.isNa x))) := by
  cases d with
  | false => simp [handleNaTerm, evalE, List.lookup, PyEvalScan.post]
  | true =>
    have := PyEvalScan.maskSelect_not_map P.scan.isNa x
    rw [List.map_map] at this
    simp [handleNaTerm, evalE, bindA, List.lookup, PyEvalScan.post, this]

/-- the call `handle_na(x, drop_na)` from another body (the vector forms). -/
theorem handleNa_call (P : Prims α ρ) (F : Funs) (x : List α) (d : Bool) (hF : F.handleNa = handleNaTerm d)
    (env : Env α ρ) (hx : env.lookup "x" = some (.vec x)) (hd : env.lookup "drop_na" = some (.bool d)) :
    evalE P (call1 P F) (Term.app "handle_na" [Term.sym "x", Term.sym "drop_na"]) env =
      some (.ok (.vec (PyEvalScan.post d P.scan.isNa x))) := by
  have := handleNa_eval P call0 x d
  simp [evalE, bindA, hx, hd, call1, hF, this]

/-- sorted ids: one value per distinct id, ids ascending, from the elements of that id in their original order. -/
theorem scan_map_sorted {β : Type} (g : List Nat) (x : List α) (hlen : g.length = x.length) (hs : g.Pairwise (· ≤ ·))
    (d : Bool) (na : α → Bool) (f : List α → β) :
    (PyEvalScan.scan g x d na).map f = g.eraseDups.map fun id => f (PyEvalScan.post d na (PyEvalScan.pick id g x)) := by
  rw [PyEvalScan.scan_sorted g x hlen hs, List.map_map]
  rfl

end Bodies

/-! ### what one run gives, characterised -/

section RunSpecs
variable {α ρ : Type}

theorem pyIndex_nonneg (xs : List α) (i : Int) (h0 : 0 ≤ i) (hlt : i < xs.length) :
    pyIndex xs i = some (xs[i.toNat]'(by omega)) := by
  unfold pyIndex
  rw [if_pos h0, List.getElem?_eq_getElem (by omega)]

theorem pyIndex_neg (xs : List α) (i : Int) (hneg : i < 0) (hge : -(xs.length : Int) ≤ i) :
    pyIndex xs i = some (xs[(i + xs.length).toNat]'(by omega)) := by
  unfold pyIndex
  rw [if_neg (by omega), if_pos hge, List.getElem?_eq_getElem (by omega)]

theorem pyIndex_out_of_range (xs : List α) (i : Int) (h : (xs.length : Int) ≤ i ∨ i < -(xs.length : Int)) :
    pyIndex xs i = none := by
  unfold pyIndex
  rcases h with h | h
  · rw [if_pos (by omega), List.getElem?_eq_none (by omega)]
  · rw [if_neg (by omega), if_neg (by omega)]

theorem pyIndex_zero (xs : List α) (hne : xs ≠ []) : pyIndex xs 0 = some (xs.head hne) := by
  cases xs with
  | nil => exact absurd rfl hne
  | cons a l => simp [pyIndex]

theorem pyIndex_neg_one (xs : List α) (hne : xs ≠ []) : pyIndex xs (-1) = some (xs.getLast hne) := by
  have hpos := List.length_pos_iff.mpr hne
  rw [pyIndex_neg xs (-1) (by omega) (by omega), List.getLast_eq_getElem]
  congr 2
  omega

/-- nth of one run: the element at a valid (positive or negative) index, `None` otherwise; first / last. -/
theorem nthRun_spec (xs : List α) (i : Int) :
    (∀ (h0 : 0 ≤ i) (hlt : i < xs.length), nthRun (ρ := ρ) i xs = .elem (xs[i.toNat]'(by omega))) ∧
    (∀ (hneg : i < 0) (hge : -(xs.length : Int) ≤ i), nthRun (ρ := ρ) i xs = .elem (xs[(i + xs.length).toNat]'(by omega))) ∧
    ((xs.length : Int) ≤ i ∨ i < -(xs.length : Int) → nthRun (ρ := ρ) i xs = .pyNone) ∧
    (∀ hne : xs ≠ [], nthRun (ρ := ρ) 0 xs = .elem (xs.head hne) ∧ nthRun (ρ := ρ) (-1) xs = .elem (xs.getLast hne)) := by
  refine ⟨?_, ?_, ?_, ?_⟩
  · intro h0 hlt; simp only [nthRun, pyIndex_nonneg xs i h0 hlt]
  · intro hneg hge; simp only [nthRun, pyIndex_neg xs i hneg hge]
  · intro h; simp only [nthRun, pyIndex_out_of_range xs i h]
  · intro hne; simp only [nthRun, pyIndex_zero xs hne, pyIndex_neg_one xs hne, and_self]

variable [BEq α] [LawfulBEq α]

/-- mode of one run, when the key equality is equality on the elements of the run: `None` for the empty run, else the
    element `m` that no element outnumbers and that is met first among the equally frequent ones. -/
theorem modeRun_spec (eq : α → α → Bool) (xs : List α) (hl : ∀ a ∈ xs, ∀ b ∈ xs, (eq a b = true ↔ a = b)) :
    (xs = [] → modeRun (ρ := ρ) eq xs = .pyNone) ∧
    (xs ≠ [] → ∃ m, modeRun (ρ := ρ) eq xs = .elem m ∧ ModeSpec xs m) := by
  constructor
  · intro h; subst h; rfl
  · intro hne
    have hc : counter eq xs = counter (fun a b => a == b) xs := by
      apply counter_congr
      intro a ha b hb
      have := hl a ha b hb
      by_cases hab : a = b
      · rw [this.mpr hab]; simp [hab]
      · have : eq a b = false := by
          cases h : eq a b with
          | false => rfl
          | true => exact absurd (this.mp h) hab
        simp [hab, this]
    obtain ⟨m, hm, hspec⟩ := firstMax_counter_spec (eq := fun a b => a == b) (by intro a b; simp) xs hne
    exact ⟨m, by simp only [modeRun, hc, hm], hspec⟩

/-- count_unique of one run, for a lawful key equality: the number of distinct elements. -/
theorem countUniqueRun_spec (eq : α → α → Bool) (hl : Lawful eq) (xs : List α) :
    countUniqueRun (ρ := ρ) eq xs = .int xs.eraseDups.length ∧ xs.eraseDups.Nodup ∧ (∀ a, a ∈ xs.eraseDups ↔ a ∈ xs) := by
  refine ⟨by simp only [countUniqueRun, pySet_lawful hl], Agg.nodup_eraseDups xs, fun a => List.mem_eraseDups⟩

end RunSpecs


/-! ## C. the model instance: cells `Option Rat`, results `Agg.Res` -/

section Model
open Agg

/-- "the same `set` / `dict` key" on the model's cells: equal numbers are one key; the missing value is one key
    (`None` of a string column) or, when `naDistinct`, every occurrence its own key (float NaN objects). -/
def numKeyEq (naDistinct : Bool) : Num → Num → Bool
  | some p, some q => p == q
  | none, none => !naDistinct
  | _, _ => false

/-- the primitives at the model: `is_na` = "is `none`", `np.quantile` = the model's `npQuantile` (its `q` a number). -/
def modelPrims (naDistinct strict : Bool) (function : List Num → Option Res) : Prims Num Res where
  scan := ⟨fun c => c.isNone, fun c => c.isNone⟩
  keyEq := numKeyEq naDistinct
  function := function
  quantile := fun xs r => match r with
    | .val q => npQuantile q xs
    | _ => .missing
  strictMode := strict

/-- a yielded Python value as a result of the model; `None` becomes `aggregate.default` (what `DataFrame.aggregate`
    does with the list the kernel returns). -/
def toRes (h : Helper) : Val Num Res → Res
  | .elem a => ofNum a
  | .pyNone => defaultOf h
  | .nan => .missing
  | .res r => r
  | .int i => .nat i.toNat
  | .bool b => .bool b
  | _ => .missing

/-- the list a kernel returns, as results of the model (`none` if the call failed). -/
def resultsOf (h : Helper) : Option (Ans (List (Val Num Res))) → Option (List Res)
  | some (.ok vs) => some (vs.map (toRes h))
  | _ => none

/-- the model's kernel on one run, `None` replaced by the default. -/
def kd (h : Helper) (xg : List Num) : Res :=
  match kernel h xg with
  | some r => r
  | none => defaultOf h

theorem groupForm_eq_kd (h : Helper) (drop : Bool) (xs : List Num) (ids : List Nat) :
    groupForm h drop xs ids = (chunks ids xs).map fun xg => kd h (handleNa xg (drop && hasNa xs)) := rfl

/-- per-run agreement lifts to the whole call. -/
theorem lift_runs (h : Helper) (f : List Num → Val Num Res) (ids : List Nat) (xs : List Num)
    (hlen : ids.length = xs.length) (dn : Bool)
    (hf : ∀ xg ∈ chunks ids xs, toRes h (f (handleNa xg dn)) = kd h (handleNa xg dn)) :
    resultsOf h (some (.ok ((PyEvalScan.scan ids xs dn (fun c => c.isNone)).map f))) =
      some ((chunks ids xs).map fun xg => kd h (handleNa xg dn)) := by
  simp only [resultsOf, PyEvalScan.scan_eq_chunks ids xs hlen dn, List.map_map]
  congr 1
  apply List.map_congr_left
  intro xg hxg
  exact hf xg hxg

/-! ### nth -/

theorem nthRun_model (i : Int) (xg : List Num) : toRes (.nth i) (nthRun i xg) = kd (.nth i) xg := by
  have e : kd (.nth i) xg = nthOf xg i := nth_kernel_default xg i
  rw [e]
  unfold nthRun pyIndex nthOf
  by_cases h0 : 0 ≤ i
  · simp only [h0, if_true]
    cases xg[i.toNat]? <;> rfl
  · simp only [h0, if_false]
    by_cases h1 : -(xg.length : Int) ≤ i
    · simp only [h1, if_true]
      cases xg[(i + xg.length).toNat]? <;> rfl
    · simp only [h1, if_false]; rfl

/-! ### mode -/

theorem numKeyEq_lawful_on (d : Bool) (xs : List Num) (h : d = false ∨ hasNa xs = false) :
    ∀ a ∈ xs, ∀ b ∈ xs, (numKeyEq d a b = true ↔ a = b) := by
  intro a ha b hb
  rcases h with rfl | h
  · cases a <;> cases b <;> simp [numKeyEq]
  · unfold hasNa at h
    rw [List.any_eq_false] at h
    cases a with
    | none => exact absurd rfl (h none ha)
    | some p =>
      cases b with
      | none => exact absurd rfl (h none hb)
      | some q => simp [numKeyEq]

/-- on a run where the missing value is one key, or that holds no missing value: the code's mode is the model's. -/
theorem modeRun_model (d : Bool) (xg : List Num) (h : d = false ∨ hasNa xg = false) :
    toRes .mode (modeRun (numKeyEq d) xg) = kd .mode xg := by
  obtain ⟨h1, h2⟩ := modeRun_spec (ρ := Res) (numKeyEq d) xg (numKeyEq_lawful_on d xg h)
  cases xg with
  | nil => rw [h1 rfl]; rfl
  | cons a t =>
    obtain ⟨m, hm, hspec⟩ := h2 (by simp)
    obtain ⟨m', hm', hspec'⟩ := mode_most_frequent_first (a :: t) (by simp)
    have : m = m' := modeSpec_unique (a :: t) m m' hspec hspec'
    rw [hm, this]
    simp only [kd, kernel, List.length_cons, ge_iff_le, Nat.le_add_left, if_true, hm']
    rfl

/-- with NaN objects as distinct keys and the missing values kept, the code's mode is NOT the model's `modeOf`: every NaN
    counts once, so `[1, NaN, NaN]` has the mode 1 in Python while the model counts the two NaN together. -/
theorem modeRun_model_counterexample :
    toRes .mode (modeRun (numKeyEq true) [some 1, none, none]) = .val 1 ∧ kd .mode [some 1, none, none] = .missing := by
  decide

/-! ### count_unique -/

/-- the part of `countUniqueOf` that counts the missing values. -/
def naPart (d : Bool) (xs : List Num) : Nat :=
  let nas := (xs.filter (·.isNone)).length
  if d then nas else min nas 1

theorem any_numKeyEq_some (d : Bool) (s : List Num) (v : Rat) :
    (s.any fun k => numKeyEq d k (some v)) = true ↔ some v ∈ s := by
  rw [List.any_eq_true]
  constructor
  · rintro ⟨k, hk, he⟩
    cases k with
    | none => simp [numKeyEq] at he
    | some p =>
      have : p = v := by simpa [numKeyEq] using he
      rw [← this]; exact hk
  · intro h; exact ⟨some v, h, by simp [numKeyEq]⟩

theorem any_numKeyEq_none (d : Bool) (s : List Num) :
    (s.any fun k => numKeyEq d k none) = true ↔ (d = false ∧ none ∈ s) := by
  rw [List.any_eq_true]
  constructor
  · rintro ⟨k, hk, he⟩
    cases k with
    | none => cases d <;> simp_all [numKeyEq]
    | some p => simp [numKeyEq] at he
  · rintro ⟨rfl, h⟩; exact ⟨none, h, by simp [numKeyEq]⟩

theorem values_append_some (pre : List Num) (v : Rat) : values (pre ++ [some v]) = values pre ++ [v] := by
  simp [values, List.filterMap_append]

theorem values_append_none (pre : List Num) : values (pre ++ [none]) = values pre := by
  simp [values, List.filterMap_append]

theorem setAdd_count_inv (d : Bool) :
    ∀ (xs pre s : List Num), (∀ c, c ∈ s ↔ c ∈ pre) → s.length = (values pre).eraseDups.length + naPart d pre →
      (xs.foldl (setAdd (numKeyEq d)) s).length = (values (pre ++ xs)).eraseDups.length + naPart d (pre ++ xs) := by
  intro xs
  induction xs with
  | nil => intro pre s _ hlen; simpa using hlen
  | cons a t ih =>
    intro pre s hmem hlen
    simp only [List.foldl_cons]
    have key : (∀ c, c ∈ setAdd (numKeyEq d) s a ↔ c ∈ pre ++ [a]) ∧
        (setAdd (numKeyEq d) s a).length = (values (pre ++ [a])).eraseDups.length + naPart d (pre ++ [a]) := by
      cases a with
      | some v =>
        have hna : naPart d (pre ++ [some v]) = naPart d pre := by simp [naPart, List.filter_append]
        rw [values_append_some, eraseDups_append_singleton, hna]
        unfold setAdd
        by_cases hv : some v ∈ s
        · have hv' : v ∈ values pre := mem_values.mpr ((hmem _).mp hv)
          rw [if_pos ((any_numKeyEq_some d s v).mpr hv), if_pos hv']
          refine ⟨fun c => ?_, hlen⟩
          rw [hmem c, List.mem_append]
          constructor
          · exact Or.inl
          · rintro (h | h)
            · exact h
            · have : c = some v := by simpa using h
              rw [this]; exact (hmem _).mp hv
        · have hv' : v ∉ values pre := fun h => hv ((hmem _).mpr (mem_values.mp h))
          rw [if_neg (fun h => hv ((any_numKeyEq_some d s v).mp h)), if_neg hv']
          refine ⟨fun c => ?_, ?_⟩
          · simp only [List.mem_append, hmem c]
          · simp only [List.length_append, List.length_cons, List.length_nil]; omega
      | none =>
        rw [values_append_none]
        unfold setAdd
        by_cases hn : d = false ∧ none ∈ s
        · rw [if_pos ((any_numKeyEq_none d s).mpr hn)]
          obtain ⟨rfl, hn⟩ := hn
          have hpre : none ∈ pre := (hmem _).mp hn
          have hpos : 0 < (pre.filter (·.isNone)).length :=
            List.length_pos_of_mem (List.mem_filter.mpr ⟨hpre, rfl⟩)
          refine ⟨fun c => ?_, ?_⟩
          · rw [hmem c, List.mem_append]
            constructor
            · exact Or.inl
            · rintro (h | h)
              · exact h
              · have : c = none := by simpa using h
                rw [this]; exact hpre
          · rw [hlen]
            simp only [naPart, List.filter_append, List.length_append, Bool.false_eq_true, if_false]
            have : ([none] : List Num).filter (·.isNone) = [none] := rfl
            rw [this]; simp only [List.length_cons, List.length_nil]; omega
        · rw [if_neg (fun h => hn ((any_numKeyEq_none d s).mp h))]
          refine ⟨fun c => ?_, ?_⟩
          · simp only [List.mem_append, hmem c]
          · have hf : ([none] : List Num).filter (·.isNone) = [none] := rfl
            simp only [List.length_append, List.length_cons, List.length_nil, hlen, naPart, List.filter_append, hf]
            cases d with
            | true => simp only [if_true]; omega
            | false =>
              have hnone : none ∉ pre := fun h => hn ⟨rfl, (hmem _).mpr h⟩
              have : pre.filter (·.isNone) = [] := by
                rw [List.filter_eq_nil_iff]
                intro c hc
                cases c with
                | none => exact absurd hc hnone
                | some _ => simp
              simp [this]
    have := ih (pre ++ [a]) _ key.1 key.2
    simpa using this

/-- **`len(set(xg))` at the model** is the model's `countUniqueOf`, for both kinds of missing value. -/
theorem countUniqueRun_model (d : Bool) (xg : List Num) :
    toRes (.countUnique d) (countUniqueRun (numKeyEq d) xg) = kd (.countUnique d) xg := by
  have := setAdd_count_inv d xg [] [] (by simp) (by simp [values, naPart])
  simp only [List.nil_append] at this
  simp only [toRes, countUniqueRun, pySet, this, kd, kernel, countUniqueOf, naPart, Int.toNat_natCast]

/-! ### quantile -/

theorem quantileRun_model (q : Rat) (xg : List Num) :
    toRes (.quantile q) (quantileRun (modelPrims d s fn).quantile (.val q) xg) = kd (.quantile q) xg := by
  unfold quantileRun kd kernel
  by_cases h : 1 ≤ xg.length
  · simp only [h, if_true, ge_iff_le]; rfl
  · simp only [h, if_false, ge_iff_le]; rfl

/-! ### generic -/

/-- the instances of `generic` the library builds: the NumPy function, `nrequired` and the `default=` argument, as
    written in the closures of `all`, `any`, `count`, `min`, `max`, `mean`, `median`, `std`, `var`, `sum`
    (`default=None` for min / max: replaced by the column's missing value afterwards; `data[x].dtype.type(0)` for sum). -/
def genericInst : Helper → Option ((List Num → Res) × Int × Val Num Res)
  | .all => some (npAll, 0, .bool true)
  | .any => some (npAny, 0, .bool false)
  | .count => some (fun x => .nat x.length, 0, .int 0)
  | .min => some (npMin, 1, .pyNone)
  | .max => some (npMax, 1, .pyNone)
  | .mean => some (npMean, 1, .nan)
  | .median => some (npMedian, 1, .nan)
  | .std ddof => some (npStd ddof, 2, .nan)
  | .var ddof => some (npVar ddof, 2, .nan)
  | .sum => some (npSum, 0, .res (.val 0))
  | _ => none

theorem genericInst_model (h : Helper) (fn : List Num → Res) (n : Int) (dv : Val Num Res)
    (hi : genericInst h = some (fn, n, dv)) (xg : List Num) :
    toRes h (if n ≤ (xg.length : Int) then Val.res (fn xg) else dv) = kd h xg := by
  cases h <;> simp only [genericInst, Option.some.injEq, Prod.mk.injEq, reduceCtorEq] at hi <;>
    obtain ⟨rfl, rfl, rfl⟩ := hi <;> unfold kd kernel
  all_goals
    first
    | (have h0 : (0 : Int) ≤ (xg.length : Int) := by omega
       simp only [h0, if_true, ge_iff_le, Nat.zero_le]; rfl)
    | (by_cases h1 : 1 ≤ xg.length
       · have h1' : (1 : Int) ≤ (xg.length : Int) := by omega
         simp only [h1, h1', if_true, ge_iff_le]; rfl
       · have h1' : ¬ (1 : Int) ≤ (xg.length : Int) := by omega
         simp only [h1, h1', if_false, ge_iff_le]; rfl)
    | (by_cases h2 : 2 ≤ xg.length
       · have h2' : (2 : Int) ≤ (xg.length : Int) := by omega
         simp only [h2, h2', if_true, ge_iff_le]; rfl
       · have h2' : ¬ (2 : Int) ≤ (xg.length : Int) := by omega
         simp only [h2, h2', if_false, ge_iff_le]; rfl)

/-! ### the whole calls at the model -/

theorem post_isNone (d : Bool) (xs : List Num) : PyEvalScan.post d (fun c : Num => c.isNone) xs = handleNa xs d := by
  cases d with
  | false => rfl
  | true =>
    simp only [PyEvalScan.post, handleNa, dropNa, if_true]
    apply List.filter_congr
    intro a _
    cases a <;> rfl

theorem nth_apply_model (F : Funs) (hF : FunsOK F) (naD strict : Bool) (fn : List Num → Option Res)
    (xs : List Num) (ids : List Nat) (hlen : ids.length = xs.length) (i : Int) (dn : Bool) :
    resultsOf (.nth i) (run (modelPrims naD strict fn) F [forGroups nthBody] (nthArgs xs ids i dn)) =
      some ((chunks ids xs).map fun xg => kd (.nth i) (handleNa xg dn)) := by
  rw [nth_apply_run (modelPrims naD strict fn) F hF xs ids i dn (by omega)]
  exact lift_runs (.nth i) (nthRun i) ids xs hlen dn (fun xg _ => nthRun_model i _)

theorem mode_apply_model (F : Funs) (hF : FunsOK F) (naD strict : Bool) (fn : List Num → Option Res)
    (xs : List Num) (ids : List Nat) (hlen : ids.length = xs.length) (dn : Bool)
    (hkey : naD = false ∨ dn = true ∨ hasNa xs = false) :
    resultsOf .mode (run (modelPrims naD strict fn) F [perGroup modeValue] (args xs ids dn)) =
      some ((chunks ids xs).map fun xg => kd .mode (handleNa xg dn)) := by
  rw [mode_apply_run (modelPrims naD strict fn) F hF xs ids dn (by omega)]
  refine lift_runs .mode (modeRun (numKeyEq naD)) ids xs hlen dn (fun xg hxg => modeRun_model naD _ ?_)
  rcases hkey with h | h | h
  · exact Or.inl h
  · exact Or.inr (hasNa_handleNa xg dn (Or.inl h))
  · exact Or.inr (hasNa_handleNa xg dn (Or.inr (hasNa_chunk ids xs hlen xg hxg h)))

theorem count_unique_apply_model (F : Funs) (hF : FunsOK F) (naD strict : Bool) (fn : List Num → Option Res)
    (xs : List Num) (ids : List Nat) (hlen : ids.length = xs.length) (dn : Bool) :
    resultsOf (.countUnique naD) (run (modelPrims naD strict fn) F [perGroup countUniqueValue] (args xs ids dn)) =
      some ((chunks ids xs).map fun xg => kd (.countUnique naD) (handleNa xg dn)) := by
  rw [count_unique_apply_run (modelPrims naD strict fn) F hF xs ids dn (by omega)]
  exact lift_runs (.countUnique naD) (countUniqueRun (numKeyEq naD)) ids xs hlen dn
    (fun xg _ => countUniqueRun_model naD _)

theorem quantile_apply_model (F : Funs) (hF : FunsOK F) (naD strict : Bool) (fn : List Num → Option Res)
    (xs : List Num) (ids : List Nat) (hlen : ids.length = xs.length) (q : Rat) (dn : Bool) :
    resultsOf (.quantile q) (run (modelPrims naD strict fn) F [perGroup quantileValue] (quantileArgs xs ids (.val q) dn)) =
      some ((chunks ids xs).map fun xg => kd (.quantile q) (handleNa xg dn)) := by
  rw [quantile_apply_run (modelPrims naD strict fn) F hF xs ids (.val q) dn (by omega)]
  exact lift_runs (.quantile q) (quantileRun (modelPrims naD strict fn).quantile (.val q)) ids xs hlen dn
    (fun xg _ => quantileRun_model q _)

theorem generic_model (F : Funs) (hF : FunsOK F) (naD strict : Bool) (h : Helper) (fn : List Num → Res) (n : Int)
    (dv : Val Num Res) (hi : genericInst h = some (fn, n, dv))
    (xs : List Num) (ids : List Nat) (hlen : ids.length = xs.length) (dn : Bool) :
    resultsOf h (run (modelPrims naD strict (fun xg => some (fn xg))) F [perGroup genericValue] (genericArgs xs ids dn dv n)) =
      some ((chunks ids xs).map fun xg => kd h (handleNa xg dn)) := by
  rw [generic_run_total (modelPrims naD strict (fun xg => some (fn xg))) F hF fn xs ids dn dv n (by omega)
    (fun _ _ _ => rfl)]
  exact lift_runs h (fun r => if n ≤ (r.length : Int) then Val.res (fn r) else dv) ids xs hlen dn
    (fun xg _ => genericInst_model h fn n dv hi _)

end Model

end DI.PyEvalAgg

/-
  Lemmas/Vector.lean — proofs about Model/Vector.lean (Vector.sort / rank / unique).
-/
import Model.Vector
import Lemmas.Sort

namespace DI

variable {κ : Type} {α : Type}

theorem leRaw_pre {le : κ → κ → Bool} (h : PreOrd le) (naFirst : Bool) :
    PreOrd (leRaw le naFirst) := by
  constructor
  · intro a b
    cases a <;> cases b <;> cases naFirst <;> simp [leRaw]
    exact by simpa using h.total _ _
    exact by simpa using h.total _ _
  · intro a b c
    cases a <;> cases b <;> cases c <;> cases naFirst <;> simp [leRaw]
    all_goals exact h.trans _ _ _

/-- Every pair in a list carries the value found at its index. -/
def Tagged (xs : List α) (ps : List (α × Nat)) : Prop := ∀ p ∈ ps, xs[p.2]? = some p.1

theorem tagged_sortPairs (le : α → α → Bool) (xs : List α) : Tagged xs (sortPairs le xs) :=
  fun _ hp => mem_sortPairs_get hp

theorem Tagged.reverse {xs : List α} {ps : List (α × Nat)} (h : Tagged xs ps) :
    Tagged xs ps.reverse := fun p hp => h p (by simpa using hp)

theorem Tagged.filter {xs : List α} {ps : List (α × Nat)} (h : Tagged xs ps) (f) :
    Tagged xs (ps.filter f) := fun p hp => h p (List.mem_filter.mp hp).1

theorem Tagged.gather [Inhabited α] {xs : List α} {ps : List (α × Nat)} (h : Tagged xs ps) :
    gather xs (ps.map (·.2)) = ps.map (·.1) := by
  induction ps with
  | nil => simp [DI.gather]
  | cons p ps ih =>
    have hp := h p (by simp)
    have ih' := ih (fun q hq => h q (by simp [hq]))
    simp only [DI.gather, List.map_cons, List.map_map] at ih' ⊢
    rw [ih']
    simp [hp]

theorem Tagged.filter_idx [Inhabited α] {xs : List α} {ps : List (α × Nat)} (h : Tagged xs ps)
    (f : α → Bool) :
    (ps.map (·.2)).filter (fun i => f xs[i]!) = (ps.filter (fun p => f p.1)).map (·.2) := by
  induction ps with
  | nil => simp
  | cons p ps ih =>
    have hp := h p (by simp)
    have ih' := ih (fun q hq => h q (by simp [hq]))
    have hv : xs[p.2]! = p.1 := by simp [hp]
    simp only [List.map_cons, List.filter_cons, hv]
    split
    · rw [List.map_cons, ih']
    · exact ih'

/-- `Vector.sort` returns a permutation of the input positions. -/
theorem vsort_perm' (le : κ → κ → Bool) (naFirst desc : Bool) (xs : List (Option κ)) :
    (vsort le naFirst desc xs).Perm (List.range xs.length) := by
  unfold vsort
  simp only []
  have h1 := argsort_perm (leRaw le naFirst) xs
  have h2 : (if desc then (argsort (leRaw le naFirst) xs).reverse
      else argsort (leRaw le naFirst) xs).Perm (List.range xs.length) := by
    split
    · exact (List.reverse_perm _).trans h1
    · exact h1
  refine List.Perm.trans ?_ h2
  have := List.filter_append_perm (fun i => !isNa xs[i]!)
    (if desc then (argsort (leRaw le naFirst) xs).reverse else argsort (leRaw le naFirst) xs)
  simpa using this

/-- The values read off at the positions returned by `Vector.sort` are ordered in the requested
    direction with missing values last. -/
theorem vsort_ordered' {le : κ → κ → Bool} (h : PreOrd le) (naFirst desc : Bool)
    (xs : List (Option κ)) :
    (gather xs (vsort le naFirst desc xs)).Pairwise (fun a b => ordDir le desc a b) := by
  unfold vsort argsort
  simp only []
  have hT := tagged_sortPairs (leRaw le naFirst) xs
  have hS := sortPairs_sorted (leRaw_pre h naFirst) xs
  generalize sortPairs (leRaw le naFirst) xs = ps at hT hS
  -- the (possibly reversed) pair list, still tagged
  have key : ∀ qs : List (Option κ × Nat), Tagged xs qs →
      qs.Pairwise (fun p q => ordDir le desc p.1 q.1 ∨ p.1 = none ∨ q.1 = none) →
      (gather xs ((qs.map (·.2)).filter (fun i => !isNa xs[i]!) ++
        (qs.map (·.2)).filter (fun i => isNa xs[i]!))).Pairwise (fun a b => ordDir le desc a b) := by
    intro qs hq hp
    rw [hq.filter_idx (fun x => !isNa x), hq.filter_idx (fun x => isNa x)]
    rw [← List.map_append]
    rw [Tagged.gather]
    · rw [List.map_append, List.pairwise_append]
      refine ⟨?_, ?_, ?_⟩
      · rw [List.pairwise_map]
        have := hp.filter (fun p => !isNa p.1)
        refine List.Pairwise.imp_of_mem ?_ this
        intro a b ha hb hab
        have ha' := (List.mem_filter.mp ha).2
        have hb' := (List.mem_filter.mp hb).2
        rcases hab with hab | hab | hab
        · exact hab
        · simp [isNa, hab] at ha'
        · simp [isNa, hab] at hb'
      · rw [List.pairwise_map]
        refine List.Pairwise.imp_of_mem ?_ (List.Pairwise.filter _ hp)
        intro a b _ hb _
        have hb' := (List.mem_filter.mp hb).2
        have : b.1 = none := by simpa [isNa] using hb'
        simp [this, ordDir]
      · intro a _ b hb
        simp only [List.mem_map, List.mem_filter] at hb
        obtain ⟨q, ⟨_, hq2⟩, rfl⟩ := hb
        have : q.1 = none := by simpa [isNa] using hq2
        simp [this, ordDir]
    · intro p hp'
      rcases List.mem_append.mp hp' with h' | h'
      · exact hq p (List.mem_filter.mp h').1
      · exact hq p (List.mem_filter.mp h').1
  cases desc with
  | false =>
    simp only [Bool.false_eq_true, if_false]
    apply key ps hT
    refine hS.imp ?_
    intro a b hab
    rcases a with ⟨a, i⟩; rcases b with ⟨b, j⟩
    cases a <;> cases b <;> simp_all [leRaw, ordDir]
  | true =>
    simp only [if_true]
    rw [← List.map_reverse]
    apply key ps.reverse hT.reverse
    rw [List.pairwise_reverse]
    refine hS.imp ?_
    intro a b hab
    rcases a with ⟨a, i⟩; rcases b with ⟨b, j⟩
    cases a <;> cases b <;> simp_all [leRaw, ordDir]

end DI

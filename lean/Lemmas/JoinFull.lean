/-
  Lemmas/JoinFull.lean — C05: full_join keeps every row of both sides.
-/
import Model.Group
import Lemmas.Sort
import Lemmas.Frame
import Lemmas.Group

namespace DI

theorem gather_range {α : Type} [Inhabited α] (xs : List α) : gather xs (List.range xs.length) = xs := by
  apply List.ext_getElem
  · simp [gather]
  · intro i h1 h2
    simp only [gather, List.length_map, List.length_range] at h1
    simp [gather, h1]

theorem gather_perm {α : Type} [Inhabited α] (xs : List α) (idx : List Nat) (h : idx.Perm (List.range xs.length)) :
    (gather xs idx).Perm xs := by
  have := h.map (fun i => xs[i]!)
  have e : (List.range xs.length).map (fun i => xs[i]!) = xs := gather_range xs
  rw [e] at this
  exact this

/-- the rows `full_join` appends: right rows not matched by any left row, each with its own
    (reverse) match among the left rows. -/
def fullJoinExtra (n : Nat) (lkeys : List (List Cell)) (m : Nat) (rkeys : List (List Cell)) :
    List (Option Nat × Option Nat) :=
  let used := (leftJoinPairs n lkeys m rkeys).filterMap (·.2)
  let rest := (List.range m).filter (fun j => !used.contains j)
  let back := joinSrc rest.length (rkeys.map (fun c => gather c rest)) n lkeys
  (back.zip rest).map (fun (a, j) => (a, some j))

/-- `full_join` = the left join plus the unmatched right rows, reordered. -/
theorem fullJoinPairs_perm (n : Nat) (lk : List (List Cell)) (m : Nat) (rk : List (List Cell)) :
    (fullJoinPairs n lk m rk).Perm (leftJoinPairs n lk m rk ++ fullJoinExtra n lk m rk) := by
  unfold fullJoinPairs fullJoinExtra
  simp only
  split
  · rename_i he
    have : (List.range m).filter (fun j => !((leftJoinPairs n lk m rk).filterMap (·.2)).contains j) = [] := by
      simpa using he
    rw [this]
    simp
  · apply gather_perm
    exact argsort_perm _ _

/-- every left row is kept. -/
theorem fullJoin_keeps_left (n : Nat) (lk : List (List Cell)) (m : Nat) (rk : List (List Cell)) (i : Nat) (hi : i < n) :
    ∃ p ∈ fullJoinPairs n lk m rk, p.1 = some i := by
  have hl := leftJoinPairs_left n lk m rk
  have hmem : some i ∈ (leftJoinPairs n lk m rk).map (·.1) := by
    rw [hl]; exact List.mem_map.mpr ⟨i, by simpa using hi, rfl⟩
  obtain ⟨p, hp, e⟩ := List.mem_map.mp hmem
  exact ⟨p, (fullJoinPairs_perm n lk m rk).mem_iff.mpr (List.mem_append.mpr (Or.inl hp)), e⟩

/-- every right row is kept: merged into a left row, or appended. -/
theorem fullJoin_keeps_right (n : Nat) (lk : List (List Cell)) (m : Nat) (rk : List (List Cell)) (j : Nat) (hj : j < m) :
    ∃ p ∈ fullJoinPairs n lk m rk, p.2 = some j := by
  by_cases hu : j ∈ (leftJoinPairs n lk m rk).filterMap (·.2)
  · obtain ⟨p, hp, e⟩ := List.mem_filterMap.mp hu
    exact ⟨p, (fullJoinPairs_perm n lk m rk).mem_iff.mpr (List.mem_append.mpr (Or.inl hp)), e⟩
  · have hrest : j ∈ (List.range m).filter (fun j => !((leftJoinPairs n lk m rk).filterMap (·.2)).contains j) := by
      rw [List.mem_filter]
      exact ⟨by simpa using hj, by simpa using hu⟩
    obtain ⟨k, hk, ek⟩ := List.mem_iff_getElem.mp hrest
    have hbl := joinSrc_length ((List.range m).filter (fun j => !((leftJoinPairs n lk m rk).filterMap (·.2)).contains j)).length
      (rk.map (fun c => gather c ((List.range m).filter (fun j => !((leftJoinPairs n lk m rk).filterMap (·.2)).contains j)))) n lk true
    refine ⟨((joinSrc _ (rk.map (fun c => gather c ((List.range m).filter (fun j => !((leftJoinPairs n lk m rk).filterMap (·.2)).contains j)))) n lk)[k]'(by rw [hbl]; exact hk), some j), ?_, rfl⟩
    apply (fullJoinPairs_perm n lk m rk).mem_iff.mpr
    apply List.mem_append.mpr
    right
    unfold fullJoinExtra
    simp only
    apply List.mem_map.mpr
    refine ⟨(_, j), ?_, rfl⟩
    rw [List.mem_iff_getElem]
    refine ⟨k, by simp only [List.length_zip, hbl]; omega, ?_⟩
    rw [List.getElem_zip, ek]

/-- an appended row never repeats a right row that was already merged into a left row. -/
theorem fullJoinExtra_unmatched (n : Nat) (lk : List (List Cell)) (m : Nat) (rk : List (List Cell))
    (p : Option Nat × Option Nat) (hp : p ∈ fullJoinExtra n lk m rk) :
    ∃ j, p.2 = some j ∧ j < m ∧ ∀ q ∈ leftJoinPairs n lk m rk, q.2 ≠ some j := by
  unfold fullJoinExtra at hp
  simp only at hp
  obtain ⟨⟨a, j⟩, hz, rfl⟩ := List.mem_map.mp hp
  have hj := (List.of_mem_zip hz).2
  rw [List.mem_filter] at hj
  refine ⟨j, rfl, by simpa using hj.1, ?_⟩
  intro q hq hq2
  have : j ∈ (leftJoinPairs n lk m rk).filterMap (·.2) := List.mem_filterMap.mpr ⟨q, hq, hq2⟩
  simp [this] at hj

end DI

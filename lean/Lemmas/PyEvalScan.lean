import Model.PyEvalScan
import Model.Aggregate

namespace DI.PyEvalScan

open DI DI.Py

variable {α : Type}

/-! ### the primitives on the values the loop meets -/

theorem pySlice_nat (xs : List α) (i j : Nat) : pySlice xs (i : Int) (j : Int) = sliceNat xs i j := by
  unfold pySlice sliceNat normBound pmin
  have h1 : ¬ ((i : Int) < 0) := by omega
  have h2 : ¬ ((j : Int) < 0) := by omega
  simp only [h1, h2, if_false]
  by_cases hj : (xs.length : Int) < j
  · by_cases hi : (xs.length : Int) < i
    · simp only [hj, hi, if_true, Int.toNat_natCast]
      rw [List.take_of_length_le (Nat.le_refl _), List.take_of_length_le (by omega)]
      rw [List.drop_of_length_le (Nat.le_refl _), List.drop_of_length_le (by omega)]
    · simp only [hj, hi, if_true, if_false, Int.toNat_natCast]
      rw [List.take_of_length_le (Nat.le_refl _), List.take_of_length_le (by omega)]
  · by_cases hi : (xs.length : Int) < i
    · simp only [hj, hi, if_true, if_false, Int.toNat_natCast]
      rw [List.drop_of_length_le (by rw [List.length_take]; omega),
        List.drop_of_length_le (by rw [List.length_take]; omega)]
    · simp only [hj, hi, if_false, Int.toNat_natCast]

theorem zip_filter_map (f : α → Bool) (xs : List α) :
    ((xs.zip (xs.map f)).filter (·.2)).map (·.1) = xs.filter f := by
  induction xs with
  | nil => rfl
  | cons a t ih =>
    simp only [List.map_cons, List.zip_cons_cons, List.filter_cons]
    cases f a <;> simp [ih]

theorem maskSelect_not_map (na : α → Bool) (xs : List α) :
    maskSelect xs ((xs.map na).map (!·)) = some (xs.filter (fun a => !na a)) := by
  unfold maskSelect
  simp only [List.length_map, if_true, List.map_map]
  congr 1
  exact zip_filter_map (fun a => !na a) xs

theorem idAt_nat (g : List Nat) (k : Nat) : idAt g (k : Int) = g[k]? := by
  unfold idAt
  have h1 : ¬ ((k : Int) < 0) := by omega
  simp [h1]

theorem arange_one (n : Nat) : arange 1 ((n : Int) + 1) = (List.range' 1 n).map (fun (k : Nat) => (k : Int)) := by
  unfold arange
  have : ((n : Int) + 1 - 1).toNat = n := by omega
  rw [this, List.range_eq_range', List.range'_eq_map_range (s := 1)]
  simp only [List.map_map, List.range_eq_range']
  apply List.map_congr_left
  intro k _
  simp [Function.comp]

/-! ### the body of the loop -/

/-- the environment holds the arguments and the loop-carried `i`. -/
structure Good (x : List α) (g : List Nat) (d : Bool) (i : Nat) (ρ : Env α) : Prop where
  hx : ρ.lookup "x" = some (.vec x)
  hg : ρ.lookup "group" = some (.ids g)
  hd : ρ.lookup "drop_na" = some (.bool d)
  hi : ρ.lookup "i" = some (.int i)

/-- the term `isNaT xij` evaluates to the element-wise test `na`. -/
def IsNaTerm (P : Prims α) (isNaT : Term → Term) (na : α → Bool) : Prop :=
  ∀ (ρ : Env α) (xs : List α), ρ.lookup "xij" = some (.vec xs) →
    evalE P (isNaT (.sym "xij")) ρ = some (.mask (xs.map na))

/-- the statement `emitT xij` hands the run on and changes nothing else. -/
def EmitTerm (P : Prims α) (emitT : Term → Term) : Prop :=
  ∀ (s : St α) (xs : List α), s.env.lookup "xij" = some (.vec xs) →
    evalS P (emitT (.sym "xij")) s = some (Ctl.normal, { s with out := s.out ++ [xs] })

theorem pyIsNa_term (P : Prims α) : IsNaTerm P pyIsNa P.isNa := by
  intro ρ xs h
  simp [pyIsNa, evalE, h]

theorem nbIsNa_term (P : Prims α) : IsNaTerm P nbIsNa P.isNaNumba := by
  intro ρ xs h
  simp [nbIsNa, evalE, h]

theorem pyEmit_term (P : Prims α) : EmitTerm P pyEmit := by
  intro s xs h
  simp [pyEmit, evalS, evalE, h]

theorem nbEmit_term (P : Prims α) : EmitTerm P nbEmit := by
  intro s xs h
  simp [nbEmit, evalS, evalE, h]

/-- the body of the `for` loop. -/
def body (isNa emit : Term → Term) : Term :=
  Term.app "block"
    [Term.app "if" [Term.app "And" [Term.app "Lt" [Term.sym "j", Term.app "len" [Term.sym "x"]],
        Term.app "Eq" [Term.app "getitem" [Term.sym "group", Term.sym "j"], Term.app "getitem" [Term.sym "group", Term.sym "i"]]],
      Term.app "block" [Term.sym "continue"], Term.app "block" []],
     Term.app "assign" [Term.sym "xij", Term.app "getitem" [Term.sym "x", Term.app "slice" [Term.sym "i", Term.sym "j"]]],
     Term.app "if" [Term.sym "drop_na", Term.app "block" [Term.app "assign" [Term.sym "xij",
        Term.app "getitem" [Term.sym "xij", Term.app "~" [isNa (Term.sym "xij")]]]], Term.app "block" []],
     emit (Term.sym "xij"),
     Term.app "assign" [Term.sym "i", Term.sym "j"]]

theorem groupScan_eq (isNa emit : Term → Term) :
    groupScan isNa emit = Term.app "for" [Term.sym "j",
      Term.app "range" [Term.int 1, Term.app "Add" [Term.app "len" [Term.sym "x"], Term.int 1]],
      body isNa emit, Term.app "init" [Term.sym "i", Term.int 0]] := rfl

/-- the condition of the `continue`. -/
theorem cond_eval (P : Prims α) (x : List α) (g : List Nat) (d : Bool) (hlen : x.length ≤ g.length)
    (i j : Nat) (hij : i < j) (ρ : Env α) (hG : Good x g d i ρ) :
    evalE P (Term.app "And" [Term.app "Lt" [Term.sym "j", Term.app "len" [Term.sym "x"]],
        Term.app "Eq" [Term.app "getitem" [Term.sym "group", Term.sym "j"], Term.app "getitem" [Term.sym "group", Term.sym "i"]]])
      (("j", .int j) :: ρ) = some (.bool (decide (j < x.length ∧ g[j]? = g[i]?))) := by
  have lx : (("j", Val.int (j : Int)) :: ρ).lookup "x" = some (.vec x) := by simp [List.lookup, hG.hx]
  have lg : (("j", Val.int (j : Int)) :: ρ).lookup "group" = some (.ids g) := by simp [List.lookup, hG.hg]
  have li : (("j", Val.int (j : Int)) :: ρ).lookup "i" = some (.int i) := by simp [List.lookup, hG.hi]
  have lj : (("j", Val.int (j : Int)) :: ρ).lookup "j" = some (.int j) := by simp [List.lookup]
  by_cases hj : j < x.length
  · have hi' : i < g.length := by omega
    have hj' : j < g.length := by omega
    simp [evalE, lx, lg, li, lj, idAt_nat, hj, hi', hj']
    omega
  · simp [evalE, lx, lg, li, lj, hj]

/-- one pass through the body = `step`. -/
theorem body_eval (P : Prims α) (isNaT emitT : Term → Term) (na : α → Bool)
    (hNa : IsNaTerm P isNaT na) (hEmit : EmitTerm P emitT)
    (x : List α) (g : List Nat) (d : Bool) (hlen : x.length ≤ g.length)
    (i j : Nat) (hij : i < j) (ρ : Env α) (hG : Good x g d i ρ) (out : List (List α)) :
    ∃ r, evalS P (body isNaT emitT) ⟨("j", .int j) :: ρ, out⟩ = some r ∧
      r.2.out = (step g x d na (i, out) j).2 ∧ Good x g d (step g x d na (i, out) j).1 r.2.env := by
  have hc := cond_eval P x g d hlen i j hij ρ hG
  unfold body
  simp only [evalS, evalB, hc, Option.bind_some]
  by_cases hcond : j < x.length ∧ g[j]? = g[i]?
  · simp only [hcond, and_self, decide_true, Option.bind_some]
    refine ⟨_, rfl, ?_, ?_⟩
    · simp [step, hcond]
    · simp only [step, hcond, and_self, if_true]
      exact ⟨by simp [List.lookup, hG.hx], by simp [List.lookup, hG.hg], by simp [List.lookup, hG.hd],
        by simp [List.lookup, hG.hi]⟩
  · simp only [hcond, decide_false]
    have e1 : evalE P (Term.app "getitem" [Term.sym "x", Term.app "slice" [Term.sym "i", Term.sym "j"]])
        (("j", Val.int (j : Int)) :: ρ) = some (.vec (sliceNat x i j)) := by
      simp [evalE, List.lookup, hG.hx, hG.hi, pySlice_nat]
    have hstep : step g x d na (i, out) j = (j, out ++ [post d na (sliceNat x i j)]) := by
      simp only [step, hcond, if_false]
    rw [hstep]
    simp only [Option.bind_some, e1, Option.map_some]
    cases d with
    | false =>
      have e2 : evalE P (Term.sym "drop_na") (("xij", Val.vec (sliceNat x i j)) :: ("j", Val.int (j : Int)) :: ρ)
          = some (.bool false) := by simp [evalE, List.lookup, hG.hd]
      simp only [e2, Option.bind_some]
      rw [hEmit _ (sliceNat x i j) (by simp [List.lookup])]
      simp only [Option.bind_some, evalE, List.lookup]
      refine ⟨_, rfl, ?_, ?_⟩
      · simp [post]
      · exact ⟨by simp [List.lookup, hG.hx], by simp [List.lookup, hG.hg], by simp [List.lookup, hG.hd],
          by simp [List.lookup]⟩
    | true =>
      have e2 : evalE P (Term.sym "drop_na") (("xij", Val.vec (sliceNat x i j)) :: ("j", Val.int (j : Int)) :: ρ)
          = some (.bool true) := by simp [evalE, List.lookup, hG.hd]
      have e3 : evalE P (Term.app "getitem" [Term.sym "xij", Term.app "~" [isNaT (Term.sym "xij")]])
          (("xij", Val.vec (sliceNat x i j)) :: ("j", Val.int (j : Int)) :: ρ)
          = some (.vec ((sliceNat x i j).filter (fun a => !na a))) := by
        have := hNa (("xij", Val.vec (sliceNat x i j)) :: ("j", Val.int (j : Int)) :: ρ) (sliceNat x i j)
          (by simp [List.lookup])
        simp [evalE, this, List.lookup]
        rw [← List.map_map]; exact maskSelect_not_map na _
      simp only [e2, e3, Option.bind_some, Option.map_some]
      rw [hEmit _ ((sliceNat x i j).filter (fun a => !na a)) (by simp [List.lookup])]
      simp only [Option.bind_some, evalE, List.lookup]
      refine ⟨_, rfl, ?_, ?_⟩
      · simp [post]
      · exact ⟨by simp [List.lookup, hG.hx], by simp [List.lookup, hG.hg], by simp [List.lookup, hG.hd],
          by simp [List.lookup]⟩

theorem step_fst (g : List Nat) (x : List α) (d : Bool) (na : α → Bool) (st : Nat × List (List α)) (j : Nat) :
    (step g x d na st j).1 = st.1 ∨ (step g x d na st j).1 = j := by
  unfold step
  split
  · exact Or.inl rfl
  · exact Or.inr rfl

/-- the `for` loop over increasing `j`s, all beyond `i` = the fold of `step`. -/
theorem loop_eval (P : Prims α) (isNaT emitT : Term → Term) (na : α → Bool)
    (hNa : IsNaTerm P isNaT na) (hEmit : EmitTerm P emitT)
    (x : List α) (g : List Nat) (d : Bool) (hlen : x.length ≤ g.length) (js : List Nat) :
    ∀ (i : Nat) (ρ : Env α) (out : List (List α)), js.Pairwise (· < ·) → (∀ j ∈ js, i < j) → Good x g d i ρ →
      ∃ s', loopRange (evalS P (body isNaT emitT)) "j" (js.map (fun (k : Nat) => (k : Int))) ⟨ρ, out⟩ = some s' ∧
        s'.out = (js.foldl (step g x d na) (i, out)).2 ∧
        Good x g d (js.foldl (step g x d na) (i, out)).1 s'.env := by
  induction js with
  | nil => intro i ρ out _ _ hG; exact ⟨_, rfl, rfl, hG⟩
  | cons j js ih =>
    intro i ρ out hp hlt hG
    obtain ⟨r, hr, hout, hgood⟩ := body_eval P isNaT emitT na hNa hEmit x g d hlen i j (hlt j (by simp)) ρ hG out
    have hp' := List.pairwise_cons.mp hp
    have hlt' : ∀ k ∈ js, (step g x d na (i, out) j).1 < k := by
      intro k hk
      have h1 := hp'.1 k hk
      have h2 := hlt j (by simp)
      rcases step_fst g x d na (i, out) j with h | h <;> rw [h] <;> omega
    obtain ⟨s', hs', hout', hgood'⟩ := ih (step g x d na (i, out) j).1 r.2.env r.2.out hp'.2 hlt' hgood
    refine ⟨s', ?_, ?_, ?_⟩
    · simp only [List.map_cons, loopRange, hr, Option.bind_some]
      exact hs'
    · rw [hout', hout]; rfl
    · rw [hout] at hgood'; exact hgood'

/-- **evaluating the term = the loop**: for every column, every list of group ids at least as long, both values of
    `drop_na`, any environment that binds the three arguments, the runs handed on are those of `scan`. -/
theorem eval_groupScan_eq_scan (P : Prims α) (isNaT emitT : Term → Term) (na : α → Bool)
    (hNa : IsNaTerm P isNaT na) (hEmit : EmitTerm P emitT)
    (x : List α) (g : List Nat) (d : Bool) (hlen : x.length ≤ g.length) :
    run P [groupScan isNaT emitT] (args x g d) = some (scan g x d na) := by
  have hG : Good x g d 0 (("i", Val.int 0) :: args x g d) :=
    ⟨by simp [List.lookup, args], by simp [List.lookup, args], by simp [List.lookup, args], by simp [List.lookup]⟩
  obtain ⟨s', hs', hout, _⟩ := loop_eval P isNaT emitT na hNa hEmit x g d hlen (List.range' 1 x.length) 0
    (("i", Val.int 0) :: args x g d) [] List.pairwise_lt_range' (by intro j hj; simp at hj; omega) hG
  have e1 : evalE P (Term.app "Add" [Term.app "len" [Term.sym "x"], Term.int 1]) (("i", Val.int 0) :: args x g d)
      = some (.int ((x.length : Int) + 1)) := by simp [evalE, List.lookup, args]
  unfold run
  rw [groupScan_eq]
  simp only [evalB, evalS, evalE, e1, Option.bind_some, arange_one]
  have hs'' : loopRange (evalS P (body isNaT emitT)) "j" (List.map (fun (k : Nat) => (k : Int)) (List.range' 1 x.length))
      { env := ("i", Val.int 0) :: args x g d, out := [] } = some s' := hs'
  rw [hs'']
  simp [hout, scan]

/-! ### what the loop computes: the maximal runs of equal consecutive ids -/

/-- the text of the model's `DI.Agg.chunks` (Model/Aggregate.lean), for any element type. -/
def runs {β : Type} : List Nat → List β → List (List β)
  | [], _ => []
  | _ :: _, [] => []
  | g :: gs, x :: xs =>
    match gs, runs gs xs with
    | g' :: _, c :: cs => if g' = g then (x :: c) :: cs else [x] :: c :: cs
    | _, cs => [x] :: cs

theorem chunks_eq_runs (ids : List Nat) (xs : List Agg.Num) : Agg.chunks ids xs = runs ids xs := by
  induction ids generalizing xs with
  | nil => simp [Agg.chunks, runs]
  | cons g gs ih =>
    cases xs with
    | nil => simp [Agg.chunks, runs]
    | cons x xs =>
      simp only [Agg.chunks, runs, ih]
      cases gs <;> cases runs _ xs <;> rfl

/-- a block of `m + 1` equal ids followed by a different id (or nothing) is one run. -/
theorem runs_replicate_append {β : Type} (a : Nat) (rest : List Nat) (hhead : rest.head? ≠ some a) (m : Nat) :
    ∀ (xs : List β), m + 1 + rest.length ≤ xs.length →
      runs (List.replicate (m + 1) a ++ rest) xs = xs.take (m + 1) :: runs rest (xs.drop (m + 1)) := by
  induction m with
  | zero =>
    intro xs hlen
    cases xs with
    | nil => simp at hlen
    | cons x xs =>
      simp only [List.replicate_one, List.singleton_append, Nat.zero_add, List.take_succ_cons, List.take_zero,
        List.drop_succ_cons, List.drop_zero]
      cases rest with
      | nil => simp [runs]
      | cons b rest =>
        have hb : b ≠ a := by intro h; apply hhead; simp [h]
        simp only [runs]
        cases runs (b :: rest) xs with
        | nil => rfl
        | cons c cs => simp [hb]
  | succ m ih =>
    intro xs hlen
    cases xs with
    | nil => simp at hlen
    | cons x xs =>
      have hlen' : m + 1 + rest.length ≤ xs.length := by simp at hlen; omega
      have e := ih xs hlen'
      rw [List.replicate_succ, List.cons_append]
      simp only [runs]
      rw [e]
      simp [List.replicate_succ]

theorem sliceNat_eq (x : List α) (i j : Nat) : sliceNat x i j = (x.drop i).take (j - i) := by
  unfold sliceNat
  rw [List.drop_take]

/-- the invariant of the loop: `j ≤ k` processed, the current run started at `i` and all ids in `[i, k]` equal `a`;
    then what remains to be handed on are the runs of the column from `i` on. -/
theorem fold_runs (g : List Nat) (x : List α) (hlen : g.length = x.length) (d : Bool) (na : α → Bool) (m : Nat) :
    ∀ (k i a : Nat) (out : List (List α)), k + 1 + m = x.length → i ≤ k →
      g.drop i = List.replicate (k + 1 - i) a ++ g.drop (k + 1) →
      ((List.range' (k + 1) (m + 1)).foldl (step g x d na) (i, out)).2 =
        out ++ (runs (g.drop i) (x.drop i)).map (post d na) := by
  induction m with
  | zero =>
    intro k i a out hk hik hinv
    have hkn : k + 1 = x.length := by omega
    have hdrop : g.drop (k + 1) = [] := List.drop_of_length_le (by omega)
    rw [hdrop] at hinv
    have e : k + 1 - i = (k - i) + 1 := by omega
    rw [hinv, e, runs_replicate_append a [] (by simp) (k - i) (x.drop i) (by simp; omega)]
    have h1 : ¬ (k + 1 < x.length ∧ g[k + 1]? = g[i]?) := by omega
    simp only [Nat.zero_add, List.range'_one, List.foldl_cons, List.foldl_nil, step, h1, if_false, runs, List.map_cons,
      List.map_nil]
    rw [sliceNat_eq, e]
  | succ m ih =>
    intro k i a out hk hik hinv
    have hj : k + 1 < g.length := by omega
    have hgi : g[i]? = some a := by
      have : (g.drop i)[0]? = some a := by
        rw [hinv, List.getElem?_append_left (by rw [List.length_replicate]; omega), List.getElem?_replicate]
        have : 0 < k + 1 - i := by omega
        simp [this]
      simpa using this
    have hgj : g[k + 1]? = some g[k + 1] := by simp [hj]
    have hdj : g.drop (k + 1) = g[k + 1] :: g.drop (k + 2) := List.drop_eq_getElem_cons hj
    rw [List.range'_succ, List.foldl_cons]
    by_cases hb : g[k + 1] = a
    · have hc : k + 1 < x.length ∧ g[k + 1]? = g[i]? := ⟨by omega, by rw [hgi, hgj, hb]⟩
      have hs : step g x d na (i, out) (k + 1) = (i, out) := by simp only [step, hc, and_self, if_true]
      rw [hs]
      apply ih (k + 1) i a out (by omega) (by omega)
      rw [hinv, hdj, hb]
      have e : k + 1 + 1 - i = (k + 1 - i) + 1 := by omega
      rw [e, List.replicate_succ', List.append_assoc]
      rfl
    · have hc : ¬ (k + 1 < x.length ∧ g[k + 1]? = g[i]?) := by
        rw [hgi, hgj]; intro h; exact hb (Option.some.inj h.2)
      have hs : step g x d na (i, out) (k + 1) = (k + 1, out ++ [post d na (sliceNat x i (k + 1))]) := by
        simp only [step, hc, if_false]
      rw [hs]
      rw [ih (k + 1) (k + 1) g[k + 1] _ (by omega) (Nat.le_refl _) (by
        have e : k + 1 + 1 - (k + 1) = 1 := by omega
        rw [e, hdj]; rfl)]
      have e : k + 1 - i = (k - i) + 1 := by omega
      rw [hinv, e, runs_replicate_append a (g.drop (k + 1)) (by rw [hdj, List.head?_cons]; intro h; exact hb (Option.some.inj h)) (k - i) (x.drop i)
        (by simp; omega)]
      rw [List.drop_drop, sliceNat_eq]
      have e2 : i + (k - i + 1) = k + 1 := by omega
      rw [e2, e]
      simp

/-- **the scan computes the runs** (as `chunks` of the model does), and drops the missing elements per run. -/
theorem scan_eq_runs (g : List Nat) (x : List α) (hlen : g.length = x.length) (d : Bool) (na : α → Bool) :
    scan g x d na = (runs g x).map (post d na) := by
  unfold scan
  cases hx : x.length with
  | zero =>
    have : x = [] := List.eq_nil_of_length_eq_zero hx
    have hg : g = [] := List.eq_nil_of_length_eq_zero (by omega)
    subst this; subst hg
    simp [runs]
  | succ m =>
    have hg0 : 0 < g.length := by omega
    have h0 := List.drop_eq_getElem_cons hg0
    have := fold_runs g x hlen d na m 0 0 g[0] [] (by omega) (Nat.le_refl _) (by simpa using h0)
    simpa using this

/-! ### the structure of the runs -/

section Runs
variable {β γ : Type}

theorem runs_cons_same (g : Nat) (gs : List Nat) (x : β) (xs : List β) (c : List β) (cs : List (List β))
    (h : runs (g :: gs) xs = c :: cs) : runs (g :: g :: gs) (x :: xs) = (x :: c) :: cs := by
  simp only [runs]
  rw [h]
  simp

theorem runs_cons_diff (g : Nat) (gs : List Nat) (x : β) (xs : List β) (h : gs.head? ≠ some g) :
    runs (g :: gs) (x :: xs) = [x] :: runs gs xs := by
  simp only [runs]
  cases gs with
  | nil => rfl
  | cons b t =>
    have hb : b ≠ g := by intro e; apply h; simp [e]
    cases runs (b :: t) xs with
    | nil => rfl
    | cons c cs => simp [hb]

theorem runs_cons_ne_nil (g : Nat) (gs : List Nat) (x : β) (xs : List β) : runs (g :: gs) (x :: xs) ≠ [] := by
  simp only [runs]
  split
  · split <;> simp
  · simp

/-- the three shapes of `runs` on a non-empty input. -/
theorem runs_cases (g : Nat) (gs : List Nat) (x : β) (xs : List β) (hlen : gs.length = xs.length) :
    (gs.head? ≠ some g ∧ runs (g :: gs) (x :: xs) = [x] :: runs gs xs) ∨
    (∃ gs' x' xs' c cs, gs = g :: gs' ∧ xs = x' :: xs' ∧ runs gs xs = c :: cs ∧
      runs (g :: gs) (x :: xs) = (x :: c) :: cs) := by
  by_cases h : gs.head? = some g
  · right
    cases gs with
    | nil => simp at h
    | cons b gs' =>
      simp at h; subst h
      cases xs with
      | nil => simp at hlen
      | cons x' xs' =>
        cases hr : runs (b :: gs') (x' :: xs') with
        | nil => exact absurd hr (runs_cons_ne_nil _ _ _ _)
        | cons c cs => exact ⟨gs', x', xs', c, cs, rfl, rfl, rfl, runs_cons_same b gs' x (x' :: xs') c cs hr⟩
  · left; exact ⟨h, runs_cons_diff g gs x xs h⟩

/-- nothing lost, nothing repeated, order kept. -/
theorem runs_flatten (g : List Nat) (x : List β) (hlen : g.length = x.length) : (runs g x).flatten = x := by
  induction g generalizing x with
  | nil => cases x with
    | nil => simp [runs]
    | cons _ _ => simp at hlen
  | cons a gs ih =>
    cases x with
    | nil => simp at hlen
    | cons y xs =>
      have hl : gs.length = xs.length := by simpa using hlen
      have ih' := ih xs hl
      rcases runs_cases a gs y xs hl with ⟨_, e⟩ | ⟨gs', x', xs', c, cs, _, _, hr, e⟩
      · rw [e, List.flatten_cons, ih']; rfl
      · rw [e]; rw [hr] at ih'; rw [List.flatten_cons, List.cons_append, ← List.flatten_cons, ih']

/-- no run is empty. -/
theorem runs_ne_nil (g : List Nat) (x : List β) : ∀ r ∈ runs g x, r ≠ [] := by
  induction g generalizing x with
  | nil => simp [runs]
  | cons a gs ih =>
    cases x with
    | nil => simp [runs]
    | cons y xs =>
      intro r hr
      simp only [runs] at hr
      split at hr
      · rename_i hc
        have ih' := ih xs
        rw [hc] at ih'
        split at hr
        · rcases List.mem_cons.mp hr with rfl | h
          · simp
          · exact ih' r (List.mem_cons_of_mem _ h)
        · rcases List.mem_cons.mp hr with rfl | h
          · simp
          · exact ih' r h
      · rcases List.mem_cons.mp hr with rfl | h
        · simp
        · exact ih xs r h

/-- the cut depends on the ids only: mapping the elements commutes with it. -/
theorem runs_map (f : β → γ) (g : List Nat) (x : List β) : runs g (x.map f) = (runs g x).map (List.map f) := by
  induction g generalizing x with
  | nil => simp [runs]
  | cons a gs ih =>
    cases x with
    | nil => simp [runs]
    | cons y xs =>
      simp only [List.map_cons, runs, ih]
      cases gs with
      | nil => simp
      | cons b t =>
        cases runs (b :: t) xs with
        | nil => simp
        | cons c cs => by_cases hb : b = a <;> simp [hb]

/-- neighbours in a list are related by `R`. -/
def Adjacent (R : β → β → Prop) : List β → Prop
  | [] => True
  | [_] => True
  | a :: b :: t => R a b ∧ Adjacent R (b :: t)

theorem adjacent_getElem (R : β → β → Prop) (l : List β) (h : Adjacent R l) (k : Nat) (hk : k + 1 < l.length) :
    R l[k] l[k + 1] := by
  induction l generalizing k with
  | nil => simp at hk
  | cons a t ih =>
    cases t with
    | nil => simp at hk
    | cons b t =>
      cases k with
      | zero => exact h.1
      | succ k => exact ih h.2 k (by simpa using hk)

/-- **maximal runs**: cut a list of keyed elements by its own keys; then all the elements of a run carry the same key,
    and the elements of two neighbouring runs carry different keys. -/
theorem runs_keyed (key : β → Nat) (ys : List β) :
    (∀ r ∈ runs (ys.map key) ys, ∀ b ∈ r, ∀ c ∈ r, key b = key c) ∧
    Adjacent (fun r s => ∀ b ∈ r, ∀ c ∈ s, key b ≠ key c) (runs (ys.map key) ys) := by
  induction ys with
  | nil => simp [runs, Adjacent]
  | cons y ys ih =>
    obtain ⟨ih1, ih2⟩ := ih
    have hfl := runs_flatten (ys.map key) ys (by simp)
    rw [List.map_cons]
    rcases runs_cases (key y) (ys.map key) y ys (by simp) with ⟨hne, e⟩ | ⟨gs', x', xs', c, cs, hgs, hxs, hr, e⟩
    · rw [e]
      refine ⟨?_, ?_⟩
      · intro r hr
        rcases List.mem_cons.mp hr with rfl | hr
        · intro b hb c hc; simp at hb hc; rw [hb, hc]
        · exact ih1 r hr
      · cases ys with
        | nil => simp [runs, Adjacent]
        | cons y' ys' =>
          have hne' : key y' ≠ key y := by intro h; apply hne; simp [h]
          cases hr : runs (List.map key (y' :: ys')) (y' :: ys') with
          | nil => simp [Adjacent]
          | cons c cs =>
            rw [hr] at ih1 ih2 hfl
            refine ⟨?_, ih2⟩
            have hcne : c ≠ [] := runs_ne_nil _ _ c (by rw [hr]; simp)
            have hy' : y' ∈ c := by
              cases c with
              | nil => exact absurd rfl hcne
              | cons c0 ct => simp at hfl; simp [hfl.1]
            intro b hb c' hc'
            simp at hb; subst hb
            rw [ih1 c (by simp) c' hc' y' hy']
            exact fun h => hne' h.symm
    · rw [e]
      subst hxs
      rw [hr] at ih1 ih2 hfl
      have hkx : key x' = key y := by simpa using congrArg List.head? hgs
      have hcne : c ≠ [] := runs_ne_nil _ _ c (by rw [hr]; simp)
      have hx' : x' ∈ c := by
        cases c with
        | nil => exact absurd rfl hcne
        | cons c0 ct => simp at hfl; simp [hfl.1]
      have hall : ∀ b ∈ y :: c, key b = key x' := by
        intro b hb
        rcases List.mem_cons.mp hb with rfl | hb
        · exact hkx.symm
        · exact ih1 c (by simp) b hb x' hx'
      refine ⟨?_, ?_⟩
      · intro r hr'
        rcases List.mem_cons.mp hr' with rfl | hr'
        · intro b hb c' hc'; rw [hall b hb, hall c' hc']
        · exact ih1 r (List.mem_cons_of_mem _ hr')
      · cases cs with
        | nil => simp [Adjacent]
        | cons s cs =>
          refine ⟨?_, ih2.2⟩
          intro b hb c' hc'
          rw [hall b hb]
          exact ih2.1 x' hx' c' hc'

/-! ### sorted ids: the runs are the groups -/

/-- the elements of `x` whose group id is `id`, in their original relative order. -/
def pick (id : Nat) (g : List Nat) (x : List β) : List β := ((g.zip x).filter (fun p => p.1 == id)).map (·.2)

theorem pick_cons_same (id : Nat) (g : List Nat) (y : β) (x : List β) :
    pick id (id :: g) (y :: x) = y :: pick id g x := by simp [pick]

theorem pick_cons_ne (id a : Nat) (h : a ≠ id) (g : List Nat) (y : β) (x : List β) :
    pick id (a :: g) (y :: x) = pick id g x := by simp [pick, h]

theorem pick_eq_nil (id : Nat) (g : List Nat) (x : List β) (h : ∀ b ∈ g, b ≠ id) : pick id g x = [] := by
  simp only [pick, List.map_eq_nil_iff, List.filter_eq_nil_iff]
  intro p hp
  have := h p.1 (List.of_mem_zip hp).1
  simpa using this

theorem eraseDups_cons_same (a : Nat) (gs : List Nat) : (a :: a :: gs).eraseDups = (a :: gs).eraseDups := by
  rw [List.eraseDups_cons, List.eraseDups_cons]
  simp

theorem eraseDups_cons_fresh (a : Nat) (gs : List Nat) (h : ∀ b ∈ gs, b ≠ a) :
    (a :: gs).eraseDups = a :: gs.eraseDups := by
  rw [List.eraseDups_cons, List.filter_eq_self.mpr]
  intro b hb
  simpa using h b hb

/-- in a non-decreasing list whose second element differs from the first, nothing equals the first. -/
theorem sorted_head_fresh (a : Nat) (gs : List Nat) (hs : (a :: gs).Pairwise (· ≤ ·)) (hne : gs.head? ≠ some a) :
    ∀ b ∈ gs, a < b := by
  cases gs with
  | nil => simp
  | cons b0 t =>
    have hp := List.pairwise_cons.mp hs
    have hp' := List.pairwise_cons.mp hp.2
    have h0 : a ≤ b0 := hp.1 b0 (by simp)
    have hb0 : b0 ≠ a := by intro e; apply hne; simp [e]
    intro b hb
    rcases List.mem_cons.mp hb with rfl | hb
    · omega
    · have := hp'.1 b hb; omega

/-- **sorted ids ⇒ the runs are the groups**: one run per distinct id, in the order of first occurrence (= increasing),
    each run the elements of that id in their original order. -/
theorem runs_sorted (g : List Nat) (x : List β) (hlen : g.length = x.length) (hs : g.Pairwise (· ≤ ·)) :
    runs g x = g.eraseDups.map (fun id => pick id g x) := by
  induction g generalizing x with
  | nil => simp [runs]
  | cons a gs ih =>
    cases x with
    | nil => simp at hlen
    | cons y xs =>
      have hl : gs.length = xs.length := by simpa using hlen
      have hs' := (List.pairwise_cons.mp hs).2
      have ih' := ih xs hl hs'
      rcases runs_cases a gs y xs hl with ⟨hne, e⟩ | ⟨gs', x', xs', c, cs, hgs, hxs, hr, e⟩
      · have hfresh := sorted_head_fresh a gs hs hne
        have hfresh' : ∀ b ∈ gs, b ≠ a := fun b hb => by have := hfresh b hb; omega
        rw [e, eraseDups_cons_fresh a gs hfresh', List.map_cons, pick_cons_same, pick_eq_nil a gs xs hfresh', ih']
        congr 1
        apply List.map_congr_left
        intro id hid
        rw [pick_cons_ne id a (by have := hfresh id (List.mem_eraseDups.mp hid); omega)]
      · subst hgs
        rw [e, eraseDups_cons_same]
        rw [hr, List.eraseDups_cons, List.map_cons] at ih'
        rw [List.eraseDups_cons, List.map_cons, pick_cons_same]
        have hc := (List.cons.inj ih').1
        have hcs := (List.cons.inj ih').2
        rw [hc, hcs]
        congr 1
        apply List.map_congr_left
        intro id hid
        have : id ≠ a := by
          have := List.mem_eraseDups.mp hid
          simp at this
          exact this.2
        rw [pick_cons_ne id a (fun h => this h.symm)]

/-- the distinct ids of a non-decreasing list come out strictly increasing. -/
theorem eraseDups_sorted (g : List Nat) (hs : g.Pairwise (· ≤ ·)) : g.eraseDups.Pairwise (· < ·) := by
  induction g with
  | nil => simp
  | cons a gs ih =>
    have hs' := (List.pairwise_cons.mp hs).2
    by_cases hne : gs.head? = some a
    · cases gs with
      | nil => simp at hne
      | cons b t =>
        simp at hne; subst hne
        rw [eraseDups_cons_same]; exact ih hs'
    · have hfresh := sorted_head_fresh a gs hs hne
      rw [eraseDups_cons_fresh a gs (fun b hb => by have := hfresh b hb; omega)]
      exact List.pairwise_cons.mpr ⟨fun b hb => hfresh b (List.mem_eraseDups.mp hb), ih hs'⟩

end Runs

/-! ### the same facts about `scan` -/

section Scan
variable {β : Type}

theorem post_false (na : β → Bool) : post false na = (fun r : List β => r) := by
  funext r; simp [post]

theorem post_true (na : β → Bool) : post true na = List.filter (fun a => !na a) := by
  funext r; simp [post]

/-- `drop_na = False`: the runs concatenate to the column. -/
theorem scan_flatten (g : List Nat) (x : List β) (hlen : g.length = x.length) (na : β → Bool) :
    (scan g x false na).flatten = x := by
  rw [scan_eq_runs g x hlen]
  simp only [post_false, List.map_id']
  exact runs_flatten g x hlen

/-- the missing elements are removed run by run, after the cut. -/
theorem scan_drop (g : List Nat) (x : List β) (hlen : g.length = x.length) (na : β → Bool) :
    scan g x true na = (scan g x false na).map (List.filter (fun a => !na a)) := by
  rw [scan_eq_runs g x hlen, scan_eq_runs g x hlen]
  simp only [post_false, post_true, List.map_id']

/-- `drop_na = True`: the runs concatenate to the column without its missing elements. -/
theorem scan_flatten_drop (g : List Nat) (x : List β) (hlen : g.length = x.length) (na : β → Bool) :
    (scan g x true na).flatten = x.filter (fun a => !na a) := by
  rw [scan_drop g x hlen, ← List.filter_flatten, scan_flatten g x hlen]

theorem scan_ne_nil (g : List Nat) (x : List β) (hlen : g.length = x.length) (na : β → Bool) :
    ∀ r ∈ scan g x false na, r ≠ [] := by
  rw [scan_eq_runs g x hlen]
  simp only [post_false, List.map_id']
  exact runs_ne_nil g x

theorem scan_length (g : List Nat) (x : List β) (hlen : g.length = x.length) (d : Bool) (na : β → Bool) :
    (scan g x d na).length = (runs g x).length := by
  rw [scan_eq_runs g x hlen, List.length_map]

/-- the result depends on the missing-value test only through its values on the elements of the column. -/
theorem scan_congr (g : List Nat) (x : List β) (hlen : g.length = x.length) (d : Bool) (na na' : β → Bool)
    (h : ∀ a ∈ x, na a = na' a) : scan g x d na = scan g x d na' := by
  rw [scan_eq_runs g x hlen, scan_eq_runs g x hlen]
  apply List.map_congr_left
  intro r hr
  cases d with
  | false => rfl
  | true =>
    simp only [post, if_true]
    apply List.filter_congr
    intro a ha
    have : a ∈ x := by
      rw [← runs_flatten g x hlen]
      exact List.mem_flatten.mpr ⟨r, hr, ha⟩
    rw [h a this]

/-- the model's `chunks` (Model/Aggregate.lean), with the model's `handleNa` per chunk. -/
theorem scan_eq_chunks (ids : List Nat) (xs : List Agg.Num) (hlen : ids.length = xs.length) (d : Bool) :
    scan ids xs d (fun c => c.isNone) = (Agg.chunks ids xs).map (fun xg => Agg.handleNa xg d) := by
  rw [scan_eq_runs ids xs hlen, chunks_eq_runs]
  apply List.map_congr_left
  intro r _
  cases d with
  | false => rfl
  | true =>
    simp only [post, Agg.handleNa, Agg.dropNa, if_true]
    apply List.filter_congr
    intro a _
    cases a <;> rfl

/-- the model's group-wise form of a helper is the kernel applied to the runs of the scan. -/
theorem groupForm_eq_scan (h : Agg.Helper) (drop : Bool) (xs : List Agg.Num) (ids : List Nat)
    (hlen : ids.length = xs.length) :
    Agg.groupForm h drop xs ids =
      (scan ids xs (drop && Agg.hasNa xs) (fun c => c.isNone)).map (fun xg =>
        match Agg.kernel h xg with
        | some r => r
        | none => Agg.defaultOf h) := by
  rw [scan_eq_chunks ids xs hlen, List.map_map]
  rfl

/-- the runs with their ids attached: cutting `zip group x` gives the runs of `x` paired with their ids; within a run
    all ids are equal, and neighbouring runs have different ids. -/
theorem scan_keyed (g : List Nat) (x : List β) (hlen : g.length = x.length) (na : β → Bool) (na' : Nat × β → Bool) :
    (scan g (g.zip x) false na').map (List.map Prod.snd) = scan g x false na ∧
    (scan g (g.zip x) false na').flatten = g.zip x ∧
    (∀ r ∈ scan g (g.zip x) false na', ∀ b ∈ r, ∀ c ∈ r, b.1 = c.1) ∧
    Adjacent (fun r s => ∀ b ∈ r, ∀ c ∈ s, b.1 ≠ c.1) (scan g (g.zip x) false na') := by
  have hz : g.length = (g.zip x).length := by simp [List.length_zip]; omega
  have hk := runs_keyed Prod.fst (g.zip x)
  rw [List.map_fst_zip (by omega)] at hk
  rw [scan_eq_runs g (g.zip x) hz, scan_eq_runs g x hlen]
  simp only [post_false, List.map_id']
  refine ⟨?_, runs_flatten g _ hz, hk.1, hk.2⟩
  rw [← runs_map, List.map_snd_zip (by omega)]

/-- sorted ids: one run per distinct id, in increasing id order, each run the elements of its id in the original order
    (minus the missing ones when `drop_na`). -/
theorem scan_sorted (g : List Nat) (x : List β) (hlen : g.length = x.length) (hs : g.Pairwise (· ≤ ·))
    (d : Bool) (na : β → Bool) :
    scan g x d na = g.eraseDups.map (fun id => post d na (pick id g x)) := by
  rw [scan_eq_runs g x hlen, runs_sorted g x hlen hs, List.map_map]
  rfl

theorem scan_count (g : List Nat) (x : List β) (hlen : g.length = x.length) (hs : g.Pairwise (· ≤ ·))
    (d : Bool) (na : β → Bool) : (scan g x d na).length = g.eraseDups.length := by
  rw [scan_sorted g x hlen hs, List.length_map]

theorem scan_nil (g : List Nat) (d : Bool) (na : β → Bool) : scan g ([] : List β) d na = [] := rfl

end Scan

end DI.PyEvalScan

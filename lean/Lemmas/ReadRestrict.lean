import Model.ReadRestrict

namespace DI.Read

theorem frameFromRecords_names {β : Type} (recs : List (Rec β)) (columns : List String) (hc : columns ≠ []) :
    (frameFromRecords recs columns).map (·.1) = (unionKeys recs).filter (fun k => columns.contains k) := by
  have : columns.isEmpty = false := by cases columns <;> simp_all
  simp only [frameFromRecords, this, Bool.false_eq_true, if_false, List.map_map]
  have : ((fun (x : String × List (Option β)) => x.1) ∘ fun k => (k, recs.map (fun r => lookup r k))) = id := by
    funext k; rfl
  rw [this, List.map_id]

/-- restricting the read = reading everything and selecting: each kept column carries exactly the
    values it has in the unrestricted read, under its own name. -/
theorem restrict_eq_select {β : Type} (recs : List (Rec β)) (columns : List String) (k : String)
    (vals : List (Option β)) (h : (k, vals) ∈ frameFromRecords recs columns) :
    vals = recs.map (fun r => lookup r k) := by
  simp only [frameFromRecords] at h
  split at h
  · simp only [List.mem_map] at h; obtain ⟨k', _, h'⟩ := h; cases h'; rfl
  · simp only [List.mem_map] at h; obtain ⟨k', _, h'⟩ := h; cases h'; rfl

theorem restrict_keeps_exactly {β : Type} (recs : List (Rec β)) (columns : List String) (hc : columns ≠ []) (k : String) :
    k ∈ (frameFromRecords recs columns).map (·.1) ↔ k ∈ unionKeys recs ∧ k ∈ columns := by
  rw [frameFromRecords_names recs columns hc]
  simp [List.mem_filter]

/-- the values do not depend on the order in which the columns are requested. -/
theorem restrict_order_irrelevant {β : Type} (recs : List (Rec β)) (c1 c2 : List String)
    (h : ∀ k, c1.contains k = c2.contains k) (h1 : c1.isEmpty = c2.isEmpty) :
    frameFromRecords recs c1 = frameFromRecords recs c2 := by
  simp only [frameFromRecords, h1]
  split
  · rfl
  · congr 1
    apply List.filter_congr
    intro k _; exact h k

/-- `ListOfDicts.from_json(keys)`: every kept entry keeps its own key and value; exactly the
    requested keys survive. -/
theorem items_restricted_spec {β : Type} (recs : List (Rec β)) (keys : List String) (hk : keys ≠ [])
    (i : Nat) (hi : i < recs.length) :
    (itemsRestricted recs keys)[i]? = some ((recs[i]).filter (fun p => keys.contains p.1)) := by
  have : keys.isEmpty = false := by cases keys <;> simp_all
  simp [itemsRestricted, this, hi]

/-- `ListOfDicts.read_csv(keys)`: the restricted record is the full record filtered by key —
    every value stays under its own name, whatever the order of `keys`. -/
theorem csv_restricted_row (header row : List String) (keys : List String) (h : header.length = row.length) :
    (header.filter (fun c => keys.contains c)).zip (keptCells header row keys) =
      (header.zip row).filter (fun p => keys.contains p.1) := by
  unfold keptCells
  have h1 : header.filter (fun c => keys.contains c) =
      ((header.zip row).filter (fun p => keys.contains p.1)).map (·.1) := by
    have : (header.zip row).map (·.1) = header := List.map_fst_zip (by omega)
    conv => lhs; rw [← this]
    rw [List.filter_map]
    rfl
  rw [h1]
  generalize (header.zip row).filter (fun p => keys.contains p.1) = l
  induction l with
  | nil => rfl
  | cons p l ih => simp [ih]

theorem zip_lookup_header (names : List String) (vals : List String) (k : String) (v : String)
    (h : (k, v) ∈ names.zip vals) : k ∈ names := (List.of_mem_zip h).1

end DI.Read

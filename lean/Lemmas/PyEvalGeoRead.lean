/-
  Lemmas/PyEvalGeoRead.lean — the evaluator of `Model/PyEvalGeo.lean` on the translated `_check_raw_feature`,
  `_check_raw_data` and `GeoJSON.read` (`Generated/CodeC18.lean`): what the checks accept, reject and warn about, and
  that `read` computes the model's `Read.frameFromRecords` / `Geo.readColumns` / `Geo.readMetadata`; the round trip
  through `write`.  Cited by `Proofs/EvalC18.lean`.
-/
import Lemmas.PyEvalGeo
import Lemmas.KeyUnion

namespace DI.PyEvalGeo

open DI DI.Py DI.Gen DI.Geo DI.Convert DI.Tie.C18

theorem foldlM_some {α β : Type} (g : β → α → β) (xs : List α) (b : β) :
    xs.foldlM (fun b a => some (g b a)) b = some (xs.foldl g b) := by
  induction xs generalizing b with
  | nil => rfl
  | cons x xs ih => simp only [List.foldlM_cons, List.foldl_cons]; exact ih (g b x)

/-- the same, the statement ending normally (no pending `continue`). -/
def RunsN (P : Env → Prop) (r : Option (Ctl × St)) (m' : Option Mem) : Prop :=
  match m' with
  | none => r = none
  | some m1 => ∃ env', r = some (Ctl.normal, ⟨env', m1⟩) ∧ P env'

theorem RunsN.runs {P : Env → Prop} {r : Option (Ctl × St)} {m' : Option Mem} (h : RunsN P r m') : Runs P r m' := by
  cases m' with
  | none => exact h
  | some m1 => obtain ⟨env', he, hP⟩ := h; exact ⟨Ctl.normal, env', he, hP⟩

section runs

variable (ctx : Ctx) (call : String → List Val → Mem → Option Mem)

theorem for1_runs (P : Env → Prop) (x : String) (it body : Term) (env : Env) (m : Mem) (vi : Val) (vs : List Val)
    (r : Option Mem) (hit : evalE ctx it ⟨env, m⟩ = some vi) (hiter : iterOf m vi = some vs)
    (hl : RunsL P (loopOver (evalS ctx call body) (bind1 x) vs ⟨env, m⟩) r) :
    RunsN P (evalS ctx call (Term.app "for" [Term.sym x, it, body]) ⟨env, m⟩) r := by
  rw [evalS_for1, hit]
  simp only [Option.bind_some, hiter]
  cases r with
  | none => simp only [RunsL] at hl; simp [RunsN, hl]
  | some m1 => obtain ⟨env', hl, hP⟩ := hl; exact ⟨env', by simp [hl], hP⟩

theorem for1_runs' (P : Env → Prop) (x : String) (it body y : Term) (env : Env) (m : Mem) (vi : Val) (vs : List Val)
    (r : Option Mem) (hit : evalE ctx it ⟨env, m⟩ = some vi) (hiter : iterOf m vi = some vs)
    (hl : RunsL P (loopOver (evalS ctx call body) (bind1 x) vs ⟨env, m⟩) r) :
    RunsN P (evalS ctx call (Term.app "for" [Term.sym x, it, body, y]) ⟨env, m⟩) r := by
  rw [evalS_for1', hit]
  simp only [Option.bind_some, hiter]
  cases r with
  | none => simp only [RunsL] at hl; simp [RunsN, hl]
  | some m1 => obtain ⟨env', hl, hP⟩ := hl; exact ⟨env', by simp [hl], hP⟩

theorem for2_runs (P : Env → Prop) (a b : String) (it body : Term) (env : Env) (m : Mem) (vi : Val)
    (vs : List (Val × Val)) (r : Option Mem) (hit : evalE ctx it ⟨env, m⟩ = some vi) (hiter : iterPairs vi = some vs)
    (hl : RunsL P (loopOver (evalS ctx call body) (bind2 a b) vs ⟨env, m⟩) r) :
    RunsN P (evalS ctx call (Term.app "for" [Term.app "tuple" [Term.sym a, Term.sym b], it, body]) ⟨env, m⟩) r := by
  rw [evalS_for2, hit]
  simp only [Option.bind_some, hiter]
  cases r with
  | none => simp only [RunsL] at hl; simp [RunsN, hl]
  | some m1 => obtain ⟨env', hl, hP⟩ := hl; exact ⟨env', by simp [hl], hP⟩

theorem block1_runs (P : Env → Prop) (t : Term) (s : St) (r : Option Mem) (h : RunsN P (evalS ctx call t s) r) :
    RunsN P (evalS ctx call (Term.app "block" [t]) s) r := by
  rw [evalS_block, evalB_cons]
  cases r with
  | none => simp only [RunsN] at h; rw [h]; rfl
  | some m1 => obtain ⟨env', he, hP⟩ := h; exact ⟨env', by rw [he]; rfl, hP⟩

theorem evalEffs_cons_some (P : Env → Prop) (t : Term) (ts : List Term) (env : Env) (m m1 : Mem) (done : Bool)
    (hc : findComp t = none) (h : Runs P (evalS ctx call t ⟨env, m⟩) (some m1)) :
    ∃ env', P env' ∧ evalEffs ctx call done (t :: ts) ⟨env, m⟩ = evalEffs ctx call done ts ⟨env', m1⟩ := by
  obtain ⟨c, env', he, hP⟩ := h
  exact ⟨env', hP, by rw [evalEffs_cons _ _ _ _ _ hc, he]; rfl⟩

theorem evalEffs_cons_none (P : Env → Prop) (t : Term) (ts : List Term) (env : Env) (m : Mem) (done : Bool)
    (hc : findComp t = none) (h : Runs P (evalS ctx call t ⟨env, m⟩) none) :
    evalEffs ctx call done (t :: ts) ⟨env, m⟩ = none := by
  simp only [Runs] at h
  rw [evalEffs_cons _ _ _ _ _ hc, h]; rfl

end runs

/-! ### `_check_raw_feature` -/

section checkFeature

variable (ctx : Ctx)

def testFeature : Term := Term.app "NotIn" [Term.app ".type" [Term.sym "feature"], Term.app ".FEATURE_TYPES" [Term.sym "cls"]]

def warnBody : Term :=
  Term.app "block" [Term.app "if" [Term.app "In" [Term.sym "key", Term.sym "warned_feature_keys"], Term.app "block" [Term.sym "continue"], Term.app "block" []],
    Term.app "print" [Term.app "fstring" [Term.sym "'Warning: Ignoring feature key '", Term.app "format" [Term.sym "key", Term.sym "", Term.int 114]]],
    Term.app ".append" [Term.sym "warned_feature_keys", Term.sym "key"]]

def warnLoop : Term :=
  Term.app "for" [Term.sym "key", Term.app "Sub" [Term.app "set()" [Term.sym "feature"], Term.app "set()" [Term.app ".FEATURE_KEYS" [Term.sym "cls"]]], warnBody]

def propsBody : Term :=
  Term.app "block" [Term.app "if" [Term.app "isinstance" [Term.sym "value", Term.app "tuple()" [Term.app ".PROPERTY_TYPES" [Term.sym "cls"]]], Term.app "block" [Term.sym "continue"], Term.app "block" []],
    Term.app "raise" [Term.sym "TypeError"]]

def propsLoop : Term :=
  Term.app "for" [Term.app "tuple" [Term.sym "key", Term.sym "value"], Term.app ".items" [Term.app ".properties" [Term.sym "feature"]], propsBody]

/-- `_check_raw_feature` as translated: a feature whose type is not listed raises; otherwise the two loops. -/
theorem check_feature_code (truth : Term → Bool) :
    GeoJSON_check_raw_feature truth =
      if truth testFeature then Out.raise [] "TypeError" else Out.fall [warnLoop, propsLoop] := by
  unfold GeoJSON_check_raw_feature testFeature
  split <;> rfl

/-- one key of `set(feature) - set(FEATURE_KEYS)`: warned about (printed, remembered) unless it was before. -/
def warnStep (m : Mem) (k : String) : Mem :=
  if m.warned.contains k then m else { m with log := m.log ++ [k], warned := m.warned ++ [k] }

/-- the local names of the check: the parameters stay visible. -/
def FeatEnv (f : Json) (env : Env) : Prop :=
  env.lookup "feature" = some (Val.json f) ∧ env.lookup "warned_feature_keys" = some Val.warned

theorem warnBody_runs (f : Json) (k : String) (env : Env) (m : Mem) (hP : FeatEnv f env) :
    Runs (FeatEnv f) (evalS ctx noCall warnBody ⟨bind1 "key" (Val.key k) env, m⟩) (some (warnStep m k)) := by
  have hw : List.lookup "warned_feature_keys" (bind1 "key" (Val.key k) env) = some Val.warned := hP.2
  have hk : List.lookup "key" (bind1 "key" (Val.key k) env) = some (Val.key k) := rfl
  have hP' : FeatEnv f (bind1 "key" (Val.key k) env) := ⟨hP.1, hP.2⟩
  have hin : evalE ctx (Term.app "In" [Term.sym "key", Term.sym "warned_feature_keys"]) ⟨bind1 "key" (Val.key k) env, m⟩ =
      some (Val.bool (m.warned.contains k)) := by
    rw [evalE_In, evalE_key, evalE_warned]
    simp only [hk, hw, Option.bind_some]
    rfl
  unfold warnBody
  rw [evalS_block, evalB_cons, evalS_if, hin]
  by_cases hc : m.warned.contains k = true
  · refine ⟨Ctl.cont, bind1 "key" (Val.key k) env, ?_, hP'⟩
    simp only [Option.bind_some, truthy, hc, if_true, warnStep]
    rfl
  · refine ⟨Ctl.normal, bind1 "key" (Val.key k) env, ?_, hP'⟩
    simp only [Bool.not_eq_true] at hc
    simp only [Option.bind_some, truthy, hc, Bool.false_eq_true, if_false, warnStep]
    have h2 : evalS ctx noCall (Term.app "print" [Term.app "fstring" [Term.sym "'Warning: Ignoring feature key '", Term.app "format" [Term.sym "key", Term.sym "", Term.int 114]]])
        ⟨bind1 "key" (Val.key k) env, m⟩ = some (Ctl.normal, ⟨bind1 "key" (Val.key k) env, { m with log := m.log ++ [k] }⟩) := rfl
    have h3 : ∀ m' : Mem, evalS ctx noCall (Term.app ".append" [Term.sym "warned_feature_keys", Term.sym "key"])
        ⟨bind1 "key" (Val.key k) env, m'⟩ =
        (match List.lookup "warned_feature_keys" (bind1 "key" (Val.key k) env), (Val.key k).asKey with
          | some Val.warned, some k' => some (Ctl.normal, (⟨bind1 "key" (Val.key k) env, { m' with warned := m'.warned ++ [k'] }⟩ : St))
          | _, _ => none) := fun _ => rfl
    have h1 : evalS ctx noCall (Term.app "block" []) ⟨bind1 "key" (Val.key k) env, m⟩ =
        some (Ctl.normal, ⟨bind1 "key" (Val.key k) env, m⟩) := rfl
    rw [h1]
    simp only [Option.bind_some]
    rw [evalB_cons, h2]
    simp only [Option.bind_some]
    rw [evalB_cons, h3, hw]
    rfl

/-- the member names of a feature that are not `type` / `properties` / `geometry`. -/
def extraKeys (ms : List (String × Json)) : List String :=
  (ms.map (·.1)).filter (fun k => !["type", "properties", "geometry"].contains k)

theorem evalE_Sub (a b : Term) (s : St) : evalE ctx (Term.app "Sub" [a, b]) s =
    (evalE ctx a s).bind fun va => (evalE ctx b s).bind fun vb => match va, vb with
      | .int p, .int q => some (.int (p - q))
      | .keys p, .keys q => some (.keys (p.filter (fun k => !q.contains k)))
      | _, _ => Option.none := rfl

theorem evalE_set (e : Term) (s : St) : evalE ctx (Term.app "set()" [e]) s =
    (evalE ctx e s).bind fun v => match v with
      | .json (.obj ms) => some (.keys (ms.map (·.1)))
      | .keys ks => some (.keys ks)
      | _ => Option.none := rfl

/-- **the warning loop**: every extra member name, in member order, warned about once. -/
theorem warnLoop_runs (ms : List (String × Json)) (env : Env) (m : Mem) (hP : FeatEnv (.obj ms) env) :
    Runs (FeatEnv (.obj ms)) (evalS ctx noCall warnLoop ⟨env, m⟩) (some ((extraKeys ms).foldl warnStep m)) := by
  have hit : evalE ctx (Term.app "Sub" [Term.app "set()" [Term.sym "feature"], Term.app "set()" [Term.app ".FEATURE_KEYS" [Term.sym "cls"]]]) ⟨env, m⟩ =
      some (.keys (extraKeys ms)) := by
    have h2 : evalE ctx (Term.app "set()" [Term.app ".FEATURE_KEYS" [Term.sym "cls"]]) ⟨env, m⟩ =
        some (.keys ["type", "properties", "geometry"]) := rfl
    rw [evalE_Sub, evalE_set, evalE_feature, h2]
    simp only [hP.1, Option.bind_some]
    rfl
  have hl := loopOver_foldlM (FeatEnv (.obj ms)) (evalS ctx noCall warnBody) (fun k => bind1 "key" (Val.key k))
    (fun k m => some (warnStep m k)) (extraKeys ms)
    (fun k _ env m hP => warnBody_runs ctx (.obj ms) k env m hP) env m hP
  rw [foldlM_some] at hl
  unfold warnLoop
  refine RunsN.runs (for1_runs ctx noCall _ _ _ _ env m _ ((extraKeys ms).map Val.key) _ hit rfl ?_)
  rw [loopOver_map]
  exact hl

theorem propsBody_runs (f : Json) (p : String × Json) (env : Env) (m : Mem) (hP : FeatEnv f env) :
    Runs (FeatEnv f) (evalS ctx noCall propsBody ⟨bind2 "key" "value" (Val.key p.1, Val.json p.2) env, m⟩)
      (if p.2.isScalar then some m else none) := by
  have hP' : FeatEnv f (bind2 "key" "value" (Val.key p.1, Val.json p.2) env) := ⟨hP.1, hP.2⟩
  obtain ⟨k, v⟩ := p
  cases v with
  | blob t => exact ⟨Ctl.cont, _, rfl, hP'⟩
  | arr xs => show evalS ctx noCall propsBody _ = none; rfl
  | obj ps => show evalS ctx noCall propsBody _ = none; rfl

theorem foldlM_guard {α β : Type} (q : α → Bool) (xs : List α) (b : β) :
    xs.foldlM (fun b a => if q a then some b else none) b = if xs.all q then some b else none := by
  induction xs with
  | nil => rfl
  | cons x xs ih =>
    simp only [List.foldlM_cons, List.all_cons]
    by_cases hq : q x = true
    · simpa [hq] using ih
    · simp [hq]

/-- **the property loop**: a property value that is not a scalar raises TypeError. -/
theorem propsLoop_runs (ms ps : List (String × Json)) (hp : Read.lookup ms "properties" = some (.obj ps))
    (env : Env) (m : Mem) (hP : FeatEnv (.obj ms) env) :
    Runs (FeatEnv (.obj ms)) (evalS ctx noCall propsLoop ⟨env, m⟩)
      (if ps.all (fun p => p.2.isScalar) then some m else none) := by
  have hit : evalE ctx (Term.app ".items" [Term.app ".properties" [Term.sym "feature"]]) ⟨env, m⟩ = some (.items ps) := by
    rw [evalE_items, evalE_properties, evalE_feature]
    simp only [hP.1, Option.bind_some, attr, Json.get?, hp, Option.map_some]
    rfl
  have hl := loopOver_foldlM (FeatEnv (.obj ms)) (evalS ctx noCall propsBody)
    (fun (p : String × Json) => bind2 "key" "value" (Val.key p.1, Val.json p.2))
    (fun p m => if p.2.isScalar then some m else none) ps
    (fun p _ env m hP => propsBody_runs ctx (.obj ms) p env m hP) env m hP
  rw [foldlM_guard (fun (p : String × Json) => p.2.isScalar)] at hl
  unfold propsLoop
  refine RunsN.runs (for2_runs ctx noCall _ _ _ _ _ env m _ (ps.map fun p => (Val.key p.1, Val.json p.2)) _ hit rfl ?_)
  rw [loopOver_map]
  exact hl

/-- what `_check_raw_feature` does to the memory: `none` = it raises. -/
def checkFeatureSpec (f : Json) (m : Mem) : Option Mem :=
  if f.get? "type" = some (.blob (quote "Feature")) then
    match f, f.get? "properties" with
    | .obj ms, some (.obj ps) =>
      if ps.all (fun p => p.2.isScalar) then some ((extraKeys ms).foldl warnStep m) else none
    | _, _ => none
  else none

theorem truth_testFeature (f : Json) (m : Mem) :
    truthOf ctx ⟨[("feature", .json f), ("warned_feature_keys", .warned)], m⟩ testFeature =
      decide (f.get? "type" ≠ some (.blob (quote "Feature"))) := by
  unfold truthOf testFeature
  have hfe : evalE ctx (Term.app ".FEATURE_TYPES" [Term.sym "cls"]) ⟨[("feature", .json f), ("warned_feature_keys", .warned)], m⟩ =
      some (.texts [quote "Feature"]) := rfl
  have hlk : List.lookup "feature" [("feature", Val.json f), ("warned_feature_keys", Val.warned)] = some (Val.json f) := rfl
  rw [evalE_NotIn, evalE_type, evalE_feature, hfe]
  simp only [hlk, Option.bind_some, attr]
  cases ht : f.get? "type" with
  | none => simp
  | some t =>
    cases t with
    | blob v =>
      by_cases hv : v = quote "Feature"
      · subst hv; simp [pyIn, truthy]
      · simp [pyIn, truthy, hv]
    | arr xs => simp [pyIn, truthy]
    | obj ps => simp [pyIn, truthy]

/-- **`_check_raw_feature`, evaluated**. -/
theorem evalCheckFeature_eq (f : Json) (m : Mem) : evalCheckFeature ctx f m = checkFeatureSpec f m := by
  unfold evalCheckFeature checkFeatureSpec
  simp only [check_feature_code, truth_testFeature]
  by_cases ht : f.get? "type" = some (.blob (quote "Feature"))
  · simp only [ht, ne_eq, not_true_eq_false, decide_false, Bool.false_eq_true, if_false, if_true]
    cases f with
    | blob v => simp [Json.get?] at ht
    | arr xs => simp [Json.get?] at ht
    | obj ms =>
      have hP0 : FeatEnv (.obj ms) [("feature", .json (.obj ms)), ("warned_feature_keys", .warned)] := ⟨rfl, rfl⟩
      obtain ⟨env1, hP1, h1⟩ := evalEffs_cons_some ctx noCall _ warnLoop [propsLoop] _ m _ false rfl
        (warnLoop_runs ctx ms _ m hP0)
      rw [h1]
      cases hp : Read.lookup ms "properties" with
      | none =>
        have : evalS ctx noCall propsLoop ⟨env1, (extraKeys ms).foldl warnStep m⟩ = none := by
          unfold propsLoop
          rw [evalS_for2, evalE_items, evalE_properties, evalE_feature]
          simp [hP1.1, attr, Json.get?, hp]
        simp [evalEffs_cons _ _ _ _ _ (rfl : findComp propsLoop = none), this, Json.get?, hp]
      | some pv =>
        cases pv with
        | blob v =>
          have : evalS ctx noCall propsLoop ⟨env1, (extraKeys ms).foldl warnStep m⟩ = none := by
            unfold propsLoop
            rw [evalS_for2, evalE_items, evalE_properties, evalE_feature]
            simp [hP1.1, attr, Json.get?, hp, itemsOf]
          simp [evalEffs_cons _ _ _ _ _ (rfl : findComp propsLoop = none), this, Json.get?, hp]
        | arr xs =>
          have : evalS ctx noCall propsLoop ⟨env1, (extraKeys ms).foldl warnStep m⟩ = none := by
            unfold propsLoop
            rw [evalS_for2, evalE_items, evalE_properties, evalE_feature]
            simp [hP1.1, attr, Json.get?, hp, itemsOf]
          simp [evalEffs_cons _ _ _ _ _ (rfl : findComp propsLoop = none), this, Json.get?, hp]
        | obj ps =>
          have h2 := propsLoop_runs ctx ms ps hp env1 ((extraKeys ms).foldl warnStep m) hP1
          simp only [Json.get?, hp]
          by_cases hall : ps.all (fun p => p.2.isScalar) = true
          · rw [if_pos hall] at h2 ⊢
            obtain ⟨env2, _, h2'⟩ := evalEffs_cons_some ctx noCall _ propsLoop [] _ _ _ false rfl h2
            rw [h2', evalEffs_nil]; rfl
          · rw [if_neg hall] at h2 ⊢
            rw [evalEffs_cons_none ctx noCall _ propsLoop [] _ _ false rfl h2]; rfl
  · simp [ht]

end checkFeature

/-! ### `_check_raw_data` -/

section checkData

variable (ctx : Ctx)

def testData : Term := Term.app "NotIn" [Term.app ".type" [Term.sym "data"], Term.app ".TOP_LEVEL_TYPES" [Term.sym "cls"]]

def callCheckFeature : Term := Term.app "._check_raw_feature" [Term.sym "cls", Term.sym "feature", Term.app "list" []]

def featuresLoop : Term :=
  Term.app "for" [Term.sym "feature", Term.app ".features" [Term.sym "data"], Term.app "block" [callCheckFeature]]

/-- `_check_raw_data` as translated: a top-level type that is not listed raises; otherwise every feature is checked,
    all with the same list of keys already warned about. -/
theorem check_data_code (truth : Term → Bool) :
    GeoJSON_check_raw_data truth = if truth testData then Out.raise [] "TypeError" else Out.fall [featuresLoop] := by
  unfold GeoJSON_check_raw_data testData
  split <;> rfl

/-- what `_check_raw_data` does to the memory: `none` = it raises. -/
def checkDataSpec (raw : Json) (m : Mem) : Option Mem :=
  if raw.get? "type" = some (.blob (quote "FeatureCollection")) then
    match raw.get? "features" with
    | some (.arr fs) => fs.foldlM (fun m f => checkFeatureSpec f m) { m with warned := [] }
    | some (.obj []) => some { m with warned := [] }
    | _ => none
  else none

def DataEnv (raw : Json) (env : Env) : Prop := env.lookup "data" = some (Val.json raw)

theorem evalS_callFeature (call : String → List Val → Mem → Option Mem) (a b c : Term) (s : St) :
    evalS ctx call (Term.app "._check_raw_feature" [a, b, c]) s =
      (allM (fun t => evalE ctx t s) [a, b, c]).bind fun vs =>
        (call "._check_raw_feature" vs s.mem).map fun m => (Ctl.normal, { s with mem := m }) := rfl

theorem checkBody_runs (raw f : Json) (env : Env) (m : Mem) (hP : DataEnv raw env) :
    Runs (DataEnv raw) (evalS ctx (callFeature ctx) (Term.app "block" [callCheckFeature]) ⟨bind1 "feature" (Val.json f) env, m⟩)
      (checkFeatureSpec f m) := by
  have hP' : DataEnv raw (bind1 "feature" (Val.json f) env) := hP
  have hargs : allM (fun t => evalE ctx t ⟨bind1 "feature" (Val.json f) env, m⟩) [Term.sym "cls", Term.sym "feature", Term.app "list" []] =
      some [Val.cls, Val.json f, Val.cells []] := rfl
  have hcall : callFeature ctx "._check_raw_feature" [Val.cls, Val.json f, Val.cells []] m = evalCheckFeature ctx f m := rfl
  rw [evalS_block, evalB_cons]
  unfold callCheckFeature
  rw [evalS_callFeature, hargs]
  simp only [Option.bind_some, hcall, evalCheckFeature_eq]
  cases checkFeatureSpec f m with
  | none => rfl
  | some m1 => exact ⟨Ctl.normal, _, rfl, hP'⟩

theorem truth_testData (raw : Json) (m : Mem) :
    truthOf ctx ⟨[("data", .json raw)], m⟩ testData = decide (raw.get? "type" ≠ some (.blob (quote "FeatureCollection"))) := by
  unfold truthOf testData
  have hfe : evalE ctx (Term.app ".TOP_LEVEL_TYPES" [Term.sym "cls"]) ⟨[("data", .json raw)], m⟩ =
      some (.texts [quote "FeatureCollection"]) := rfl
  have hlk : List.lookup "data" [("data", Val.json raw)] = some (Val.json raw) := rfl
  rw [evalE_NotIn, evalE_type, evalE_dataParam, hfe]
  simp only [hlk, Option.bind_some, attr]
  cases ht : raw.get? "type" with
  | none => simp
  | some t =>
    cases t with
    | blob v =>
      by_cases hv : v = quote "FeatureCollection"
      · subst hv; simp [pyIn, truthy]
      · simp [pyIn, truthy, hv]
    | arr xs => simp [pyIn, truthy]
    | obj ps => simp [pyIn, truthy]

/-- **`_check_raw_data`, evaluated**. -/
theorem evalCheckData_eq (raw : Json) (m : Mem) : evalCheckData ctx raw m = checkDataSpec raw m := by
  unfold evalCheckData checkDataSpec
  simp only [check_data_code, truth_testData]
  by_cases ht : raw.get? "type" = some (.blob (quote "FeatureCollection"))
  · simp only [ht, ne_eq, not_true_eq_false, decide_false, Bool.false_eq_true, if_false, if_true]
    have hP0 : DataEnv raw [("data", .json raw)] := rfl
    have hfe : evalE ctx (Term.app ".features" [Term.sym "data"]) ⟨[("data", .json raw)], { m with warned := [] }⟩ =
        (raw.get? "features").map Val.json := rfl
    cases hf : raw.get? "features" with
    | none =>
      have : evalS ctx (callFeature ctx) featuresLoop ⟨[("data", .json raw)], { m with warned := [] }⟩ = none := by
        unfold featuresLoop
        rw [evalS_for1, hfe, hf]; rfl
      simp [evalEffs_cons _ _ _ _ _ (rfl : findComp featuresLoop = none), this]
    | some fv =>
      cases fv with
      | blob v =>
        have : evalS ctx (callFeature ctx) featuresLoop ⟨[("data", .json raw)], { m with warned := [] }⟩ = none := by
          unfold featuresLoop
          rw [evalS_for1, hfe, hf]; rfl
        simp [evalEffs_cons _ _ _ _ _ (rfl : findComp featuresLoop = none), this]
      | arr fs =>
        have hl := loopOver_foldlM (DataEnv raw) (evalS ctx (callFeature ctx) (Term.app "block" [callCheckFeature]))
          (fun f => bind1 "feature" (Val.json f)) (fun f m => checkFeatureSpec f m) fs
          (fun f _ env m hP => checkBody_runs ctx raw f env m hP) [("data", .json raw)] { m with warned := [] } hP0
        have hr : Runs (DataEnv raw) (evalS ctx (callFeature ctx) featuresLoop ⟨[("data", .json raw)], { m with warned := [] }⟩)
            (fs.foldlM (fun m f => checkFeatureSpec f m) { m with warned := [] }) := by
          unfold featuresLoop
          refine RunsN.runs (for1_runs ctx (callFeature ctx) _ _ _ _ _ _ _ (fs.map Val.json) _ (by rw [hfe, hf]; rfl) rfl ?_)
          rw [loopOver_map]
          exact hl
        cases hres : fs.foldlM (fun m f => checkFeatureSpec f m) { m with warned := [] } with
        | none =>
          rw [hres] at hr
          rw [evalEffs_cons_none ctx (callFeature ctx) _ featuresLoop [] _ _ false rfl hr]; simp [hres]
        | some m1 =>
          rw [hres] at hr
          obtain ⟨env2, _, h2⟩ := evalEffs_cons_some ctx (callFeature ctx) _ featuresLoop [] _ _ _ false rfl hr
          rw [h2, evalEffs_nil]; simp [hres]
      | obj ps =>
        cases ps with
        | nil =>
          have : evalS ctx (callFeature ctx) featuresLoop ⟨[("data", .json raw)], { m with warned := [] }⟩ =
              some (Ctl.normal, ⟨[("data", .json raw)], { m with warned := [] }⟩) := by
            unfold featuresLoop
            rw [evalS_for1, hfe, hf]; rfl
          simp [evalEffs_cons _ _ _ _ _ (rfl : findComp featuresLoop = none), this, evalEffs_nil]
        | cons p ps =>
          have : evalS ctx (callFeature ctx) featuresLoop ⟨[("data", .json raw)], { m with warned := [] }⟩ = none := by
            unfold featuresLoop
            rw [evalS_for1, hfe, hf]; rfl
          simp [evalEffs_cons _ _ _ _ _ (rfl : findComp featuresLoop = none), this]
  · simp [ht]

end checkData

/-! ### `read`: the first pass (property names in first-seen order) -/

section collect

variable (ctx : Ctx) (call : String → List Val → Mem → Option Mem)

/-- no condition on the local names. -/
def Any : Env → Prop := fun _ => True

def setData (d : Dict (List (Option Json))) (m : Mem) : Mem := { m with data := d }

theorem foldl_setData {α : Type} (g : α → Dict (List (Option Json)) → Dict (List (Option Json))) (xs : List α) (m : Mem) :
    xs.foldl (fun m x => setData (g x m.data) m) m = setData (xs.foldl (fun d x => g x d) m.data) m := by
  induction xs generalizing m with
  | nil => rfl
  | cons x xs ih => simp only [List.foldl_cons]; rw [ih]; rfl

/-- the properties of a feature (`[]` when it has none: excluded by the check). -/
def propsOf (f : Json) : List (String × Json) :=
  match f.get? "properties" with
  | some (.obj ps) => ps
  | _ => []

/-- `for key in feature.properties: data.setdefault(key, [])`. -/
def collectFeature (d : Dict (List (Option Json))) (f : Json) : Dict (List (Option Json)) :=
  (propsOf f).foldl (fun d p => Dict.setdefault d p.1 []) d

def innerCollect : Term :=
  Term.app "for" [Term.sym "key", Term.app ".properties" [Term.sym "feature"], Term.app "block"
    [Term.app ".setdefault" [Term.sym "{}", Term.sym "key", Term.app "list" []]]]

theorem collectKeys_eq : collectKeys = Term.app "for" [Term.sym "feature", Term.app ".features" [raw], Term.app "block" [innerCollect]] := rfl

theorem innerCollect_runs (f : Json) (ps : List (String × Json)) (hp : f.get? "properties" = some (.obj ps))
    (env : Env) (m : Mem) :
    Runs Any (evalS ctx call (Term.app "block" [innerCollect]) ⟨bind1 "feature" (Val.json f) env, m⟩)
      (some (setData (collectFeature m.data f) m)) := by
  have hbody : ∀ (p : String × Json) (_ : p ∈ ps) (env : Env) (m : Mem), Any env →
      Runs Any (evalS ctx call (Term.app "block" [Term.app ".setdefault" [Term.sym "{}", Term.sym "key", Term.app "list" []]])
        ⟨bind1 "key" (Val.key p.1) env, m⟩) (some (setData (Dict.setdefault m.data p.1 []) m)) :=
    fun p _ env m _ => ⟨Ctl.normal, _, rfl, trivial⟩
  have hl := loopOver_foldlM Any _ (fun (p : String × Json) => bind1 "key" (Val.key p.1))
    (fun p m => some (setData (Dict.setdefault m.data p.1 []) m)) ps hbody (bind1 "feature" (Val.json f) env) m trivial
  rw [foldlM_some (fun m (p : String × Json) => setData (Dict.setdefault m.data p.1 []) m), foldl_setData (fun (p : String × Json) d => Dict.setdefault d p.1 [])] at hl
  have hit : evalE ctx (Term.app ".properties" [Term.sym "feature"]) ⟨bind1 "feature" (Val.json f) env, m⟩ =
      some (Val.json (.obj ps)) := by
    have : evalE ctx (Term.app ".properties" [Term.sym "feature"]) ⟨bind1 "feature" (Val.json f) env, m⟩ =
        (f.get? "properties").map Val.json := rfl
    rw [this, hp]; rfl
  have hinner : RunsN Any (evalS ctx call innerCollect ⟨bind1 "feature" (Val.json f) env, m⟩)
      (some (setData (collectFeature m.data f) m)) := by
    unfold innerCollect
    refine for1_runs ctx call _ _ _ _ _ m _ (ps.map fun p => Val.key p.1) _ hit rfl ?_
    rw [loopOver_map]
    simpa [collectFeature, propsOf, hp] using hl
  exact (block1_runs ctx call _ _ _ _ hinner).runs

/-- **the first pass**: every property name of every feature, `setdefault`-ed in file order. -/
theorem collectKeys_runs (fs : List Json) (hps : ∀ f ∈ fs, ∃ ps, f.get? "properties" = some (.obj ps))
    (env : Env) (m : Mem) (hf : m.raw.get? "features" = some (.arr fs)) :
    Runs Any (evalS ctx call collectKeys ⟨env, m⟩) (some (setData (fs.foldl collectFeature m.data) m)) := by
  have hl := loopOver_foldlM Any (evalS ctx call (Term.app "block" [innerCollect])) (fun f => bind1 "feature" (Val.json f))
    (fun f m => some (setData (collectFeature m.data f) m)) fs
    (fun f hf env m _ => by obtain ⟨ps, hp⟩ := hps f hf; exact innerCollect_runs ctx call f ps hp env m) env m trivial
  rw [foldlM_some (fun m f => setData (collectFeature m.data f) m), foldl_setData (fun f d => collectFeature d f)] at hl
  have hit : evalE ctx (Term.app ".features" [raw]) ⟨env, m⟩ = some (Val.json (.arr fs)) := by
    have : evalE ctx (Term.app ".features" [raw]) ⟨env, m⟩ = (m.raw.get? "features").map Val.json := rfl
    rw [this, hf]; rfl
  rw [collectKeys_eq]
  refine RunsN.runs (for1_runs ctx call _ _ _ _ env m _ (fs.map Val.json) _ hit rfl ?_)
  rw [loopOver_map]
  exact hl

end collect

/-! ### dict lemmas for the second pass -/

section dict

variable {β : Type}

theorem lookup_append_of_not_mem (a b : List (String × β)) (k : String) (h : ∀ p ∈ a, p.1 ≠ k) :
    Read.lookup (a ++ b) k = Read.lookup b k := by
  induction a with
  | nil => rfl
  | cons p ps ih =>
    have hp : (p.1 == k) = false := by simpa using h p (by simp)
    have := ih (fun q hq => h q (by simp [hq]))
    simp only [Read.lookup, List.cons_append, List.find?_cons, hp] at this ⊢
    exact this

theorem lookup_cons_self (p : String × β) (ps : List (String × β)) : Read.lookup (p :: ps) p.1 = some p.2 := by
  simp [Read.lookup]

theorem map_update_of_not_mem (a : List (String × β)) (k : String) (v : β) (h : ∀ p ∈ a, p.1 ≠ k) :
    a.map (fun p => if p.1 == k then (k, v) else p) = a := by
  induction a with
  | nil => rfl
  | cons p ps ih =>
    have hp : (p.1 == k) = false := by simpa using h p (by simp)
    simp only [List.map_cons, hp, Bool.false_eq_true, if_false, ih (fun q hq => h q (by simp [hq]))]

theorem set_middle (pre post : List (String × β)) (p : String × β) (v : β)
    (h1 : ∀ q ∈ pre, q.1 ≠ p.1) (h2 : ∀ q ∈ post, q.1 ≠ p.1) :
    Dict.set (pre ++ p :: post) p.1 v = pre ++ (p.1, v) :: post := by
  have hhas : Dict.has (pre ++ p :: post) p.1 = true := by simp [Dict.has]
  simp only [Dict.set, hhas, if_true, List.map_append, List.map_cons, beq_self_eq_true,
    map_update_of_not_mem pre p.1 v h1, map_update_of_not_mem post p.1 v h2]

/-- `data[key].append(c key)` for one key. -/
def fillStep (c : String → Option Json) (d : Dict (List (Option Json))) (k : String) : Option (Dict (List (Option Json))) :=
  (Read.lookup d k).map fun xs => Dict.set d k (xs ++ [c k])

theorem fill_keys_aux (c : String → Option Json) (post : Dict (List (Option Json))) :
    ∀ pre : Dict (List (Option Json)), (post.map (·.1)).Nodup → (∀ p ∈ pre, ∀ q ∈ post, p.1 ≠ q.1) →
      (post.map (·.1)).foldlM (fillStep c) (pre ++ post) = some (pre ++ post.map fun p => (p.1, p.2 ++ [c p.1])) := by
  induction post with
  | nil => intro pre _ _; simp
  | cons p ps ih =>
    intro pre hnd hdis
    have hnd' := List.nodup_cons.mp hnd
    have h1 : ∀ q ∈ pre, q.1 ≠ p.1 := fun q hq => hdis q hq p (by simp)
    have h2 : ∀ q ∈ ps, q.1 ≠ p.1 := fun q hq e => hnd'.1 (List.mem_map.mpr ⟨q, hq, e⟩)
    have hstep : fillStep c (pre ++ p :: ps) p.1 = some ((pre ++ [(p.1, p.2 ++ [c p.1])]) ++ ps) := by
      unfold fillStep
      rw [lookup_append_of_not_mem pre (p :: ps) p.1 h1, lookup_cons_self]
      simp only [Option.map_some, set_middle pre ps p _ h1 h2, List.append_assoc, List.cons_append, List.nil_append]
    simp only [List.map_cons, List.foldlM_cons, hstep]
    have := ih (pre ++ [(p.1, p.2 ++ [c p.1])]) hnd'.2 (by
      intro a ha q hq
      rcases List.mem_append.mp ha with ha | ha
      · exact hdis a ha q (by simp [hq])
      · simp only [List.mem_singleton] at ha; subst ha; exact fun e => h2 q hq e.symm)
    simpa [List.append_assoc] using this

/-- **one row of the second pass**: every column (distinct names) gets exactly one more cell, its own. -/
theorem fill_keys (c : String → Option Json) (d : Dict (List (Option Json))) (hnd : (d.map (·.1)).Nodup) :
    (d.map (·.1)).foldlM (fillStep c) d = some (d.map fun p => (p.1, p.2 ++ [c p.1])) := by
  simpa using fill_keys_aux c d [] hnd (by simp)

theorem foldlM_setData {α : Type} (g : Dict (List (Option Json)) → α → Option (Dict (List (Option Json)))) (xs : List α) (m : Mem) :
    xs.foldlM (fun m x => (g m.data x).map fun d => setData d m) m = (xs.foldlM g m.data).map fun d => setData d m := by
  induction xs generalizing m with
  | nil => simp [setData]
  | cons x xs ih =>
    simp only [List.foldlM_cons]
    cases g m.data x with
    | none => rfl
    | some d =>
      show List.foldlM _ (setData d m) xs = Option.map _ (List.foldlM g d xs)
      rw [ih]; rfl

end dict

/-! ### `read`: the second pass (one cell per feature per kept column) -/

section fill

variable (ctx : Ctx) (call : String → List Val → Mem → Option Mem)

def fillBody (dT : Term) : Term :=
  Term.app "block"
    [Term.app "assign" [Term.sym "value", Term.app ".get" [Term.app ".properties" [Term.sym "feature"], Term.sym "key", Term.sym "None"]],
     Term.app ".append" [Term.app "getitem" [dT, Term.sym "key"], Term.sym "value"]]

def fillInner (dT : Term) : Term :=
  Term.app "for" [Term.sym "key", dT, fillBody dT, Term.app "init" [Term.sym "value", Term.sym "value"]]

theorem fillColumns_eq (dT : Term) :
    fillColumns dT = Term.app "for" [Term.sym "feature", Term.app ".features" [raw], Term.app "block" [fillInner dT]] := rfl

def FeatureEnv (f : Json) (env : Env) : Prop := env.lookup "feature" = some (Val.json f)

theorem evalE_get (a b c : Term) (s : St) : evalE ctx (Term.app ".get" [a, b, c]) s =
    (evalE ctx a s).bind fun vd => (evalE ctx b s).bind fun vk => (evalE ctx c s).bind fun vdf =>
      match vd, vk.asKey with
      | .json (.obj ms), some key => some (match Read.lookup ms key with | some j => .json j | Option.none => vdf)
      | _, _ => Option.none := rfl

theorem evalS_assign_get (x : String) (a b c : Term) (s : St) :
    evalS ctx call (Term.app "assign" [Term.sym x, Term.app ".get" [a, b, c]]) s =
      (evalE ctx (Term.app ".get" [a, b, c]) s).map fun v => (Ctl.normal, { s with env := (x, v) :: s.env }) := rfl

theorem evalS_append (d k e : Term) (s : St) :
    evalS ctx call (Term.app ".append" [Term.app "getitem" [d, k], e]) s =
      (evalE ctx d s).bind fun vd => (evalE ctx k s).bind fun vk => (evalE ctx e s).bind fun ve =>
        match vd, vk.asKey, ve.asCell with
        | .data, some key, some c =>
          (Read.lookup s.mem.data key).map fun xs =>
            (Ctl.normal, { s with mem := { s.mem with data := Dict.set s.mem.data key (xs ++ [c]) } })
        | _, _, _ => Option.none := rfl

/-- `value = feature.properties.get(key, None)` as a value of the evaluator. -/
def cellVal (ps : List (String × Json)) (k : String) : Val :=
  match Read.lookup ps k with
  | some j => .json j
  | none => .none

theorem cellVal_asCell (ps : List (String × Json)) (k : String) : (cellVal ps k).asCell = some (Read.lookup ps k) := by
  unfold cellVal; cases Read.lookup ps k <;> rfl

theorem fillBody_runs (dT : Term) (hd : ∀ s, evalE ctx dT s = some Val.data) (f : Json) (ps : List (String × Json))
    (hp : f.get? "properties" = some (.obj ps)) (k : String) (env : Env) (m : Mem) (hP : FeatureEnv f env) :
    Runs (FeatureEnv f) (evalS ctx call (fillBody dT) ⟨bind1 "key" (Val.key k) env, m⟩)
      ((fillStep (fun k => Read.lookup ps k) m.data k).map fun d => setData d m) := by
  let env0 : Env := bind1 "key" (Val.key k) env
  have hget : evalE ctx (Term.app ".get" [Term.app ".properties" [Term.sym "feature"], Term.sym "key", Term.sym "None"]) ⟨env0, m⟩ =
      some (cellVal ps k) := by
    have hf : List.lookup "feature" env0 = some (Val.json f) := hP
    have hk : List.lookup "key" env0 = some (Val.key k) := rfl
    have hn : evalE ctx (Term.sym "None") ⟨env0, m⟩ = some Val.none := rfl
    rw [evalE_get, evalE_properties, evalE_feature, evalE_key, hn]
    simp only [hf, hk, Option.bind_some, attr, hp, Option.map_some, Val.asKey]
    rfl
  let env1 : Env := ("value", cellVal ps k) :: env0
  have hP1 : FeatureEnv f env1 := hP
  have hk1 : evalE ctx (Term.sym "key") ⟨env1, m⟩ = some (Val.key k) := rfl
  have hv1 : evalE ctx (Term.sym "value") ⟨env1, m⟩ = some (cellVal ps k) := rfl
  unfold fillBody
  rw [evalS_block, evalB_cons, evalS_assign_get, hget]
  simp only [Option.map_some, Option.bind_some]
  rw [evalB_cons, evalS_append, hd, hk1, hv1]
  simp only [Option.bind_some, Val.asKey, cellVal_asCell, fillStep]
  cases hl : Read.lookup m.data k with
  | none => rfl
  | some xs => exact ⟨Ctl.normal, env1, rfl, hP1⟩

/-- one feature: a cell appended to every column of `data` (the names of a dict are distinct). -/
def appendRow (f : Json) (d : Dict (List (Option Json))) : Dict (List (Option Json)) :=
  d.map fun p => (p.1, p.2 ++ [Read.lookup (propsOf f) p.1])

theorem fillInner_runs (dT : Term) (hd : ∀ s, evalE ctx dT s = some Val.data) (f : Json) (ps : List (String × Json))
    (hp : f.get? "properties" = some (.obj ps)) (env : Env) (m : Mem) (hnd : (m.data.map (·.1)).Nodup) :
    Runs Any (evalS ctx call (Term.app "block" [fillInner dT]) ⟨bind1 "feature" (Val.json f) env, m⟩)
      (some (setData (appendRow f m.data) m)) := by
  have hl := loopOver_foldlM (FeatureEnv f) (evalS ctx call (fillBody dT)) (fun k => bind1 "key" (Val.key k))
    (fun k m => (fillStep (fun k => Read.lookup ps k) m.data k).map fun d => setData d m) (m.data.map (·.1))
    (fun k _ env m hP => fillBody_runs ctx call dT hd f ps hp k env m hP) (bind1 "feature" (Val.json f) env) m rfl
  rw [foldlM_setData (fillStep fun k => Read.lookup ps k), fill_keys _ _ hnd] at hl
  have hinner : RunsN (FeatureEnv f) (evalS ctx call (fillInner dT) ⟨bind1 "feature" (Val.json f) env, m⟩)
      (some (setData (appendRow f m.data) m)) := by
    unfold fillInner
    refine for1_runs' ctx call _ _ _ _ _ _ m _ ((m.data.map (·.1)).map Val.key) _ (hd _) (by simp [iterOf]) ?_
    rw [loopOver_map]
    simpa [appendRow, propsOf, hp] using hl
  obtain ⟨env', he, _⟩ := block1_runs ctx call _ _ _ _ hinner
  exact ⟨Ctl.normal, env', he, trivial⟩

theorem appendRow_keys (f : Json) (d : Dict (List (Option Json))) : (appendRow f d).map (·.1) = d.map (·.1) := by
  simp [appendRow, List.map_map, Function.comp_def]

theorem foldl_appendRow_keys (fs : List Json) (d : Dict (List (Option Json))) :
    (fs.foldl (fun d f => appendRow f d) d).map (·.1) = d.map (·.1) := by
  induction fs generalizing d with
  | nil => rfl
  | cons f fs ih => simp only [List.foldl_cons]; rw [ih, appendRow_keys]

/-- **the second pass**: for every feature, in file order, one cell per column. -/
theorem fillColumns_runs (dT : Term) (hd : ∀ s, evalE ctx dT s = some Val.data) (fs : List Json)
    (hps : ∀ f ∈ fs, ∃ ps, f.get? "properties" = some (.obj ps))
    (env : Env) (m : Mem) (hf : m.raw.get? "features" = some (.arr fs)) (hnd : (m.data.map (·.1)).Nodup) :
    Runs Any (evalS ctx call (fillColumns dT) ⟨env, m⟩) (some (setData (fs.foldl (fun d f => appendRow f d) m.data) m)) := by
  have hit : evalE ctx (Term.app ".features" [raw]) ⟨env, m⟩ = some (Val.json (.arr fs)) := by
    have : evalE ctx (Term.app ".features" [raw]) ⟨env, m⟩ = (m.raw.get? "features").map Val.json := rfl
    rw [this, hf]; rfl
  -- the loop, with the invariant that the column names stay distinct
  have key : ∀ (gs : List Json), (∀ f ∈ gs, ∃ ps, f.get? "properties" = some (.obj ps)) → ∀ (env : Env) (m : Mem),
      (m.data.map (·.1)).Nodup →
      ∃ env', loopOver (evalS ctx call (Term.app "block" [fillInner dT])) (fun f => bind1 "feature" (Val.json f)) gs ⟨env, m⟩ =
        some ⟨env', setData (gs.foldl (fun d f => appendRow f d) m.data) m⟩ := by
    intro gs
    induction gs with
    | nil => intro _ env m _; exact ⟨env, rfl⟩
    | cons g gs ih =>
      intro hgs env m hnd
      obtain ⟨ps, hp⟩ := hgs g (by simp)
      obtain ⟨c, env1, he, _⟩ := fillInner_runs ctx call dT hd g ps hp env m hnd
      obtain ⟨env2, h2⟩ := ih (fun f hf => hgs f (by simp [hf])) env1 (setData (appendRow g m.data) m)
        (by show ((appendRow g m.data).map (·.1)).Nodup; rw [appendRow_keys]; exact hnd)
      exact ⟨env2, by simp only [loopOver, he, Option.bind_some, List.foldl_cons]; exact h2⟩
  obtain ⟨env', hl⟩ := key fs hps env m hnd
  rw [fillColumns_eq]
  refine RunsN.runs (for1_runs ctx call _ _ _ _ env m _ (fs.map Val.json) _ hit rfl ?_)
  rw [loopOver_map]
  exact ⟨env', hl, trivial⟩

end fill

/-! ### `read`: the restriction, the geometry column, the casts, the metadata -/

section rest

variable (ctx : Ctx) (call : String → List Val → Mem → Option Mem)

/-- `{k: v for k, v in data.items() if k in columns}` as the translator writes it. -/
def compT : Term :=
  Term.app "DictComp" [Term.app "pair" [Term.sym "k", Term.sym "v"], Term.app "in" [Term.app "tuple" [Term.sym "k", Term.sym "v"],
    Term.app ".items" [Term.sym "{}"], Term.app "if" [Term.app "In" [Term.sym "k", Term.sym "columns"]]]]

theorem compLoop_eq (s : St) (d : Dict (List (Option Json))) :
    compLoop ctx (Term.sym "k") (Term.sym "v") (Term.app "In" [Term.sym "k", Term.sym "columns"]) "k" "v" s d =
      some (d.filter fun p => ctx.columns.contains p.1) := by
  induction d with
  | nil => rfl
  | cons p ps ih =>
    have hc : evalE ctx (Term.app "In" [Term.sym "k", Term.sym "columns"])
        { s with env := ("v", Val.cells p.2) :: ("k", Val.key p.1) :: s.env } = some (Val.bool (ctx.columns.contains p.1)) := rfl
    have hk : evalE ctx (Term.sym "k") { s with env := ("v", Val.cells p.2) :: ("k", Val.key p.1) :: s.env } = some (Val.key p.1) := rfl
    have hv : evalE ctx (Term.sym "v") { s with env := ("v", Val.cells p.2) :: ("k", Val.key p.1) :: s.env } = some (Val.cells p.2) := rfl
    simp only [compLoop, hc, ih, hk, hv, Option.bind_some, truthy, Val.asKey, List.filter_cons]
    cases ctx.columns.contains p.1 <;> rfl

/-- **the restriction**: the columns whose name is in `columns`, in their order. -/
theorem evalComp_eq (env : Env) (m : Mem) :
    evalComp ctx compT ⟨env, m⟩ = some ⟨env, setData (m.data.filter fun p => ctx.columns.contains p.1) m⟩ := by
  have : evalComp ctx compT ⟨env, m⟩ =
      (compLoop ctx (Term.sym "k") (Term.sym "v") (Term.app "In" [Term.sym "k", Term.sym "columns"]) "k" "v" ⟨env, m⟩ m.data).map
        fun d => (⟨env, { m with data := d }⟩ : St) := rfl
  rw [this, compLoop_eq]; rfl

theorem evalEffs_cons_comp (t : Term) (ts : List Term) (s : St) (c : Term) (h : findComp t = some c) :
    evalEffs ctx call false (t :: ts) s =
      (evalComp ctx c s).bind fun s1 => (evalS ctx call t s1).bind fun r => evalEffs ctx call true ts r.2 := by
  simp [evalEffs, h]

theorem evalEffs_cons_done (t : Term) (ts : List Term) (s : St) :
    evalEffs ctx call true (t :: ts) s = (evalS ctx call t s).bind fun r => evalEffs ctx call true ts r.2 := by
  simp [evalEffs]

def storeGeom (dT : Term) : Term :=
  Term.app "store" [Term.app "getitem" [dT, Term.sym "'geometry'"],
    Term.app "ListComp" [Term.app ".geometry" [Term.sym "x"], Term.app "in" [Term.sym "x", Term.app ".features" [raw], Term.app "if" []]]]

theorem evalS_store (d k e : Term) (s : St) :
    evalS ctx call (Term.app "store" [Term.app "getitem" [d, k], e]) s =
      (evalE ctx d s).bind fun vd => (evalE ctx k s).bind fun vk => (evalE ctx e s).bind fun ve =>
        match vd, vk.asKey, ve with
        | .data, some key, .cells xs => some (Ctl.normal, { s with mem := { s.mem with data := Dict.set s.mem.data key xs } })
        | _, _, _ => Option.none := rfl

theorem evalE_ListComp (body it : Term) (x : String) (s : St) :
    evalE ctx (Term.app "ListComp" [body, Term.app "in" [Term.sym x, it, Term.app "if" []]]) s =
      (evalE ctx it s).bind fun vi => (iterOf s.mem vi).bind fun vs =>
        (allM (fun v => (evalE ctx body { s with env := (x, v) :: s.env }).bind Val.asCell) vs).map Val.cells := rfl

theorem allM_map {α β γ : Type} (f : β → Option γ) (g : α → β) (xs : List α) :
    allM f (xs.map g) = allM (fun x => f (g x)) xs := by
  induction xs with
  | nil => rfl
  | cons x xs ih => simp only [List.map_cons, allM, ih]

theorem allM_congr {α β : Type} (f g : α → Option β) (xs : List α) (h : ∀ x ∈ xs, f x = g x) : allM f xs = allM g xs := by
  induction xs with
  | nil => rfl
  | cons x xs ih =>
    simp only [allM, h x (by simp), ih (fun y hy => h y (by simp [hy]))]

theorem allM_map_some {α β γ : Type} (g : α → Option β) (h : β → γ) (xs : List α) :
    allM (fun x => (g x).map h) xs = (allM g xs).map (List.map h) := by
  induction xs with
  | nil => rfl
  | cons x xs ih =>
    simp only [allM, ih]
    cases g x with
    | none => rfl
    | some y => cases allM g xs <;> rfl

/-- `[x.geometry for x in raw.features]`: AttributeError (`none`) when a feature has no `geometry` member. -/
def geometries (fs : List Json) : Option (List Json) := allM (fun f => f.get? "geometry") fs

/-- **the geometry column**: stored under `"geometry"` — last when no property has that name, in place otherwise. -/
theorem storeGeom_runs (dT : Term) (hd : ∀ s, evalE ctx dT s = some Val.data) (fs : List Json) (env : Env) (m : Mem)
    (hf : m.raw.get? "features" = some (.arr fs)) :
    Runs Any (evalS ctx call (storeGeom dT) ⟨env, m⟩)
      ((geometries fs).map fun gs => setData (Dict.set m.data "geometry" (gs.map some)) m) := by
  have hit : evalE ctx (Term.app ".features" [raw]) ⟨env, m⟩ = some (Val.json (.arr fs)) := by
    have : evalE ctx (Term.app ".features" [raw]) ⟨env, m⟩ = (m.raw.get? "features").map Val.json := rfl
    rw [this, hf]; rfl
  have hk : evalE ctx (Term.sym "'geometry'") ⟨env, m⟩ = some (Val.str ['g', 'e', 'o', 'm', 'e', 't', 'r', 'y']) := rfl
  have hkey : (Val.str ['g', 'e', 'o', 'm', 'e', 't', 'r', 'y']).asKey = some "geometry" := rfl
  have hcells : allM (fun v => (evalE ctx (Term.app ".geometry" [Term.sym "x"]) { (⟨env, m⟩ : St) with env := ("x", v) :: env }).bind Val.asCell)
      (fs.map Val.json) = (geometries fs).map (List.map some) := by
    unfold geometries
    rw [allM_map, ← allM_map_some]
    apply allM_congr
    intro f _
    have : evalE ctx (Term.app ".geometry" [Term.sym "x"]) ⟨("x", Val.json f) :: env, m⟩ = (f.get? "geometry").map Val.json := rfl
    show (evalE ctx (Term.app ".geometry" [Term.sym "x"]) ⟨("x", Val.json f) :: env, m⟩).bind Val.asCell = _
    rw [this]
    cases f.get? "geometry" <;> rfl
  unfold storeGeom
  rw [evalS_store, hd, hk, evalE_ListComp, hit]
  simp only [Option.bind_some, iterOf, hcells, hkey]
  cases geometries fs with
  | none => rfl
  | some gs => exact ⟨Ctl.normal, env, rfl, trivial⟩

def castsT (dT : Term) : Term :=
  Term.app "for" [Term.app "tuple" [Term.sym "name", Term.sym "dtype"], Term.app ".items" [Term.sym "dtypes"], Term.app "block"
    [Term.app "store" [Term.app "getitem" [dT, Term.sym "name"], Term.app "DataFrameColumn" [Term.app "getitem" [dT, Term.sym "name"], Term.sym "dtype"]]]]

/-- `data[name] = DataFrameColumn(data[name], dtype)`: KeyError (`none`) for a name that is not a column. -/
def castStep (cast : String → List (Option Json) → List (Option Json)) (d : Dict (List (Option Json))) (p : String × String) :
    Option (Dict (List (Option Json))) :=
  (Read.lookup d p.1).map fun xs => Dict.set d p.1 (cast p.2 xs)

theorem evalE_DFC (c d : Term) (s : St) : evalE ctx (Term.app "DataFrameColumn" [c, d]) s =
    (evalE ctx c s).bind fun vc => (evalE ctx d s).bind fun vd => match vc, vd.asKey with
      | .cells xs, some dt => some (.cells (ctx.cast dt xs))
      | _, _ => Option.none := rfl

theorem evalE_getitem (d k : Term) (s : St) : evalE ctx (Term.app "getitem" [d, k]) s =
    (evalE ctx d s).bind fun vd => (evalE ctx k s).bind fun vk => match vd, vk.asKey with
      | .data, some key => (Read.lookup s.mem.data key).map Val.cells
      | _, _ => Option.none := rfl

theorem castBody_runs (dT : Term) (hd : ∀ s, evalE ctx dT s = some Val.data) (p : String × String) (env : Env) (m : Mem) :
    Runs Any (evalS ctx call (Term.app "block"
        [Term.app "store" [Term.app "getitem" [dT, Term.sym "name"], Term.app "DataFrameColumn" [Term.app "getitem" [dT, Term.sym "name"], Term.sym "dtype"]]])
        ⟨bind2 "name" "dtype" (Val.key p.1, Val.key p.2) env, m⟩)
      ((castStep ctx.cast m.data p).map fun d => setData d m) := by
  let env0 : Env := bind2 "name" "dtype" (Val.key p.1, Val.key p.2) env
  have hn : evalE ctx (Term.sym "name") ⟨env0, m⟩ = some (Val.key p.1) := rfl
  have hdt : evalE ctx (Term.sym "dtype") ⟨env0, m⟩ = some (Val.key p.2) := rfl
  rw [evalS_block, evalB_cons, evalS_store, hd, hn, evalE_DFC, evalE_getitem, hd, hn, hdt]
  simp only [Option.bind_some, Val.asKey, castStep]
  cases hl : Read.lookup m.data p.1 with
  | none => rfl
  | some xs => exact ⟨Ctl.normal, env0, rfl, trivial⟩

/-- **the casts**: in the order of `dtypes`. -/
theorem castsT_runs (dT : Term) (hd : ∀ s, evalE ctx dT s = some Val.data) (env : Env) (m : Mem) :
    Runs Any (evalS ctx call (castsT dT) ⟨env, m⟩)
      ((ctx.dtypes.foldlM (castStep ctx.cast) m.data).map fun d => setData d m) := by
  have hl := loopOver_foldlM Any _ (fun (p : String × String) => bind2 "name" "dtype" (Val.key p.1, Val.key p.2))
    (fun p m => (castStep ctx.cast m.data p).map fun d => setData d m) ctx.dtypes
    (fun p _ env m _ => castBody_runs ctx call dT hd p env m) env m trivial
  rw [foldlM_setData (castStep ctx.cast)] at hl
  have hit : evalE ctx (Term.app ".items" [Term.sym "dtypes"]) ⟨env, m⟩ = some (Val.sitems ctx.dtypes) := rfl
  unfold castsT
  refine RunsN.runs (for2_runs ctx call _ _ _ _ _ env m _ (ctx.dtypes.map fun p => (Val.key p.1, Val.key p.2)) _ hit rfl ?_)
  rw [loopOver_map]
  exact hl

theorem delT_eval (env : Env) (m : Mem) (ms : List (String × Json)) (hr : m.raw = .obj ms) (hh : Dict.has ms "features" = true) :
    evalS ctx call (Term.app "del" [Term.app ".features" [raw]]) ⟨env, m⟩ =
      some (Ctl.normal, ⟨env, { m with raw := .obj (Dict.del ms "features") }⟩) := by
  have : evalS ctx call (Term.app "del" [Term.app ".features" [raw]]) ⟨env, m⟩ =
      (match Val.json m.raw, m.raw with
        | .json _, .obj ms =>
          if Dict.has ms "features" then some (Ctl.normal, (⟨env, { m with raw := .obj (Dict.del ms "features") }⟩ : St))
          else Option.none
        | _, _ => Option.none) := rfl
  rw [this, hr]
  simp [hh]

theorem setattr_eval (fT : Term) (env : Env) (m : Mem) (ms : List (String × Json)) (hr : m.raw = .obj ms) :
    evalS ctx call (Term.app "setattr" [fT, Term.sym "metadata", raw]) ⟨env, m⟩ =
      some (Ctl.normal, ⟨env, { m with metadata := some ms }⟩) := by
  have : evalS ctx call (Term.app "setattr" [fT, Term.sym "metadata", raw]) ⟨env, m⟩ =
      (match Val.json m.raw with
        | .json (.obj ms) => some (Ctl.normal, (⟨env, { m with metadata := some ms }⟩ : St))
        | _ => Option.none) := rfl
  rw [this, hr]

end rest

/-! ### `read` as a whole -/

section whole

variable (ctx : Ctx)

def openT : Term := Term.app "with" [Term.app "util.xopen" [Term.sym "path", Term.sym "'rt'", Term.app "=encoding" [Term.sym "encoding"]]]
def checkT : Term := Term.app "._check_raw_data" [Term.sym "cls", raw]
def delT : Term := Term.app "del" [Term.app ".features" [raw]]
def frameT (dT : Term) : Term := Term.app "cls" [Term.app "=**" [dT]]
def setattrT (dT : Term) : Term := Term.app "setattr" [frameT dT, Term.sym "metadata", raw]

/-- `read` as translated (`Proofs/TieC18.lean`, `read_code`), in the names of this file. -/
theorem read_code' (truth : Term → Bool) :
    GeoJSON_read truth =
      Out.ret [openT, checkT, collectKeys, fillColumns (if truth (Term.sym "columns") then compT else Term.sym "{}"),
        storeGeom (if truth (Term.sym "columns") then compT else Term.sym "{}"),
        castsT (if truth (Term.sym "columns") then compT else Term.sym "{}"), delT,
        setattrT (if truth (Term.sym "columns") then compT else Term.sym "{}")]
        (frameT (if truth (Term.sym "columns") then compT else Term.sym "{}")) := by
  rw [read_code]; rfl

theorem truth_columns (s : St) : truthOf ctx s (Term.sym "columns") = !ctx.columns.isEmpty := rfl

/-- the feature passes `_check_raw_feature`. -/
def featureOk (f : Json) : Bool :=
  decide (f.get? "type" = some (.blob (quote "Feature"))) &&
    (match f.get? "properties" with
     | some (.obj ps) => ps.all (fun p => p.2.isScalar)
     | _ => false)

def extraKeysOf : Json → List String
  | .obj ms => extraKeys ms
  | _ => []

def featureWarn (f : Json) (m : Mem) : Mem := (extraKeysOf f).foldl warnStep m

theorem checkFeatureSpec_eq (f : Json) (m : Mem) :
    checkFeatureSpec f m = if featureOk f then some (featureWarn f m) else none := by
  unfold checkFeatureSpec featureOk featureWarn
  by_cases ht : f.get? "type" = some (.blob (quote "Feature"))
  · simp only [ht, if_true, decide_true, Bool.true_and]
    cases f with
    | blob v => simp [Json.get?] at ht
    | arr xs => simp [Json.get?] at ht
    | obj ms =>
      cases hp : (Json.obj ms).get? "properties" with
      | none => simp
      | some pv => cases pv <;> simp [extraKeysOf]
  · simp [ht]

theorem foldlM_check (fs : List Json) (m : Mem) :
    fs.foldlM (fun m f => checkFeatureSpec f m) m =
      if fs.all featureOk then some (fs.foldl (fun m f => featureWarn f m) m) else none := by
  induction fs generalizing m with
  | nil => rfl
  | cons f fs ih =>
    simp only [List.foldlM_cons, List.all_cons, List.foldl_cons]
    rw [checkFeatureSpec_eq]
    by_cases hf : featureOk f = true
    · simp only [hf, if_true, Bool.true_and]; exact ih _
    · simp [hf]

/-- one more key warned about. -/
def warnKey (w : List String) (k : String) : List String := if w.contains k then w else w ++ [k]

/-- **the keys warned about**: the member names of features other than `type` / `properties` / `geometry`, each once, in
    first-seen order. -/
def warnedKeys (fs : List Json) : List String := fs.foldl (fun w f => (extraKeysOf f).foldl warnKey w) []

def withWarn (w : List String) (m : Mem) : Mem := { m with log := w, warned := w }

theorem warnStep_withWarn (w : List String) (m : Mem) (k : String) :
    warnStep (withWarn w m) k = withWarn (warnKey w k) m := by
  by_cases h : k ∈ w <;> simp [warnStep, withWarn, warnKey, h]

theorem foldl_warnStep (ks : List String) (w : List String) (m : Mem) :
    ks.foldl warnStep (withWarn w m) = withWarn (ks.foldl warnKey w) m := by
  induction ks generalizing w with
  | nil => rfl
  | cons k ks ih => simp only [List.foldl_cons, warnStep_withWarn, ih]

theorem foldl_featureWarn (fs : List Json) (w : List String) (m : Mem) :
    fs.foldl (fun m f => featureWarn f m) (withWarn w m) = withWarn (fs.foldl (fun w f => (extraKeysOf f).foldl warnKey w) w) m := by
  induction fs generalizing w with
  | nil => rfl
  | cons f fs ih =>
    simp only [List.foldl_cons]
    rw [show featureWarn f (withWarn w m) = withWarn ((extraKeysOf f).foldl warnKey w) m from foldl_warnStep _ _ _]
    exact ih _

/-- the memory after a successful `_check_raw_data`. -/
theorem checkDataSpec_ok (ms0 : List (String × Json)) (fs : List Json)
    (hT : Read.lookup ms0 "type" = some (.blob (quote "FeatureCollection")))
    (hF : Read.lookup ms0 "features" = some (.arr fs)) (hok : fs.all featureOk = true) :
    checkDataSpec (.obj ms0) (Mem.init (.obj ms0)) = some (withWarn (warnedKeys fs) (Mem.init (.obj ms0))) := by
  unfold checkDataSpec
  simp only [Json.get?, hT, hF, if_true, foldlM_check, hok]
  have : ({ Mem.init (Json.obj ms0) with warned := [] } : Mem) = withWarn [] (Mem.init (.obj ms0)) := rfl
  rw [this, foldl_featureWarn]; rfl

theorem checkDataSpec_bad (ms0 : List (String × Json)) (fs : List Json) (m : Mem)
    (hF : Read.lookup ms0 "features" = some (.arr fs)) (hok : fs.all featureOk = false) :
    checkDataSpec (.obj ms0) m = none := by
  unfold checkDataSpec
  split
  · simp [Json.get?, hF, foldlM_check, hok]
  · rfl

/-- `columns=`: no restriction when empty. -/
def restrict (columns : List String) (d : Dict (List (Option Json))) : Dict (List (Option Json)) :=
  if columns.isEmpty then d else d.filter fun p => columns.contains p.1

/-- the dict `data` after the two passes. -/
def readData (columns : List String) (fs : List Json) : Dict (List (Option Json)) :=
  fs.foldl (fun d f => appendRow f d) (restrict columns (fs.foldl collectFeature []))

theorem setdefault_nodup {β : Type} (d : Dict β) (k : String) (v : β) (h : (d.map (·.1)).Nodup) :
    ((Dict.setdefault d k v).map (·.1)).Nodup := by
  unfold Dict.setdefault
  by_cases hh : Dict.has d k = true
  · simp [hh, h]
  · simp only [hh, Bool.false_eq_true, if_false, List.map_append, List.map_cons, List.map_nil]
    refine List.nodup_append.mpr ⟨h, by simp, ?_⟩
    intro a ha b hb
    simp only [List.mem_singleton] at hb
    subst hb
    intro e; subst e
    obtain ⟨p, hp, hpe⟩ := List.mem_map.mp ha
    apply hh
    simp only [Dict.has, List.any_eq_true]
    exact ⟨p, hp, by simp [hpe]⟩

theorem collect_nodup (fs : List Json) (d : Dict (List (Option Json))) (h : (d.map (·.1)).Nodup) :
    ((fs.foldl collectFeature d).map (·.1)).Nodup := by
  induction fs generalizing d with
  | nil => exact h
  | cons f fs ih =>
    simp only [List.foldl_cons]
    apply ih
    unfold collectFeature
    generalize propsOf f = ps
    induction ps generalizing d with
    | nil => exact h
    | cons p ps ihp => simp only [List.foldl_cons]; exact ihp _ (setdefault_nodup d p.1 [] h)

theorem restrict_nodup (columns : List String) (d : Dict (List (Option Json))) (h : (d.map (·.1)).Nodup) :
    ((restrict columns d).map (·.1)).Nodup := by
  unfold restrict
  split
  · exact h
  · exact h.sublist (List.Sublist.map _ List.filter_sublist)

theorem featureOk_props (f : Json) (h : featureOk f = true) : ∃ ps, f.get? "properties" = some (.obj ps) := by
  unfold featureOk at h
  simp only [Bool.and_eq_true] at h
  cases hp : f.get? "properties" with
  | none => rw [hp] at h; simp at h
  | some pv =>
    cases pv with
    | obj ps => exact ⟨ps, rfl⟩
    | blob v => rw [hp] at h; simp at h
    | arr xs => rw [hp] at h; simp at h

theorem lookup_some_has {β : Type} (d : Dict β) (k : String) (v : β) (h : Read.lookup d k = some v) : Dict.has d k = true := by
  unfold Read.lookup at h
  cases hf : d.find? (fun p => p.1 == k) with
  | none => rw [hf] at h; cases h
  | some p =>
    have := List.find?_some hf
    have hm := List.mem_of_find?_eq_some hf
    simp only [Dict.has, List.any_eq_true]
    exact ⟨p, hm, this⟩

theorem evalS_checkT (env : Env) (m : Mem) :
    evalS ctx (callData ctx) checkT ⟨env, m⟩ = (evalCheckData ctx m.raw m).map fun m' => (Ctl.normal, ⟨env, m'⟩) := rfl

theorem evalEffs_true_of_false (call : String → List Val → Mem → Option Mem) (ts : List Term) (s : St)
    (h : ∀ t ∈ ts, findComp t = none) : evalEffs ctx call false ts s = evalEffs ctx call true ts s := by
  induction ts generalizing s with
  | nil => rfl
  | cons t ts ih =>
    rw [evalEffs_cons _ _ _ _ _ (h t (by simp)), evalEffs_cons_done]
    cases evalS ctx call t s with
    | none => rfl
    | some r => exact ih r.2 (fun u hu => h u (by simp [hu]))

/-- what `read` returns from a state in which the first pass and the restriction are done. -/
def finish (ctx : Ctx) (ms0 : List (String × Json)) (fs : List Json) (w : List String) (d : Dict (List (Option Json))) :
    Option ReadResult :=
  (geometries fs).bind fun gs =>
    (ctx.dtypes.foldlM (castStep ctx.cast) (Dict.set (fs.foldl (fun d f => appendRow f d) d) "geometry" (gs.map some))).map fun d' =>
      ⟨d', Dict.del ms0 "features", w⟩

/-- the second pass and everything after it. -/
theorem tail_eval (dT : Term) (hd : ∀ s, evalE ctx dT s = some Val.data) (ms0 : List (String × Json)) (fs : List Json)
    (hF : Read.lookup ms0 "features" = some (.arr fs)) (hok : fs.all featureOk = true)
    (env : Env) (m : Mem) (hr : m.raw = .obj ms0) (hnd : (m.data.map (·.1)).Nodup) :
    ((evalEffs ctx (callData ctx) true [fillColumns dT, storeGeom dT, castsT dT, delT, setattrT dT] ⟨env, m⟩).bind fun s' =>
      (evalE ctx (frameT dT) s').bind fun v => match v with
        | .frame => s'.mem.metadata.map fun md => (⟨s'.mem.data, md, s'.mem.log⟩ : ReadResult)
        | _ => Option.none) = finish ctx ms0 fs m.log m.data := by
  have hps : ∀ f ∈ fs, ∃ ps, f.get? "properties" = some (.obj ps) :=
    fun f hf => featureOk_props f (List.all_eq_true.mp hok f hf)
  have hfeat : m.raw.get? "features" = some (.arr fs) := by rw [hr]; exact hF
  obtain ⟨c1, env1, e1, _⟩ := fillColumns_runs ctx (callData ctx) dT hd fs hps env m hfeat hnd
  rw [evalEffs_cons_done, e1]
  simp only [Option.bind_some]
  have hfeat2 : (setData (fs.foldl (fun d f => appendRow f d) m.data) m).raw.get? "features" = some (.arr fs) := hfeat
  have h2 := storeGeom_runs ctx (callData ctx) dT hd fs env1 (setData (fs.foldl (fun d f => appendRow f d) m.data) m) hfeat2
  unfold finish
  cases hg : geometries fs with
  | none =>
    rw [hg] at h2
    simp only [Option.map_none, Runs] at h2
    rw [evalEffs_cons_done, h2]; rfl
  | some gs =>
    rw [hg] at h2
    obtain ⟨c2, env2, e2, _⟩ := h2
    rw [evalEffs_cons_done, e2]
    simp only [Option.bind_some]
    have h3 := castsT_runs ctx (callData ctx) dT hd env2
      (setData (Dict.set (setData (fs.foldl (fun d f => appendRow f d) m.data) m).data "geometry" (gs.map some))
        (setData (fs.foldl (fun d f => appendRow f d) m.data) m))
    cases hc : ctx.dtypes.foldlM (castStep ctx.cast) (Dict.set (fs.foldl (fun d f => appendRow f d) m.data) "geometry" (gs.map some)) with
    | none =>
      have hc' : ctx.dtypes.foldlM (castStep ctx.cast)
          (setData (Dict.set (setData (fs.foldl (fun d f => appendRow f d) m.data) m).data "geometry" (gs.map some))
            (setData (fs.foldl (fun d f => appendRow f d) m.data) m)).data = none := hc
      rw [hc'] at h3
      simp only [Option.map_none, Runs] at h3
      rw [evalEffs_cons_done, h3]; rfl
    | some d' =>
      have hc' : ctx.dtypes.foldlM (castStep ctx.cast)
          (setData (Dict.set (setData (fs.foldl (fun d f => appendRow f d) m.data) m).data "geometry" (gs.map some))
            (setData (fs.foldl (fun d f => appendRow f d) m.data) m)).data = some d' := hc
      rw [hc'] at h3
      obtain ⟨c3, env3, e3, _⟩ := h3
      rw [evalEffs_cons_done, e3]
      simp only [Option.bind_some, Option.map_some]
      have hh : Dict.has ms0 "features" = true := lookup_some_has ms0 "features" _ hF
      rw [evalEffs_cons_done]
      have hdel := delT_eval ctx (callData ctx) env3 (setData d' m) ms0 hr hh
      have hset := setattr_eval ctx (callData ctx) (frameT dT) env3 { setData d' m with raw := .obj (Dict.del ms0 "features") }
        (Dict.del ms0 "features") rfl
      show ((evalS ctx (callData ctx) delT ⟨env3, setData d' m⟩).bind _).bind _ = _
      unfold delT
      rw [hdel]
      simp only [Option.bind_some]
      rw [evalEffs_cons_done]
      unfold setattrT
      rw [hset]
      simp only [Option.bind_some]
      rw [evalEffs_nil]
      have hfr : ∀ s, evalE ctx (frameT dT) s = some Val.frame := by
        intro s
        have : evalE ctx (frameT dT) s = (evalE ctx dT s).bind fun vd => match vd with | .data => some Val.frame | _ => Option.none := rfl
        rw [this, hd]; rfl
      simp only [Option.bind_some, hfr]
      rfl

theorem hd_empty : ∀ s, evalE ctx (Term.sym "{}") s = some Val.data := fun _ => rfl
theorem hd_comp : ∀ s, evalE ctx compT s = some Val.data := fun _ => rfl

/-- the first three statements: open, check, first pass. -/
theorem head_eval (done : Bool) (rest : List Term) (ms0 : List (String × Json)) (fs : List Json)
    (hT : Read.lookup ms0 "type" = some (.blob (quote "FeatureCollection")))
    (hF : Read.lookup ms0 "features" = some (.arr fs)) (hok : fs.all featureOk = true) :
    ∃ env, evalEffs ctx (callData ctx) done (openT :: checkT :: collectKeys :: rest) ⟨[], Mem.init (.obj ms0)⟩ =
      evalEffs ctx (callData ctx) done rest
        ⟨env, setData (fs.foldl collectFeature []) (withWarn (warnedKeys fs) (Mem.init (.obj ms0)))⟩ := by
  have hps : ∀ f ∈ fs, ∃ ps, f.get? "properties" = some (.obj ps) :=
    fun f hf => featureOk_props f (List.all_eq_true.mp hok f hf)
  have e0 : evalS ctx (callData ctx) openT ⟨[], Mem.init (.obj ms0)⟩ = some (Ctl.normal, ⟨[], Mem.init (.obj ms0)⟩) := rfl
  have e1 : evalS ctx (callData ctx) checkT ⟨[], Mem.init (.obj ms0)⟩ =
      some (Ctl.normal, ⟨[], withWarn (warnedKeys fs) (Mem.init (.obj ms0))⟩) := by
    rw [evalS_checkT, evalCheckData_eq]
    show Option.map _ (checkDataSpec (.obj ms0) (Mem.init (.obj ms0))) = _
    rw [checkDataSpec_ok ms0 fs hT hF hok]; rfl
  obtain ⟨c2, env2, e2, _⟩ := collectKeys_runs ctx (callData ctx) fs hps [] (withWarn (warnedKeys fs) (Mem.init (.obj ms0)))
    (by show (Json.obj ms0).get? "features" = _; exact hF)
  refine ⟨env2, ?_⟩
  rw [evalEffs_cons _ _ _ _ _ (rfl : findComp openT = none), e0]
  simp only [Option.bind_some]
  rw [evalEffs_cons _ _ _ _ _ (rfl : findComp checkT = none), e1]
  simp only [Option.bind_some]
  rw [evalEffs_cons _ _ _ _ _ (rfl : findComp collectKeys = none), e2]
  rfl

/-- **`read`, evaluated** on a collection that passes the checks. -/
theorem evalRead_eq (ms0 : List (String × Json)) (fs : List Json)
    (hT : Read.lookup ms0 "type" = some (.blob (quote "FeatureCollection")))
    (hF : Read.lookup ms0 "features" = some (.arr fs)) (hok : fs.all featureOk = true) :
    evalRead ctx (.obj ms0) =
      finish ctx ms0 fs (warnedKeys fs) (restrict ctx.columns (fs.foldl collectFeature [])) := by
  unfold evalRead
  simp only [read_code', truth_columns]
  have hnd0 : ((fs.foldl collectFeature ([] : Dict (List (Option Json)))).map (·.1)).Nodup := collect_nodup fs [] (by simp)
  by_cases hc : ctx.columns.isEmpty = true
  · simp only [hc, Bool.not_true, Bool.false_eq_true, if_false]
    rw [evalEffs_true_of_false ctx (callData ctx) _ _ (by
      intro t ht
      simp only [List.mem_cons, List.not_mem_nil, or_false] at ht
      rcases ht with rfl | rfl | rfl | rfl | rfl | rfl | rfl | rfl <;> rfl)]
    obtain ⟨env, he⟩ := head_eval ctx true
      [fillColumns (Term.sym "{}"), storeGeom (Term.sym "{}"), castsT (Term.sym "{}"), delT, setattrT (Term.sym "{}")] ms0 fs hT hF hok
    have ht := tail_eval ctx (Term.sym "{}") (hd_empty ctx) ms0 fs hF hok env
      (setData (fs.foldl collectFeature []) (withWarn (warnedKeys fs) (Mem.init (.obj ms0)))) rfl hnd0
    rw [he]
    exact ht.trans (by simp [restrict, hc, setData, withWarn])
  · simp only [Bool.not_eq_true] at hc
    simp only [hc, Bool.not_false, if_true]
    obtain ⟨env, he⟩ := head_eval ctx false
      [fillColumns compT, storeGeom compT, castsT compT, delT, setattrT compT] ms0 fs hT hF hok
    rw [he, evalEffs_cons_comp ctx (callData ctx) _ _ _ compT rfl, evalComp_eq]
    simp only [Option.bind_some]
    have hnd1 : (((fs.foldl collectFeature ([] : Dict (List (Option Json)))).filter fun p => ctx.columns.contains p.1).map (·.1)).Nodup :=
      hnd0.sublist (List.Sublist.map _ List.filter_sublist)
    have ht := tail_eval ctx compT (hd_comp ctx) ms0 fs hF hok env
      (setData ((fs.foldl collectFeature []).filter fun p => ctx.columns.contains p.1) (withWarn (warnedKeys fs) (Mem.init (.obj ms0))))
      rfl hnd1
    rw [← evalEffs_cons_done]
    show ((evalEffs ctx (callData ctx) true _ ⟨env, setData ((fs.foldl collectFeature []).filter fun p => ctx.columns.contains p.1)
      (withWarn (warnedKeys fs) (Mem.init (.obj ms0)))⟩).bind _) = _
    exact ht.trans (by simp [restrict, hc, setData, withWarn])

/-- **rejected by the checks**: `read` raises. -/
theorem evalRead_rejected (ms0 : List (String × Json)) (h : checkDataSpec (.obj ms0) (Mem.init (.obj ms0)) = none) :
    evalRead ctx (.obj ms0) = none := by
  unfold evalRead
  simp only [read_code']
  have e0 : evalS ctx (callData ctx) openT ⟨[], Mem.init (.obj ms0)⟩ = some (Ctl.normal, ⟨[], Mem.init (.obj ms0)⟩) := rfl
  have e1 : evalS ctx (callData ctx) checkT ⟨[], Mem.init (.obj ms0)⟩ = none := by
    rw [evalS_checkT, evalCheckData_eq]
    show Option.map _ (checkDataSpec (.obj ms0) (Mem.init (.obj ms0))) = _
    rw [h]; rfl
  rw [evalEffs_cons _ _ _ _ _ (rfl : findComp openT = none), e0]
  simp only [Option.bind_some]
  rw [evalEffs_cons _ _ _ _ _ (rfl : findComp checkT = none), e1]
  rfl

/-- a file whose top level is not an object: `AttributeDict(…)` raises. -/
theorem evalRead_not_object (file : Json) (h : ∀ ms, file ≠ .obj ms) : evalRead ctx file = none := by
  cases file with
  | blob v => rfl
  | arr xs => rfl
  | obj ms => exact absurd rfl (h ms)

end whole

/-! ### the link to `Model/GeoJSON.lean` and `Model/ReadRestrict.lean` -/

section link

open DI.Read

theorem has_keys (acc : List String) (k : String) :
    Dict.has (acc.map fun a => (a, ([] : List (Option Json)))) k = acc.contains k := by
  induction acc with
  | nil => rfl
  | cons a acc ih =>
    simp only [Dict.has, List.map_cons, List.any_cons, List.contains_cons] at ih ⊢
    rw [ih]
    by_cases h : a = k
    · subst h; simp
    · have : (k == a) = false := by simpa using fun e => h e.symm
      simp [h, this]

theorem setdefault_keys (acc : List String) (k : String) :
    Dict.setdefault (acc.map fun a => (a, ([] : List (Option Json)))) k [] = (addKey acc k).map fun a => (a, []) := by
  unfold Dict.setdefault addKey
  rw [has_keys]
  by_cases h : k ∈ acc <;> simp [h]

theorem collect_props_keys (ps : List (String × Json)) (acc : List String) :
    ps.foldl (fun d p => Dict.setdefault d p.1 []) (acc.map fun a => (a, ([] : List (Option Json)))) =
      ((ps.map (·.1)).foldl addKey acc).map fun a => (a, []) := by
  induction ps generalizing acc with
  | nil => rfl
  | cons p ps ih => simp only [List.foldl_cons, List.map_cons, setdefault_keys, ih]

theorem collect_keys (fs : List Json) (acc : List String) :
    fs.foldl collectFeature (acc.map fun a => (a, ([] : List (Option Json)))) =
      (((fs.map propsOf).flatMap fun r => r.map (·.1)).foldl addKey acc).map fun a => (a, []) := by
  induction fs generalizing acc with
  | nil => rfl
  | cons f fs ih =>
    simp only [List.foldl_cons, List.map_cons, List.flatMap_cons, List.foldl_append]
    rw [show collectFeature (acc.map fun a => (a, ([] : List (Option Json)))) f =
      (((propsOf f).map (·.1)).foldl addKey acc).map fun a => (a, []) from collect_props_keys _ _, ih]

/-- **the first pass is the model's key union**: every property name once, in first-seen order. -/
theorem collect_eq_unionKeys (fs : List Json) :
    fs.foldl collectFeature [] = (unionKeys (fs.map propsOf)).map fun a => (a, []) := by
  have := collect_keys fs []
  simpa [unionKeys_eq] using this

theorem foldl_appendRow (fs : List Json) (d : Dict (List (Option Json))) :
    fs.foldl (fun d f => appendRow f d) d = d.map fun p => (p.1, p.2 ++ fs.map fun f => Read.lookup (propsOf f) p.1) := by
  induction fs generalizing d with
  | nil => simp
  | cons f fs ih =>
    simp only [List.foldl_cons]
    rw [ih, appendRow, List.map_map]
    apply List.map_congr_left
    intro p _
    simp [List.append_assoc]

/-- **the two passes are the model's `frameFromRecords`** on the features' properties. -/
theorem readData_eq (columns : List String) (fs : List Json) :
    readData columns fs = frameFromRecords (fs.map propsOf) columns := by
  unfold readData frameFromRecords
  rw [foldl_appendRow, collect_eq_unionKeys]
  have hr : restrict columns ((unionKeys (fs.map propsOf)).map fun a => (a, ([] : List (Option Json)))) =
      (if columns.isEmpty then unionKeys (fs.map propsOf) else (unionKeys (fs.map propsOf)).filter fun k => columns.contains k).map
        fun a => (a, []) := by
    unfold restrict
    split
    · rfl
    · rw [List.filter_map]; rfl
  rw [hr, List.map_map]
  apply List.map_congr_left
  intro k _
  simp [List.map_map, Function.comp_def]

theorem set_new {β : Type} (d : Dict β) (k : String) (v : β) (h : Dict.has d k = false) : Dict.set d k v = d ++ [(k, v)] := by
  simp [Dict.set, h]

theorem frame_has (recs : List (Rec Json)) (columns : List String) (k : String) :
    Dict.has (frameFromRecords recs columns) k = true → ∃ r ∈ recs, k ∈ r.map (·.1) := by
  intro h
  simp only [Dict.has, List.any_eq_true] at h
  obtain ⟨p, hp, hk⟩ := h
  have hk' : p.1 = k := by simpa using hk
  have hmem : p.1 ∈ unionKeys recs := by
    unfold frameFromRecords at hp
    obtain ⟨a, ha, rfl⟩ := List.mem_map.mp hp
    split at ha
    · exact ha
    · exact (List.mem_filter.mp ha).1
  rw [hk'] at hmem
  exact (mem_unionKeys recs k).mp hmem

/-- the model's view of a feature, `text` giving the JSON text of a tree. -/
def geomOf (f : Json) : Json := (f.get? "geometry").getD (.blob nullText)

def toFeature (text : Json → String) (f : Json) : Feature :=
  { props := (propsOf f).map fun p => (p.1, text p.2), geometry := text (geomOf f) }

theorem frameFromRecords_map_values {β γ : Type} (g : β → γ) (recs : List (Rec β)) (columns : List String) :
    frameFromRecords (recs.map fun r => r.map fun p => (p.1, g p.2)) columns =
      (frameFromRecords recs columns).map fun c => (c.1, c.2.map (Option.map g)) := by
  unfold frameFromRecords
  rw [unionKeys_map_values]
  simp only [List.map_map]
  apply List.map_congr_left
  intro k _
  simp only [Function.comp_def, List.map_map, lookup_map_values]

theorem geometries_some (fs gs : List Json) (h : geometries fs = some gs) : gs = fs.map geomOf := by
  unfold geometries at h
  induction fs generalizing gs with
  | nil => simp [allM] at h; subst h; rfl
  | cons f fs ih =>
    simp only [allM] at h
    cases hg : f.get? "geometry" with
    | none => rw [hg] at h; cases h
    | some g =>
      rw [hg] at h
      cases hr : allM (fun f => f.get? "geometry") fs with
      | none => rw [hr] at h; cases h
      | some r =>
        rw [hr] at h
        simp only [Option.bind_some, Option.map_some, Option.some.injEq] at h
        subst h
        simp [geomOf, hg, ih r hr]

theorem warnedKeys_eq (fs : List Json) :
    warnedKeys fs = unionKeys (fs.map fun f => (extraKeysOf f).map fun k => (k, ())) := by
  have hw : warnKey = addKey := rfl
  unfold warnedKeys
  rw [unionKeys_eq, hw, List.flatMap_map]
  have : (fun f => ((extraKeysOf f).map fun k => (k, ())).map (·.1)) = extraKeysOf := by
    funext f; simp [List.map_map, Function.comp_def]
  rw [this, List.foldl_flatMap]

end link

/-! ### what `write` makes of a frame, and reading it back -/

section roundtrip

open DI.Read

/-- the columns that become properties. -/
def Frame.propCols (F : Frame) : List (Col String) := F.cols.filter fun c => c.1 != "geometry"

/-- the geometry column (the dict entry of that name). -/
def Frame.geomCol (F : Frame) : List (Option String) := ((F.cols.find? fun c => c.1 == "geometry").map (·.2)).getD []

/-- `{"type": "Feature", "properties": {…}, "geometry": …}`. -/
def featureTree (props : Rec (Option String)) (g : Option String) : Json :=
  .obj [("type", .blob (quote "Feature")), ("properties", .obj (props.map fun p => (p.1, cellJson p.2))), ("geometry", cellJson g)]

/-- **the features `write` dumps**: row by row, the geometry cell apart, the other cells as properties. -/
def Frame.featureTrees (F : Frame) : List Json :=
  (List.range F.nrow).map fun i => featureTree (F.propCols.map fun c => (c.1, (c.2[i]?).join)) ((F.geomCol[i]?).join)

theorem allM_some {α β : Type} (f : α → Option β) (g : α → β) (xs : List α) (h : ∀ x ∈ xs, f x = some (g x)) :
    allM f xs = some (xs.map g) := by
  induction xs with
  | nil => rfl
  | cons x xs ih => simp only [allM, h x (by simp), ih (fun y hy => h y (by simp [hy]))]; rfl

theorem lookup_map_cols {α β : Type} (cols : List (String × α)) (g : String × α → β) (k : String) :
    Read.lookup (cols.map fun c => (c.1, g c)) k = (cols.find? fun c => c.1 == k).map g := by
  induction cols with
  | nil => rfl
  | cons c cs ih =>
    by_cases h : (c.1 == k) = true
    · simp [Read.lookup, h]
    · simp only [Read.lookup, List.map_cons, List.find?_cons, h] at ih ⊢
      exact ih

theorem rows_features (F : Frame) (hg : Dict.has F.cols "geometry" = true) :
    allM rowFeature F.rows = some F.featureTrees := by
  obtain ⟨c0, hc0⟩ : ∃ c0, (F.cols.find? fun c => c.1 == "geometry") = some c0 := by
    simp only [Dict.has, List.any_eq_true] at hg
    obtain ⟨c, hc, hk⟩ := hg
    cases hf : F.cols.find? fun c => c.1 == "geometry" with
    | none => exact absurd hk (by simpa using (List.find?_eq_none.mp hf) c hc)
    | some c0 => exact ⟨c0, rfl⟩
  unfold Frame.rows Frame.featureTrees toRecords
  rw [List.map_map, allM_map]
  apply allM_some
  intro i _
  simp only [Function.comp, rowFeature, featureOfMembers, List.map_map]
  have hcomp : ((fun (p : String × Option String) => (p.1, cellJson p.2)) ∘ fun (c : Col String) => (c.1, (c.2[i]?).join)) =
      fun c => (c.1, cellJson (c.2[i]?).join) := rfl
  rw [hcomp, lookup_map_cols F.cols (fun c => cellJson (c.2[i]?).join) "geometry", hc0]
  simp only [Option.map_some, featureTree, Frame.propCols, Frame.geomCol, hc0, Option.getD_some, Dict.del, List.filter_map,
    List.map_map]
  rfl

/-- the JSON text of a tree the model keeps as text (`""` for a structured one: not used). -/
def Json.text : Json → String
  | .blob v => v
  | _ => ""

theorem text_cellJson (v : Option String) : (cellJson v).text = blobOf v := by cases v <;> rfl

theorem featureTree_ok (props : Rec (Option String)) (g : Option String) : featureOk (featureTree props g) = true := by
  simp [featureOk, featureTree, Json.get?, Read.lookup, cellJson, List.all_map]
  intro k v _
  cases v <;> rfl

theorem featureTree_extra (props : Rec (Option String)) (g : Option String) : extraKeysOf (featureTree props g) = [] := by
  simp [extraKeysOf, featureTree, extraKeys]

theorem propsOf_featureTree (props : Rec (Option String)) (g : Option String) :
    propsOf (featureTree props g) = props.map fun p => (p.1, cellJson p.2) := by
  simp [propsOf, featureTree, Json.get?, Read.lookup]

theorem geomOf_featureTree (props : Rec (Option String)) (g : Option String) : geomOf (featureTree props g) = cellJson g := by
  simp [geomOf, featureTree, Json.get?, Read.lookup]

theorem warnedKeys_nil (fs : List Json) (h : ∀ f ∈ fs, extraKeysOf f = []) : warnedKeys fs = [] := by
  unfold warnedKeys
  induction fs with
  | nil => rfl
  | cons f fs ih => simp only [List.foldl_cons, h f (by simp), List.foldl_nil]; exact ih (fun g hg => h g (by simp [hg]))

theorem lookup_append_of_some {β : Type} (a b : List (String × β)) (k : String) (v : β) (h : Read.lookup a k = some v) :
    Read.lookup (a ++ b) k = some v := by
  induction a with
  | nil => simp [Read.lookup] at h
  | cons p ps ih =>
    by_cases hp : (p.1 == k) = true
    · simp only [Read.lookup, List.find?_cons, hp, List.cons_append] at h ⊢; exact h
    · simp only [Read.lookup, List.find?_cons, hp, List.cons_append] at h ih ⊢; exact ih h

theorem del_append_features (md : List (String × Json)) (v : Json) (h : Dict.has md "features" = false) :
    Dict.del (md ++ [("features", v)]) "features" = md := by
  simp only [Dict.del, List.filter_append, List.filter_cons, bne_self_eq_false, Bool.false_eq_true, if_false, List.filter_nil,
    List.append_nil]
  apply List.filter_eq_self.mpr
  intro p hp
  simp only [Dict.has, List.any_eq_false] at h
  simpa using h p hp

/-- **`read` on the tree of a written frame**: the model's `frameFromRecords` on the dumped properties, then the geometry
    column (last), the metadata members, no warning. -/
theorem evalRead_written (ctx : Ctx) (hdt : ctx.dtypes = [])
    (hT : Read.lookup ctx.frame.metadata "type" = some (.blob (quote "FeatureCollection")))
    (hF : Dict.has ctx.frame.metadata "features" = false) :
    evalRead ctx (.obj (ctx.frame.metadata ++ [("features", .arr ctx.frame.featureTrees)])) =
      some ⟨frameFromRecords (ctx.frame.featureTrees.map propsOf) ctx.columns ++
              [("geometry", ctx.frame.featureTrees.map fun f => some (geomOf f))],
            ctx.frame.metadata, []⟩ := by
  have hF' : ∀ p ∈ ctx.frame.metadata, p.1 ≠ "features" := by
    intro p hp
    simp only [Dict.has, List.any_eq_false] at hF
    simpa using hF p hp
  have hfeat : Read.lookup (ctx.frame.metadata ++ [("features", Json.arr ctx.frame.featureTrees)]) "features" =
      some (.arr ctx.frame.featureTrees) := by
    rw [lookup_append_of_not_mem _ _ _ hF']; rfl
  have hok : ctx.frame.featureTrees.all featureOk = true := by
    rw [List.all_eq_true]
    intro f hf
    obtain ⟨i, _, rfl⟩ := List.mem_map.mp hf
    exact featureTree_ok _ _
  have hextra : ∀ f ∈ ctx.frame.featureTrees, extraKeysOf f = [] := by
    intro f hf
    obtain ⟨i, _, rfl⟩ := List.mem_map.mp hf
    exact featureTree_extra _ _
  have hgeo : geometries ctx.frame.featureTrees = some (ctx.frame.featureTrees.map geomOf) := by
    unfold geometries
    apply allM_some
    intro f hf
    obtain ⟨i, _, rfl⟩ := List.mem_map.mp hf
    simp [geomOf, featureTree, Json.get?, Read.lookup]
  rw [evalRead_eq ctx _ ctx.frame.featureTrees (lookup_append_of_some _ _ _ _ hT) hfeat hok]
  unfold finish
  rw [hgeo, hdt, warnedKeys_nil _ hextra, del_append_features _ _ hF]
  simp only [Option.bind_some, List.foldlM_nil]
  have hdata : ctx.frame.featureTrees.foldl (fun d f => appendRow f d) (restrict ctx.columns (ctx.frame.featureTrees.foldl collectFeature [])) =
      frameFromRecords (ctx.frame.featureTrees.map propsOf) ctx.columns := readData_eq ctx.columns ctx.frame.featureTrees
  rw [hdata]
  have hno : Dict.has (frameFromRecords (ctx.frame.featureTrees.map propsOf) ctx.columns) "geometry" = false := by
    cases hh : Dict.has (frameFromRecords (ctx.frame.featureTrees.map propsOf) ctx.columns) "geometry" with
    | false => rfl
    | true =>
      obtain ⟨r, hr, hk⟩ := frame_has _ _ _ hh
      obtain ⟨f, hf, rfl⟩ := List.mem_map.mp hr
      obtain ⟨i, _, rfl⟩ := List.mem_map.mp hf
      rw [propsOf_featureTree] at hk
      simp only [List.map_map, Function.comp_def, List.mem_map] at hk
      obtain ⟨c, hc, hce⟩ := hk
      have := (List.mem_filter.mp hc).2
      simp [hce] at this
  rw [set_new _ _ _ hno]
  simp [List.map_map, Function.comp_def]

/-- **the model's view of what `read` computed**, for any rendering `text` of the values: the property columns are
    `Geo.readColumns` of the features, and so is the geometry column. -/
theorem read_view (text : Json → String) (fs : List Json) (columns : List String) :
    (frameFromRecords (fs.map propsOf) columns).map (fun c => (c.1, c.2.map (Option.map text))) =
      (readColumns (fs.map (toFeature text)) columns).1 ∧
    fs.map (fun f => text (geomOf f)) = (readColumns (fs.map (toFeature text)) columns).2 := by
  constructor
  · rw [← frameFromRecords_map_values]
    simp only [readColumns, List.map_map]
    rfl
  · simp [readColumns, toFeature, List.map_map, Function.comp_def]

/-- the trees `write` dumps are, in the model's view, `featuresOf` the property columns and the geometry cells. -/
theorem featureTrees_view (F : Frame) (hlen : F.geomCol.length = F.nrow) :
    F.featureTrees.map (toFeature Json.text) = featuresOf F.propCols (F.geomCol.map blobOf) := by
  unfold Frame.featureTrees featuresOf toRecords
  apply List.ext_getElem
  · simp [hlen]
  · intro i h1 h2
    have hi : i < F.geomCol.length := by simp at h1; omega
    simp only [List.getElem_map, List.getElem_range, List.getElem_zip, toFeature, propsOf_featureTree, geomOf_featureTree,
      text_cellJson, List.map_map, Function.comp_def, List.length_map]
    have : F.geomCol[i]? = some F.geomCol[i] := List.getElem?_eq_getElem hi
    simp [this]

/-! ### `json.load` of a written file, relative to the primitives on blobs -/

/-- the reading primitives: `json.loads` on the text of one value, and on one member name. -/
structure Loader where
  loads : String → Option Json
  loadsKey : String → Option String

/-- `json.load` on a token stream of the shape `write` produces (the model's strict `parse`): the members through the
    primitives, the `features` member last. -/
def loadFile (L : Loader) (ts : List Tok) : Option Json :=
  (parse ts).bind fun r =>
    (allM (fun (p : String × String) => (L.loadsKey p.1).bind fun k => (L.loads p.2).map fun v => (k, v)) r.1).bind fun md =>
      (allM L.loads r.2).map fun fs => Json.obj (md ++ [("features", Json.arr fs)])

theorem loadFile_written (ctx : Ctx) (L : Loader) (fs : List Json)
    (hL : ∀ j, (j ∈ ctx.frame.metadata.map (·.2) ∨ j ∈ fs) → L.loads (ctx.dumps j) = some j)
    (hK : ∀ p ∈ ctx.frame.metadata, L.loadsKey (ctx.dumpsKey p.1) = some p.1) (ts : List Tok)
    (hp : parse ts = some (dumpedMetadata ctx, fs.map ctx.dumps)) :
    loadFile L ts = some (.obj (ctx.frame.metadata ++ [("features", .arr fs)])) := by
  unfold loadFile
  rw [hp]
  simp only [Option.bind_some, dumpedMetadata]
  rw [allM_map, allM_map]
  rw [allM_some _ id ctx.frame.metadata (by
      intro p hp
      simp [hK p hp, hL p.2 (Or.inl (List.mem_map.mpr ⟨p, hp, rfl⟩))]),
    allM_some _ id fs (by intro j hj; simp [hL j (Or.inr hj)])]
  simp

/-- member names are dumped injectively, so only `features` is dumped as `"features"`. -/
theorem dumpsKey_ne_features (ctx : Ctx) (L : Loader)
    (hK : ∀ p ∈ ctx.frame.metadata, L.loadsKey (ctx.dumpsKey p.1) = some p.1)
    (hKf : ctx.dumpsKey "features" = featuresKey ∧ L.loadsKey featuresKey = some "features")
    (hF : Dict.has ctx.frame.metadata "features" = false) :
    ∀ m ∈ dumpedMetadata ctx, m.1 ≠ featuresKey := by
  intro m hm e
  obtain ⟨p, hp, rfl⟩ := List.mem_map.mp hm
  simp only at e
  have h1 := hK p hp
  rw [e, hKf.2] at h1
  simp only [Dict.has, List.any_eq_false] at hF
  have := hF p hp
  simp only [Option.some.injEq] at h1
  simp [← h1] at this

end roundtrip

/-! ### what the checks accept -/

/-- the collection passes `_check_raw_data`: the top-level type, a list of features (or an empty dict: nothing to
    iterate), every feature passing `_check_raw_feature`. -/
def collectionOk (raw : Json) : Bool :=
  decide (raw.get? "type" = some (.blob (quote "FeatureCollection"))) &&
    (match raw.get? "features" with
     | some (.arr fs) => fs.all featureOk
     | some (.obj []) => true
     | _ => false)

theorem checkDataSpec_isSome (raw : Json) (m : Mem) : (checkDataSpec raw m).isSome = collectionOk raw := by
  unfold checkDataSpec collectionOk
  by_cases ht : raw.get? "type" = some (.blob (quote "FeatureCollection"))
  · simp only [ht, if_true, decide_true, Bool.true_and]
    cases hf : raw.get? "features" with
    | none => rfl
    | some fv =>
      cases fv with
      | blob v => rfl
      | arr fs =>
        simp only [foldlM_check]
        cases fs.all featureOk <;> rfl
      | obj ps => cases ps <;> rfl
  · simp [ht]

/-- the convention of `truthOf` for a test that raises is sound for both checks: a `true` answer raises. -/
theorem check_test_true_raises (truth : Term → Bool) :
    (truth testFeature = true → GeoJSON_check_raw_feature truth = Out.raise [] "TypeError") ∧
    (truth testData = true → GeoJSON_check_raw_data truth = Out.raise [] "TypeError") := by
  constructor
  · intro h; rw [check_feature_code, if_pos h]
  · intro h; rw [check_data_code, if_pos h]

/-! ### `read`, in the model's terms -/

section final

open DI.Read

/-- **`read`, evaluated, in full**: the model's `frameFromRecords`, the geometry column stored under its name, the casts
    in order (a cast of a missing column raises), all other members as metadata, the warnings. -/
theorem evalRead_explicit (ctx : Ctx) (ms0 : List (String × Json)) (fs : List Json)
    (hT : Read.lookup ms0 "type" = some (.blob (quote "FeatureCollection")))
    (hF : Read.lookup ms0 "features" = some (.arr fs)) (hok : fs.all featureOk = true) :
    evalRead ctx (.obj ms0) =
      (geometries fs).bind fun gs =>
        (ctx.dtypes.foldlM (castStep ctx.cast)
          (Dict.set (frameFromRecords (fs.map propsOf) ctx.columns) "geometry" (gs.map some))).map fun d =>
            ⟨d, Dict.del ms0 "features", warnedKeys fs⟩ := by
  rw [evalRead_eq ctx ms0 fs hT hF hok]
  unfold finish
  have := readData_eq ctx.columns fs
  unfold readData at this
  rw [this]

/-- the same when no cast is asked for, every feature has a `geometry` member and no property is called "geometry":
    the property columns, then the geometry column LAST. -/
theorem evalRead_wellformed (ctx : Ctx) (hdt : ctx.dtypes = []) (ms0 : List (String × Json)) (fs gs : List Json)
    (hT : Read.lookup ms0 "type" = some (.blob (quote "FeatureCollection")))
    (hF : Read.lookup ms0 "features" = some (.arr fs)) (hok : fs.all featureOk = true)
    (hG : geometries fs = some gs) (hnp : ∀ f ∈ fs, "geometry" ∉ (propsOf f).map (·.1)) :
    evalRead ctx (.obj ms0) =
      some ⟨frameFromRecords (fs.map propsOf) ctx.columns ++ [("geometry", gs.map some)], Dict.del ms0 "features", warnedKeys fs⟩ := by
  rw [evalRead_explicit ctx ms0 fs hT hF hok, hG, hdt]
  have hno : Dict.has (frameFromRecords (fs.map propsOf) ctx.columns) "geometry" = false := by
    cases hh : Dict.has (frameFromRecords (fs.map propsOf) ctx.columns) "geometry" with
    | false => rfl
    | true =>
      obtain ⟨r, hr, hk⟩ := frame_has _ _ _ hh
      obtain ⟨f, hf, rfl⟩ := List.mem_map.mp hr
      exact absurd hk (hnp f hf)
  simp [set_new _ _ _ hno]

/-- the metadata in the model's view. -/
theorem metadata_view (text : Json → String) (ms0 : List (String × Json)) :
    (Dict.del ms0 "features").map (fun p => (p.1, text p.2)) = readMetadata (ms0.map fun p => (p.1, text p.2)) := by
  unfold Dict.del readMetadata
  rw [List.filter_map]
  rfl

end final

end DI.PyEvalGeo

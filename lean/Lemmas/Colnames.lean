/-
  Lemmas/Colnames.lean — C01/C09: the `colnames` setter renames positionally, keeps every column's
  slot (length) and order, and is never rejected on a well-formed frame.
-/
import Model.FrameState
import Lemmas.FrameState

namespace DI.FS

/-! ### list helpers -/

theorem map_fst_zip_take {α β : Type} : ∀ (l1 : List α) (l2 : List β),
    (l1.zip l2).map (·.1) = l1.take l2.length
  | [], _ => by simp
  | _ :: _, [] => by simp
  | a :: l1, b :: l2 => by simp [map_fst_zip_take l1 l2]

theorem map_snd_zip_take {α β : Type} : ∀ (l1 : List α) (l2 : List β),
    (l1.zip l2).map (·.2) = l2.take l1.length
  | [], _ => by simp
  | _ :: _, [] => by simp
  | a :: l1, b :: l2 => by simp [map_snd_zip_take l1 l2]

theorem zip_take_map {α β γ : Type} (g : β → γ) : ∀ (A : List α) (B : List β),
    (A.take B.length).zip ((B.take A.length).map g) = List.zipWith (fun a b => (a, g b)) A B
  | [], _ => by simp
  | _ :: _, [] => by simp
  | a :: A, b :: B => by
    simp only [List.length_cons, List.take_succ_cons, List.map_cons, List.zip_cons_cons,
      List.zipWith_cons_cons, zip_take_map g A B]

theorem zipWith_fst {α β γ : Type} (g : β → γ) : ∀ (A : List α) (B : List β),
    (List.zipWith (fun a b => (a, g b)) A B).map (·.1) = A.take B.length
  | [], _ => by simp
  | _ :: _, [] => by simp
  | a :: A, b :: B => by simp [zipWith_fst g A B]

/-! ### popping the first `m` columns -/

theorem delitem_head (nm : Names) (c0 : String × Nat) (rest : List (String × Nat)) (attrs : List String)
    (hnd : (c0.1 :: rest.map (·.1)).Nodup) :
    ∃ s1, delitem nm ⟨c0 :: rest, attrs⟩ c0.1 = some s1 ∧ s1.cols = rest := by
  have hfil : (c0 :: rest).filter (fun c => c.1 != c0.1) = rest := by
    simp only [List.filter_cons, bne_self_eq_false, Bool.false_eq_true, if_false]
    rw [List.filter_eq_self]
    intro c hc
    simp only [bne_iff_ne, ne_eq]
    intro e
    simp only [List.nodup_cons] at hnd
    exact hnd.1 (List.mem_map.mpr ⟨c, hc, e⟩)
  have hhas : State.has ⟨c0 :: rest, attrs⟩ c0.1 = true := by simp [State.has]
  refine ⟨_, by unfold delitem; rw [if_pos hhas], ?_⟩
  rw [dropAttr_cols]
  exact hfil

theorem popAll_take (nm : Names) (m : Nat) (s : State) (hnd : s.names.Nodup) :
    ∃ st, popAll nm s (s.names.take m) = some (st, (s.cols.take m).map (·.2)) ∧ st.cols = s.cols.drop m := by
  induction m generalizing s with
  | zero => exact ⟨s, by simp [popAll], by simp⟩
  | succ m ih =>
    obtain ⟨cols, attrs⟩ := s
    cases cols with
    | nil => exact ⟨⟨[], attrs⟩, by simp [State.names, popAll], by simp⟩
    | cons c0 rest =>
      have hnd' : (c0.1 :: rest.map (·.1)).Nodup := by simpa [State.names] using hnd
      obtain ⟨s1, hd, hs1⟩ := delitem_head nm c0 rest attrs hnd'
      have hn1 : s1.names = rest.map (·.1) := by simp [State.names, hs1]
      obtain ⟨st, hp, hst⟩ := ih s1 (by rw [hn1]; exact (List.nodup_cons.mp hnd').2)
      refine ⟨st, ?_, by simpa [hs1] using hst⟩
      simp only [State.names, List.map_cons, List.take_succ_cons, popAll, List.find?_cons, beq_self_eq_true]
      rw [hd]
      simp only
      rw [← hn1, hp]
      simp [hs1]

/-! ### assigning fresh names of the common length -/

theorem column_seq_uniform (s : State) (n : Nat) (hu : ∀ c ∈ s.cols, c.2 = n) :
    column (.seq n) (if s.cols.isEmpty then none else some s.nrow) = some n := by
  obtain ⟨cols, attrs⟩ := s
  cases cols with
  | nil => simp [column, Shape.length]
  | cons c rest =>
    have : c.2 = n := hu c (by simp)
    simp [column, Shape.length, State.nrow, this]

theorem setitem_uniform (nm : Names) (s : State) (k : String) (n : Nat) (hu : ∀ c ∈ s.cols, c.2 = n) :
    ∃ s', setitem nm s k (.seq n) = some s' ∧ (∀ c ∈ s'.cols, c.2 = n) ∧
      (k ∉ s.names → s'.cols = s.cols ++ [(k, n)]) := by
  unfold setitem
  simp only [column_seq_uniform s n hu]
  have hcols := addPlaceholder_cols nm s k
  have hhas : (addPlaceholder nm s k).has k = s.has k := by simp [State.has, hcols]
  rw [hhas]
  by_cases hk : s.has k = true
  · simp only [hk, if_true]
    refine ⟨_, rfl, ?_, fun h => absurd (has_iff.mp hk) h⟩
    intro c hc
    simp only [hcols, List.mem_map] at hc
    obtain ⟨c0, hc0, rfl⟩ := hc
    by_cases hck : c0.1 == k
    · simp [hck]
    · simp only [hck, Bool.false_eq_true, if_false]; exact hu c0 hc0
  · simp only [hk, Bool.false_eq_true, if_false]
    refine ⟨_, rfl, ?_, fun _ => by simp [hcols]⟩
    intro c hc
    simp only [hcols, List.mem_append, List.mem_singleton] at hc
    rcases hc with hc | rfl
    · exact hu c hc
    · rfl

/-- on a frame whose columns all have length `n`, assigning columns of length `n` is never rejected. -/
theorem assignAll_total (nm : Names) (n : Nat) (l : List (String × Nat)) (s : State)
    (hu : ∀ c ∈ s.cols, c.2 = n) (hl : ∀ p ∈ l, p.2 = n) : ∃ s', assignAll nm s l = some s' := by
  induction l generalizing s with
  | nil => exact ⟨s, rfl⟩
  | cons p l ih =>
    obtain ⟨k, n'⟩ := p
    have : n' = n := hl (k, n') (by simp)
    subst this
    obtain ⟨s1, h1, hu1, _⟩ := setitem_uniform nm s k n' hu
    obtain ⟨s', hs'⟩ := ih s1 hu1 (fun p hp => hl p (by simp [hp]))
    exact ⟨s', by simp [assignAll, h1, hs']⟩

/-- fresh, distinct names are appended in order. -/
theorem assignAll_fresh (nm : Names) (n : Nat) (l : List (String × Nat)) (s : State)
    (hu : ∀ c ∈ s.cols, c.2 = n) (hl : ∀ p ∈ l, p.2 = n) (hnd : (l.map (·.1)).Nodup)
    (hfresh : ∀ p ∈ l, p.1 ∉ s.names) : ∃ s', assignAll nm s l = some s' ∧ s'.cols = s.cols ++ l := by
  induction l generalizing s with
  | nil => exact ⟨s, rfl, by simp⟩
  | cons p l ih =>
    obtain ⟨k, n'⟩ := p
    have : n' = n := hl (k, n') (by simp)
    subst this
    obtain ⟨s1, h1, hu1, hc1⟩ := setitem_uniform nm s k n' hu
    have hc1 := hc1 (hfresh (k, n') (by simp))
    simp only [List.map_cons, List.nodup_cons] at hnd
    obtain ⟨s', hs', hcols⟩ := ih s1 hu1 (fun p hp => hl p (by simp [hp])) hnd.2 (by
      intro p hp hmem
      simp only [State.names, hc1, List.map_append, List.map_cons, List.map_nil, List.mem_append,
        List.mem_singleton] at hmem
      rcases hmem with hmem | hmem
      · exact hfresh p (by simp [hp]) hmem
      · exact hnd.1 (List.mem_map.mpr ⟨p, hp, hmem⟩))
    exact ⟨s', by simp [assignAll, h1, hs'], by rw [hcols, hc1]; simp⟩

/-! ### the `colnames` setter -/

theorem colnames_unfold (nm : Names) (s : State) (ns : List String) :
    step nm s (.colnames ns) =
      match popAll nm s (s.names.take ns.length) with
      | none => none
      | some (st, lens) => assignAll nm st ((ns.take s.names.length).zip lens) := by
  simp only [step]
  have e1 : (s.names.zip ns).map (·.1) = s.names.take ns.length := map_fst_zip_take _ _
  have e2 : (s.names.zip ns).map (·.2) = ns.take s.names.length := map_snd_zip_take _ _
  rw [e1, e2]
  rfl

/-- on a well-formed frame the setter is never rejected, whatever list is assigned. -/
theorem colnames_total (nm : Names) (s : State) (ns : List String) (h : Inv nm s) :
    ∃ s', step nm s (.colnames ns) = some s' := by
  obtain ⟨hnd, hlen, _⟩ := h
  obtain ⟨st, hp, hst⟩ := popAll_take nm ns.length s hnd
  rw [colnames_unfold, hp]
  simp only
  apply assignAll_total nm s.nrow
  · intro c hc
    rw [hst] at hc
    exact hlen c (List.mem_of_mem_drop hc)
  · intro p hp'
    have := (List.of_mem_zip hp').2
    obtain ⟨c, hc, hc2⟩ := List.mem_map.mp this
    rw [← hc2]
    exact hlen c (List.mem_of_mem_take hc)

/-- the columns that are renamed (the first `min` of both lengths) are popped and re-appended, in order,
    under the new names, each keeping its slot; columns beyond the assigned list stay in front. -/
theorem colnames_spec (nm : Names) (s : State) (ns : List String) (h : Inv nm s)
    (hnd : (ns.take s.names.length).Nodup)
    (hfresh : ∀ k ∈ ns.take s.names.length, k ∉ s.names.drop ns.length) :
    ∃ s', step nm s (.colnames ns) = some s' ∧
      s'.cols = s.cols.drop ns.length ++ List.zipWith (fun k c => (k, c.2)) ns s.cols ∧ Inv nm s' := by
  have hInv := h
  obtain ⟨hnd0, hlen, _⟩ := h
  obtain ⟨st, hp, hst⟩ := popAll_take nm ns.length s hnd0
  have hlen_names : s.names.length = s.cols.length := by simp [State.names]
  have hl : (ns.take s.names.length).zip ((s.cols.take ns.length).map (·.2)) =
      List.zipWith (fun k c => (k, c.2)) ns s.cols := by
    rw [hlen_names]; exact zip_take_map _ ns s.cols
  have hstep := colnames_unfold nm s ns
  rw [hp] at hstep
  simp only [hl] at hstep
  obtain ⟨s', hs', hcols⟩ := assignAll_fresh nm s.nrow (List.zipWith (fun k c => (k, c.2)) ns s.cols) st
    (by intro c hc; rw [hst] at hc; exact hlen c (List.mem_of_mem_drop hc))
    (by
      intro p hp'
      rw [← hl] at hp'
      have := (List.of_mem_zip hp').2
      obtain ⟨c, hc, hc2⟩ := List.mem_map.mp this
      rw [← hc2]
      exact hlen c (List.mem_of_mem_take hc))
    (by rw [zipWith_fst, ← hlen_names]; exact hnd)
    (by
      intro p hp' hmem
      have hp1 : p.1 ∈ ns.take s.names.length := by
        rw [hlen_names, ← zipWith_fst (fun (c : String × Nat) => c.2) ns s.cols]
        exact List.mem_map.mpr ⟨p, hp', rfl⟩
      apply hfresh p.1 hp1
      simpa [State.names, hst] using hmem)
  rw [hs'] at hstep
  refine ⟨s', hstep, by rw [hcols, hst], step_inv nm s s' _ hInv hstep⟩

/-- 6. assigning a list of distinct names of the right length renames column `k` to `ns[k]` for every
    `k`, keeping order and every column's slot. -/
theorem colnames_positional_spec (nm : Names) (s : State) (ns : List String) (h : Inv nm s)
    (hnd : ns.Nodup) (hlen : ns.length = s.names.length) :
    ∃ s', step nm s (.colnames ns) = some s' ∧
      s'.cols = List.zipWith (fun k c => (k, c.2)) ns s.cols ∧ s'.names = ns ∧ s'.nrow = s.nrow ∧
      (∀ k (h1 : k < ns.length) (h2 : k < s.cols.length) (h3 : k < s'.cols.length),
        s'.cols[k] = (ns[k], (s.cols[k]).2)) ∧ Inv nm s' := by
  have hlen' : ns.length = s.cols.length := by simpa [State.names] using hlen
  obtain ⟨s', hs', hcols, hinv⟩ := colnames_spec nm s ns h
    (by rw [← hlen, List.take_length]; exact hnd)
    (by intro k _ hk; rw [hlen, List.drop_length] at hk; cases hk)
  rw [hlen', List.drop_length, List.nil_append] at hcols
  refine ⟨s', hs', hcols, ?_, ?_, ?_, hinv⟩
  · simp only [State.names, hcols]
    rw [zipWith_fst, ← hlen', List.take_length]
  · obtain ⟨cols, attrs⟩ := s
    cases cols with
    | nil =>
      have : ns = [] := List.eq_nil_of_length_eq_zero (by simpa using hlen')
      subst this
      simp [State.nrow, hcols]
    | cons c rest =>
      cases ns with
      | nil => simp at hlen'
      | cons a ns => simp [State.nrow, hcols]
  · intro k h1 h2 h3
    simp [hcols]

end DI.FS

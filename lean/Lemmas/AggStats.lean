/-
  Lemmas/AggStats.lean — characterisations of the statistics computed by the aggregation kernels
  of Model/Aggregate.lean (C07): sum / mean / var / std, min / max, the sort behind median and
  quantile, median, quantile.  All statements are about the value list after the NA policy has
  been applied (no missing values).
-/
import Model.Aggregate
import Lemmas.Aggregate

namespace DI.Agg

/-! ### lists without missing values -/

theorem eq_map_some_of_no_na (xs : List Num) (h : hasNa xs = false) : xs = (values xs).map some := by
  induction xs with
  | nil => rfl
  | cons a l ih =>
    cases a with
    | none => simp [hasNa] at h
    | some v =>
      have hl : hasNa l = false := by
        simp only [hasNa, List.any_cons, Bool.or_eq_false_iff] at h; exact h.2
      have := ih hl
      simp only [values, List.filterMap_cons, id_eq, List.map_cons] at this ⊢
      rw [← this]

theorem values_map_some (l : List Rat) : values (l.map some) = l := by
  induction l with
  | nil => rfl
  | cons a l ih => simp [values] at ih ⊢

theorem hasNa_map_some (l : List Rat) : hasNa (l.map some) = false := by
  simp [hasNa]

theorem values_length_of_no_na (xs : List Num) (h : hasNa xs = false) :
    (values xs).length = xs.length := by
  have := congrArg List.length (eq_map_some_of_no_na xs h)
  simpa using this.symm

theorem mem_values {xs : List Num} {v : Rat} : v ∈ values xs ↔ some v ∈ xs := by
  simp [values]

/-! ### sum -/

theorem foldl_add_eq (a : Rat) (l : List Rat) : l.foldl (· + ·) a = a + rsum l := by
  unfold rsum
  induction l generalizing a with
  | nil => simp [Rat.add_zero]
  | cons x l ih =>
    simp only [List.foldl_cons]
    rw [ih (a + x), ih (0 + x)]
    grind

@[simp] theorem rsum_nil : rsum [] = 0 := rfl

theorem rsum_cons (x : Rat) (l : List Rat) : rsum (x :: l) = x + rsum l := by
  have := foldl_add_eq (0 + x) l
  unfold rsum at *
  simp only [List.foldl_cons]
  rw [this]; grind

theorem rsum_append (a b : List Rat) : rsum (a ++ b) = rsum a + rsum b := by
  induction a with
  | nil => simp [Rat.zero_add]
  | cons x a ih => simp only [List.cons_append, rsum_cons, ih]; grind

theorem rsum_perm {a b : List Rat} (p : a.Perm b) : rsum a = rsum b := by
  induction p with
  | nil => rfl
  | cons x _ ih => simp only [rsum_cons, ih]
  | swap x y l => simp only [rsum_cons]; grind
  | trans _ _ ih1 ih2 => exact ih1.trans ih2

theorem rsum_nonneg (l : List Rat) (h : ∀ x ∈ l, 0 ≤ x) : 0 ≤ rsum l := by
  induction l with
  | nil => simp
  | cons x l ih =>
    rw [rsum_cons]
    exact Rat.add_nonneg (h x List.mem_cons_self) (ih (fun y hy => h y (List.mem_cons_of_mem _ hy)))

theorem rsum_eq_zero_iff (l : List Rat) (h : ∀ x ∈ l, 0 ≤ x) : rsum l = 0 ↔ ∀ x ∈ l, x = 0 := by
  induction l with
  | nil => simp
  | cons x l ih =>
    have hx := h x List.mem_cons_self
    have hl : ∀ y ∈ l, 0 ≤ y := fun y hy => h y (List.mem_cons_of_mem _ hy)
    have hs := rsum_nonneg l hl
    have ih' := ih hl
    rw [rsum_cons]
    constructor
    · intro h0
      have hx0 : x = 0 := by grind
      have hs0 : rsum l = 0 := by grind
      intro y hy
      rcases List.mem_cons.mp hy with rfl | hy
      · exact hx0
      · exact ih'.mp hs0 y hy
    · intro hall
      have hx0 := hall x List.mem_cons_self
      have hs0 := ih'.mpr (fun y hy => hall y (List.mem_cons_of_mem _ hy))
      rw [hx0, hs0, Rat.add_zero]

theorem rsum_const (l : List Rat) (c : Rat) (h : ∀ x ∈ l, x = c) : rsum l = (l.length : Rat) * c := by
  induction l with
  | nil => simp
  | cons x l ih =>
    rw [rsum_cons, h x List.mem_cons_self, ih (fun y hy => h y (List.mem_cons_of_mem _ hy))]
    simp only [List.length_cons, Rat.natCast_add]
    grind

theorem rsum_ge (l : List Rat) (lo : Rat) (h : ∀ x ∈ l, lo ≤ x) : (l.length : Rat) * lo ≤ rsum l := by
  induction l with
  | nil => simp
  | cons x l ih =>
    have hx := h x List.mem_cons_self
    have := ih (fun y hy => h y (List.mem_cons_of_mem _ hy))
    rw [rsum_cons]
    simp only [List.length_cons, Rat.natCast_add]
    grind

theorem rsum_le (l : List Rat) (hi : Rat) (h : ∀ x ∈ l, x ≤ hi) : rsum l ≤ (l.length : Rat) * hi := by
  induction l with
  | nil => simp
  | cons x l ih =>
    have hx := h x List.mem_cons_self
    have := ih (fun y hy => h y (List.mem_cons_of_mem _ hy))
    rw [rsum_cons]
    simp only [List.length_cons, Rat.natCast_add]
    grind

/-! ### mean / var / std -/

theorem natCast_pos_of_ne_nil (l : List Rat) (h : l ≠ []) : (0 : Rat) < (l.length : Rat) := by
  apply Rat.natCast_pos.mpr
  cases l with
  | nil => exact absurd rfl h
  | cons _ _ => simp

theorem div_nonneg_of {a b : Rat} (ha : 0 ≤ a) (hb : 0 < b) : 0 ≤ a / b := by
  rw [Rat.div_def]
  exact Rat.mul_nonneg ha (Rat.le_of_lt (Rat.inv_pos.mpr hb))

theorem div_eq_zero_iff_of_ne {a b : Rat} (hb : b ≠ 0) : a / b = 0 ↔ a = 0 := by
  constructor
  · intro h
    have := Rat.div_mul_cancel (a := a) hb
    rw [h, Rat.zero_mul] at this
    exact this.symm
  · intro h; rw [h, Rat.div_def, Rat.zero_mul]

theorem sq_nonneg (a : Rat) : 0 ≤ a * a := by
  rcases Rat.le_total (a := 0) (b := a) with h | h
  · exact Rat.mul_nonneg h h
  · have h' : 0 ≤ -a := by grind
    have := Rat.mul_nonneg h' h'
    rw [Rat.neg_mul, Rat.mul_neg, Rat.neg_neg] at this
    exact this

theorem sq_eq_zero_iff (a : Rat) : a * a = 0 ↔ a = 0 := by
  rw [Rat.mul_eq_zero]; simp

/-- the mean of the group. -/
def meanOf (l : List Rat) : Rat := rsum l / l.length

/-- the squared deviations from the mean. -/
def sqDevs (l : List Rat) : List Rat := l.map (fun x => (x - meanOf l) * (x - meanOf l))

theorem variance_eq (l : List Rat) (ddof : Nat) :
    variance l ddof = rsum (sqDevs l) / ((l.length : Rat) - ddof) := rfl

theorem mean_mul_length (l : List Rat) (h : l ≠ []) : meanOf l * l.length = rsum l := by
  unfold meanOf
  exact Rat.div_mul_cancel (Rat.ne_of_gt (natCast_pos_of_ne_nil l h))

theorem mean_bounds (l : List Rat) (h : l ≠ []) (lo hi : Rat)
    (hlo : ∀ x ∈ l, lo ≤ x) (hhi : ∀ x ∈ l, x ≤ hi) : lo ≤ meanOf l ∧ meanOf l ≤ hi := by
  have hn := natCast_pos_of_ne_nil l h
  have hm := mean_mul_length l h
  have h1 := rsum_ge l lo hlo
  have h2 := rsum_le l hi hhi
  rw [← hm] at h1 h2
  constructor
  · rw [Rat.mul_comm] at h1
    exact Rat.le_of_mul_le_mul_right h1 hn
  · rw [Rat.mul_comm (l.length : Rat) hi] at h2
    exact Rat.le_of_mul_le_mul_right h2 hn

theorem sqDevs_nonneg (l : List Rat) : ∀ y ∈ sqDevs l, 0 ≤ y := by
  intro y hy
  obtain ⟨x, _, rfl⟩ := List.mem_map.mp hy
  exact sq_nonneg _

theorem denom_pos (l : List Rat) (ddof : Nat) (h : ddof < l.length) :
    (0 : Rat) < (l.length : Rat) - ddof := by
  have := Rat.natCast_lt_natCast.mpr h
  grind

theorem variance_nonneg (l : List Rat) (ddof : Nat) (h : ddof < l.length) : 0 ≤ variance l ddof := by
  rw [variance_eq]
  exact div_nonneg_of (rsum_nonneg _ (sqDevs_nonneg l)) (denom_pos l ddof h)

theorem mean_of_const (l : List Rat) (h : l ≠ []) (c : Rat) (hc : ∀ x ∈ l, x = c) : meanOf l = c := by
  unfold meanOf
  rw [rsum_const l c hc, Rat.mul_comm]
  exact Rat.mul_div_cancel (Rat.ne_of_gt (natCast_pos_of_ne_nil l h))

theorem variance_eq_zero_iff (l : List Rat) (ddof : Nat) (h : ddof < l.length) :
    variance l ddof = 0 ↔ ∀ x ∈ l, ∀ y ∈ l, x = y := by
  have hne : l ≠ [] := by intro h0; subst h0; simp at h
  rw [variance_eq, div_eq_zero_iff_of_ne (Rat.ne_of_gt (denom_pos l ddof h)),
    rsum_eq_zero_iff _ (sqDevs_nonneg l)]
  constructor
  · intro hz
    have hm : ∀ x ∈ l, x = meanOf l := by
      intro x hx
      have := hz _ (List.mem_map.mpr ⟨x, hx, rfl⟩)
      rw [sq_eq_zero_iff] at this
      grind
    intro x hx y hy
    rw [hm x hx, hm y hy]
  · intro heq y hy
    obtain ⟨x, hx, rfl⟩ := List.mem_map.mp hy
    have hm : meanOf l = x := mean_of_const l hne x (fun z hz => heq z hz x hx)
    rw [hm, Rat.sub_self, Rat.zero_mul]

theorem meanOf_perm {a b : List Rat} (p : a.Perm b) : meanOf a = meanOf b := by
  unfold meanOf; rw [rsum_perm p, p.length_eq]

theorem variance_perm {a b : List Rat} (p : a.Perm b) (ddof : Nat) : variance a ddof = variance b ddof := by
  rw [variance_eq, variance_eq, p.length_eq]
  have : rsum (sqDevs a) = rsum (sqDevs b) := by
    unfold sqDevs
    rw [meanOf_perm p]
    exact rsum_perm (p.map _)
  rw [this]

/-! ### min / max -/

/-- the running minimum of `npMin` (`np.min`), started at the first element. -/
def minFold (v : Rat) (vs : List Rat) : Rat := vs.foldl (fun a b => if b < a then b else a) v

/-- the running maximum of `npMax`. -/
def maxFold (v : Rat) (vs : List Rat) : Rat := vs.foldl (fun a b => if a < b then b else a) v

theorem minFold_spec (v : Rat) (vs : List Rat) :
    minFold v vs ∈ v :: vs ∧ ∀ x ∈ v :: vs, minFold v vs ≤ x := by
  unfold minFold
  induction vs generalizing v with
  | nil => simp
  | cons b vs ih =>
    simp only [List.foldl_cons]
    obtain ⟨hm, hle⟩ := ih (if b < v then b else v)
    constructor
    · rcases List.mem_cons.mp hm with h | h
      · rw [h]; split <;> simp
      · simp [h]
    · intro x hx
      have h0 := hle _ List.mem_cons_self
      rcases List.mem_cons.mp hx with rfl | hx
      · split at h0 <;> grind
      · rcases List.mem_cons.mp hx with rfl | hx
        · split at h0 <;> grind
        · exact hle x (List.mem_cons_of_mem _ hx)

theorem maxFold_spec (v : Rat) (vs : List Rat) :
    maxFold v vs ∈ v :: vs ∧ ∀ x ∈ v :: vs, x ≤ maxFold v vs := by
  unfold maxFold
  induction vs generalizing v with
  | nil => simp
  | cons b vs ih =>
    simp only [List.foldl_cons]
    obtain ⟨hm, hle⟩ := ih (if v < b then b else v)
    constructor
    · rcases List.mem_cons.mp hm with h | h
      · rw [h]; split <;> simp
      · simp [h]
    · intro x hx
      have h0 := hle _ List.mem_cons_self
      rcases List.mem_cons.mp hx with rfl | hx
      · split at h0 <;> grind
      · rcases List.mem_cons.mp hx with rfl | hx
        · split at h0 <;> grind
        · exact hle x (List.mem_cons_of_mem _ hx)

/-- a least element of a list is unique. -/
theorem least_unique {l : List Rat} {m m' : Rat} (hm : m ∈ l) (hle : ∀ x ∈ l, m ≤ x)
    (hm' : m' ∈ l) (hle' : ∀ x ∈ l, m' ≤ x) : m = m' :=
  Rat.le_antisymm (hle m' hm') (hle' m hm)

theorem greatest_unique {l : List Rat} {m m' : Rat} (hm : m ∈ l) (hle : ∀ x ∈ l, x ≤ m)
    (hm' : m' ∈ l) (hle' : ∀ x ∈ l, x ≤ m') : m = m' :=
  Rat.le_antisymm (hle' m hm) (hle m' hm')

/-- `np.min` on a non-empty group without missing values: an element, below every element. -/
theorem npMin_spec (xs : List Num) (hna : hasNa xs = false) (hne : xs ≠ []) :
    ∃ m, npMin xs = .val m ∧ m ∈ values xs ∧ ∀ x ∈ values xs, m ≤ x := by
  unfold npMin
  rw [if_neg (by simp [hna])]
  have hl := values_length_of_no_na xs hna
  cases hv : values xs with
  | nil => rw [hv] at hl; cases xs <;> simp_all
  | cons v vs => exact ⟨minFold v vs, rfl, minFold_spec v vs⟩

theorem npMax_spec (xs : List Num) (hna : hasNa xs = false) (hne : xs ≠ []) :
    ∃ m, npMax xs = .val m ∧ m ∈ values xs ∧ ∀ x ∈ values xs, x ≤ m := by
  unfold npMax
  rw [if_neg (by simp [hna])]
  have hl := values_length_of_no_na xs hna
  cases hv : values xs with
  | nil => rw [hv] at hl; cases xs <;> simp_all
  | cons v vs => exact ⟨maxFold v vs, rfl, maxFold_spec v vs⟩

theorem values_perm {xs ys : List Num} (p : xs.Perm ys) : (values xs).Perm (values ys) :=
  p.filterMap _

theorem hasNa_perm {xs ys : List Num} (p : xs.Perm ys) : hasNa xs = hasNa ys := by
  unfold hasNa
  cases h : ys.any (·.isNone) with
  | true =>
    obtain ⟨a, ha, hp⟩ := List.any_eq_true.mp h
    exact List.any_eq_true.mpr ⟨a, p.symm.subset ha, hp⟩
  | false =>
    rw [List.any_eq_false] at h ⊢
    exact fun a ha => h a (p.subset ha)

theorem npMin_perm {xs ys : List Num} (p : xs.Perm ys) : npMin xs = npMin ys := by
  cases hna : hasNa xs with
  | true => simp [npMin, hna, ← hasNa_perm p]
  | false =>
    have hna' : hasNa ys = false := by rw [← hasNa_perm p]; exact hna
    cases xs with
    | nil => rw [p.nil_eq]
    | cons a l =>
      have hne : ys ≠ [] := by intro h; subst h; simp at p
      obtain ⟨m, h1, h2, h3⟩ := npMin_spec (a :: l) hna (by simp)
      obtain ⟨m', h1', h2', h3'⟩ := npMin_spec ys hna' hne
      have pv := values_perm p
      have : m = m' := least_unique h2 h3 (pv.symm.subset h2') (fun x hx => h3' x (pv.subset hx))
      rw [h1, h1', this]

theorem npMax_perm {xs ys : List Num} (p : xs.Perm ys) : npMax xs = npMax ys := by
  cases hna : hasNa xs with
  | true => simp [npMax, hna, ← hasNa_perm p]
  | false =>
    have hna' : hasNa ys = false := by rw [← hasNa_perm p]; exact hna
    cases xs with
    | nil => rw [p.nil_eq]
    | cons a l =>
      have hne : ys ≠ [] := by intro h; subst h; simp at p
      obtain ⟨m, h1, h2, h3⟩ := npMax_spec (a :: l) hna (by simp)
      obtain ⟨m', h1', h2', h3'⟩ := npMax_spec ys hna' hne
      have pv := values_perm p
      have : m = m' := greatest_unique h2 h3 (pv.symm.subset h2') (fun x hx => h3' x (pv.subset hx))
      rw [h1, h1', this]

/-! ### the sort behind median and quantile -/

theorem sortRat_perm (l : List Rat) : (sortRat l).Perm l := List.mergeSort_perm _ _

theorem sortRat_sorted (l : List Rat) : (sortRat l).Pairwise (· ≤ ·) := by
  have := List.pairwise_mergeSort (le := fun (a b : Rat) => decide (a ≤ b))
    (fun a b c hab hbc => by
      simp only [decide_eq_true_eq] at *; exact Rat.le_trans hab hbc)
    (fun a b => by
      simp only [Bool.or_eq_true, decide_eq_true_eq]; exact Rat.le_total) l
  unfold sortRat
  exact this.imp (fun h => by simpa using h)

theorem sortRat_length (l : List Rat) : (sortRat l).length = l.length := (sortRat_perm l).length_eq

theorem mem_sortRat {l : List Rat} {x : Rat} : x ∈ sortRat l ↔ x ∈ l := (sortRat_perm l).mem_iff

/-- the sorted list depends only on the multiset of values. -/
theorem sortRat_eq_of_perm {a b : List Rat} (p : a.Perm b) : sortRat a = sortRat b :=
  List.Perm.eq_of_pairwise (le := (· ≤ ·)) (fun _ _ _ _ h1 h2 => Rat.le_antisymm h1 h2)
    (sortRat_sorted a) (sortRat_sorted b) ((sortRat_perm a).trans (p.trans (sortRat_perm b).symm))

theorem sorted_get_le {s : List Rat} (hs : s.Pairwise (· ≤ ·)) {i j : Nat} (hij : i ≤ j) (hj : j < s.length) :
    s[i]'(by omega) ≤ s[j] := by
  rcases Nat.lt_or_eq_of_le hij with h | h
  · exact List.pairwise_iff_getElem.mp hs i j (by omega) hj h
  · subst h; exact Rat.le_refl

/-- the first element of the sorted list is the minimum, the last one the maximum. -/
theorem sortRat_head_is_min (l : List Rat) (h : 0 < (sortRat l).length) :
    (sortRat l)[0] ∈ l ∧ ∀ x ∈ l, (sortRat l)[0] ≤ x := by
  refine ⟨mem_sortRat.mp (List.getElem_mem h), fun x hx => ?_⟩
  obtain ⟨j, hj, rfl⟩ := List.getElem_of_mem (mem_sortRat.mpr hx)
  exact sorted_get_le (sortRat_sorted l) (Nat.zero_le j) hj

theorem sortRat_last_is_max (l : List Rat) (h : 0 < (sortRat l).length) :
    (sortRat l)[(sortRat l).length - 1] ∈ l ∧ ∀ x ∈ l, x ≤ (sortRat l)[(sortRat l).length - 1] := by
  refine ⟨mem_sortRat.mp (List.getElem_mem _), fun x hx => ?_⟩
  obtain ⟨j, hj, rfl⟩ := List.getElem_of_mem (mem_sortRat.mpr hx)
  exact sorted_get_le (sortRat_sorted l) (by omega) (by omega)

/-! ### median -/

theorem median_odd (l : List Rat) (hodd : l.length % 2 = 1) :
    medianOf l = (sortRat l)[l.length / 2]'(by rw [sortRat_length]; omega) := by
  unfold medianOf
  simp only [sortRat_length]
  rw [if_pos hodd, getElem!_pos _ _ (by rw [sortRat_length]; omega)]

theorem median_even (l : List Rat) (heven : l.length % 2 = 0) (hpos : 0 < l.length) :
    medianOf l = ((sortRat l)[l.length / 2 - 1]'(by rw [sortRat_length]; omega) +
      (sortRat l)[l.length / 2]'(by rw [sortRat_length]; omega)) / 2 := by
  unfold medianOf
  simp only [sortRat_length]
  rw [if_neg (by omega), getElem!_pos _ _ (by rw [sortRat_length]; omega),
    getElem!_pos _ _ (by rw [sortRat_length]; omega)]

theorem sortRat_get_bounds (l : List Rat) (lo hi : Rat) (hlo : ∀ x ∈ l, lo ≤ x) (hhi : ∀ x ∈ l, x ≤ hi)
    (i : Nat) (hi' : i < (sortRat l).length) : lo ≤ (sortRat l)[i] ∧ (sortRat l)[i] ≤ hi :=
  have hm := mem_sortRat.mp (List.getElem_mem hi')
  ⟨hlo _ hm, hhi _ hm⟩

/-- the median lies between any lower and any upper bound of the group; in particular
    min ≤ median ≤ max. -/
theorem median_bounds (l : List Rat) (hne : l ≠ []) (lo hi : Rat)
    (hlo : ∀ x ∈ l, lo ≤ x) (hhi : ∀ x ∈ l, x ≤ hi) : lo ≤ medianOf l ∧ medianOf l ≤ hi := by
  have hpos : 0 < l.length := List.length_pos_iff.mpr hne
  rcases Nat.mod_two_eq_zero_or_one l.length with h | h
  · rw [median_even l h hpos]
    have b1 := sortRat_get_bounds l lo hi hlo hhi (l.length / 2 - 1) (by rw [sortRat_length]; omega)
    have b2 := sortRat_get_bounds l lo hi hlo hhi (l.length / 2) (by rw [sortRat_length]; omega)
    constructor <;> grind
  · rw [median_odd l h]
    exact sortRat_get_bounds l lo hi hlo hhi _ _

theorem medianOf_perm {a b : List Rat} (p : a.Perm b) : medianOf a = medianOf b := by
  unfold medianOf; rw [sortRat_eq_of_perm p]

/-! ### quantile -/

theorem floor_toNat_spec (h : Rat) (h0 : 0 ≤ h) :
    ((h.floor.toNat : Nat) : Rat) ≤ h ∧ h < ((h.floor.toNat : Nat) : Rat) + 1 := by
  have hf : 0 ≤ h.floor := Rat.le_floor_iff.mpr (by simpa using h0)
  have hc : ((h.floor.toNat : Nat) : Rat) = ((h.floor : Int) : Rat) := by
    rw [← Rat.intCast_natCast, Int.toNat_of_nonneg hf]
  rw [hc]
  refine ⟨Rat.floor_le h, ?_⟩
  have := Rat.lt_floor_add_one h
  rw [Rat.intCast_add] at this
  exact this

theorem floor_toNat_eq (h : Rat) (k : Nat) (h1 : (k : Rat) ≤ h) (h2 : h < (k : Rat) + 1) :
    h.floor.toNat = k := by
  have a : (k : Int) ≤ h.floor := Rat.le_floor_iff.mpr (by rw [Rat.intCast_natCast]; exact h1)
  have b : h.floor < (k : Int) + 1 := Rat.floor_lt_iff.mpr (by
    rw [Rat.intCast_add, Rat.intCast_natCast]; exact h2)
  omega

/-- the interpolation position `h = (n - 1) q` and its integer part `k = ⌊h⌋`. -/
def qPos (n : Nat) (q : Rat) : Rat := ((n : Rat) - 1) * q
def qIdx (n : Nat) (q : Rat) : Nat := (qPos n q).floor.toNat

theorem qPos_range (n : Nat) (hn : 0 < n) (q : Rat) (h0 : 0 ≤ q) (h1 : q ≤ 1) :
    0 ≤ qPos n q ∧ qPos n q ≤ (n : Rat) - 1 := by
  have hn' : (0 : Rat) ≤ (n : Rat) - 1 := by
    have : ((1 : Nat) : Rat) ≤ (n : Rat) := Rat.natCast_le_natCast.mpr hn
    simp at this; grind
  unfold qPos
  refine ⟨Rat.mul_nonneg hn' h0, ?_⟩
  have := Rat.mul_le_mul_of_nonneg_left h1 hn'
  rwa [Rat.mul_one] at this

/-- for `0 ≤ q ≤ 1` the index is in range: `k ≤ h < k + 1` and `k ≤ n - 1`. -/
theorem qIdx_spec (n : Nat) (hn : 0 < n) (q : Rat) (h0 : 0 ≤ q) (h1 : q ≤ 1) :
    qIdx n q < n ∧ (qIdx n q : Rat) ≤ qPos n q ∧ qPos n q < (qIdx n q : Rat) + 1 := by
  obtain ⟨hp0, hp1⟩ := qPos_range n hn q h0 h1
  obtain ⟨f1, f2⟩ := floor_toNat_spec (qPos n q) hp0
  refine ⟨?_, f1, f2⟩
  have : ((qIdx n q : Nat) : Rat) < ((n : Nat) : Rat) := by
    unfold qIdx; grind
  exact Rat.natCast_lt_natCast.mp this

theorem quantileOf_eq (l : List Rat) (q : Rat) :
    quantileOf l q =
      (if qIdx l.length q + 1 < l.length then
        (sortRat l)[qIdx l.length q]! + (qPos l.length q - (qIdx l.length q : Rat)) *
          ((sortRat l)[qIdx l.length q + 1]! - (sortRat l)[qIdx l.length q]!)
       else (sortRat l)[qIdx l.length q]!) := by
  unfold quantileOf qIdx qPos
  simp only [sortRat_length]

/-- linear interpolation between the two neighbouring order statistics. -/
theorem quantile_interp (l : List Rat) (q : Rat) (hk : qIdx l.length q + 1 < l.length) :
    quantileOf l q =
      (sortRat l)[qIdx l.length q]'(by rw [sortRat_length]; omega) +
        (qPos l.length q - (qIdx l.length q : Rat)) *
          ((sortRat l)[qIdx l.length q + 1]'(by rw [sortRat_length]; omega) -
           (sortRat l)[qIdx l.length q]'(by rw [sortRat_length]; omega)) := by
  rw [quantileOf_eq, if_pos hk, getElem!_pos _ _ (by rw [sortRat_length]; omega),
    getElem!_pos _ _ (by rw [sortRat_length]; omega)]

/-- at the last order statistic there is nothing to interpolate with. -/
theorem quantile_last (l : List Rat) (q : Rat) (h0 : 0 ≤ q) (h1 : q ≤ 1) (hne : l ≠ [])
    (hk : ¬ qIdx l.length q + 1 < l.length) :
    qIdx l.length q = l.length - 1 ∧
    quantileOf l q = (sortRat l)[l.length - 1]'(by
      rw [sortRat_length]; have := List.length_pos_iff.mpr hne; omega) := by
  have hpos : 0 < l.length := List.length_pos_iff.mpr hne
  obtain ⟨hlt, _, _⟩ := qIdx_spec l.length hpos q h0 h1
  have hk' : qIdx l.length q = l.length - 1 := by omega
  refine ⟨hk', ?_⟩
  rw [quantileOf_eq, if_neg hk, getElem!_pos _ _ (by rw [sortRat_length]; omega)]
  simp only [hk']

theorem quantile_zero (l : List Rat) (hne : l ≠ []) :
    quantileOf l 0 = (sortRat l)[0]'(by rw [sortRat_length]; exact List.length_pos_iff.mpr hne) := by
  have hpos : 0 < l.length := List.length_pos_iff.mpr hne
  have hp : qPos l.length 0 = 0 := by unfold qPos; rw [Rat.mul_zero]
  have hi : qIdx l.length 0 = 0 := by unfold qIdx; rw [hp]; rfl
  by_cases hk : qIdx l.length 0 + 1 < l.length
  · rw [quantile_interp l 0 hk]
    simp only [hi, hp]
    simp [Rat.sub_self, Rat.add_zero]
  · rw [quantileOf_eq, if_neg hk, getElem!_pos _ _ (by rw [sortRat_length, hi]; exact hpos)]
    simp only [hi]

theorem quantile_one (l : List Rat) (hne : l ≠ []) :
    quantileOf l 1 = (sortRat l)[l.length - 1]'(by
      rw [sortRat_length]; have := List.length_pos_iff.mpr hne; omega) := by
  have hpos : 0 < l.length := List.length_pos_iff.mpr hne
  have hp : qPos l.length 1 = ((l.length - 1 : Nat) : Rat) := by
    unfold qPos
    obtain ⟨m, hm⟩ : ∃ m, l.length = m + 1 := ⟨l.length - 1, by omega⟩
    rw [hm, Rat.mul_one]; simp only [Nat.add_sub_cancel, Rat.natCast_add]; grind
  have hi : qIdx l.length 1 = l.length - 1 := by
    unfold qIdx
    exact floor_toNat_eq _ _ (by rw [hp]; exact Rat.le_refl) (by rw [hp]; grind)
  have hk : ¬ qIdx l.length 1 + 1 < l.length := by omega
  exact (quantile_last l 1 (by decide) (by decide) hne hk).2

/-- the quantile lies between any lower and any upper bound of the group. -/
theorem quantile_bounds (l : List Rat) (hne : l ≠ []) (q : Rat) (h0 : 0 ≤ q) (h1 : q ≤ 1) (lo hi : Rat)
    (hlo : ∀ x ∈ l, lo ≤ x) (hhi : ∀ x ∈ l, x ≤ hi) : lo ≤ quantileOf l q ∧ quantileOf l q ≤ hi := by
  have hpos : 0 < l.length := List.length_pos_iff.mpr hne
  by_cases hk : qIdx l.length q + 1 < l.length
  · rw [quantile_interp l q hk]
    obtain ⟨_, f1, f2⟩ := qIdx_spec l.length hpos q h0 h1
    have b1 := sortRat_get_bounds l lo hi hlo hhi (qIdx l.length q) (by rw [sortRat_length]; omega)
    have b2 := sortRat_get_bounds l lo hi hlo hhi (qIdx l.length q + 1) (by rw [sortRat_length]; omega)
    have hs : (sortRat l)[qIdx l.length q]'(by rw [sortRat_length]; omega) ≤
        (sortRat l)[qIdx l.length q + 1]'(by rw [sortRat_length]; omega) :=
      sorted_get_le (sortRat_sorted l) (Nat.le_succ _) _
    generalize (sortRat l)[qIdx l.length q]'(by rw [sortRat_length]; omega) = a at *
    generalize (sortRat l)[qIdx l.length q + 1]'(by rw [sortRat_length]; omega) = b at *
    have hf0 : 0 ≤ qPos l.length q - (qIdx l.length q : Rat) := by grind
    have hf1 : 0 ≤ 1 - (qPos l.length q - (qIdx l.length q : Rat)) := by grind
    generalize qPos l.length q - (qIdx l.length q : Rat) = f at *
    have hd : 0 ≤ b - a := by grind
    have m1 := Rat.mul_nonneg hf0 hd
    have m2 := Rat.mul_nonneg hf1 hd
    constructor <;> grind
  · rw [(quantile_last l q h0 h1 hne hk).2]
    exact sortRat_get_bounds l lo hi hlo hhi _ _

theorem quantileOf_perm {a b : List Rat} (p : a.Perm b) (q : Rat) : quantileOf a q = quantileOf b q := by
  unfold quantileOf; rw [sortRat_eq_of_perm p]

theorem medianOf_eq (l : List Rat) :
    medianOf l = (if l.length % 2 = 1 then (sortRat l)[l.length / 2]!
      else ((sortRat l)[l.length / 2 - 1]! + (sortRat l)[l.length / 2]!) / 2) := by
  unfold medianOf; simp only [sortRat_length]

/-- the quantile at 1/2 is the median. -/
theorem quantile_half (l : List Rat) (hne : l ≠ []) : quantileOf l (1 / 2) = medianOf l := by
  have hpos : 0 < l.length := List.length_pos_iff.mpr hne
  rw [quantileOf_eq, medianOf_eq]
  rcases Nat.mod_two_eq_zero_or_one l.length with h | h
  · obtain ⟨m, hm⟩ : ∃ m, l.length = 2 * m + 2 := ⟨l.length / 2 - 1, by omega⟩
    have hp : qPos l.length (1 / 2) = (m : Rat) + 1 / 2 := by
      unfold qPos; rw [hm]; simp only [Rat.natCast_add, Rat.natCast_mul]
      grind
    have hi : qIdx l.length (1 / 2) = m := by
      unfold qIdx
      exact floor_toNat_eq _ _ (by rw [hp]; grind) (by rw [hp]; grind)
    rw [hp, hi, if_pos (by omega), if_neg (by omega)]
    have e1 : l.length / 2 - 1 = m := by omega
    have e2 : l.length / 2 = m + 1 := by omega
    rw [e1, e2]
    grind
  · obtain ⟨m, hm⟩ : ∃ m, l.length = 2 * m + 1 := ⟨l.length / 2, by omega⟩
    have hp : qPos l.length (1 / 2) = (m : Rat) := by
      unfold qPos; rw [hm]; simp only [Rat.natCast_add, Rat.natCast_mul]
      grind
    have hi : qIdx l.length (1 / 2) = m := by
      unfold qIdx
      exact floor_toNat_eq _ _ (by rw [hp]; exact Rat.le_refl) (by rw [hp]; grind)
    have e2 : l.length / 2 = m := by omega
    rw [hp, hi, if_pos h, e2]
    split
    · rw [Rat.sub_self, Rat.zero_mul, Rat.add_zero]
    · rfl

/-! ### non-vacuity: the hypotheses are satisfiable on concrete groups -/

example : rsum ([1, 2] ++ [3]) = rsum [1, 2] + rsum [3] := rsum_append _ _
example : variance [1, 3] 1 = 2 := by simp [variance, rsum]; grind
example : 0 ≤ variance [1, 3] 1 := variance_nonneg [1, 3] 1 (by decide)
example : variance [2, 2] 1 = 0 := (variance_eq_zero_iff [2, 2] 1 (by decide)).mpr (by decide)
example : variance [1, 3] 1 ≠ 0 := fun h => by
  have := (variance_eq_zero_iff [1, 3] 1 (by decide)).mp h 1 (by decide) 3 (by decide)
  exact absurd this (by decide)
example : npMin [some 3, some 1, some 2] = .val 1 ∧ npMax [some 3, some 1, some 2] = .val 3 := by decide
example : ∃ m, npMin [some 3, some 1] = .val m ∧ m ∈ values [some 3, some 1] ∧ ∀ x ∈ values [some 3, some 1], m ≤ x :=
  npMin_spec _ (by decide) (by decide)
example := median_odd [3, 1, 2] (by decide)
example := median_even [3, 1, 2, 5] (by decide) (by decide)
example := median_bounds [3, 1, 2] (by decide) 1 3 (by decide) (by decide)
example := qIdx_spec 4 (by decide) (1 / 4) (by grind) (by grind)
example := quantile_bounds [3, 1, 2] (by decide) (1 / 4) (by grind) (by grind) 1 3 (by decide) (by decide)
example : quantileOf [3, 1, 2] (1 / 2) = medianOf [3, 1, 2] := quantile_half _ (by decide)
example : sortRat [3, 1, 2] = sortRat [1, 2, 3] :=
  sortRat_eq_of_perm ((List.Perm.swap 1 3 [2]).trans ((List.Perm.swap 2 3 []).cons 1))

end DI.Agg

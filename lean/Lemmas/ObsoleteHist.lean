/-
  Lemmas/ObsoleteHist.lean — C17 over whole histories: the obsolescence warning of a list is
  printed at most once, whatever sequence of calls follows.
-/
import Model.Obsolete
import Lemmas.Obsolete

namespace DI.Obs

def Op.recv : Op → Nat
  | .derive r _ _ => r
  | .editInPlace r _ => r
  | .editFresh r => r
  | .deepcopy r => r
  | .use r => r
  | .poke r _ => r

/-- the `warned` flag of every existing list after `touch`: set exactly when the warning prints. -/
theorem touch_warned (w : World) (r i : Nat) (l : LObj) (h : w.lists[i]? = some l) :
    ∃ l', (touch w r).1.lists[i]? = some l' ∧
      l'.warned = (l.warned || (decide (i = r) && (touch w r).2)) := by
  rw [touch_lists_get, h]
  simp only [Option.map_some]
  refine ⟨_, rfl, ?_⟩
  by_cases hir : i = r
  · subst hir
    by_cases ho : l.obsolete = true
    · simp only [ho, and_self, if_true, decide_true, Bool.true_and]
      cases hw : l.warned
      · have : (touch w i).2 = true := (touch_warn_iff w i).mpr ⟨l, h, ho, hw⟩
        simp [this]
      · simp
    · have hp : (touch w i).2 = false := by
        cases hc : (touch w i).2
        · rfl
        · obtain ⟨l2, h2, ho2, _⟩ := (touch_warn_iff w i).mp hc
          rw [h] at h2; cases h2; exact absurd ho2 ho
      simp [ho, hp]
  · simp [hir]

/-- after `touch`, the rest of a call never changes the `warned` flag of an existing list. -/
theorem step_after_touch (w : World) (op : Op) (i : Nat) (l1 : LObj)
    (hnp : ∀ r pos, op ≠ .poke r pos)
    (h : (touch w op.recv).1.lists[i]? = some l1) :
    ∃ l', (step w op).1.lists[i]? = some l' ∧ l'.warned = l1.warned := by
  have hi : i < (touch w op.recv).1.lists.length := by
    rcases List.getElem?_eq_some_iff.mp h with ⟨hh, _⟩; exact hh
  cases op with
  | poke r pos => exact absurd rfl (hnp r pos)
  | use r => exact ⟨l1, by simpa [step, Op.recv] using h, rfl⟩
  | derive r keep extra =>
    simp only [Op.recv] at h hi
    simp only [step]
    cases hr : (touch w r).1.lists[r]? with
    | none => exact ⟨l1, by simpa using h, rfl⟩
    | some l =>
      refine ⟨l1, ?_, rfl⟩
      simp only [List.getElem?_append_left hi]
      exact h
  | deepcopy r =>
    simp only [Op.recv] at h hi
    simp only [step]
    cases hr : (touch w r).1.lists[r]? with
    | none => exact ⟨l1, by simpa using h, rfl⟩
    | some l =>
      refine ⟨l1, ?_, rfl⟩
      simp only [List.getElem?_append_left hi]
      exact h
  | editInPlace r keep =>
    simp only [Op.recv] at h hi
    cases hr : (touch w r).1.lists[r]? with
    | none => exact ⟨l1, by simpa [step, hr] using h, rfl⟩
    | some l =>
      rw [editInPlace_lists w r keep l hr]
      have hlen := markChain_length (touch w r).1.lists.length (touch w r).1.lists r
      rw [List.getElem?_append_left (by omega), markChain_get, h]
      exact ⟨_, rfl, rfl⟩
  | editFresh r =>
    simp only [Op.recv] at h hi
    cases hr : (touch w r).1.lists[r]? with
    | none => exact ⟨l1, by simpa [step, hr] using h, rfl⟩
    | some l =>
      rw [editFresh_lists w r l hr]
      have hlen := markChain_length (touch w r).1.lists.length (touch w r).1.lists r
      rw [List.getElem?_append_left (by omega), markChain_get, h]
      exact ⟨_, rfl, rfl⟩

theorem step_printed_eq_touch (w : World) (op : Op) (hnp : ∀ r pos, op ≠ .poke r pos) :
    (step w op).2 = (touch w op.recv).2 := by
  cases op with
  | poke r pos => exact absurd rfl (hnp r pos)
  | use r => rfl
  | derive r keep extra => simp only [step, Op.recv]; cases (touch w r).1.lists[r]? <;> rfl
  | deepcopy r => simp only [step, Op.recv]; cases (touch w r).1.lists[r]? <;> rfl
  | editInPlace r keep => simp only [step, Op.recv]; cases (touch w r).1.lists[r]? <;> rfl
  | editFresh r => simp only [step, Op.recv]; cases (touch w r).1.lists[r]? <;> rfl

theorem step_poke (w : World) (r pos : Nat) :
    (step w (.poke r pos)).2 = false ∧ (step w (.poke r pos)).1.lists = w.lists := by
  simp only [step]
  cases w.lists[r]? <;> exact ⟨rfl, rfl⟩

/-- one call: the `warned` flag of an existing list becomes `warned || (it is the receiver and the
    warning was printed)`. -/
theorem step_warned (w : World) (op : Op) (i : Nat) (l : LObj) (h : w.lists[i]? = some l) :
    ∃ l', (step w op).1.lists[i]? = some l' ∧
      l'.warned = (l.warned || (decide (i = op.recv) && (step w op).2)) := by
  by_cases hp : ∃ r pos, op = .poke r pos
  · obtain ⟨r, pos, rfl⟩ := hp
    obtain ⟨h1, h2⟩ := step_poke w r pos
    exact ⟨l, by rw [h2]; exact h, by simp [h1]⟩
  · have hnp : ∀ r pos, op ≠ .poke r pos := fun r pos e => hp ⟨r, pos, e⟩
    obtain ⟨l1, h1, e1⟩ := touch_warned w op.recv i l h
    obtain ⟨l', h2, e2⟩ := step_after_touch w op i l1 hnp h1
    exact ⟨l', h2, by rw [e2, e1, step_printed_eq_touch w op hnp]⟩

/-- a printed warning means the receiver existed and had not warned before. -/
theorem step_printed_requires (w : World) (op : Op) (hp : (step w op).2 = true) :
    ∃ l, w.lists[op.recv]? = some l ∧ l.obsolete = true ∧ l.warned = false := by
  by_cases hpk : ∃ r pos, op = .poke r pos
  · obtain ⟨r, pos, rfl⟩ := hpk
    rw [(step_poke w r pos).1] at hp; cases hp
  · have hnp : ∀ r pos, op ≠ .poke r pos := fun r pos e => hpk ⟨r, pos, e⟩
    rw [step_printed_eq_touch w op hnp] at hp
    exact (touch_warn_iff w op.recv).mp hp

/-- how often the warning of list `r` is printed along a history. -/
def warnCount (r : Nat) : World → List Op → Nat
  | _, [] => 0
  | w, op :: ops =>
    (if (step w op).2 && decide (op.recv = r) then 1 else 0) + warnCount r (step w op).1 ops

/-- **at most once, over every history**: a list that has warned never warns again, and a list
    warns at most once in total — for every world and every sequence of calls. -/
theorem warnCount_le_one (r : Nat) (ops : List Op) :
    ∀ w : World, (∀ l, w.lists[r]? = some l → l.warned = true → warnCount r w ops = 0) ∧ warnCount r w ops ≤ 1 := by
  induction ops with
  | nil => intro w; simp [warnCount]
  | cons op ops ih =>
    intro w
    obtain ⟨ih0, ih1⟩ := ih (step w op).1
    by_cases hc : ((step w op).2 && decide (op.recv = r)) = true
    · simp only [Bool.and_eq_true, decide_eq_true_eq] at hc
      obtain ⟨hp, hr⟩ := hc
      obtain ⟨l, hl, _, hw⟩ := step_printed_requires w op hp
      obtain ⟨l', hl', e'⟩ := step_warned w op r l (hr ▸ hl)
      have hw' : l'.warned = true := by rw [e', hp]; simp [hr]
      have hz := ih0 l' hl' hw'
      refine ⟨?_, ?_⟩
      · intro l2 hl2 hw2
        rw [hr] at hl; rw [hl] at hl2; cases hl2
        rw [hw] at hw2; cases hw2
      · simp only [warnCount, hp, hr, decide_true, Bool.and_self, if_true, hz]; omega
    · have hc' : ((step w op).2 && decide (op.recv = r)) = false := by
        cases h : ((step w op).2 && decide (op.recv = r)) <;> simp_all
      refine ⟨?_, ?_⟩
      · intro l hl hw
        obtain ⟨l', hl', e'⟩ := step_warned w op r l hl
        have hw' : l'.warned = true := by rw [e', hw]; simp
        simp only [warnCount, hc', Bool.false_eq_true, if_false, Nat.zero_add]
        exact ih0 l' hl' hw'
      · simp only [warnCount, hc', Bool.false_eq_true, if_false, Nat.zero_add]
        exact ih1


/-- the world after a whole history. -/
def runFinal (w : World) (ops : List Op) : World := ops.foldl (fun w op => (step w op).1) w

def Op.nonModifying : Op → Bool
  | .derive _ _ _ => true
  | .use _ => true
  | .deepcopy _ => true
  | _ => false

theorem step_nonmod_vers (w : World) (op : Op) (h : op.nonModifying = true) :
    ∃ ext, (step w op).1.vers = w.vers ++ ext := by
  cases op with
  | derive r keep extra =>
    simp only [step]
    cases (touch w r).1.lists[r]? with
    | none => exact ⟨[], by simp [touch_vers]⟩
    | some l => exact ⟨List.replicate extra 0, by simp [touch_vers]⟩
  | use r => exact ⟨[], by simp [step, touch_vers]⟩
  | deepcopy r =>
    simp only [step]
    cases (touch w r).1.lists[r]? with
    | none => exact ⟨[], by simp [touch_vers]⟩
    | some l => exact ⟨_, by simp only [touch_vers]; rfl⟩
  | editInPlace r keep => simp [Op.nonModifying] at h
  | editFresh r => simp [Op.nonModifying] at h
  | poke r pos => simp [Op.nonModifying] at h

/-- **no write, over every history of non-modifying calls**: however many filter / sort / unique /
    head / tail / slice / copy / deepcopy / plain uses are chained, no existing dict is written. -/
theorem nonmodifying_history_writes_nothing (ops : List Op) :
    ∀ w : World, (∀ op ∈ ops, op.nonModifying = true) → ∃ ext, (runFinal w ops).vers = w.vers ++ ext := by
  induction ops with
  | nil => intro w _; exact ⟨[], by simp [runFinal]⟩
  | cons op ops ih =>
    intro w h
    obtain ⟨e1, h1⟩ := step_nonmod_vers w op (h op (by simp))
    obtain ⟨e2, h2⟩ := ih (step w op).1 (fun o ho => h o (by simp [ho]))
    refine ⟨e1 ++ e2, ?_⟩
    simp only [runFinal, List.foldl_cons] at h2 ⊢
    rw [h2, h1, List.append_assoc]

end DI.Obs

/-
  Lemmas/PyEvalFrameJoin.lean — the evaluator of `Model/PyEvalFrameJoin.lean` on the regenerated generator bodies of the joins
  (semi / anti / inner / left, `_split_join_by`) and of `cbind` / `update`: unfolding lemmas, the loop rule with a
  threaded specification state and failure, the meaning of `found` / `src` in terms of the model's `joinSrc`, and the
  evaluation of every body.  Statements for the properties are in `Proofs/EvalC05.lean` and `Proofs/EvalC09b.lean`.
-/
import Model.PyEvalFrameJoin
import Lemmas.PyEvalFrame
import Lemmas.JoinFirst
import Lemmas.JoinSpec
import Lemmas.Cbind
import Proofs.TieC05
import Proofs.TieC09

namespace DI.PyEvalX

open DI DI.Py
open DI.PyEval (Frame nrow ncol names colOf? colOf Rect normIdx allSome npTake npDelete Flow)

/-! ### environments -/

theorem get?_cons_self (x : String) (v : XVal) (e : Env) : Env.get? ((x, v) :: e) x = some v := by
  simp [Env.get?]

theorem get?_cons_ne {x y : String} (v : XVal) (e : Env) (h : x ≠ y) : Env.get? ((x, v) :: e) y = Env.get? e y := by
  have : (x == y) = false := by simpa using h
  simp [Env.get?, this]

/-- `e` agrees with `e0` on every name outside the local variables `vars`. -/
def Stable (vars : List String) (e0 e : Env) : Prop := ∀ x, x ∉ vars → Env.get? e x = Env.get? e0 x

theorem Stable.refl (vars : List String) (e : Env) : Stable vars e e := fun _ _ => rfl

theorem Stable.push {vars : List String} {e0 e : Env} (h : Stable vars e0 e) {x : String} (hx : x ∈ vars) (v : XVal) :
    Stable vars e0 ((x, v) :: e) := by
  intro y hy
  have : x ≠ y := fun hxy => hy (hxy ▸ hx)
  rw [get?_cons_ne v e this]
  exact h y hy

/-! ### unfolding the evaluator -/

variable (na : Cell)

theorem evalExpr_sym (env : Env) (x : String) (h1 : x ≠ "True") (h2 : x ≠ "False") (h3 : x ≠ "None") :
    evalExpr na env (.sym x) = Env.get? env x := by
  unfold evalExpr lookupSym
  split <;> simp_all

theorem eval_var {e0 e : Env} {vars : List String} {x : String} {v : XVal} (hs : Stable vars e0 e) (hv : x ∉ vars)
    (h1 : x ≠ "True") (h2 : x ≠ "False") (h3 : x ≠ "None") (h : Env.get? e0 x = some v) :
    evalExpr na e (.sym x) = some v := by
  rw [evalExpr_sym na e x h1 h2 h3, hs x hv, h]

theorem evalArgs_nil (env : Env) : evalArgs na env [] = some [] := rfl

theorem evalArgs_cons (env : Env) (t : Term) (ts : List Term) (v : XVal) (vs : List XVal)
    (h : evalExpr na env t = some v) (hs : evalArgs na env ts = some vs) : evalArgs na env (t :: ts) = some (v :: vs) := by
  rw [evalArgs, h, hs]

theorem evalArgs1 {env : Env} {a : Term} {va : XVal} (ha : evalExpr na env a = some va) :
    evalArgs na env [a] = some [va] := evalArgs_cons na env a [] va [] ha rfl

theorem evalArgs2 {env : Env} {a b : Term} {va vb : XVal} (ha : evalExpr na env a = some va)
    (hb : evalExpr na env b = some vb) : evalArgs na env [a, b] = some [va, vb] :=
  evalArgs_cons na env a [b] va [vb] ha (evalArgs1 na hb)

theorem evalArgs3 {env : Env} {a b c : Term} {va vb vc : XVal} (ha : evalExpr na env a = some va)
    (hb : evalExpr na env b = some vb) (hc : evalExpr na env c = some vc) :
    evalArgs na env [a, b, c] = some [va, vb, vc] := evalArgs_cons na env a [b, c] va [vb, vc] ha (evalArgs2 na hb hc)

theorem evalArgs4 {env : Env} {a b c d : Term} {va vb vc vd : XVal} (ha : evalExpr na env a = some va)
    (hb : evalExpr na env b = some vb) (hc : evalExpr na env c = some vc) (hd : evalExpr na env d = some vd) :
    evalArgs na env [a, b, c, d] = some [va, vb, vc, vd] :=
  evalArgs_cons na env a [b, c, d] va [vb, vc, vd] ha (evalArgs3 na hb hc hd)

/-- a name that is a call of `prim`, not one of the special forms of `evalExpr`. -/
def PlainPrim (f : String) : Prop :=
  f ≠ "Vector.fast" ∧ f ≠ "set()" ∧ f ≠ "tuple" ∧ f ≠ "ifexp" ∧ f ≠ "isinstance" ∧ f ≠ "ListComp"

instance (f : String) : Decidable (PlainPrim f) := by unfold PlainPrim; infer_instance

/-- a call of a primitive: the arguments are evaluated, left to right, and handed to `prim`. -/
theorem evalPrim {env : Env} {f : String} {args : List Term} {vs : List XVal} (hf : PlainPrim f)
    (h : evalArgs na env args = some vs) : evalExpr na env (.app f args) = prim na f vs := by
  obtain ⟨h1, h2, h3, h4, h5, h6⟩ := hf
  rw [evalExpr]
  simp only [h]
  · intro _ _ hf _; exact h1 hf
  · intro hf _; exact h2 hf
  · intro _ _ hf _; exact h3 hf
  · intro _ _ _ hf _; exact h4 hf
  · intro _ hf _; exact h5 hf
  · intro _ _ _ hf _; exact h6 hf

/-- a failing argument (a Python exception) fails the call. -/
theorem evalPrim_none {env : Env} {f : String} {args : List Term} (hf : PlainPrim f)
    (h : evalArgs na env args = none) : evalExpr na env (.app f args) = none := by
  obtain ⟨h1, h2, h3, h4, h5, h6⟩ := hf
  rw [evalExpr]
  simp only [h]
  · intro _ _ hf _; exact h1 hf
  · intro hf _; exact h2 hf
  · intro _ _ hf _; exact h3 hf
  · intro _ _ _ hf _; exact h4 hf
  · intro _ hf _; exact h5 hf
  · intro _ _ _ hf _; exact h6 hf

theorem evalExpr_set (env : Env) : evalExpr na env (.app "set()" []) = some (.strs (curSet env)) := by
  rw [evalExpr]

theorem evalExpr_tuple (env : Env) (a b : Term) :
    evalExpr na env (.app "tuple" [a, b]) =
      (match evalExpr na env a, evalExpr na env b with
       | some x, some y => some (.pair x y)
       | _, _ => none) := by
  rw [evalExpr]; rfl

theorem evalExpr_fast (env : Env) (x : Term) (d : String) :
    evalExpr na env (.app "Vector.fast" [x, .sym d]) = evalExpr na env x := by
  rw [evalExpr]

theorem evalExpr_ifexp (env : Env) (c a b : Term) :
    evalExpr na env (.app "ifexp" [c, a, b]) =
      (match evalExpr na env c with
       | some (.bool true) => evalExpr na env a
       | some (.bool false) => evalExpr na env b
       | _ => none) := by
  rw [evalExpr]; rfl

theorem evalExpr_isinstance_str (env : Env) (x : Term) :
    evalExpr na env (.app "isinstance" [x, .sym "str"]) =
      (match evalExpr na env x with
       | some (.str _) => some (.bool true)
       | some _ => some (.bool false)
       | none => none) := by
  rw [evalExpr]; rfl

theorem evalExpr_listcomp (env : Env) (elem pat src : Term) :
    evalExpr na env (.app "ListComp" [elem, .app "in" [pat, src, .app "if" []]]) =
      (match evalExpr na env src with
       | none => none
       | some s => match itemsOf s with
         | none => none
         | some xs =>
           (allSome (xs.map (fun x => match bindPat env pat x with
             | none => none
             | some env' => match evalExpr na env' elem with
               | some (.str n) => some n
               | _ => none))).map XVal.strs) := by
  rw [evalExpr]; rfl

theorem execStmt_yield_eq (env : Env) (out : Frame) (n c : Term) :
    execStmt na env out (.app "yield" [.app "tuple" [n, c]]) =
      (match evalExpr na env n, evalExpr na env c with
       | some (.str n), some (.col c) => some (.next, env, out ++ [(n, c)])
       | _, _ => none) := by
  rw [execStmt]; rfl

theorem execStmt_yield {env : Env} {out : Frame} {n c : Term} {vn : String} {vc : List Cell}
    (hn : evalExpr na env n = some (.str vn)) (hc : evalExpr na env c = some (.col vc)) :
    execStmt na env out (.app "yield" [.app "tuple" [n, c]]) = some (.next, env, out ++ [(vn, vc)]) := by
  rw [execStmt_yield_eq, hn, hc]

theorem execStmt_yield_none {env : Env} {out : Frame} {n c : Term} (hc : evalExpr na env c = none) :
    execStmt na env out (.app "yield" [.app "tuple" [n, c]]) = none := by
  rw [execStmt_yield_eq, hc]
  split <;> simp_all

theorem execStmt_assign {env : Env} {out : Frame} {x : String} {e : Term} {v : XVal}
    (he : evalExpr na env e = some v) :
    execStmt na env out (.app "assign" [.sym x, e]) = some (.next, (x, v) :: env, out) := by
  rw [execStmt, he]

theorem execStmt_assign_none {env : Env} {out : Frame} {x : String} {e : Term} (he : evalExpr na env e = none) :
    execStmt na env out (.app "assign" [.sym x, e]) = none := by
  rw [execStmt, he]

theorem execStmt_store {env : Env} {out : Frame} {x : String} {ie ve : Term} {c v c' : List Cell} {r : List Int}
    (hx : Env.get? env x = some (.col c)) (hi : evalExpr na env ie = some (.ints r))
    (hv : evalExpr na env ve = some (.col v)) (hp : npPut c r v = some c') :
    execStmt na env out (.app "store" [.app "getitem" [.sym x, ie], ve]) = some (.next, (x, .col c') :: env, out) := by
  rw [execStmt, hx, hi, hv]
  simp only [hp]

theorem execStmt_add {env : Env} {out : Frame} {e : Term} {s : String} (he : evalExpr na env e = some (.str s)) :
    execStmt na env out (.app ".add" [.app "set()" [], e]) =
      some (.next, ("set()", .strs (curSet env ++ [s])) :: env, out) := by
  rw [execStmt, he]

theorem execStmt_if_true {env : Env} {out : Frame} {c : Term} {a b : List Term}
    (hc : evalExpr na env c = some (.bool true)) :
    execStmt na env out (.app "if" [c, .app "block" a, .app "block" b]) = execBlock na env out a := by
  rw [execStmt, hc]

theorem execStmt_if_false {env : Env} {out : Frame} {c : Term} {a b : List Term}
    (hc : evalExpr na env c = some (.bool false)) :
    execStmt na env out (.app "if" [c, .app "block" a, .app "block" b]) = execBlock na env out b := by
  rw [execStmt, hc]

theorem execStmt_continue (env : Env) (out : Frame) : execStmt na env out (.sym "continue") = some (.cont, env, out) := by
  rw [execStmt]

theorem execBlock_nil (env : Env) (out : Frame) : execBlock na env out [] = some (.next, env, out) := by
  rw [execBlock]

theorem execBlock_cons_next {env env' : Env} {out out' : Frame} {s : Term} {ss : List Term}
    (h : execStmt na env out s = some (.next, env', out')) :
    execBlock na env out (s :: ss) = execBlock na env' out' ss := by
  rw [execBlock, h]

theorem execBlock_cons_cont {env env' : Env} {out out' : Frame} {s : Term} {ss : List Term}
    (h : execStmt na env out s = some (.cont, env', out')) :
    execBlock na env out (s :: ss) = some (.cont, env', out') := by
  rw [execBlock, h]

theorem execBlock_cons_none {env : Env} {out : Frame} {s : Term} {ss : List Term}
    (h : execStmt na env out s = none) : execBlock na env out (s :: ss) = none := by
  rw [execBlock, h]

/-- `if c: continue` with a true test leaves the iteration. -/
theorem execBlock_skip {env : Env} {out : Frame} {c : Term} {ss : List Term}
    (hc : evalExpr na env c = some (.bool true)) :
    execBlock na env out (.app "if" [c, .app "block" [.sym "continue"], .app "block" []] :: ss) =
      some (.cont, env, out) := by
  apply execBlock_cons_cont
  rw [execStmt_if_true na hc]
  exact execBlock_cons_cont na (execStmt_continue na env out)

/-- `if c: continue` with a false test goes on. -/
theorem execBlock_noskip {env : Env} {out : Frame} {c : Term} {ss : List Term}
    (hc : evalExpr na env c = some (.bool false)) :
    execBlock na env out (.app "if" [c, .app "block" [.sym "continue"], .app "block" []] :: ss) =
      execBlock na env out ss := by
  apply execBlock_cons_next
  rw [execStmt_if_false na hc]
  exact execBlock_nil na env out

/-! ### the loop rule -/

/-- one iteration of `for pat in …: body`. -/
def stepOf (pat : Term) (body : List Term) : Env × Frame → XVal → Option (Env × Frame) :=
  fun st it => match bindPat st.1 pat it with
    | none => none
    | some env' => match execBlock na env' st.2 body with
      | none => none
      | some r => some (r.2.1, r.2.2)

/-- the result of a `for` statement whose items are `its`. -/
def forResult (pat : Term) (body : List Term) (env : Env) (out : Frame) (its : Option (List XVal)) :
    Option (Flow × Env × Frame) :=
  match its with
  | none => none
  | some its => match loop (stepOf na pat body) (env, out) its with
    | none => none
    | some st => some (.next, st.1, st.2)

/-- the specification of a loop: a state `σ` is threaded through the items, every item appends pairs or fails. -/
def foldSpec {σ α β : Type} (f : σ → α → Option (σ × List β)) : σ → List α → Option (σ × List β)
  | s, [] => some (s, [])
  | s, a :: t => match f s a with
    | none => none
    | some r => match foldSpec f r.1 t with
      | none => none
      | some r' => some (r'.1, r.2 ++ r'.2)

/-- **the loop rule**: if every iteration, in an environment satisfying the invariant for the specification state `s`,
    appends the pairs `f s a` says (re-establishing the invariant for the new state) or fails when `f s a` fails, the loop
    does what `foldSpec f` says. -/
theorem loop_spec {σ α : Type} (pat : Term) (body : List Term) (mk : α → XVal) (Inv : σ → Env → Prop)
    (f : σ → α → Option (σ × Frame)) (l : List α)
    (hstep : ∀ s env out a, a ∈ l → Inv s env → ∃ env1, bindPat env pat (mk a) = some env1 ∧
      match f s a with
      | none => execBlock na env1 out body = none
      | some r => ∃ fl env2, execBlock na env1 out body = some (fl, env2, out ++ r.2) ∧ Inv r.1 env2) :
    ∀ s env out, Inv s env →
      match foldSpec f s l with
      | none => loop (stepOf na pat body) (env, out) (l.map mk) = none
      | some r => ∃ env', loop (stepOf na pat body) (env, out) (l.map mk) = some (env', out ++ r.2) ∧ Inv r.1 env' := by
  induction l with
  | nil => intro s env out hinv; exact ⟨env, by simp [loop], hinv⟩
  | cons a t ih =>
    intro s env out hinv
    obtain ⟨env1, hb, hx⟩ := hstep s env out a List.mem_cons_self hinv
    cases hf : f s a with
    | none =>
      rw [hf] at hx
      have hs : stepOf na pat body (env, out) (mk a) = none := by simp only [stepOf, hb, hx]
      simp only [foldSpec, hf, List.map_cons, loop, hs]
    | some r =>
      rw [hf] at hx
      obtain ⟨fl, env2, hx, hinv2⟩ := hx
      have hs : stepOf na pat body (env, out) (mk a) = some (env2, out ++ r.2) := by simp only [stepOf, hb, hx]
      have := ih (fun s env out b hb => hstep s env out b (List.mem_cons_of_mem _ hb)) r.1 env2 (out ++ r.2) hinv2
      cases hr : foldSpec f r.1 t with
      | none =>
        rw [hr] at this
        simp only [foldSpec, hf, hr, List.map_cons, loop, hs, this]
      | some r' =>
        rw [hr] at this
        obtain ⟨env', hl, hinv'⟩ := this
        simp only [foldSpec, hf, hr]
        exact ⟨env', by simp only [List.map_cons, loop, hs, hl, List.append_assoc], hinv'⟩

/-- the `for` statement over evaluated items. -/
theorem forResult_spec {σ α : Type} (pat : Term) (body : List Term) (mk : α → XVal) (Inv : σ → Env → Prop)
    (f : σ → α → Option (σ × Frame)) (l : List α)
    (hstep : ∀ s env out a, a ∈ l → Inv s env → ∃ env1, bindPat env pat (mk a) = some env1 ∧
      match f s a with
      | none => execBlock na env1 out body = none
      | some r => ∃ fl env2, execBlock na env1 out body = some (fl, env2, out ++ r.2) ∧ Inv r.1 env2)
    (s : σ) (env : Env) (out : Frame) (hinv : Inv s env) :
    match foldSpec f s l with
    | none => forResult na pat body env out (some (l.map mk)) = none
    | some r => ∃ env', forResult na pat body env out (some (l.map mk)) = some (.next, env', out ++ r.2) ∧ Inv r.1 env' := by
  have := loop_spec na pat body mk Inv f l hstep s env out hinv
  cases hr : foldSpec f s l with
  | none => rw [hr] at this; simp only [forResult, this]
  | some r =>
    rw [hr] at this
    obtain ⟨env', hl, hinv'⟩ := this
    exact ⟨env', by simp only [forResult, hl], hinv'⟩

/-- a `for` over a plain (not `enumerate`) iterable. -/
theorem execStmt_for_plain (env : Env) (out : Frame) (pat iter : Term) (body : List Term)
    (hne : ∀ e, iter ≠ .app "enumerate" [e]) :
    execStmt na env out (.app "for" [pat, iter, .app "block" body]) =
      forResult na pat body env out (match evalExpr na env iter with | some v => itemsOf v | none => none) := by
  rw [execStmt]
  · rfl
  · intro e he; exact hne e he

theorem execStmt_for_enumerate (env : Env) (out : Frame) (pat e : Term) (body : List Term) :
    execStmt na env out (.app "for" [pat, .app "enumerate" [e], .app "block" body]) =
      forResult na pat body env out
        (match evalExpr na env e with | some v => (itemsOf v).map enumerate | none => none) := by
  rw [execStmt]
  rfl

/-- a stateless total specification: every item appends `y a`. -/
theorem foldSpec_total {α : Type} (y : α → Frame) (l : List α) :
    foldSpec (fun (_ : Unit) a => some ((), y a)) () l = some ((), l.flatMap y) := by
  induction l with
  | nil => rfl
  | cons a t ih => simp only [foldSpec, ih, List.flatMap_cons]

theorem runBody_fall {env : Env} {effs : List Term} {env' : Env} {out : Frame}
    (h : execBlock na env [] effs = some (.next, env', out)) : runBody na env (.fall effs) = some out := by
  simp only [runBody, h]

theorem runBody_fall_none {env : Env} {effs : List Term} (h : execBlock na env [] effs = none) :
    runBody na env (.fall effs) = none := by
  simp only [runBody, h]

/-! ### frames at rows -/

omit na in
theorem takeRows_cons (p : String × List Cell) (f : Frame) (idx : List Nat) :
    takeRows (p :: f) idx = (p.1, gather p.2 idx) :: takeRows f idx := rfl

omit na in
theorem names_takeRows (f : Frame) (idx : List Nat) : names (takeRows f idx) = names f := by
  simp [takeRows, names, List.map_map, Function.comp_def]

omit na in
theorem colOf?_takeRows (f : Frame) (idx : List Nat) (n : String) :
    colOf? (takeRows f idx) n = (colOf? f n).map (fun c => gather c idx) := by
  induction f with
  | nil => rfl
  | cons p t ih =>
    rw [takeRows_cons, PyEval.colOf?_cons, PyEval.colOf?_cons, ih]
    cases p.1 == n <;> rfl

omit na in
theorem nrow_takeRows {f : Frame} (h : f ≠ []) (idx : List Nat) : nrow (takeRows f idx) = idx.length := by
  cases f with
  | nil => exact absurd rfl h
  | cons p t => simp [takeRows_cons, nrow, gather]

omit na in
theorem gather_gather (c : List Cell) (a b : List Nat) (h : ∀ i ∈ b, i < a.length) :
    gather (gather c a) b = gather c (gather a b) := by
  unfold gather
  rw [List.map_map]
  apply List.map_congr_left
  intro i hi
  have hlt := h i hi
  simp [hlt]

omit na in
theorem takeRows_takeRows (f : Frame) (a b : List Nat) (h : ∀ i ∈ b, i < a.length) :
    takeRows (takeRows f a) b = takeRows f (gather a b) := by
  unfold takeRows
  rw [List.map_map]
  apply List.map_congr_left
  intro p _
  simp only [Function.comp]
  rw [gather_gather p.2 a b h]

omit na in
/-- the key columns of a frame that has all the names. -/
theorem keyCols_of_names {f : Frame} {cols : List String} (h : ∀ c ∈ cols, c ∈ names f) :
    keyCols f cols = some (cols.map (colOf f)) := by
  unfold keyCols
  exact PyEval.allSome_map _ _ _ (fun c hc => PyEval.colOf?_of_name (h c hc))

omit na in
theorem keyCols_takeRows {f : Frame} {cols : List String} (h : ∀ c ∈ cols, c ∈ names f) (idx : List Nat) :
    keyCols (takeRows f idx) cols = some ((cols.map (colOf f)).map (fun c => gather c idx)) := by
  unfold keyCols
  rw [List.map_map]
  apply PyEval.allSome_map
  intro c hc
  rw [colOf?_takeRows, PyEval.colOf?_of_name (h c hc)]
  rfl

omit na in
theorem ne_nil_of_names {f : Frame} {cols : List String} (hne : cols ≠ []) (h : ∀ c ∈ cols, c ∈ names f) : f ≠ [] := by
  cases cols with
  | nil => exact absurd rfl hne
  | cons c cs =>
    intro hf
    subst hf
    have := h c List.mem_cons_self
    simp [names] at this

omit na in
/-- **`other.drop_na(*by2).unique(*by2)` is the frame at the model's `rightReduced` rows.** -/
theorem reduced_frame {other : Frame} {cols : List String} (hne : cols ≠ []) (h : ∀ c ∈ cols, c ∈ names other) :
    (dropNaFrame other cols).bind (fun d => uniqueFrame d cols) =
      some (takeRows other (rightReduced (nrow other) (cols.map (colOf other)) true)) := by
  have hf := ne_nil_of_names hne h
  unfold dropNaFrame
  rw [keyCols_of_names h]
  simp only [Option.map_some, Option.bind_some]
  unfold uniqueFrame
  have hemp : cols.isEmpty = false := by cases cols <;> simp_all
  simp only [hemp, Bool.false_eq_true, if_false]
  rw [keyCols_takeRows h, nrow_takeRows hf]
  simp only [Option.map_some]
  rw [takeRows_takeRows]
  · rfl
  · intro i hi
    exact (mem_uniqueIdx.mp hi).1

/-! ### `found` and `src` in terms of the model's `joinSrc` -/

section JoinIdx

variable (n : Nat) (lk : List (List Cell)) (m : Nat) (rk : List (List Cell))

/-- the `src` vector `_get_join_indices` returns for the reduced right frame. -/
def srcVec : List Int :=
  joinPos (rowsOf n lk) (rowsOf (rightReduced m rk true).length (rk.map (fun c => gather c (rightReduced m rk true))))

omit na in
theorem srcVec_length : (srcVec n lk m rk).length = n := by simp [srcVec, joinPos, rowsOf]

omit na in
/-- position by position: `src[i]` is a valid position `p` of the reduced right frame and the model's `joinSrc` is the
    original row `red[p]`, or `src[i] = -1` and the model has no partner. -/
theorem srcVec_get (i : Nat) (hi : i < n) :
    (∃ p : Nat, p < (rightReduced m rk true).length ∧ (srcVec n lk m rk)[i]! = (p : Int) ∧
        (joinSrc n lk m rk)[i]! = some (rightReduced m rk true)[p]!) ∨
    ((srcVec n lk m rk)[i]! = -1 ∧ (joinSrc n lk m rk)[i]! = none) := by
  rw [joinSrc_get n lk m rk i hi]
  have hl : i < (rowsOf n lk).length := by rw [rowsOf_length']; exact hi
  have hs : (srcVec n lk m rk)[i]! =
      match ((rowsOf (rightReduced m rk true).length (rk.map (fun c => gather c (rightReduced m rk true)))).zipIdx.reverse.find?
              (fun p => p.1 == (rowsOf n lk)[i]!)) with
      | some p => ((p.2 : Nat) : Int)
      | none => -1 := by
    unfold srcVec joinPos
    rw [getElem!_pos _ i (by simpa using hl)]
    simp only [List.getElem_map]
    rw [getElem!_pos _ i hl]
    rfl
  rw [hs]
  cases hf : ((rowsOf (rightReduced m rk true).length (rk.map (fun c => gather c (rightReduced m rk true)))).zipIdx.reverse.find?
              (fun p => p.1 == (rowsOf n lk)[i]!)) with
  | none => right; exact ⟨rfl, rfl⟩
  | some p =>
    left
    obtain ⟨ht, _⟩ := find_rev_zipIdx_some _ _ p hf
    rw [rowsOf_length'] at ht
    exact ⟨p.2, ht, rfl, rfl⟩

omit na in
theorem srcVec_pos_iff (i : Nat) (hi : i < n) :
    decide ((srcVec n lk m rk)[i]! > -1) = ((joinSrc n lk m rk)[i]!).isSome := by
  rcases srcVec_get n lk m rk i hi with ⟨p, _, h1, h2⟩ | ⟨h1, h2⟩
  · rw [h1, h2]; simp; omega
  · rw [h1, h2]; simp

omit na in
/-- **`found` is the model's semi-join index list.** -/
theorem foundOf_srcVec : foundOf (srcVec n lk m rk) = semiJoinIdx n lk m rk := by
  rw [semiJoinIdx_eq]
  unfold foundOf
  rw [srcVec_length]
  apply List.filter_congr
  intro i hi
  exact srcVec_pos_iff n lk m rk i (List.mem_range.mp hi)

omit na in
theorem semi_lt {i : Nat} (h : i ∈ semiJoinIdx n lk m rk) : i < n := by
  rw [semiJoinIdx_eq, List.mem_filter, List.mem_range] at h; exact h.1

omit na in
theorem mem_semi_iff (i : Nat) (hi : i < n) :
    (semiJoinIdx n lk m rk).contains i = ((joinSrc n lk m rk)[i]!).isSome := by
  rw [semiJoinIdx_eq, Bool.eq_iff_iff, List.contains_iff_mem, List.mem_filter, List.mem_range]
  exact ⟨fun h => h.2, fun h => ⟨hi, h⟩⟩

omit na in
/-- **anti_join's rows**: deleting the `found` positions leaves the model's anti-join index list. -/
theorem deleteIdx_semi : deleteIdx n (semiJoinIdx n lk m rk) = antiJoinIdx n lk m rk := by
  rw [antiJoinIdx_eq]
  unfold deleteIdx
  apply List.filter_congr
  intro i hi
  rw [mem_semi_iff n lk m rk i (List.mem_range.mp hi)]
  cases (joinSrc n lk m rk)[i]! <;> rfl

/-- the cell an optional row id stands for: the row of the column, or the missing value. -/
def optCell (c : List Cell) : Option Nat → Cell
  | some j => c[j]!
  | none => na

/-- reading the reduced right column at `src[i]` gives the original column at the model's partner row. -/
theorem reduced_at_src (oc : List Cell) (i : Nat) (hi : i < n) (h : ((joinSrc n lk m rk)[i]!).isSome = true) :
    PyEval.InRange (rightReduced m rk true).length (srcVec n lk m rk)[i]! ∧
    (gather oc (rightReduced m rk true))[wrapIdx (rightReduced m rk true).length (srcVec n lk m rk)[i]!]! =
      optCell na oc (joinSrc n lk m rk)[i]! := by
  rcases srcVec_get n lk m rk i hi with ⟨p, hp, h1, h2⟩ | ⟨_, h2⟩
  · rw [h1, h2, PyEval.wrapIdx_ofNat]
    exact ⟨PyEval.inRange_ofNat hp, gather_get oc _ p hp⟩
  · rw [h2] at h; cases h

omit na in
theorem innerJoinPairs_eq_semi :
    innerJoinPairs n lk m rk = (semiJoinIdx n lk m rk).map (fun i => (some i, (joinSrc n lk m rk)[i]!)) := by
  rw [innerJoinPairs_eq, leftJoinPairs_eq, semiJoinIdx_eq, List.filter_map]
  rfl

end JoinIdx

/-! ### loops over the columns of a frame -/

/-- the stateless, total instance of the loop rule: every item appends `y a`. -/
theorem forResult_collect {α : Type} (pat : Term) (body : List Term) (mk : α → XVal) (Inv : Env → Prop) (y : α → Frame)
    (l : List α)
    (hstep : ∀ env out a, a ∈ l → Inv env → ∃ env1, bindPat env pat (mk a) = some env1 ∧
      ∃ fl env2, execBlock na env1 out body = some (fl, env2, out ++ y a) ∧ Inv env2)
    (env : Env) (out : Frame) (hinv : Inv env) :
    ∃ env', forResult na pat body env out (some (l.map mk)) = some (.next, env', out ++ l.flatMap y) ∧ Inv env' := by
  have := forResult_spec na pat body mk (fun (_ : Unit) => Inv) (fun (_ : Unit) a => some ((), y a)) l
    (fun _ env out a ha hi => hstep env out a ha hi) () env out hinv
  rw [foldSpec_total] at this
  exact this

omit na in
theorem items_ne_enumerate (a : Term) : ∀ e, Term.app ".items" [a] ≠ Term.app "enumerate" [e] := by
  intro e h
  injection h with h1 _
  exact absurd h1 (by decide)

def colItem (p : String × List Cell) : XVal := XVal.pair (.str p.1) (.col p.2)

def colPat : Term := .app "tuple" [.sym "colname", .sym "column"]

/-- `for colname, column in <frame>.items(): body`, every iteration appending `y (name, column)`. -/
theorem exec_forItems {vars : List String}
    (a : Term) (body : List Term) (f : Frame) (y : String × List Cell → Frame) (e0 : Env)
    (ha : ∀ e, Stable vars e0 e → evalExpr na e a = some (.frame f))
    (hbody : ∀ e out p, p ∈ f → Stable vars e0 e → ∃ fl env2,
      execBlock na (("column", .col p.2) :: ("colname", .str p.1) :: e) out body = some (fl, env2, out ++ y p) ∧
        Stable vars e0 env2)
    (env : Env) (out : Frame) (hs : Stable vars e0 env) :
    ∃ env', execStmt na env out (.app "for" [colPat, .app ".items" [a], .app "block" body]) =
      some (.next, env', out ++ f.flatMap y) ∧ Stable vars e0 env' := by
  have hitems : evalExpr na env (.app ".items" [a]) = some (.items (.frame f)) := by
    rw [evalPrim na (by decide) (evalArgs1 na (ha env hs))]; rfl
  rw [execStmt_for_plain na env out _ _ _ (items_ne_enumerate a), hitems]
  exact forResult_collect na colPat body colItem (Stable vars e0) y f
    (fun env out p hp hinv => ⟨("column", .col p.2) :: ("colname", .str p.1) :: env, rfl, hbody env out p hp hinv⟩)
    env out hs

theorem eval_colname (e : Env) (n : String) (c : List Cell) :
    evalExpr na (("column", .col c) :: ("colname", .str n) :: e) (.sym "colname") = some (.str n) := rfl

theorem eval_column (e : Env) (n : String) (c : List Cell) :
    evalExpr na (("column", .col c) :: ("colname", .str n) :: e) (.sym "column") = some (.col c) := rfl

/-- **every column goes through the same expression** (`perColumn g`). -/
theorem exec_perColumn {vars : List String} (hcn : "colname" ∈ vars) (hcl : "column" ∈ vars) (hsv : "self" ∉ vars)
    (g : Term → Term) (h : List Cell → List Cell) (e0 : Env) (self : Frame)
    (hself : Env.get? e0 "self" = some (.frame self))
    (hg : ∀ e p, p ∈ self → Stable vars e0 e →
      evalExpr na (("column", .col p.2) :: ("colname", .str p.1) :: e) (g (.sym "column")) = some (.col (h p.2)))
    (env : Env) (out : Frame) (hs : Stable vars e0 env) :
    ∃ env', execStmt na env out (perColumn g) = some (.next, env', out ++ self.map (fun p => (p.1, h p.2))) ∧
      Stable vars e0 env' := by
  have := exec_forItems na (.sym "self") [.app "yield" [.app "tuple" [.sym "colname", g (.sym "column")]]]
    self (fun p => [(p.1, h p.2)]) e0
    (fun e hst => eval_var na hst hsv (by decide) (by decide) (by decide) hself)
    (by
      intro e out p hp hst
      refine ⟨.next, ("column", .col p.2) :: ("colname", .str p.1) :: e, ?_,
        (hst.push hcn (.str p.1)).push hcl (.col p.2)⟩
      rw [execBlock_cons_next na (execStmt_yield na (eval_colname na e p.1 p.2) (hg e p hp hst))]
      exact execBlock_nil na _ _) env out hs
  rw [PyEval.flatMap_single] at this
  exact this

/-! ### the join bodies -/

open DI.Tie.C05

/-- the local variables of the join bodies. -/
def lvJoin : List String := ["colname", "column", "value", "dtype", "new"]

def leftNames (bys : List ByItem) : List String := bys.map ByItem.left
def rightNames (bys : List ByItem) : List String := bys.map ByItem.right

/-- a join call `self.xxx_join(other, *by)` with at least one key, all key names present, and a rectangular receiver. -/
structure JoinCall (e0 : Env) (lf rt : Frame) (bys : List ByItem) : Prop where
  hself : Env.get? e0 "self" = some (.frame lf)
  hother : Env.get? e0 "other" = some (.frame rt)
  hby : Env.get? e0 "by" = some (.byspec bys)
  hne : bys ≠ []
  hL : ∀ c ∈ leftNames bys, c ∈ names lf
  hR : ∀ c ∈ rightNames bys, c ∈ names rt
  hrect : Rect lf

/-- the left key columns, in `by` order. -/
def leftKeys (self : Frame) (bys : List ByItem) : List (List Cell) := (leftNames bys).map (colOf self)
/-- the right key columns, in `by` order. -/
def rightKeys (other : Frame) (bys : List ByItem) : List (List Cell) := (rightNames bys).map (colOf other)

section JoinBodies

variable {e0 : Env} {self other : Frame} {bys : List ByItem} (jc : JoinCall e0 self other bys)

local notation "LK" => leftKeys self bys
local notation "RK" => rightKeys other bys
local notation "RED" => rightReduced (nrow other) (rightKeys other bys) true
local notation "SEMI" => semiJoinIdx (nrow self) (leftKeys self bys) (nrow other) (rightKeys other bys)
local notation "SRC" => srcVec (nrow self) (leftKeys self bys) (nrow other) (rightKeys other bys)
local notation "JS" => joinSrc (nrow self) (leftKeys self bys) (nrow other) (rightKeys other bys)

include jc

theorem eval_split {e : Env} (hs : Stable lvJoin e0 e) :
    evalExpr na e split = some (.pair (.strs (leftNames bys)) (.strs (rightNames bys))) := by
  have hself := eval_var na hs (x := "self") (by decide) (by decide) (by decide) (by decide) jc.hself
  have hby := eval_var na hs (x := "by") (by decide) (by decide) (by decide) (by decide) jc.hby
  have hstar : evalExpr na e (.app "*" [.sym "by"]) = some (.star (.byspec bys)) := by
    rw [evalPrim na (by decide) (evalArgs1 na hby)]; rfl
  unfold split
  rw [evalPrim na (by decide) (evalArgs2 na hself hstar)]; rfl

theorem eval_by1 {e : Env} (hs : Stable lvJoin e0 e) : evalExpr na e by1 = some (.strs (leftNames bys)) := by
  unfold by1
  rw [evalPrim na (by decide) (evalArgs1 na (eval_split na jc hs))]; rfl

theorem eval_by2 {e : Env} (hs : Stable lvJoin e0 e) : evalExpr na e by2 = some (.strs (rightNames bys)) := by
  unfold by2
  rw [evalPrim na (by decide) (evalArgs1 na (eval_split na jc hs))]; rfl

omit na in
theorem rightNames_ne : rightNames bys ≠ [] := by
  have := jc.hne
  cases bys <;> simp_all [rightNames]

/-- **the reduced right frame** the bodies work with: `other` at the model's `rightReduced` rows. -/
theorem eval_reduced {e : Env} (hs : Stable lvJoin e0 e) :
    evalExpr na e reducedOther = some (.frame (takeRows other RED)) := by
  have hother := eval_var na hs (x := "other") (by decide) (by decide) (by decide) (by decide) jc.hother
  have hstar : evalExpr na e (.app "*" [by2]) = some (.star (.strs (rightNames bys))) := by
    rw [evalPrim na (by decide) (evalArgs1 na (eval_by2 na jc hs))]; rfl
  have hred := reduced_frame (rightNames_ne jc) jc.hR
  obtain ⟨d, hd, hu⟩ := Option.bind_eq_some_iff.mp hred
  have hdrop : evalExpr na e (.app ".drop_na" [.sym "other", .app "*" [by2]]) = some (.frame d) := by
    rw [evalPrim na (by decide) (evalArgs2 na hother hstar)]
    show (dropNaFrame other (rightNames bys)).map XVal.frame = _
    rw [hd]; rfl
  unfold reducedOther
  rw [evalPrim na (by decide) (evalArgs2 na hdrop hstar)]
  show (uniqueFrame d (rightNames bys)).map XVal.frame = _
  rw [hu]; rfl

omit na in
theorem other_ne : other ≠ [] := ne_nil_of_names (rightNames_ne jc) jc.hR

/-- **the trusted link, used**: `(found, src)` of the call on the reduced frame, with `found` = the model's semi-join rows. -/
theorem eval_joinIdx {e : Env} (hs : Stable lvJoin e0 e) :
    evalExpr na e joinIdx =
      some (.pair (.ints ((SEMI).map (fun (k : Nat) => (k : Int)))) (.ints SRC)) := by
  have hself := eval_var na hs (x := "self") (by decide) (by decide) (by decide) (by decide) jc.hself
  unfold joinIdx
  rw [evalPrim na (by decide) (evalArgs4 na hself (eval_reduced na jc hs) (eval_by1 na jc hs) (eval_by2 na jc hs))]
  show (joinIndices self (takeRows other RED) (leftNames bys) (rightNames bys)).map _ = _
  unfold joinIndices
  have h1 : ((leftNames bys).isEmpty || (leftNames bys).length != (rightNames bys).length) = false := by
    have := jc.hne
    cases bys <;> simp_all [leftNames, rightNames]
  rw [h1, keyCols_of_names jc.hL, keyCols_takeRows jc.hR, nrow_takeRows (other_ne jc)]
  simp only [Bool.false_eq_true, if_false, Option.map_some]
  have : foundOf (joinPos (rowsOf (nrow self) (List.map (colOf self) (leftNames bys)))
      (rowsOf (RED).length (List.map (fun c => gather c RED) (List.map (colOf other) (rightNames bys))))) = SEMI :=
    foundOf_srcVec (nrow self) LK (nrow other) RK
  rw [this]
  rfl

theorem eval_found {e : Env} (hs : Stable lvJoin e0 e) :
    evalExpr na e found = some (.ints ((SEMI).map (fun (k : Nat) => (k : Int)))) := by
  unfold found
  rw [evalPrim na (by decide) (evalArgs1 na (eval_joinIdx na jc hs))]; rfl

theorem eval_src {e : Env} (hs : Stable lvJoin e0 e) : evalExpr na e src = some (.ints SRC) := by
  unfold src
  rw [evalPrim na (by decide) (evalArgs1 na (eval_joinIdx na jc hs))]; rfl

omit na jc in
theorem stable_col {e : Env} (hs : Stable lvJoin e0 e) (n : String) (c : List Cell) :
    Stable lvJoin e0 (("column", .col c) :: ("colname", .str n) :: e) :=
  (hs.push (by decide) _).push (by decide) _

omit na in
theorem semi_lt_col {p : String × List Cell} (hp : p ∈ self) : ∀ k ∈ SEMI, k < p.2.length := by
  intro k hk
  rw [jc.hrect p hp]
  exact semi_lt _ _ _ _ hk

/-- `column[found]` for a column of the receiver. -/
theorem eval_col_found {e : Env} (hs : Stable lvJoin e0 e) {p : String × List Cell} (hp : p ∈ self) :
    evalExpr na (("column", .col p.2) :: ("colname", .str p.1) :: e)
      (.app "getitem" [.sym "column", found]) = some (.col (gather p.2 SEMI)) := by
  rw [evalPrim na (by decide) (evalArgs2 na (eval_column na e p.1 p.2) (eval_found na jc (stable_col hs p.1 p.2)))]
  show (npTake p.2 _).map XVal.col = _
  rw [PyEval.npTake_nat p.2 _ (semi_lt_col jc hp)]; rfl

/-- **semi_join**: every column of the receiver at the model's semi-join rows. -/
theorem exec_semi (env : Env) (out : Frame) (hs : Stable lvJoin e0 env) :
    ∃ env', execStmt na env out (perColumn (fun c => Term.app ".copy" [Term.app "getitem" [c, found]])) =
      some (.next, env', out ++ takeRows self SEMI) ∧ Stable lvJoin e0 env' :=
  exec_perColumn na (by decide) (by decide) (by decide) _ (fun c => gather c SEMI) e0 self jc.hself
    (by
      intro e p hp hst
      rw [evalPrim na (by decide) (evalArgs1 na (eval_col_found na jc hst hp))]; rfl) env out hs

/-- **anti_join**: every column of the receiver at the model's anti-join rows. -/
theorem exec_anti (env : Env) (out : Frame) (hs : Stable lvJoin e0 env) :
    ∃ env', execStmt na env out (perColumn (fun c => Term.app "np.delete" [c, found])) =
      some (.next, env', out ++ takeRows self (antiJoinIdx (nrow self) LK (nrow other) RK)) ∧ Stable lvJoin e0 env' :=
  exec_perColumn na (by decide) (by decide) (by decide) _
    (fun c => gather c (antiJoinIdx (nrow self) LK (nrow other) RK)) e0 self jc.hself
    (by
      intro e p hp hst
      rw [evalPrim na (by decide) (evalArgs2 na (eval_column na e p.1 p.2) (eval_found na jc (stable_col hst p.1 p.2)))]
      show (npDelete p.2 _).map XVal.col = _
      rw [PyEval.npDelete_nat p.2 _ (semi_lt_col jc hp), jc.hrect p hp, deleteIdx_semi]; rfl) env out hs

/-- the right columns a join adds: not a key column of the right frame, not a name the receiver has. -/
def isNewCol (self : Frame) (bys : List ByItem) (name : String) : Bool :=
  !(rightNames bys).contains name && !(names self).contains name

/-- **the loop over the reduced right frame** (`rightColumns body`): key columns and names the receiver has are skipped,
    every other column runs the body. -/
theorem exec_rightColumns (body : List Term) (hcol : List Cell → List Cell)
    (hbody : ∀ e out q, q ∈ takeRows other RED → Stable lvJoin e0 e → ∃ fl env2,
      execBlock na (("column", .col q.2) :: ("colname", .str q.1) :: e) out body =
        some (fl, env2, out ++ [(q.1, hcol q.2)]) ∧ Stable lvJoin e0 env2)
    (env : Env) (out : Frame) (hs : Stable lvJoin e0 env) :
    ∃ env', execStmt na env out (rightColumns body) =
      some (.next, env', out ++ ((takeRows other RED).filter (fun q => isNewCol self bys q.1)).map
        (fun q => (q.1, hcol q.2))) ∧ Stable lvJoin e0 env' := by
  have := exec_forItems na (vars := lvJoin) reducedOther
    ([Term.app "if" [Term.app "In" [Term.sym "colname", by2], Term.app "block" [Term.sym "continue"], Term.app "block" []],
      Term.app "if" [Term.app "In" [Term.sym "colname", Term.sym "self"], Term.app "block" [Term.sym "continue"], Term.app "block" []]] ++ body)
    (takeRows other RED) (fun q => if isNewCol self bys q.1 then [(q.1, hcol q.2)] else []) e0
    (fun e hst => eval_reduced na jc hst)
    (by
      intro e out q hq hst
      have hst1 := stable_col hst q.1 q.2
      have hin1 : evalExpr na (("column", .col q.2) :: ("colname", .str q.1) :: e)
          (Term.app "In" [Term.sym "colname", by2]) = some (.bool ((rightNames bys).contains q.1)) := by
        rw [evalPrim na (by decide) (evalArgs2 na (eval_colname na e q.1 q.2) (eval_by2 na jc hst1))]; rfl
      have hself := eval_var na hst1 (x := "self") (by decide) (by decide) (by decide) (by decide) jc.hself
      have hin2 : evalExpr na (("column", .col q.2) :: ("colname", .str q.1) :: e)
          (Term.app "In" [Term.sym "colname", Term.sym "self"]) = some (.bool ((names self).contains q.1)) := by
        rw [evalPrim na (by decide) (evalArgs2 na (eval_colname na e q.1 q.2) hself)]; rfl
      show ∃ fl env2, execBlock na _ out (_ :: _ :: body) = _ ∧ _
      unfold isNewCol
      cases h1 : (rightNames bys).contains q.1
      · rw [h1] at hin1
        rw [execBlock_noskip na hin1]
        cases h2 : (names self).contains q.1
        · rw [h2] at hin2
          rw [execBlock_noskip na hin2]
          exact hbody e out q hq hst
        · rw [h2] at hin2
          rw [execBlock_skip na hin2]
          exact ⟨.cont, _, by simp, hst1⟩
      · rw [h1] at hin1
        rw [execBlock_skip na hin1]
        exact ⟨.cont, _, by simp, hst1⟩) env out hs
  rw [PyEval.flatMap_ite] at this
  exact this

omit na jc in
theorem mem_takeRows {f : Frame} {idx : List Nat} {q : String × List Cell} (h : q ∈ takeRows f idx) :
    ∃ p ∈ f, q = (p.1, gather p.2 idx) := by
  obtain ⟨p, hp, rfl⟩ := List.mem_map.mp h
  exact ⟨p, hp, rfl⟩

omit na jc in
theorem reduced_col_length {q : String × List Cell} (h : q ∈ takeRows other RED) : q.2.length = (RED).length := by
  obtain ⟨p, _, rfl⟩ := mem_takeRows h
  simp [gather]

omit na jc in
theorem semi_isSome {i : Nat} (h : i ∈ SEMI) : ((JS)[i]!).isSome = true := by
  rw [semiJoinIdx_eq, List.mem_filter] at h; exact h.2

/-- `column[src[found]]` for a column of the reduced right frame: for every matched left row the cell at its `src`. -/
theorem eval_col_src_found {e : Env} (hs : Stable lvJoin e0 e) {q : String × List Cell} (hq : q ∈ takeRows other RED) :
    evalExpr na (("column", .col q.2) :: ("colname", .str q.1) :: e)
      (.app "getitem" [.sym "column", .app "getitem" [src, found]]) =
      some (.col ((SEMI).map (fun i => q.2[wrapIdx q.2.length (SRC)[i]!]!))) := by
  have hst1 := stable_col hs q.1 q.2
  have hsf : evalExpr na (("column", .col q.2) :: ("colname", .str q.1) :: e) (.app "getitem" [src, found]) =
      some (.ints (gather SRC SEMI)) := by
    rw [evalPrim na (by decide) (evalArgs2 na (eval_src na jc hst1) (eval_found na jc hst1))]
    show (npTake SRC _).map XVal.ints = _
    rw [PyEval.npTake_nat SRC _ (by
      intro k hk
      rw [srcVec_length]
      exact semi_lt _ _ _ _ hk)]
    rfl
  rw [evalPrim na (by decide) (evalArgs2 na (eval_column na e q.1 q.2) hsf)]
  show (npTake q.2 _).map XVal.col = _
  rw [PyEval.npTake_spec q.2 _ (by
    intro i hi
    obtain ⟨k, hk, rfl⟩ := List.mem_map.mp hi
    rw [reduced_col_length hq]
    exact (reduced_at_src na _ _ _ _ [] k (semi_lt _ _ _ _ hk) (semi_isSome hk)).1)]
  simp only [Option.map_some, gather, sliceIdx, List.map_map]
  rfl

/-- the column inner_join reads off a reduced right column. -/
def innerCol (self other : Frame) (bys : List ByItem) (c : List Cell) : List Cell :=
  (semiJoinIdx (nrow self) (leftKeys self bys) (nrow other) (rightKeys other bys)).map
    (fun i => c[wrapIdx c.length (srcVec (nrow self) (leftKeys self bys) (nrow other) (rightKeys other bys))[i]!]!)

/-- **inner_join, right part**: every new right column at `src[found]`. -/
theorem exec_inner_right (env : Env) (out : Frame) (hs : Stable lvJoin e0 env) :
    ∃ env', execStmt na env out (rightColumns [Term.app "yield" [Term.app "tuple" [Term.sym "colname",
         Term.app ".copy" [Term.app "getitem" [Term.sym "column", Term.app "getitem" [src, found]]]]]]) =
      some (.next, env', out ++ ((takeRows other RED).filter (fun q => isNewCol self bys q.1)).map
        (fun q => (q.1, innerCol self other bys q.2))) ∧ Stable lvJoin e0 env' :=
  exec_rightColumns na jc _ (innerCol self other bys)
    (by
      intro e out q hq hst
      refine ⟨.next, ("column", .col q.2) :: ("colname", .str q.1) :: e, ?_, stable_col hst q.1 q.2⟩
      have hc : evalExpr na (("column", .col q.2) :: ("colname", .str q.1) :: e)
          (Term.app ".copy" [Term.app "getitem" [Term.sym "column", Term.app "getitem" [src, found]]]) =
          some (.col (innerCol self other bys q.2)) := by
        rw [evalPrim na (by decide) (evalArgs1 na (eval_col_src_found na jc hst hq))]; rfl
      rw [execBlock_cons_next na (execStmt_yield na (eval_colname na e q.1 q.2) hc)]
      exact execBlock_nil na _ _) env out hs

omit na jc in
/-- writing `g k` at every listed position `k`, in order. -/
theorem foldl_set_spec {α : Type} [Inhabited α] (g : Nat → α) (ks : List Nat) : ∀ c : List α,
    (ks.map (fun k => (k, g k))).foldl (fun acc p => acc.set p.1 p.2) c =
      (List.range c.length).map (fun i => if ks.contains i then g i else c[i]!) := by
  induction ks with
  | nil =>
    intro c
    simp only [List.map_nil, List.foldl_nil, List.contains_nil, Bool.false_eq_true, if_false]
    exact (PyEval.map_range_getElem! c).symm
  | cons k t ih =>
    intro c
    simp only [List.map_cons, List.foldl_cons]
    rw [ih (c.set k (g k)), List.length_set]
    apply List.map_congr_left
    intro i hi
    have hi' : i < c.length := List.mem_range.mp hi
    have hi'' : i < (c.set k (g k)).length := by rw [List.length_set]; exact hi'
    rw [getElem!_pos _ i hi'', getElem!_pos _ i hi', List.getElem_set]
    simp only [List.contains_cons]
    by_cases hik : k = i
    · subst hik
      simp
    · have : (i == k) = false := by simpa using fun h => hik h.symm
      simp [hik, this]

omit na jc in
theorem zip_map_self {α β : Type} (g : α → β) (ks : List α) : ks.zip (ks.map g) = ks.map (fun k => (k, g k)) := by
  induction ks with
  | nil => rfl
  | cons k t ih => simp [ih]

omit na jc in
/-- **`c[ks] = [g k for k in ks]`** for valid positions: position `i` holds `g i` if listed, else its old value. -/
theorem npPut_spec {α : Type} [Inhabited α] (c : List α) (ks : List Nat) (g : Nat → α) (h : ∀ k ∈ ks, k < c.length) :
    npPut c (ks.map (fun (k : Nat) => (k : Int))) (ks.map g) =
      some ((List.range c.length).map (fun i => if ks.contains i then g i else c[i]!)) := by
  unfold npPut
  have hlen : ¬ ((ks.map (fun (k : Nat) => (k : Int))).length ≠ (ks.map g).length) := by simp
  rw [if_neg hlen, List.map_map]
  have hall : allSome (ks.map (normIdx c.length ∘ fun (k : Nat) => (k : Int))) = some (ks.map id) := by
    apply PyEval.allSome_map
    intro k hk
    simp only [Function.comp, id]
    rw [PyEval.normIdx_of_inRange (PyEval.inRange_ofNat (h k hk)), PyEval.wrapIdx_ofNat]
  rw [hall]
  simp only [List.map_id]
  rw [zip_map_self, foldl_set_spec]

/-- the column left_join builds from a reduced right column: the missing value, overwritten at the matched rows. -/
def leftCol (self other : Frame) (bys : List ByItem) (c : List Cell) : List Cell :=
  (List.range (nrow self)).map (fun i =>
    if (semiJoinIdx (nrow self) (leftKeys self bys) (nrow other) (rightKeys other bys)).contains i
    then c[wrapIdx c.length (srcVec (nrow self) (leftKeys self bys) (nrow other) (rightKeys other bys))[i]!]!
    else na)

omit jc in
theorem prim_repeat (c : List Cell) (n : Int) :
    prim na ".repeat" [.col c, .int n] =
      if 0 ≤ n then some (.col (c.flatMap (fun x => List.replicate n.toNat x))) else none := rfl

omit jc in
theorem get?_skip3 (e : Env) (a b c : String × XVal) (x : String) (ha : a.1 ≠ x) (hb : b.1 ≠ x) (hc : c.1 ≠ x) :
    Env.get? (a :: b :: c :: e) x = Env.get? e x := by
  obtain ⟨a1, a2⟩ := a; obtain ⟨b1, b2⟩ := b; obtain ⟨c1, c2⟩ := c
  rw [get?_cons_ne a2 _ ha, get?_cons_ne b2 _ hb, get?_cons_ne c2 _ hc]

/-- **left_join, right part**: every new right column = `nrow` missing values, the matched rows overwritten with the
    reduced right column at `src[found]`. -/
theorem exec_left_right (env : Env) (out : Frame) (hs : Stable lvJoin e0 env) :
    ∃ env', execStmt na env out (rightColumns
        [Term.app "assign" [Term.sym "value", Term.app ".na_value" [Term.sym "column"]],
         Term.app "assign" [Term.sym "dtype", Term.app ".na_dtype" [Term.sym "column"]],
         Term.app "assign" [Term.sym "new", Term.app ".repeat" [Term.app "Vector.fast" [Term.app "list" [Term.sym "value"], Term.sym "dtype"], Term.app ".nrow" [Term.sym "self"]]],
         Term.app "store" [Term.app "getitem" [Term.sym "new", found], Term.app "getitem" [Term.sym "column", Term.app "getitem" [src, found]]],
         Term.app "yield" [Term.app "tuple" [Term.sym "colname", Term.app ".copy" [Term.sym "new"]]]]) =
      some (.next, env', out ++ ((takeRows other RED).filter (fun q => isNewCol self bys q.1)).map
        (fun q => (q.1, leftCol na self other bys q.2))) ∧ Stable lvJoin e0 env' :=
  exec_rightColumns na jc _ (leftCol na self other bys)
    (by
      intro e out q hq hst
      have hst1 := stable_col hst q.1 q.2
      -- value = column.na_value
      have hv : evalExpr na (("column", .col q.2) :: ("colname", .str q.1) :: e)
          (Term.app ".na_value" [Term.sym "column"]) = some (.cell na) := by
        rw [evalPrim na (by decide) (evalArgs1 na (eval_column na e q.1 q.2))]; rfl
      rw [execBlock_cons_next na (execStmt_assign na hv)]
      have hst2 : Stable lvJoin e0 (("value", .cell na) :: ("column", .col q.2) :: ("colname", .str q.1) :: e) :=
        hst1.push (by decide) _
      -- dtype = column.na_dtype
      have hd : evalExpr na (("value", .cell na) :: ("column", .col q.2) :: ("colname", .str q.1) :: e)
          (Term.app ".na_dtype" [Term.sym "column"]) = some .dtype := by
        have : evalExpr na (("value", .cell na) :: ("column", .col q.2) :: ("colname", .str q.1) :: e)
            (.sym "column") = some (.col q.2) := rfl
        rw [evalPrim na (by decide) (evalArgs1 na this)]; rfl
      rw [execBlock_cons_next na (execStmt_assign na hd)]
      have hst3 : Stable lvJoin e0
          (("dtype", .dtype) :: ("value", .cell na) :: ("column", .col q.2) :: ("colname", .str q.1) :: e) :=
        hst2.push (by decide) _
      -- new = Vector.fast([value], dtype).repeat(self.nrow)
      have hself := eval_var na hst3 (x := "self") (by decide) (by decide) (by decide) (by decide) jc.hself
      have hn : evalExpr na (("dtype", .dtype) :: ("value", .cell na) :: ("column", .col q.2) :: ("colname", .str q.1) :: e)
          (Term.app ".repeat" [Term.app "Vector.fast" [Term.app "list" [Term.sym "value"], Term.sym "dtype"],
            Term.app ".nrow" [Term.sym "self"]]) = some (.col (List.replicate (nrow self) na)) := by
        have h1 : evalExpr na (("dtype", .dtype) :: ("value", .cell na) :: ("column", .col q.2) :: ("colname", .str q.1) :: e)
            (Term.app "Vector.fast" [Term.app "list" [Term.sym "value"], Term.sym "dtype"]) = some (.col [na]) := by
          rw [evalExpr_fast]
          have : evalExpr na (("dtype", .dtype) :: ("value", .cell na) :: ("column", .col q.2) :: ("colname", .str q.1) :: e)
              (.sym "value") = some (.cell na) := rfl
          rw [evalPrim na (by decide) (evalArgs1 na this)]; rfl
        have h2 : evalExpr na (("dtype", .dtype) :: ("value", .cell na) :: ("column", .col q.2) :: ("colname", .str q.1) :: e)
            (Term.app ".nrow" [Term.sym "self"]) = some (.int (nrow self : Nat)) := by
          rw [evalPrim na (by decide) (evalArgs1 na hself)]; rfl
        rw [evalPrim na (by decide) (evalArgs2 na h1 h2)]
        rw [prim_repeat, if_pos (by omega)]
        simp
      rw [execBlock_cons_next na (execStmt_assign na hn)]
      have hst4 : Stable lvJoin e0 (("new", .col (List.replicate (nrow self) na)) ::
          ("dtype", .dtype) :: ("value", .cell na) :: ("column", .col q.2) :: ("colname", .str q.1) :: e) :=
        hst3.push (by decide) _
      -- new[found] = column[src[found]]
      have hvals := eval_col_src_found na jc hst hq
      have hvals' : evalExpr na (("new", .col (List.replicate (nrow self) na)) ::
          ("dtype", .dtype) :: ("value", .cell na) :: ("column", .col q.2) :: ("colname", .str q.1) :: e)
          (.app "getitem" [.sym "column", .app "getitem" [src, found]]) =
          some (.col ((SEMI).map (fun i => q.2[wrapIdx q.2.length (SRC)[i]!]!))) := by
        have hsf : evalExpr na (("new", .col (List.replicate (nrow self) na)) ::
            ("dtype", .dtype) :: ("value", .cell na) :: ("column", .col q.2) :: ("colname", .str q.1) :: e)
            (.app "getitem" [src, found]) = some (.ints (gather SRC SEMI)) := by
          rw [evalPrim na (by decide) (evalArgs2 na (eval_src na jc hst4) (eval_found na jc hst4))]
          show (npTake SRC _).map XVal.ints = _
          rw [PyEval.npTake_nat SRC _ (by
            intro k hk
            rw [srcVec_length]
            exact semi_lt _ _ _ _ hk)]
          rfl
        have hcol : evalExpr na (("new", .col (List.replicate (nrow self) na)) ::
            ("dtype", .dtype) :: ("value", .cell na) :: ("column", .col q.2) :: ("colname", .str q.1) :: e)
            (.sym "column") = some (.col q.2) := rfl
        rw [evalPrim na (by decide) (evalArgs2 na hcol hsf)]
        show (npTake q.2 _).map XVal.col = _
        rw [PyEval.npTake_spec q.2 _ (by
          intro i hi
          obtain ⟨k, hk, rfl⟩ := List.mem_map.mp hi
          rw [reduced_col_length hq]
          exact (reduced_at_src na _ _ _ _ [] k (semi_lt _ _ _ _ hk) (semi_isSome hk)).1)]
        simp only [Option.map_some, gather, sliceIdx, List.map_map]
        rfl
      have hput : npPut (List.replicate (nrow self) na) ((SEMI).map (fun (k : Nat) => (k : Int)))
          ((SEMI).map (fun i => q.2[wrapIdx q.2.length (SRC)[i]!]!)) = some (leftCol na self other bys q.2) := by
        rw [npPut_spec _ _ _ (by
          intro k hk
          rw [List.length_replicate]
          exact semi_lt _ _ _ _ hk)]
        unfold leftCol
        rw [List.length_replicate]
        congr 1
        apply List.map_congr_left
        intro i hi
        have hi' : i < nrow self := List.mem_range.mp hi
        split
        · rfl
        · rw [getElem!_pos _ i (by simpa using hi')]
          simp
      have hstore := execStmt_store na (out := out) (x := "new")
        (env := ("new", .col (List.replicate (nrow self) na)) ::
          ("dtype", .dtype) :: ("value", .cell na) :: ("column", .col q.2) :: ("colname", .str q.1) :: e)
        (get?_cons_self "new" _ _) (eval_found na jc hst4) hvals' hput
      rw [execBlock_cons_next na hstore]
      -- yield colname, new.copy()
      have hcn : evalExpr na (("new", .col (leftCol na self other bys q.2)) ::
          ("new", .col (List.replicate (nrow self) na)) ::
          ("dtype", .dtype) :: ("value", .cell na) :: ("column", .col q.2) :: ("colname", .str q.1) :: e)
          (.sym "colname") = some (.str q.1) := rfl
      have hcp : evalExpr na (("new", .col (leftCol na self other bys q.2)) ::
          ("new", .col (List.replicate (nrow self) na)) ::
          ("dtype", .dtype) :: ("value", .cell na) :: ("column", .col q.2) :: ("colname", .str q.1) :: e)
          (Term.app ".copy" [Term.sym "new"]) = some (.col (leftCol na self other bys q.2)) := by
        have : evalExpr na (("new", .col (leftCol na self other bys q.2)) ::
            ("new", .col (List.replicate (nrow self) na)) ::
            ("dtype", .dtype) :: ("value", .cell na) :: ("column", .col q.2) :: ("colname", .str q.1) :: e)
            (.sym "new") = some (.col (leftCol na self other bys q.2)) := rfl
        rw [evalPrim na (by decide) (evalArgs1 na this)]; rfl
      rw [execBlock_cons_next na (execStmt_yield na hcn hcp)]
      exact ⟨.next, _, execBlock_nil na _ _, hst4.push (by decide) _⟩) env out hs

end JoinBodies

/-! ### the joins against the model's pairs -/

/-- **the model's join pairs read off the two frames**: every column of the receiver at the left ids, then every new
    column of the right frame (not a right key, not a name of the receiver) at the right ids of `Model/Group.lean`'s
    pairs — a missing id (`none`) is the missing value. -/
def joinFrame (self other : Frame) (bys : List ByItem) (pairs : List (Option Nat × Option Nat)) : Frame :=
  self.map (fun p => (p.1, pairs.map (fun pr => optCell na p.2 pr.1))) ++
  (other.filter (fun p => isNewCol self bys p.1)).map (fun p => (p.1, pairs.map (fun pr => optCell na p.2 pr.2)))

section JoinModel

variable (self other : Frame) (bys : List ByItem)

local notation "LK" => leftKeys self bys
local notation "RK" => rightKeys other bys
local notation "RED" => rightReduced (nrow other) (rightKeys other bys) true
local notation "SEMI" => semiJoinIdx (nrow self) (leftKeys self bys) (nrow other) (rightKeys other bys)
local notation "SRC" => srcVec (nrow self) (leftKeys self bys) (nrow other) (rightKeys other bys)
local notation "JS" => joinSrc (nrow self) (leftKeys self bys) (nrow other) (rightKeys other bys)

theorem semi_rows_eq_pairs :
    takeRows self SEMI =
      self.map (fun p => (p.1, (innerJoinPairs (nrow self) LK (nrow other) RK).map (fun pr => optCell na p.2 pr.1))) := by
  rw [innerJoinPairs_eq_semi]
  unfold takeRows
  apply List.map_congr_left
  intro p _
  rw [List.map_map]
  rfl

theorem innerCol_eq_pairs (oc : List Cell) :
    innerCol self other bys (gather oc RED) =
      (innerJoinPairs (nrow self) LK (nrow other) RK).map (fun pr => optCell na oc pr.2) := by
  rw [innerJoinPairs_eq_semi, List.map_map]
  unfold innerCol
  apply List.map_congr_left
  intro i hi
  have hlen : (gather oc RED).length = (RED).length := by simp [gather]
  rw [hlen]
  have hsome : ((JS)[i]!).isSome = true := by
    rw [semiJoinIdx_eq, List.mem_filter] at hi; exact hi.2
  exact (reduced_at_src na _ _ _ _ oc i (semi_lt _ _ _ _ hi) hsome).2

theorem leftCol_eq_pairs (oc : List Cell) :
    leftCol na self other bys (gather oc RED) =
      (leftJoinPairs (nrow self) LK (nrow other) RK).map (fun pr => optCell na oc pr.2) := by
  rw [leftJoinPairs_eq, List.map_map]
  unfold leftCol
  apply List.map_congr_left
  intro i hi
  have hi' : i < nrow self := List.mem_range.mp hi
  have hlen : (gather oc RED).length = (RED).length := by simp [gather]
  rw [hlen, mem_semi_iff _ _ _ _ i hi']
  simp only [Function.comp]
  cases hjs : (JS)[i]! with
  | none => rfl
  | some j =>
    have := (reduced_at_src na _ _ _ _ oc i hi' (by rw [hjs]; rfl)).2
    rw [hjs] at this
    simpa using this

theorem own_rows_eq_pairs (hrect : Rect self) :
    self.map (fun p => (p.1, p.2)) =
      self.map (fun p => (p.1, (leftJoinPairs (nrow self) LK (nrow other) RK).map (fun pr => optCell na p.2 pr.1))) := by
  rw [leftJoinPairs_eq]
  apply List.map_congr_left
  intro p hp
  rw [List.map_map]
  congr 1
  have := PyEval.map_range_getElem! p.2
  rw [hrect p hp] at this
  exact this.symm

omit na in
/-- the new columns of the reduced right frame are those of the right frame, at the reduced rows. -/
theorem new_cols_reduced (hcol : List Cell → List Cell) :
    ((takeRows other RED).filter (fun q => isNewCol self bys q.1)).map (fun q => (q.1, hcol q.2)) =
      (other.filter (fun p => isNewCol self bys p.1)).map (fun p => (p.1, hcol (gather p.2 RED))) := by
  unfold takeRows
  rw [List.filter_map, List.map_map]
  rfl

end JoinModel

section JoinRuns

variable {e0 : Env} {self other : Frame} {bys : List ByItem} (jc : JoinCall e0 self other bys)
include jc

theorem run_semi :
    runBody na e0 (.fall [perColumn (fun c => Term.app ".copy" [Term.app "getitem" [c, found]])]) =
      some (takeRows self (semiJoinIdx (nrow self) (leftKeys self bys) (nrow other) (rightKeys other bys))) := by
  obtain ⟨env', h, _⟩ := exec_semi na jc e0 [] (Stable.refl _ _)
  have := execBlock_cons_next na (ss := []) h
  rw [execBlock_nil] at this
  rw [runBody_fall na this]; rfl

theorem run_anti :
    runBody na e0 (.fall [perColumn (fun c => Term.app "np.delete" [c, found])]) =
      some (takeRows self (antiJoinIdx (nrow self) (leftKeys self bys) (nrow other) (rightKeys other bys))) := by
  obtain ⟨env', h, _⟩ := exec_anti na jc e0 [] (Stable.refl _ _)
  have := execBlock_cons_next na (ss := []) h
  rw [execBlock_nil] at this
  rw [runBody_fall na this]; rfl

theorem run_inner :
    runBody na e0 (.fall
      [perColumn (fun c => Term.app ".copy" [Term.app "getitem" [c, found]]),
       rightColumns [Term.app "yield" [Term.app "tuple" [Term.sym "colname",
         Term.app ".copy" [Term.app "getitem" [Term.sym "column", Term.app "getitem" [src, found]]]]]]]) =
      some (joinFrame na self other bys
        (innerJoinPairs (nrow self) (leftKeys self bys) (nrow other) (rightKeys other bys))) := by
  obtain ⟨env1, h1, hs1⟩ := exec_semi na jc e0 [] (Stable.refl _ _)
  obtain ⟨env2, h2, _⟩ := exec_inner_right na jc env1 _ hs1
  have := execBlock_cons_next na (ss := [rightColumns [Term.app "yield" [Term.app "tuple" [Term.sym "colname",
         Term.app ".copy" [Term.app "getitem" [Term.sym "column", Term.app "getitem" [src, found]]]]]]]) h1
  rw [execBlock_cons_next na h2, execBlock_nil] at this
  rw [runBody_fall na this]
  unfold joinFrame
  rw [new_cols_reduced, semi_rows_eq_pairs na]
  simp only [List.nil_append]
  congr 2
  apply List.map_congr_left
  intro p _
  rw [innerCol_eq_pairs na]

theorem run_left :
    runBody na e0 (.fall
      [perColumn (fun c => Term.app ".copy" [c]),
       rightColumns
        [Term.app "assign" [Term.sym "value", Term.app ".na_value" [Term.sym "column"]],
         Term.app "assign" [Term.sym "dtype", Term.app ".na_dtype" [Term.sym "column"]],
         Term.app "assign" [Term.sym "new", Term.app ".repeat" [Term.app "Vector.fast" [Term.app "list" [Term.sym "value"], Term.sym "dtype"], Term.app ".nrow" [Term.sym "self"]]],
         Term.app "store" [Term.app "getitem" [Term.sym "new", found], Term.app "getitem" [Term.sym "column", Term.app "getitem" [src, found]]],
         Term.app "yield" [Term.app "tuple" [Term.sym "colname", Term.app ".copy" [Term.sym "new"]]]]]) =
      some (joinFrame na self other bys
        (leftJoinPairs (nrow self) (leftKeys self bys) (nrow other) (rightKeys other bys))) := by
  obtain ⟨env1, h1, hs1⟩ := exec_perColumn na (vars := lvJoin) (by decide) (by decide) (by decide)
    (fun c => Term.app ".copy" [c]) (fun c => c) e0 self jc.hself
    (by
      intro e p _ _
      rw [evalPrim na (by decide) (evalArgs1 na (eval_column na e p.1 p.2))]; rfl) e0 [] (Stable.refl _ _)
  obtain ⟨env2, h2, _⟩ := exec_left_right na jc env1 _ hs1
  have := execBlock_cons_next na (ss := [rightColumns
        [Term.app "assign" [Term.sym "value", Term.app ".na_value" [Term.sym "column"]],
         Term.app "assign" [Term.sym "dtype", Term.app ".na_dtype" [Term.sym "column"]],
         Term.app "assign" [Term.sym "new", Term.app ".repeat" [Term.app "Vector.fast" [Term.app "list" [Term.sym "value"], Term.sym "dtype"], Term.app ".nrow" [Term.sym "self"]]],
         Term.app "store" [Term.app "getitem" [Term.sym "new", found], Term.app "getitem" [Term.sym "column", Term.app "getitem" [src, found]]],
         Term.app "yield" [Term.app "tuple" [Term.sym "colname", Term.app ".copy" [Term.sym "new"]]]]]) h1
  rw [execBlock_cons_next na h2, execBlock_nil] at this
  rw [runBody_fall na this]
  unfold joinFrame
  rw [new_cols_reduced, own_rows_eq_pairs na self other bys jc.hrect]
  simp only [List.nil_append]
  congr 2
  apply List.map_congr_left
  intro p _
  rw [leftCol_eq_pairs na]

end JoinRuns

/-! ### `_split_join_by` -/

/-- one side of `_split_join_by`: `[x if isinstance(x, str) else x[i] for x in by]`. -/
def pickTerm (i : Int) : Term :=
  Term.app "ListComp" [Term.app "ifexp" [Term.app "isinstance" [Term.sym "x", Term.sym "str"], Term.sym "x",
    Term.app "getitem" [Term.sym "x", Term.int i]], Term.app "in" [Term.sym "x", Term.sym "by", Term.app "if" []]]

theorem eval_pick (env : Env) (bys : List ByItem) (hby : Env.get? env "by" = some (.byspec bys)) (i : Int)
    (side : ByItem → String)
    (hside : ∀ l r, prim na "getitem" [.pair (.str l) (.str r), .int i] = some (.str (side (.pair l r))))
    (hname : ∀ s, side (.name s) = s) :
    evalExpr na env (pickTerm i) = some (.strs (bys.map side)) := by
  unfold pickTerm
  rw [evalExpr_listcomp, evalExpr_sym na env "by" (by decide) (by decide) (by decide), hby]
  show (allSome ((bys.map ByItem.toVal).map _)).map XVal.strs = _
  rw [List.map_map, PyEval.allSome_map _ side]
  · rfl
  intro b _
  simp only [Function.comp]
  show (match evalExpr na (("x", b.toVal) :: env) _ with
    | some (.str n) => some n
    | _ => none) = _
  have hx : evalExpr na (("x", b.toVal) :: env) (.sym "x") = some b.toVal := rfl
  rw [evalExpr_ifexp, evalExpr_isinstance_str, hx]
  cases b with
  | name s => simp [ByItem.toVal, hname]
  | pair l r =>
    have hx' : evalExpr na (("x", (XVal.str l).pair (XVal.str r)) :: env) (.sym "x") =
        some ((XVal.str l).pair (XVal.str r)) := rfl
    have hi : evalExpr na (("x", (XVal.str l).pair (XVal.str r)) :: env) (.int i) = some (.int i) := by rw [evalExpr]
    simp only [ByItem.toVal]
    rw [evalPrim na (f := "getitem") (by decide) (evalArgs2 na hx' hi), hside]

/-- **the regenerated body of `_split_join_by`** returns (left names, right names): a plain name stands for itself on
    both sides, a pair gives its two components — the meaning the evaluator gives the call `self._split_join_by(*by)`. -/
theorem run_split_join_by (env : Env) (bys : List ByItem) (hby : Env.get? env "by" = some (.byspec bys)) :
    runRet na env (Out.ret [] (Term.app "tuple" [pickTerm 0, pickTerm 1])) =
      some (.pair (.strs (leftNames bys)) (.strs (rightNames bys))) := by
  show evalExpr na env _ = _
  rw [evalExpr_tuple, eval_pick na env bys hby 0 ByItem.left (fun _ _ => rfl) (fun _ => rfl),
    eval_pick na env bys hby 1 ByItem.right (fun _ _ => rfl) (fun _ => rfl)]
  rfl

/-! ### the trusted links, stated -/

omit na in
theorem takeRows_eq_wholeRows (f : Frame) (idx : List Nat) : takeRows f idx = PyEval.wholeRows f idx := rfl

omit na in
/-- **`_get_join_indices` on the reduced right frame is the model's `joinSrc`**: the call returns
    `(found, src)` with `found` = the model's semi-join rows and `src` the vector `srcVec`, which `srcVec_get` relates to
    `joinSrc` position by position. -/
theorem joinIndices_reduced (self other : Frame) (bys : List ByItem) (hne : bys ≠ [])
    (hL : ∀ c ∈ leftNames bys, c ∈ names self) (hR : ∀ c ∈ rightNames bys, c ∈ names other) :
    joinIndices self (takeRows other (rightReduced (nrow other) (rightKeys other bys) true)) (leftNames bys) (rightNames bys) =
      some ((semiJoinIdx (nrow self) (leftKeys self bys) (nrow other) (rightKeys other bys)).map (fun (k : Nat) => (k : Int)),
            srcVec (nrow self) (leftKeys self bys) (nrow other) (rightKeys other bys)) := by
  unfold joinIndices
  have h1 : ((leftNames bys).isEmpty || (leftNames bys).length != (rightNames bys).length) = false := by
    cases bys <;> simp_all [leftNames, rightNames]
  have hrn : rightNames bys ≠ [] := by cases bys <;> simp_all [rightNames]
  rw [h1, keyCols_of_names hL, keyCols_takeRows hR, nrow_takeRows (ne_nil_of_names hrn hR)]
  simp only [Bool.false_eq_true, if_false]
  have : foundOf (joinPos (rowsOf (nrow self) (List.map (colOf self) (leftNames bys)))
      (rowsOf (rightReduced (nrow other) (rightKeys other bys) true).length
        (List.map (fun c => gather c (rightReduced (nrow other) (rightKeys other bys) true))
          (List.map (colOf other) (rightNames bys))))) =
      semiJoinIdx (nrow self) (leftKeys self bys) (nrow other) (rightKeys other bys) :=
    foundOf_srcVec (nrow self) (leftKeys self bys) (nrow other) (rightKeys other bys)
  rw [this]
  rfl

omit na in
/-- semi_join's and anti_join's rows, stacked column by column, are the receiver's rows under ONE permutation. -/
theorem semi_anti_frames (self : Frame) (n : Nat) (lk : List (List Cell)) (m : Nat) (rk : List (List Cell))
    (hn : n = nrow self) (hrect : Rect self) :
    List.zipWith (fun p q => (p.1, p.2 ++ q.2)) (PyEval.wholeRows self (semiJoinIdx n lk m rk))
        (PyEval.wholeRows self (antiJoinIdx n lk m rk)) =
      PyEval.wholeRows self (semiJoinIdx n lk m rk ++ antiJoinIdx n lk m rk) ∧
    ∀ p ∈ self, (gather p.2 (semiJoinIdx n lk m rk) ++ gather p.2 (antiJoinIdx n lk m rk)).Perm p.2 := by
  refine ⟨?_, ?_⟩
  · simp only [PyEval.wholeRows, PyEval.zipWith_map_same, PyEval.gather_append]
  · intro p hp
    rw [← PyEval.gather_append]
    apply PyEval.gather_perm
    rw [hrect p hp, ← hn]
    exact DI.semi_anti_partition n lk m rk

omit na in
/-- every column of a join result built from `pairs` has one cell per pair. -/
theorem joinFrame_rect (na : Cell) (self other : Frame) (bys : List ByItem) (pairs : List (Option Nat × Option Nat)) :
    ∀ p ∈ joinFrame na self other bys pairs, p.2.length = pairs.length := by
  intro p hp
  unfold joinFrame at hp
  rcases List.mem_append.mp hp with h | h
  · obtain ⟨q, _, rfl⟩ := List.mem_map.mp h; simp
  · obtain ⟨q, _, rfl⟩ := List.mem_map.mp h; simp

/-! ### specification folds -/

section FoldSpec

omit na

theorem foldSpec_nil {σ α β : Type} (f : σ → α → Option (σ × List β)) (s : σ) : foldSpec f s [] = some (s, []) := rfl

theorem foldSpec_cons {σ α β : Type} (f : σ → α → Option (σ × List β)) (s : σ) (a : α) (t : List α) :
    foldSpec f s (a :: t) = (f s a).bind (fun r => (foldSpec f r.1 t).map (fun r' => (r'.1, r.2 ++ r'.2))) := by
  simp only [foldSpec]
  cases f s a with
  | none => rfl
  | some r =>
    simp only [Option.bind_some]
    cases foldSpec f r.1 t <;> rfl

theorem foldSpec_append {σ α β : Type} (f : σ → α → Option (σ × List β)) (s : σ) (l1 l2 : List α) :
    foldSpec f s (l1 ++ l2) =
      (foldSpec f s l1).bind (fun r => (foldSpec f r.1 l2).map (fun r' => (r'.1, r.2 ++ r'.2))) := by
  induction l1 generalizing s with
  | nil =>
    simp only [List.nil_append, foldSpec_nil, Option.bind_some, List.nil_append]
    cases foldSpec f s l2 <;> rfl
  | cons a t ih =>
    rw [List.cons_append, foldSpec_cons, foldSpec_cons]
    cases f s a with
    | none => rfl
    | some r =>
      simp only [Option.bind_some]
      rw [ih]
      cases foldSpec f r.1 t with
      | none => rfl
      | some r1 =>
        simp only [Option.bind_some, Option.map_some]
        cases foldSpec f r1.1 l2 with
        | none => rfl
        | some r2 => simp

theorem foldSpec_map {σ α α' β : Type} (f : σ → α' → Option (σ × List β)) (φ : α → α') (s : σ) (l : List α) :
    foldSpec f s (l.map φ) = foldSpec (fun s a => f s (φ a)) s l := by
  induction l generalizing s with
  | nil => rfl
  | cons a t ih =>
    rw [List.map_cons, foldSpec_cons, foldSpec_cons]
    cases f s (φ a) with
    | none => rfl
    | some r => simp only [Option.bind_some]; rw [ih]

/-- a loop over items each of which runs a loop = one loop over all the inner items. -/
theorem foldSpec_flatMap {σ α γ β : Type} (g : σ → γ → Option (σ × List β)) (ψ : α → List γ) (s : σ) (l : List α) :
    foldSpec (fun s a => foldSpec g s (ψ a)) s l = foldSpec g s (l.flatMap ψ) := by
  induction l generalizing s with
  | nil => rfl
  | cons a t ih =>
    rw [List.flatMap_cons, foldSpec_append, foldSpec_cons]
    cases foldSpec g s (ψ a) with
    | none => rfl
    | some r => simp only [Option.bind_some]; rw [ih]

/-- simulation: the two step functions agree on every item up to a map of the outputs. -/
theorem foldSpec_sim {σ α β β' : Type} (f : σ → α → Option (σ × List β)) (h : σ → α → Option (σ × List β'))
    (ρ : β' → β) (l : List α)
    (hstep : ∀ s a, a ∈ l → f s a = (h s a).map (fun r => (r.1, r.2.map ρ))) (s : σ) :
    foldSpec f s l = (foldSpec h s l).map (fun r => (r.1, r.2.map ρ)) := by
  induction l generalizing s with
  | nil => rfl
  | cons a t ih =>
    rw [foldSpec_cons, foldSpec_cons, hstep s a List.mem_cons_self]
    cases h s a with
    | none => rfl
    | some r =>
      simp only [Option.map_some, Option.bind_some]
      rw [ih (fun s b hb => hstep s b (List.mem_cons_of_mem _ hb))]
      cases foldSpec h r.1 t with
      | none => rfl
      | some r' => simp

theorem foldSpec_congr {σ α β : Type} (f h : σ → α → Option (σ × List β)) (l : List α)
    (hstep : ∀ s a, a ∈ l → f s a = h s a) (s : σ) : foldSpec f s l = foldSpec h s l := by
  induction l generalizing s with
  | nil => rfl
  | cons a t ih =>
    rw [foldSpec_cons, foldSpec_cons, hstep s a List.mem_cons_self]
    cases h s a with
    | none => rfl
    | some r => simp only [Option.bind_some]; rw [ih (fun s b hb => hstep s b (List.mem_cons_of_mem _ hb))]

end FoldSpec

/-! ### cbind / update -/

/-- `for colname, column in <frame>.items(): body` with a threaded specification state and failure. -/
theorem exec_forItems_spec {σ : Type} (a : Term) (body : List Term) (f : Frame) (Inv : σ → Env → Prop)
    (g : σ → String × List Cell → Option (σ × Frame))
    (hbody : ∀ s e out p, p ∈ f → Inv s e →
      match g s p with
      | none => execBlock na (("column", .col p.2) :: ("colname", .str p.1) :: e) out body = none
      | some r => ∃ fl env2, execBlock na (("column", .col p.2) :: ("colname", .str p.1) :: e) out body =
          some (fl, env2, out ++ r.2) ∧ Inv r.1 env2)
    (s : σ) (env : Env) (out : Frame) (ha : evalExpr na env a = some (.frame f)) (hinv : Inv s env) :
    match foldSpec g s f with
    | none => execStmt na env out (.app "for" [colPat, .app ".items" [a], .app "block" body]) = none
    | some r => ∃ env', execStmt na env out (.app "for" [colPat, .app ".items" [a], .app "block" body]) =
        some (.next, env', out ++ r.2) ∧ Inv r.1 env' := by
  have hitems : evalExpr na env (.app ".items" [a]) = some (.items (.frame f)) := by
    rw [evalPrim na (by decide) (evalArgs1 na ha)]; rfl
  rw [execStmt_for_plain na env out _ _ _ (items_ne_enumerate a), hitems]
  exact forResult_spec na colPat body colItem Inv g f
    (fun s env out p hp hinv => ⟨("column", .col p.2) :: ("colname", .str p.1) :: env, rfl, hbody s env out p hp hinv⟩)
    s env out hinv

open DI.Tie.C09

/-- the local names of the cbind / update bodies (`set()` is the body's set object). -/
def lvBind : List String := ["i", "data", "colname", "column", "set()"]

omit na in
theorem curSet_cons_ne {x : String} (v : XVal) (e : Env) (h : x ≠ "set()") : curSet ((x, v) :: e) = curSet e := by
  unfold curSet; rw [get?_cons_ne v e h]

omit na in
theorem curSet_cons_self (l : List String) (e : Env) : curSet (("set()", .strs l) :: e) = l := by
  unfold curSet; rw [get?_cons_self]

/-- one column of `cbind`: skipped when its name was seen, else recorded, reconciled (may fail) and yielded. -/
def cbindStep (self : Frame) (seen : List String) (p : String × List Cell) : Option (List String × Frame) :=
  if seen.contains p.1 then some (seen, []) else (reconcileCol self p.2).map (fun c => (seen ++ [p.1], [(p.1, c)]))

/-- the body of the inner loop of `cbind`. -/
def cbindInner : List Term :=
  [Term.app "if" [Term.app "In" [Term.sym "colname", Term.app "set()" []], Term.app "block" [Term.sym "continue"], Term.app "block" []],
   Term.app ".add" [Term.app "set()" [], Term.sym "colname"],
   Term.app "assign" [Term.sym "column", Term.app "._reconcile_column" [Term.sym "self", Term.sym "column"]],
   Term.app "yield" [Term.app "tuple" [Term.sym "colname", Term.app ".copy" [Term.sym "column"]]]]

/-- the invariant of the cbind loops: the arguments are untouched and the set object holds the names seen. -/
def BindInv (e0 : Env) (seen : List String) (e : Env) : Prop := Stable lvBind e0 e ∧ curSet e = seen

theorem cbind_column_step {e0 : Env} {self : Frame} (hself : Env.get? e0 "self" = some (.frame self))
    (seen : List String) (e : Env) (out : Frame) (p : String × List Cell) (hinv : BindInv e0 seen e) :
    match cbindStep self seen p with
    | none => execBlock na (("column", .col p.2) :: ("colname", .str p.1) :: e) out cbindInner = none
    | some r => ∃ fl env2, execBlock na (("column", .col p.2) :: ("colname", .str p.1) :: e) out cbindInner =
        some (fl, env2, out ++ r.2) ∧ BindInv e0 r.1 env2 := by
  obtain ⟨hst, hseen⟩ := hinv
  have hst1 : Stable lvBind e0 (("column", .col p.2) :: ("colname", .str p.1) :: e) :=
    (hst.push (by decide) _).push (by decide) _
  have hcur1 : curSet (("column", .col p.2) :: ("colname", .str p.1) :: e) = seen := by
    rw [curSet_cons_ne _ _ (by decide), curSet_cons_ne _ _ (by decide), hseen]
  have hin : evalExpr na (("column", .col p.2) :: ("colname", .str p.1) :: e)
      (Term.app "In" [Term.sym "colname", Term.app "set()" []]) = some (.bool (seen.contains p.1)) := by
    rw [evalPrim na (by decide) (evalArgs2 na (eval_colname na e p.1 p.2) (evalExpr_set na _)), hcur1]; rfl
  unfold cbindStep cbindInner
  cases hc : seen.contains p.1
  · -- a new name
    rw [hc] at hin
    simp only [Bool.false_eq_true, if_false]
    rw [execBlock_noskip na hin, execBlock_cons_next na (execStmt_add na (eval_colname na e p.1 p.2)), hcur1]
    have hst2 : Stable lvBind e0 (("set()", .strs (seen ++ [p.1])) :: ("column", .col p.2) :: ("colname", .str p.1) :: e) :=
      hst1.push (by decide) _
    have hself2 := eval_var na hst2 (x := "self") (by decide) (by decide) (by decide) (by decide) hself
    have hcol2 : evalExpr na (("set()", .strs (seen ++ [p.1])) :: ("column", .col p.2) :: ("colname", .str p.1) :: e)
        (.sym "column") = some (.col p.2) := rfl
    have hrec : evalExpr na (("set()", .strs (seen ++ [p.1])) :: ("column", .col p.2) :: ("colname", .str p.1) :: e)
        (Term.app "._reconcile_column" [Term.sym "self", Term.sym "column"]) = (reconcileCol self p.2).map XVal.col := by
      rw [evalPrim na (by decide) (evalArgs2 na hself2 hcol2)]; rfl
    cases hr : reconcileCol self p.2 with
    | none =>
      rw [hr] at hrec
      exact execBlock_cons_none na (execStmt_assign_none na hrec)
    | some c =>
      rw [hr] at hrec
      simp only [Option.map_some]
      rw [execBlock_cons_next na (execStmt_assign na hrec)]
      have hcn : evalExpr na (("column", .col c) :: ("set()", .strs (seen ++ [p.1])) :: ("column", .col p.2) ::
          ("colname", .str p.1) :: e) (.sym "colname") = some (.str p.1) := rfl
      have hcp : evalExpr na (("column", .col c) :: ("set()", .strs (seen ++ [p.1])) :: ("column", .col p.2) ::
          ("colname", .str p.1) :: e) (Term.app ".copy" [Term.sym "column"]) = some (.col c) := by
        have : evalExpr na (("column", .col c) :: ("set()", .strs (seen ++ [p.1])) :: ("column", .col p.2) ::
            ("colname", .str p.1) :: e) (.sym "column") = some (.col c) := rfl
        rw [evalPrim na (by decide) (evalArgs1 na this)]; rfl
      rw [execBlock_cons_next na (execStmt_yield na hcn hcp)]
      refine ⟨.next, _, execBlock_nil na _ _, hst2.push (by decide) _, ?_⟩
      rw [curSet_cons_ne _ _ (by decide), curSet_cons_self]
  · -- a name seen before: `continue`
    rw [hc] at hin
    simp only [if_true]
    rw [execBlock_skip na hin]
    exact ⟨.cont, _, by simp, hst1, hcur1⟩

/-- the specification of the whole `cbind` generator: frames in argument order, the names seen threaded through. -/
def cbindSpec (self : Frame) (frames : List Frame) : Option (List String × Frame) :=
  foldSpec (fun seen (x : Frame × Nat) => foldSpec (cbindStep self) seen x.1) [] frames.zipIdx

omit na in
theorem enumerate_frames (l : List Frame) :
    enumerate (l.map XVal.frame) = l.zipIdx.map (fun (x : Frame × Nat) => XVal.pair (.int (x.2 : Nat)) (.frame x.1)) := by
  unfold enumerate
  rw [List.zipIdx_map, List.map_map]
  rfl

/-- the normal form of the `cbind` body (`Tie.C09.cbind_code`). -/
def cbindBody : List Term :=
  [Term.app "for" [Term.app "tuple" [Term.sym "i", Term.sym "data"],
    Term.app "enumerate" [Term.app "Add" [Term.app "list" [Term.sym "self"], Term.app "list()" [Term.sym "others"]]],
    Term.app "block" [Term.app "for" [colPat, Term.app ".items" [Term.sym "data"], Term.app "block" cbindInner]]]]

/-- **the cbind body does what `cbindSpec` says**: frames in argument order (receiver first), columns in each frame's
    order, a name seen before skipped, every kept column reconciled and copied; one failing reconcile fails the call. -/
theorem run_cbind (e0 : Env) (self : Frame) (others : List Frame)
    (hself : Env.get? e0 "self" = some (.frame self)) (hothers : Env.get? e0 "others" = some (.frames others))
    (hset : Env.get? e0 "set()" = none) :
    runBody na e0 (.fall cbindBody) = (cbindSpec self (self :: others)).map (·.2) := by
  have hs0 : Stable lvBind e0 e0 := Stable.refl _ _
  have hself' := eval_var na hs0 (x := "self") (by decide) (by decide) (by decide) (by decide) hself
  have hothers' := eval_var na hs0 (x := "others") (by decide) (by decide) (by decide) (by decide) hothers
  have h1 : evalExpr na e0 (Term.app "list" [Term.sym "self"]) = some (.frames [self]) := by
    rw [evalPrim na (by decide) (evalArgs1 na hself')]; rfl
  have h2 : evalExpr na e0 (Term.app "list()" [Term.sym "others"]) = some (.frames others) := by
    rw [evalPrim na (by decide) (evalArgs1 na hothers')]; rfl
  have h3 : evalExpr na e0 (Term.app "Add" [Term.app "list" [Term.sym "self"], Term.app "list()" [Term.sym "others"]]) =
      some (.frames (self :: others)) := by
    rw [evalPrim na (by decide) (evalArgs2 na h1 h2)]; rfl
  have hinv0 : BindInv e0 [] e0 := ⟨hs0, by unfold curSet; rw [hset]⟩
  have hfor := forResult_spec na (Term.app "tuple" [Term.sym "i", Term.sym "data"])
    [Term.app "for" [colPat, Term.app ".items" [Term.sym "data"], Term.app "block" cbindInner]]
    (fun (x : Frame × Nat) => XVal.pair (.int (x.2 : Nat)) (.frame x.1)) (BindInv e0)
    (fun seen (x : Frame × Nat) => foldSpec (cbindStep self) seen x.1) (self :: others).zipIdx
    (by
      intro seen env out x _ hinv
      refine ⟨("data", .frame x.1) :: ("i", .int (x.2 : Nat)) :: env, rfl, ?_⟩
      have hinv1 : BindInv e0 seen (("data", .frame x.1) :: ("i", .int (x.2 : Nat)) :: env) :=
        ⟨(hinv.1.push (by decide) _).push (by decide) _,
         by rw [curSet_cons_ne _ _ (by decide), curSet_cons_ne _ _ (by decide), hinv.2]⟩
      have := exec_forItems_spec na (Term.sym "data") cbindInner x.1 (BindInv e0) (cbindStep self)
        (fun s e out p _ hi => by
          have := cbind_column_step na hself s e out p hi
          cases hc : cbindStep self s p with
          | none => rw [hc] at this; exact this
          | some r => rw [hc] at this; exact this) seen _ out
        (show evalExpr na (("data", .frame x.1) :: ("i", .int (x.2 : Nat)) :: env) (.sym "data") = some (.frame x.1) from rfl)
        hinv1
      cases hf : foldSpec (cbindStep self) seen x.1 with
      | none =>
        rw [hf] at this
        exact execBlock_cons_none na this
      | some r =>
        rw [hf] at this
        obtain ⟨env', hx, hinv'⟩ := this
        exact ⟨.next, env', by rw [execBlock_cons_next na hx]; exact execBlock_nil na _ _, hinv'⟩)
    [] e0 [] hinv0
  have hstmt : execStmt na e0 [] cbindBody[0] =
      forResult na (Term.app "tuple" [Term.sym "i", Term.sym "data"])
        [Term.app "for" [colPat, Term.app ".items" [Term.sym "data"], Term.app "block" cbindInner]] e0 []
        (some ((self :: others).zipIdx.map (fun (x : Frame × Nat) => XVal.pair (.int (x.2 : Nat)) (.frame x.1)))) := by
    show execStmt na e0 [] (Term.app "for" _) = _
    rw [execStmt_for_enumerate, h3]
    show forResult na _ _ e0 [] (some (enumerate ((self :: others).map XVal.frame))) = _
    rw [enumerate_frames]
  unfold cbindSpec
  cases hf : foldSpec (fun seen (x : Frame × Nat) => foldSpec (cbindStep self) seen x.1) [] (self :: others).zipIdx with
  | none =>
    rw [hf] at hfor
    rw [← hstmt] at hfor
    exact runBody_fall_none na (execBlock_cons_none na hfor)
  | some r =>
    rw [hf] at hfor
    obtain ⟨env', hx, _⟩ := hfor
    rw [← hstmt] at hx
    have : execBlock na e0 [] cbindBody = some (.next, env', [] ++ r.2) := by
      show execBlock na e0 [] [cbindBody[0]] = _
      rw [execBlock_cons_next na hx]; exact execBlock_nil na _ _
    rw [runBody_fall na this]
    rfl

/-! ### cbind / update against the provenance model of `Model/Bind.lean` -/

section BindModel

omit na

open DI.PyEval (shape)

/-- the cell a provenance stands for: `Src.cell i c r` is row `r` of column `c` of input frame `i`. -/
def cellOfIn (frames : List Frame) : Bind.Src → Cell
  | .cell i c r => (colOf (frames[i]!) c)[r]!
  | _ => none

/-- an output column of the provenance model, read off the input frames. -/
def realizeIn (frames : List Frame) (p : Bind.OutCol) : String × List Cell := (p.1, p.2.map (cellOfIn frames))

/-- **`_reconcile_column` on cells is `Bind.reconcile` read off the frames.** -/
theorem reconcile_realize (frames : List Frame) (self : Frame) (i : Nat) (c : String) (col : List Cell)
    (hcol : colOf (frames[i]!) c = col) :
    reconcileCol self col =
      (Bind.reconcile i c col.length (nrow self) (names self).isEmpty).map (fun s => s.map (cellOfIn frames)) := by
  unfold reconcileCol Bind.reconcile
  have hemp : (names self).isEmpty = self.isEmpty := by cases self <;> rfl
  rw [hemp]
  by_cases h1 : (decide (col.length = nrow self) || self.isEmpty) = true
  · rw [if_pos h1, if_pos h1]
    simp only [Option.map_some, Bind.colCells, List.map_map]
    congr 1
    refine (PyEval.map_range_getElem! col).symm.trans ?_
    apply List.map_congr_left
    intro r _
    simp only [Function.comp, cellOfIn, hcol]
  · rw [if_neg h1, if_neg h1]
    by_cases h2 : col.length = 1 ∧ 1 ≤ nrow self
    · rw [if_pos h2, if_pos h2]
      simp only [Option.map_some, List.map_replicate, cellOfIn, hcol]
    · rw [if_neg h2, if_neg h2]; rfl

/-- one candidate column of the model's `cbind`, as a step of a specification fold. -/
def candStep (n : Nat) (e : Bool) (seen : List String) (p : Bind.Cand) : Option (List String × List Bind.OutCol) :=
  if seen.contains p.1 then some (seen, [])
  else (Bind.reconcile p.2.1 p.1 p.2.2 n e).map (fun s => (seen ++ [p.1], [(p.1, s)]))

/-- the candidates whose name is new, given the names seen. -/
def newFrom (seen : List String) : List Bind.Cand → List Bind.Cand
  | [] => []
  | p :: l => if seen.contains p.1 then newFrom seen l else p :: newFrom (seen ++ [p.1]) l

theorem firstsFrom_eq (l : List Bind.Cand) : ∀ acc : List Bind.Cand,
    Bind.firstsFrom acc l = acc ++ newFrom (acc.map (·.1)) l := by
  induction l with
  | nil => intro acc; simp [Bind.firstsFrom, newFrom]
  | cons p l ih =>
    intro acc
    rw [Bind.firstsFrom_cons, Bind.any_key_eq_contains]
    simp only [newFrom]
    cases hc : (acc.map (·.1)).contains p.1
    · simp only [Bool.false_eq_true, if_false]
      rw [ih]
      simp
    · simp only [if_true]
      rw [ih]

theorem candStep_fold (n : Nat) (e : Bool) (cands : List Bind.Cand) : ∀ seen : List String,
    (foldSpec (candStep n e) seen cands).map (·.2) =
      (newFrom seen cands).mapM (fun p => (Bind.reconcile p.2.1 p.1 p.2.2 n e).map (fun s => (p.1, s))) := by
  induction cands with
  | nil => intro seen; rfl
  | cons p l ih =>
    intro seen
    rw [foldSpec_cons]
    simp only [newFrom, candStep]
    cases hc : seen.contains p.1
    · simp only [Bool.false_eq_true, if_false, List.mapM_cons]
      cases hr : Bind.reconcile p.2.1 p.1 p.2.2 n e with
      | none => rfl
      | some s =>
        simp only [Option.map_some, Option.bind_some]
        rw [← ih (seen ++ [p.1])]
        cases foldSpec (candStep n e) (seen ++ [p.1]) l with
        | none => rfl
        | some r => rfl
    · simp only [if_true, Option.bind_some]
      rw [← ih seen]
      cases foldSpec (candStep n e) seen l with
      | none => rfl
      | some r => simp

/-- all columns of all frames in argument order, tagged with the index of their frame. -/
def colsFrom (frames : List Frame) : List (String × Nat × List Cell) :=
  frames.zipIdx.flatMap (fun (x : Frame × Nat) => x.1.map (fun p => (p.1, x.2, p.2)))

theorem mem_colsFrom {frames : List Frame} {t : String × Nat × List Cell} (h : t ∈ colsFrom frames) :
    t.2.1 < frames.length ∧ (t.1, t.2.2) ∈ frames[t.2.1]! := by
  unfold colsFrom at h
  obtain ⟨x, hx, ht⟩ := List.mem_flatMap.mp h
  obtain ⟨p, hp, rfl⟩ := List.mem_map.mp ht
  obtain ⟨f, i⟩ := x
  obtain ⟨hi, hf⟩ := List.mem_zipIdx' hx
  refine ⟨hi, ?_⟩
  simp only
  rw [getElem!_pos frames i hi, ← hf]
  exact hp

theorem flatMap_congr' {α β : Type} {l : List α} {f g : α → List β} (h : ∀ x ∈ l, f x = g x) :
    l.flatMap f = l.flatMap g := by
  induction l with
  | nil => rfl
  | cons a t ih =>
    rw [List.flatMap_cons, List.flatMap_cons, h a List.mem_cons_self,
      ih (fun x hx => h x (List.mem_cons_of_mem _ hx))]

theorem colsFrom_cands (frames : List Frame) (hrect : ∀ f ∈ frames, Rect f) :
    (colsFrom frames).map (fun t => ((t.1, t.2.1, t.2.2.length) : Bind.Cand)) = Bind.candsFrom 0 (frames.map shape) := by
  unfold colsFrom Bind.candsFrom
  rw [List.zipIdx_map, List.flatMap_map, List.map_flatMap]
  apply flatMap_congr'
  intro x hx
  obtain ⟨f, i⟩ := x
  have hf : f ∈ frames := by
    obtain ⟨hi, hf⟩ := List.mem_zipIdx' hx
    rw [hf]; exact List.getElem_mem hi
  simp only [Prod.map, id, shape, names, List.map_map]
  apply List.map_congr_left
  intro p hp
  simp only [Function.comp]
  rw [hrect f hf p hp]

/-- **the cbind specification is the model's `Bind.cbind`** read off the frames: frames in argument order, the first
    occurrence of a name wins, every kept column reconciled against the receiver; it fails exactly when the model rejects. -/
theorem cbindSpec_model (self : Frame) (others : List Frame)
    (hwf : ∀ f ∈ self :: others, Rect f ∧ (names f).Nodup) :
    (cbindSpec self (self :: others)).map (·.2) =
      (Bind.cbind ((self :: others).map shape)).map (List.map (realizeIn (self :: others))) := by
  have hcb : Bind.cbind ((self :: others).map shape) =
      (newFrom [] (Bind.candsFrom 0 ((self :: others).map shape))).mapM
        (fun p => (Bind.reconcile p.2.1 p.1 p.2.2 (nrow self) (names self).isEmpty).map (fun s => (p.1, s))) := by
    rw [List.map_cons, Bind.cbind_unfold, firstsFrom_eq]
    rfl
  rw [hcb, ← candStep_fold, ← colsFrom_cands _ (fun f hf => (hwf f hf).1), foldSpec_map]
  unfold cbindSpec
  have h1 : foldSpec (fun seen (x : Frame × Nat) => foldSpec (cbindStep self) seen x.1) [] (self :: others).zipIdx =
      foldSpec (fun s (t : String × Nat × List Cell) => cbindStep self s (t.1, t.2.2)) [] (colsFrom (self :: others)) := by
    unfold colsFrom
    rw [← foldSpec_flatMap]
    apply foldSpec_congr
    intro s x _
    rw [foldSpec_map]
  rw [h1, foldSpec_sim _ (fun s (t : String × Nat × List Cell) =>
      candStep (nrow self) (names self).isEmpty s (t.1, t.2.1, t.2.2.length)) (realizeIn (self :: others))]
  · cases foldSpec (fun s (t : String × Nat × List Cell) =>
        candStep (nrow self) (names self).isEmpty s (t.1, t.2.1, t.2.2.length)) [] (colsFrom (self :: others)) <;> rfl
  · intro s t ht
    obtain ⟨hi, hmem⟩ := mem_colsFrom ht
    have hf : (self :: others)[t.2.1]! ∈ self :: others := by
      rw [getElem!_pos (self :: others) t.2.1 hi]; exact List.getElem_mem hi
    have hcol : colOf ((self :: others)[t.2.1]!) t.1 = t.2.2 := PyEval.colOf_of_mem (hwf _ hf).2 hmem
    unfold cbindStep candStep
    simp only
    cases s.contains t.1
    · simp only [Bool.false_eq_true, if_false]
      rw [reconcile_realize (self :: others) self t.2.1 t.1 t.2.2 hcol]
      cases Bind.reconcile t.2.1 t.1 t.2.2.length (nrow self) (names self).isEmpty <;> rfl
    · rfl

theorem realizeIn_colCells (frames : List Frame) (i : Nat) (name c : String) (len : Nat)
    (h : (colOf (frames[i]!) c).length = len) :
    realizeIn frames (name, Bind.colCells i c len) = (name, colOf (frames[i]!) c) := by
  unfold realizeIn Bind.colCells
  simp only [List.map_map]
  congr 1
  rw [← h]
  exact PyEval.map_range_getElem! (colOf (frames[i]!) c)

/-- one column of the second loop of `update`: reconciled (may fail) and yielded. -/
def updateStep (self : Frame) (_ : Unit) (p : String × List Cell) : Option (Unit × Frame) :=
  (reconcileCol self p.2).map (fun c => ((), [(p.1, c)]))

/-- the specification of the `update` generator: the receiver's columns `other` does not have, then all of `other`'s
    columns reconciled; one failing reconcile fails the call. -/
def updateSpec (self other : Frame) : Option Frame :=
  (foldSpec (updateStep self) () other).map (fun r => self.filter (fun p => !(names other).contains p.1) ++ r.2)

theorem updateStep_fold (self other : Frame) (cs : List (String × List Cell))
    (hcs : ∀ p ∈ cs, colOf other p.1 = p.2 ∧ p.2.length = nrow other) :
    (foldSpec (updateStep self) () cs).map (·.2) =
      ((cs.map (·.1)).mapM (fun c => (Bind.reconcile 1 c (nrow other) (nrow self) (names self).isEmpty).map
        (fun s => (c, s)))).map (List.map (realizeIn [self, other])) := by
  induction cs with
  | nil => rfl
  | cons p t ih =>
    have hp := hcs p List.mem_cons_self
    have iht := ih (fun q hq => hcs q (List.mem_cons_of_mem _ hq))
    rw [foldSpec_cons, List.map_cons, List.mapM_cons]
    have hstep : updateStep self () p =
        (Bind.reconcile 1 p.1 (nrow other) (nrow self) (names self).isEmpty).map
          (fun s => ((), [(p.1, s.map (cellOfIn [self, other]))])) := by
      unfold updateStep
      rw [reconcile_realize [self, other] self 1 p.1 p.2 hp.1, hp.2, Option.map_map]
      rfl
    rw [hstep]
    cases Bind.reconcile 1 p.1 (nrow other) (nrow self) (names self).isEmpty with
    | none => rfl
    | some s =>
      simp only [Option.map_some, Option.bind_some]
      generalize foldSpec (updateStep self) () t = F at iht ⊢
      generalize (List.mapM (fun c => (Bind.reconcile 1 c (nrow other) (nrow self) (names self).isEmpty).map
          (fun s => (c, s))) (List.map (fun x => x.1) t)) = M at iht ⊢
      cases F with
      | none =>
        cases M with
        | none => simp
        | some o => simp at iht
      | some r =>
        cases M with
        | none => simp at iht
        | some o =>
          simp only [Option.map_some, Option.some.injEq] at iht
          simp [iht, realizeIn]

/-- **the update specification is the model's `Bind.update`** read off the two frames. -/
theorem updateSpec_model (self other : Frame) (hrs : Rect self) (hns : (names self).Nodup)
    (hro : Rect other) (hno : (names other).Nodup) :
    updateSpec self other =
      (Bind.update (shape self) (shape other)).map (List.map (realizeIn [self, other])) := by
  unfold updateSpec Bind.update
  have hfold := updateStep_fold self other other (fun p hp => ⟨PyEval.colOf_of_mem hno hp, hro p hp⟩)
  have hkeep : self.filter (fun p => !(names other).contains p.1) =
      (((shape self).names.filter (fun c => !(shape other).names.contains c)).map
        (fun c => (c, Bind.colCells 0 c (shape self).nrow))).map (realizeIn [self, other]) := by
    have : (shape self).names.filter (fun c => !(shape other).names.contains c) =
        (self.filter (fun p => !(names other).contains p.1)).map (·.1) := by
      simp only [shape, names, List.filter_map]; rfl
    rw [this, List.map_map, List.map_map]
    conv => lhs; rw [← List.map_id (self.filter _)]
    apply List.map_congr_left
    intro p hp
    have hp' : p ∈ self := (List.mem_filter.mp hp).1
    show p = realizeIn [self, other] (p.1, Bind.colCells 0 p.1 (nrow self))
    have hc : colOf ([self, other][0]!) p.1 = p.2 := PyEval.colOf_of_mem hns hp'
    rw [realizeIn_colCells [self, other] 0 p.1 p.1 (nrow self) (by rw [hc]; exact hrs p hp'), hc]
  rw [hkeep]
  have hfold' : (foldSpec (updateStep self) () other).map (·.2) =
      ((shape other).names.mapM (fun c =>
        (Bind.reconcile 1 c (shape other).nrow (shape self).nrow (shape self).names.isEmpty).map
          (fun s => (c, s)))).map (List.map (realizeIn [self, other])) := hfold
  generalize ((shape other).names.mapM (fun c =>
        (Bind.reconcile 1 c (shape other).nrow (shape self).nrow (shape self).names.isEmpty).map
          (fun s => (c, s)))) = M at hfold' ⊢
  generalize foldSpec (updateStep self) () other = F at hfold' ⊢
  cases F with
  | none =>
    cases M with
    | none => rfl
    | some o => simp at hfold'
  | some r =>
    cases M with
    | none => simp at hfold'
    | some o =>
      simp only [Option.map_some, Option.some.injEq] at hfold'
      simp only [Option.map_some, List.map_append, hfold']

end BindModel

/-- the first loop of `update`: the receiver's columns that `other` does not have. -/
def updateLoop1 : Term :=
  Term.app "for" [colPat, Term.app ".items" [Term.sym "self"],
    Term.app "block" [Term.app "if" [Term.app "In" [Term.sym "colname", Term.sym "other"], Term.app "block" [Term.sym "continue"], Term.app "block" []],
      Term.app "yield" [Term.app "tuple" [Term.sym "colname", Term.app ".copy" [Term.sym "column"]]]]]

/-- the second loop of `update`: all of `other`'s columns, reconciled. -/
def updateLoop2 : Term :=
  Term.app "for" [colPat, Term.app ".items" [Term.sym "other"],
    Term.app "block" [Term.app "assign" [Term.sym "column", Term.app "._reconcile_column" [Term.sym "self", Term.sym "column"]],
      Term.app "yield" [Term.app "tuple" [Term.sym "colname", Term.app ".copy" [Term.sym "column"]]]]]

/-- the normal form of the `update` body (`Tie.C09.update_code`). -/
def updateBody : List Term := [updateLoop1, updateLoop2]

/-- **the update body does what `updateSpec` says**. -/
theorem run_update (e0 : Env) (self other : Frame)
    (hself : Env.get? e0 "self" = some (.frame self)) (hother : Env.get? e0 "other" = some (.frame other)) :
    runBody na e0 (.fall updateBody) = updateSpec self other := by
  -- first loop: the receiver's columns not in `other`
  obtain ⟨env1, h1, hs1⟩ := exec_forItems na (vars := lvBind) (Term.sym "self")
    [Term.app "if" [Term.app "In" [Term.sym "colname", Term.sym "other"], Term.app "block" [Term.sym "continue"], Term.app "block" []],
      Term.app "yield" [Term.app "tuple" [Term.sym "colname", Term.app ".copy" [Term.sym "column"]]]]
    self (fun p => if !(names other).contains p.1 then [(p.1, p.2)] else []) e0
    (fun e hst => eval_var na hst (by decide) (by decide) (by decide) (by decide) hself)
    (by
      intro e out p _ hst
      have hst1 : Stable lvBind e0 (("column", .col p.2) :: ("colname", .str p.1) :: e) :=
        (hst.push (by decide) _).push (by decide) _
      have hother' := eval_var na hst1 (x := "other") (by decide) (by decide) (by decide) (by decide) hother
      have hin : evalExpr na (("column", .col p.2) :: ("colname", .str p.1) :: e)
          (Term.app "In" [Term.sym "colname", Term.sym "other"]) = some (.bool ((names other).contains p.1)) := by
        rw [evalPrim na (by decide) (evalArgs2 na (eval_colname na e p.1 p.2) hother')]; rfl
      cases hc : (names other).contains p.1
      · rw [hc] at hin
        rw [execBlock_noskip na hin]
        have hcp : evalExpr na (("column", .col p.2) :: ("colname", .str p.1) :: e)
            (Term.app ".copy" [Term.sym "column"]) = some (.col p.2) := by
          rw [evalPrim na (by decide) (evalArgs1 na (eval_column na e p.1 p.2))]; rfl
        rw [execBlock_cons_next na (execStmt_yield na (eval_colname na e p.1 p.2) hcp)]
        exact ⟨.next, _, execBlock_nil na _ _, hst1⟩
      · rw [hc] at hin
        rw [execBlock_skip na hin]
        exact ⟨.cont, _, by simp, hst1⟩) e0 [] (Stable.refl _ _)
  rw [PyEval.flatMap_ite] at h1
  -- second loop: all of `other`'s columns, reconciled
  have h2 := exec_forItems_spec na (Term.sym "other")
    [Term.app "assign" [Term.sym "column", Term.app "._reconcile_column" [Term.sym "self", Term.sym "column"]],
      Term.app "yield" [Term.app "tuple" [Term.sym "colname", Term.app ".copy" [Term.sym "column"]]]]
    other (fun (_ : Unit) e => Stable lvBind e0 e) (updateStep self)
    (by
      intro _ e out p _ hst
      have hst1 : Stable lvBind e0 (("column", .col p.2) :: ("colname", .str p.1) :: e) :=
        (hst.push (by decide) _).push (by decide) _
      have hself' := eval_var na hst1 (x := "self") (by decide) (by decide) (by decide) (by decide) hself
      have hrec : evalExpr na (("column", .col p.2) :: ("colname", .str p.1) :: e)
          (Term.app "._reconcile_column" [Term.sym "self", Term.sym "column"]) = (reconcileCol self p.2).map XVal.col := by
        rw [evalPrim na (by decide) (evalArgs2 na hself' (eval_column na e p.1 p.2))]; rfl
      unfold updateStep
      cases hr : reconcileCol self p.2 with
      | none =>
        rw [hr] at hrec
        exact execBlock_cons_none na (execStmt_assign_none na hrec)
      | some c =>
        rw [hr] at hrec
        simp only [Option.map_some]
        rw [execBlock_cons_next na (execStmt_assign na hrec)]
        have hcn : evalExpr na (("column", .col c) :: ("column", .col p.2) :: ("colname", .str p.1) :: e)
            (.sym "colname") = some (.str p.1) := rfl
        have hcp : evalExpr na (("column", .col c) :: ("column", .col p.2) :: ("colname", .str p.1) :: e)
            (Term.app ".copy" [Term.sym "column"]) = some (.col c) := by
          have : evalExpr na (("column", .col c) :: ("column", .col p.2) :: ("colname", .str p.1) :: e)
              (.sym "column") = some (.col c) := rfl
          rw [evalPrim na (by decide) (evalArgs1 na this)]; rfl
        rw [execBlock_cons_next na (execStmt_yield na hcn hcp)]
        exact ⟨.next, _, execBlock_nil na _ _, hst1.push (by decide) _⟩)
    () env1 ([] ++ (self.filter (fun p => !(names other).contains p.1)).map (fun p => (p.1, p.2)))
    (eval_var na hs1 (by decide) (by decide) (by decide) (by decide) hother) hs1
  have hblock := execBlock_cons_next na (ss := [updateLoop2]) h1
  unfold updateSpec
  have hid : (self.filter (fun p => !(names other).contains p.1)).map (fun p => (p.1, p.2)) =
      self.filter (fun p => !(names other).contains p.1) := by simp
  cases hf : foldSpec (updateStep self) () other with
  | none =>
    rw [hf] at h2
    have : execBlock na e0 [] updateBody = none := by
      show execBlock na e0 [] [updateLoop1, updateLoop2] = none
      rw [show execBlock na e0 [] [updateLoop1, updateLoop2] = _ from hblock]
      exact execBlock_cons_none na h2
    rw [runBody_fall_none na this]; rfl
  | some r =>
    rw [hf] at h2
    obtain ⟨env2, hx, _⟩ := h2
    have := execBlock_cons_next na (ss := []) hx
    rw [execBlock_nil] at this
    have hb : execBlock na e0 [] updateBody = _ := hblock.trans this
    rw [runBody_fall na hb, hid]
    rfl

end DI.PyEvalX

/-
  Lemmas/ConstructMore.lean — more of C10 (Vector construction and missing values):
  `tolist` round trip, `drop_na` / `replace_na` on cells, and the exact guard under which the
  inferred-dtype constructor flags exactly the positions that held None / NaN.
-/
import Model.Construct
import Lemmas.Construct

namespace DI.Construct.More

/-! ### tolist round trip -/

/-- the Python builtin class `ndarray.tolist()` gives for a stored, non-missing element of a
    vector of class `c` (an object vector hands back the element itself). -/
def builtinKind (c : DClass) (x : Kind) : Kind :=
  match c with
  | .bool => .bool | .int => .int | .float => .float
  | .str | .ustr => .str false
  | .date => .date | .datetime => .datetime | .timedelta => .timedelta
  | .bytes => .bytes
  | .object => x

/-- `np.where(self.is_na(), None, self).tolist()` on kinds. -/
def tolistKinds (r : Result) (xs : List Kind) : List Kind :=
  List.zipWith (fun na x => if na then Kind.none else builtinKind r.dclass x) r.na xs

/-- the mask bit of one element / the element `tolist()` returns for it. -/
def rtF (c c' : DClass) (x : Kind) : Bool := isNaElem c' (subst (naOfClass c) x)
def rtG (c c' : DClass) (x : Kind) : Kind := if rtF c c' x then Kind.none else builtinKind c' x

/-- the element-wise content of the round trip. -/
theorem rt_elem (c : DClass) (anyM : Bool) (x : Kind) (c' : DClass)
    (hc' : (if c == .int && anyM then DClass.float else c) = c')
    (hcb : c ≠ .bytes) (hf : fits c x = true) (hm : anyM = false → x.missing = false) :
    fits c' (rtG c c' x) = true ∧ isNaElem c' (subst (naOfClass c') (rtG c c' x)) = rtF c c' x ∧
      (c' = .int → (rtG c c' x).missing = false) := by
  subst hc'
  revert hcb hf hm
  cases c <;> cases anyM <;> cases x <;> (try (rename_i e; cases e)) <;> decide

theorem tolistKinds_eq_map (c' : DClass) (f : Kind → Bool) (xs : List Kind) :
    tolistKinds { dclass := c', na := xs.map f } xs
      = xs.map (fun x => if f x then Kind.none else builtinKind c' x) := by
  unfold tolistKinds
  induction xs with
  | nil => rfl
  | cons x xs ih => simp only [List.map_cons, List.zipWith_cons_cons, ih]

/-- `constructWith` on a list the class accepts (and, for integers, without missing value). -/
theorem constructWith_of (c' : DClass) (ys : List Kind) (hfit : ∀ y ∈ ys, fits c' y = true)
    (hint : c' = .int → ∀ y ∈ ys, y.missing = false) :
    constructWith c' ys
      = some { dclass := c', na := ys.map (fun y => isNaElem c' (subst (naOfClass c') y)) } := by
  unfold constructWith
  rw [if_pos (List.all_eq_true.mpr hfit)]
  have : (c' == DClass.int && ys.any (·.missing)) = false := by
    by_cases hci : c' = .int
    · have : ys.any (·.missing) = false := by
        rw [List.any_eq_false]
        intro y hy; simp [hint hci y hy]
      simp [this]
    · simp [hci]
  simp only [this, Bool.false_eq_true, if_false]

/-- rebuilding the vector from its `tolist()` (None at the missing positions) with its own dtype
    class gives the same dtype class and the same mask. -/
theorem tolist_rebuild (c : DClass) (xs : List Kind) (r : Result) (hc : c ≠ .bytes)
    (h : constructWith c xs = some r) :
    constructWith r.dclass (tolistKinds r xs) = some r := by
  unfold constructWith at h
  split at h
  · rename_i hfits
    simp only [Option.some.injEq] at h
    subst h
    generalize hc' : (if (c == DClass.int && xs.any (·.missing)) = true then DClass.float else c) = c'
    simp only []
    rw [tolistKinds_eq_map]
    have hx : ∀ x ∈ xs, fits c' (rtG c c' x) = true ∧
        isNaElem c' (subst (naOfClass c') (rtG c c' x)) = rtF c c' x ∧
        (c' = .int → (rtG c c' x).missing = false) := by
      intro x hxm
      refine rt_elem c (xs.any (·.missing)) x c' hc' hc (List.all_eq_true.mp hfits x hxm) ?_
      intro hany
      rw [List.any_eq_false] at hany
      simpa using hany x hxm
    have hmap : xs.map (fun x => if isNaElem c' (subst (naOfClass c) x) = true then Kind.none
        else builtinKind c' x) = xs.map (rtG c c') := rfl
    rw [hmap, constructWith_of c' (xs.map (rtG c c'))
      (by intro y hy; obtain ⟨x, hxm, rfl⟩ := List.mem_map.mp hy; exact (hx x hxm).1)
      (by intro hci y hy; obtain ⟨x, hxm, rfl⟩ := List.mem_map.mp hy; exact (hx x hxm).2.2 hci)]
    congr 2
    rw [List.map_map]
    apply List.map_congr_left
    intro x hxm
    exact (hx x hxm).2.1
  · cases h

/-- the hypothesis `c ≠ bytes` is forced in the model: the table `fits` has no row for bytes
    elements (a bytes vector is only ever built by inference). -/
theorem tolist_rebuild_bytes_counterexample :
    constructWith .bytes [.none] = some { dclass := .bytes, na := [false] } ∧
    constructWith .bytes (tolistKinds { dclass := .bytes, na := [false] } [.none]) = none := by decide

theorem builtinKind_idem (c : DClass) (x : Kind) : builtinKind c (builtinKind c x) = builtinKind c x := by
  cases c <;> rfl

/-- `tolist()` of the rebuilt vector is the same list: the cells are the same. -/
theorem tolist_rebuild_cells (r : Result) (xs : List Kind) (hlen : r.na.length = xs.length) :
    tolistKinds r (tolistKinds r xs) = tolistKinds r xs := by
  obtain ⟨c, na⟩ := r
  simp only [tolistKinds] at hlen ⊢
  induction na generalizing xs with
  | nil => simp
  | cons b bs ih =>
    cases xs with
    | nil => simp
    | cons x xs =>
      simp only [List.length_cons, Nat.add_right_cancel_iff] at hlen
      simp only [List.zipWith_cons_cons, ih xs hlen, List.cons.injEq, and_true]
      cases b <;> simp [builtinKind_idem]

example : constructWith .int [.int, .none, .bool] = some { dclass := .float, na := [false, true, false] } ∧
    tolistKinds { dclass := .float, na := [false, true, false] } [.int, .none, .bool] = [.float, .none, .float] ∧
    constructWith .float [.float, .none, .float] = some { dclass := .float, na := [false, true, false] } := by
  decide

/-! ### drop_na / replace_na on cells -/

/-- `Vector.drop_na`: `self[~self.is_na()]`. -/
def vdropNa {α : Type} (a : List (Option α)) : List α := a.filterMap id

/-- `Vector.replace_na(value)`: `vector[vector.is_na()] = value`. -/
def vreplaceNa {α : Type} (a : List (Option α)) (v : α) : List (Option α) :=
  a.map (fun x => match x with | none => some v | some y => some y)

/-- `drop_na` is the selection of the non-missing cells … -/
theorem vdropNa_eq_filter {α : Type} (a : List (Option α)) :
    (vdropNa a).map some = a.filter (·.isSome) := by
  unfold vdropNa
  rw [List.map_filterMap_some_eq_filter_map_isSome]
  simp

/-- … as many as there are non-missing cells … -/
theorem vdropNa_length {α : Type} (a : List (Option α)) :
    (vdropNa a).length = a.countP (·.isSome) := by
  unfold vdropNa
  rw [List.length_filterMap_eq_countP]
  simp

/-- … in their original order. -/
theorem vdropNa_sublist {α : Type} (a : List (Option α)) : ((vdropNa a).map some).Sublist a := by
  rw [vdropNa_eq_filter]; exact List.filter_sublist

theorem vdropNa_of_no_na {α : Type} (a : List (Option α)) (h : ∀ x ∈ a, x.isSome = true) :
    (vdropNa a).map some = a := by
  rw [vdropNa_eq_filter]; exact List.filter_eq_self.mpr h

theorem vreplaceNa_length {α : Type} (a : List (Option α)) (v : α) :
    (vreplaceNa a v).length = a.length := by simp [vreplaceNa]

/-- non-missing positions are unchanged. -/
theorem vreplaceNa_some {α : Type} (a : List (Option α)) (v : α) (i : Nat) (y : α)
    (h : a[i]? = some (some y)) : (vreplaceNa a v)[i]? = some (some y) := by
  simp [vreplaceNa, h]

/-- missing positions hold the value. -/
theorem vreplaceNa_none {α : Type} (a : List (Option α)) (v : α) (i : Nat)
    (h : a[i]? = some none) : (vreplaceNa a v)[i]? = some (some v) := by
  simp [vreplaceNa, h]

/-- the result has no missing value. -/
theorem vreplaceNa_no_na {α : Type} (a : List (Option α)) (v : α) :
    ∀ x ∈ vreplaceNa a v, x.isSome = true := by
  intro x hx
  simp only [vreplaceNa, List.mem_map] at hx
  obtain ⟨y, _, rfl⟩ := hx
  cases y <;> rfl

theorem vdropNa_vreplaceNa {α : Type} (a : List (Option α)) (v : α) :
    (vdropNa (vreplaceNa a v)).map some = vreplaceNa a v :=
  vdropNa_of_no_na _ (vreplaceNa_no_na a v)

example : vdropNa [some 1, none, some 3] = [1, 3] := by decide
example : vreplaceNa [some 1, none, some 3] 0 = [some 1, some 0, some 3] := by decide

/-! ### the exact guard for the inferred-dtype mask -/

/-- `util.unique_types` normalisation of one element's class. -/
def normK (k : Kind) : Kind := match k with | .str _ => .str false | k => k

def isDateish (k : Kind) : Bool := k == .date || k == .datetime || k == .npdt

/-- date and datetime objects mixed (possibly with np.datetime64), nothing else. -/
def mixedDates (ts : List Kind) : Bool :=
  ts.contains .date && ts.contains .datetime && ts.all isDateish

/-- the guard: no empty string (it IS the missing-value sentinel of string vectors), and — when
    a None / NaN is present — neither a list of NumPy bool scalars nor mixed date / datetime
    objects. -/
def maskGuard (xs : List Kind) : Bool :=
  !xs.contains (.str true) &&
  !(xs.any (·.missing) && (types xs == [.npbool] || mixedDates (types xs)))

theorem types_eq (xs : List Kind) :
    types xs = ((xs.filter (fun k => !k.missing)).map normK).eraseDups := rfl

theorem mem_types {xs : List Kind} {k : Kind} :
    k ∈ types xs ↔ ∃ x ∈ xs, x.missing = false ∧ normK x = k := by
  rw [types_eq, List.mem_eraseDups, List.mem_map]
  constructor
  · rintro ⟨x, hx, rfl⟩
    rw [List.mem_filter] at hx
    exact ⟨x, hx.1, by simpa using hx.2, rfl⟩
  · rintro ⟨x, hx, hm, rfl⟩
    exact ⟨x, List.mem_filter.mpr ⟨hx, by simp [hm]⟩, rfl⟩

theorem nodup_eraseDups {α : Type} [BEq α] [LawfulBEq α] : ∀ (n : Nat) (l : List α),
    l.length ≤ n → l.eraseDups.Nodup := by
  intro n
  induction n with
  | zero =>
    intro l hl
    have : l = [] := List.eq_nil_of_length_eq_zero (by omega)
    subst this; simp
  | succ n ih =>
    intro l hl
    cases l with
    | nil => simp
    | cons a as =>
      rw [List.eraseDups_cons, List.nodup_cons]
      refine ⟨?_, ?_⟩
      · rw [List.mem_eraseDups, List.mem_filter]
        rintro ⟨_, h⟩
        simp at h
      · apply ih
        have := List.length_filter_le (fun b => !b == a) as
        simp only [List.length_cons] at hl
        omega

theorem nodup_types (xs : List Kind) : (types xs).Nodup := by
  rw [types_eq]; exact nodup_eraseDups _ _ (Nat.le_refl _)

/-- a duplicate-free list whose elements all equal `a` and that contains `a` is `[a]`. -/
theorem eq_singleton_of_nodup {α : Type} {l : List α} {a : α} (hn : l.Nodup) (hall : ∀ x ∈ l, x = a)
    (hmem : a ∈ l) : l = [a] := by
  match l, hn, hall, hmem with
  | [], _, _, hmem => cases hmem
  | [x], _, hall, _ => rw [hall x (by simp)]
  | x :: y :: rest, hn, hall, _ =>
    have hx := hall x (by simp)
    have hy := hall y (by simp)
    rw [List.nodup_cons] at hn
    exact absurd (by rw [hx, hy]; simp) hn.1

/-! element-wise facts -/

theorem isNaElem_nonmissing (c : DClass) (na : NaVal) (x : Kind) (hm : x.missing = false)
    (hs : x ≠ .str true) : isNaElem c (subst na x) = false := by
  cases c <;> cases x <;> (try (rename_i e; cases e)) <;>
    first | rfl | (exact absurd hm (by decide)) | (exact absurd rfl hs)

theorem isNaElem_missing (c : DClass) (na : NaVal) (x : Kind) (hm : x.missing = true) :
    isNaElem c (subst na x) = Matched c na := by
  cases c <;> cases na <;> cases x <;> (try (rename_i e; cases e)) <;>
    first | rfl | (exact absurd hm (by decide))

/-- the mask is exact as soon as (no empty string and) the class fits the substituted missing
    value — or there is no missing element at all. -/
theorem mask_exact_of (c : DClass) (na : NaVal) (xs : List Kind) (hs : Kind.str true ∉ xs)
    (h : xs.any (·.missing) = true → Matched c na = true) :
    xs.map (fun x => isNaElem c (subst na x)) = xs.map Kind.missing := by
  apply List.map_congr_left
  intro x hx
  cases hm : x.missing
  · exact isNaElem_nonmissing c na x hm (fun e => hs (e ▸ hx))
  · rw [isNaElem_missing c na x hm]
    exact h (List.any_eq_true.mpr ⟨x, hx, hm⟩)

/-! NumPy's inference on the substituted list -/

def eIsStr (e : Elem) : Bool := match e with | .emptyS | .k (.str _) | .k .npstr => true | _ => false
def eIsNone (e : Elem) : Bool := e == .pyNone
def eIsNum (e : Elem) : Bool := match e with
  | .nanF | .k .bool | .k .int | .k .float | .k .npbool | .k .npint | .k .npfloat => true | _ => false
def eIsFloat (e : Elem) : Bool := match e with | .nanF | .k .float | .k .npfloat => true | _ => false
def eIsInt (e : Elem) : Bool := match e with | .k .int | .k .npint => true | _ => false
def eIsDt64 (e : Elem) : Bool := match e with | .natV | .k .npdt => true | _ => false

theorem npInfer_eq (es : List Elem) : npInfer es =
    if es.isEmpty then some .float
    else if es.any eIsStr then
      (if es.all (fun e => eIsStr e || eIsNum e) then some .str else none)
    else if es.any eIsNone then some .object
    else if es.all eIsNum then
      (if es.any eIsFloat then some .float else if es.any eIsInt then some .int else some .bool)
    else if es.all eIsDt64 then (if es.all (· == .natV) then some .datetime else some .date)
    else if es.all (fun e => eIsDt64 e || e == .k .date || e == .k .datetime) then some .object
    else if es.all (· == .k .timedelta) then some .object
    else if es.all (· == .k .bytes) then some .bytes
    else if es.all (fun e => match e with
        | .k .obj | .k .datesub | .k .date | .k .datetime | .k .timedelta | .k .bool | .k .int | .k .float => true | _ => false)
        && es.any (fun e => e == .k .obj || e == .k .datesub) then some .object
    else none := rfl

theorem isEmpty_false_of_mem {α : Type} {l : List α} {a : α} (h : a ∈ l) : l.isEmpty = false := by
  cases l with
  | nil => cases h
  | cons _ _ => rfl

/-- a Python None in the list: object, or no array at all. -/
theorem npInfer_pyNone {es : List Elem} {cc : DClass} (hm : Elem.pyNone ∈ es)
    (h : npInfer es = some cc) : cc = .object := by
  rw [npInfer_eq, isEmpty_false_of_mem hm] at h
  simp only [Bool.false_eq_true, if_false] at h
  by_cases h1 : es.any eIsStr = true
  · rw [if_pos h1] at h
    have : es.all (fun e => eIsStr e || eIsNum e) = false := by
      cases hall : es.all (fun e => eIsStr e || eIsNum e)
      · rfl
      · have := List.all_eq_true.mp hall _ hm
        exact absurd this (by decide)
    rw [this] at h
    simp at h
  · rw [if_neg h1] at h
    have : es.any eIsNone = true := List.any_eq_true.mpr ⟨_, hm, by decide⟩
    rw [if_pos this] at h
    simp only [Option.some.injEq] at h
    exact h.symm

/-- an empty string in the list: string, or no array at all. -/
theorem npInfer_emptyS {es : List Elem} {cc : DClass} (hm : Elem.emptyS ∈ es)
    (h : npInfer es = some cc) : cc = .str := by
  rw [npInfer_eq, isEmpty_false_of_mem hm] at h
  simp only [Bool.false_eq_true, if_false] at h
  have : es.any eIsStr = true := List.any_eq_true.mpr ⟨_, hm, by decide⟩
  rw [if_pos this] at h
  split at h
  · simp only [Option.some.injEq] at h; exact h.symm
  · cases h

def eNumeric (e : Elem) : Bool := match e with
  | .nanF | .k .float | .k .int | .k .npfloat | .k .npint => true | _ => false

theorem eNumeric_facts (e : Elem) (h : eNumeric e = true) :
    eIsStr e = false ∧ eIsNone e = false ∧ eIsNum e = true := by
  revert h
  cases e with
  | k kk => cases kk <;> (try (rename_i b; cases b)) <;> decide
  | _ => decide

/-- NaN among floats and integers: float. -/
theorem npInfer_nanF {es : List Elem} (hm : Elem.nanF ∈ es) (hall : ∀ e ∈ es, eNumeric e = true) :
    npInfer es = some .float := by
  rw [npInfer_eq, isEmpty_false_of_mem hm]
  have h1 : es.any eIsStr = false := by
    rw [List.any_eq_false]; intro e he
    rw [(eNumeric_facts e (hall e he)).1]; decide
  have h2 : es.any eIsNone = false := by
    rw [List.any_eq_false]; intro e he
    rw [(eNumeric_facts e (hall e he)).2.1]; decide
  have h3 : es.all eIsNum = true := by
    rw [List.all_eq_true]; intro e he
    exact (eNumeric_facts e (hall e he)).2.2
  have h4 : es.any eIsFloat = true := List.any_eq_true.mpr ⟨_, hm, by decide⟩
  rw [h1, h2, h3, h4]
  rfl

def eDateish (e : Elem) : Bool := match e with
  | .natV | .k .date | .k .datetime | .k .npdt => true | _ => false

theorem eDateish_facts (e : Elem) (h : eDateish e = true) :
    eIsStr e = false ∧ eIsNone e = false ∧
      (eIsDt64 e = false → e = .k .date ∨ e = .k .datetime) := by
  revert h
  cases e with
  | k kk => cases kk <;> (try (rename_i b; cases b)) <;> decide
  | _ => decide

/-- NaT among dates: a datetime64 array, or — when a date / datetime *object* is present — an
    object array. -/
theorem npInfer_natV {es : List Elem} {cc : DClass} (hm : Elem.natV ∈ es)
    (hall : ∀ e ∈ es, eDateish e = true) (h : npInfer es = some cc) :
    cc = .datetime ∨ cc = .date ∨ (Elem.k .date ∈ es ∨ Elem.k .datetime ∈ es) := by
  rw [npInfer_eq, isEmpty_false_of_mem hm] at h
  have h1 : es.any eIsStr = false := by
    rw [List.any_eq_false]; intro e he
    rw [(eDateish_facts e (hall e he)).1]; decide
  have h2 : es.any eIsNone = false := by
    rw [List.any_eq_false]; intro e he
    rw [(eDateish_facts e (hall e he)).2.1]; decide
  have h3 : es.all eIsNum = false := by
    cases h3 : es.all eIsNum
    · rfl
    · exact absurd (List.all_eq_true.mp h3 _ hm) (by decide)
  rw [h1, h2, h3] at h
  simp only [Bool.false_eq_true, if_false] at h
  by_cases h4 : es.all eIsDt64 = true
  · rw [if_pos h4] at h
    split at h <;> simp only [Option.some.injEq] at h
    · exact Or.inl h.symm
    · exact Or.inr (Or.inl h.symm)
  · right; right
    have : ∃ e ∈ es, eIsDt64 e = false := by
      apply Classical.byContradiction
      intro hne
      apply h4
      rw [List.all_eq_true]
      intro e he
      cases hd : eIsDt64 e
      · exact absurd ⟨e, he, hd⟩ hne
      · rfl
    obtain ⟨e, he, hd⟩ := this
    rcases (eDateish_facts e (hall e he)).2.2 hd with rfl | rfl
    · exact Or.inl he
    · exact Or.inr he

/-! what `_std_to_np_na_value` tells about the types -/

def kNumeric (k : Kind) : Bool := k == .float || k == .int || k == .npfloat || k == .npint

theorem naOfTypes_nan {ts : List Kind} (h : naOfTypes ts = .nan) : ∀ k ∈ ts, kNumeric k = true := by
  unfold naOfTypes at h
  split at h; · cases h
  split at h; · cases h
  split at h
  · rename_i hall; exact List.all_eq_true.mp hall
  · split at h <;> cases h

theorem naOfTypes_nat {ts : List Kind} (h : naOfTypes ts = .nat) : ∀ k ∈ ts, isDateish k = true := by
  unfold naOfTypes at h
  split at h; · cases h
  split at h; · cases h
  split at h; · cases h
  split at h
  · rename_i hall; exact List.all_eq_true.mp hall
  · cases h

theorem naOfTypes_dateish {ts : List Kind} (hne : ts ≠ []) (h : ∀ k ∈ ts, isDateish k = true) :
    naOfTypes ts = .nat := by
  unfold naOfTypes
  have h0 : ts.isEmpty = false := by cases ts with | nil => exact absurd rfl hne | cons _ _ => rfl
  have h1 : ts.contains (Kind.str false) = false := by
    cases hc : ts.contains (Kind.str false)
    · rfl
    · have := h _ (by simpa using hc); exact absurd this (by decide)
  have h2 : ts.all (fun k => k == .float || k == .int || k == .npfloat || k == .npint) = false := by
    cases ts with
    | nil => exact absurd rfl hne
    | cons t ts =>
      have := h t (by simp)
      simp only [List.all_cons]
      cases t <;> first | (exact absurd this (by decide)) | rfl
  have h3 : ts.all (fun k => k == .date || k == .datetime || k == .npdt) = true :=
    List.all_eq_true.mpr h
  rw [h0, h1, h2, h3]
  rfl

/-! the main theorem -/

theorem subst_mem_of_missing {xs : List Kind} (na : NaVal) (h : xs.any (·.missing) = true) :
    ∃ x ∈ xs, x.missing = true ∧ subst na x ∈ xs.map (subst na) := by
  obtain ⟨x, hx, hm⟩ := List.any_eq_true.mp h
  exact ⟨x, hx, hm, List.mem_map.mpr ⟨x, hx, rfl⟩⟩

/-- the substituted missing element is in the list handed to `np.array`. -/
theorem naElem_mem {xs : List Kind} (na : NaVal) (h : xs.any (·.missing) = true) :
    (match na with | .pyNone => Elem.pyNone | .nan => .nanF | .emptyStr => .emptyS | .nat => .natV)
      ∈ xs.map (subst na) := by
  obtain ⟨x, _, hm, hmem⟩ := subst_mem_of_missing na h
  simp only [subst, hm, if_true] at hmem
  exact hmem

/-- the generic branch: whenever NumPy's inference is reached with a missing element present,
    the class it returns fits the substituted missing value — unless date / datetime objects
    forced an object array. -/
theorem npInfer_matched {xs : List Kind} {cc : DClass} (hany : xs.any (·.missing) = true)
    (h : npInfer (xs.map (subst (naOfTypes (types xs)))) = some cc) :
    Matched cc (naOfTypes (types xs)) = true ∨
      (naOfTypes (types xs) = .nat ∧ (Kind.date ∈ types xs ∨ Kind.datetime ∈ types xs)) := by
  have hmem := naElem_mem (naOfTypes (types xs)) hany
  cases hna : naOfTypes (types xs) with
  | pyNone =>
    rw [hna] at hmem h
    left; rw [npInfer_pyNone hmem h]; rfl
  | emptyStr =>
    rw [hna] at hmem h
    left; rw [npInfer_emptyS hmem h]; rfl
  | nan =>
    have hts := naOfTypes_nan hna
    rw [hna] at hmem h
    left
    have hall : ∀ e ∈ xs.map (subst .nan), eNumeric e = true := by
      intro e he
      obtain ⟨x, hx, rfl⟩ := List.mem_map.mp he
      cases hm : x.missing
      · have := hts (normK x) (mem_types.mpr ⟨x, hx, hm, rfl⟩)
        revert this hm
        cases x <;> (try (rename_i b; cases b)) <;> decide
      · simp [subst, hm, eNumeric]
    rw [npInfer_nanF hmem hall] at h
    simp only [Option.some.injEq] at h
    rw [← h]; rfl
  | nat =>
    have hts := naOfTypes_nat hna
    rw [hna] at hmem h
    have hall : ∀ e ∈ xs.map (subst .nat), eDateish e = true := by
      intro e he
      obtain ⟨x, hx, rfl⟩ := List.mem_map.mp he
      cases hm : x.missing
      · have := hts (normK x) (mem_types.mpr ⟨x, hx, hm, rfl⟩)
        revert this hm
        cases x <;> (try (rename_i b; cases b)) <;> decide
      · simp [subst, hm, eDateish]
    rcases npInfer_natV hmem hall h with rfl | rfl | hobj
    · left; rfl
    · left; rfl
    · right
      refine ⟨rfl, ?_⟩
      have key : ∀ k : Kind, (k = .date ∨ k = .datetime) → Elem.k k ∈ xs.map (subst .nat) → k ∈ types xs := by
        intro k hk he
        obtain ⟨x, hx, hsub⟩ := List.mem_map.mp he
        have hm : x.missing = false := by
          cases hm : x.missing
          · rfl
          · simp [subst, hm] at hsub
        simp only [subst, hm, Bool.false_eq_true, if_false, Elem.k.injEq] at hsub
        subst hsub
        refine mem_types.mpr ⟨x, hx, hm, ?_⟩
        rcases hk with rfl | rfl <;> rfl
      rcases hobj with h1 | h1
      · exact Or.inl (key _ (Or.inl rfl) h1)
      · exact Or.inr (key _ (Or.inr rfl) h1)

/-- dateish types with only one of date / datetime: discarding np.datetime64 leaves that one. -/
theorem filter_npdt_eq {ts : List Kind} {d : Kind} (hd : d = .date ∨ d = .datetime)
    (hn : ts.Nodup) (hall : ∀ k ∈ ts, isDateish k = true) (hmem : d ∈ ts)
    (hother : ∀ k ∈ ts, k = .date ∨ k = .datetime → k = d) :
    ts.filter (· != .npdt) = [d] := by
  apply eq_singleton_of_nodup (hn.sublist List.filter_sublist)
  · intro k hk
    rw [List.mem_filter] at hk
    have h1 := hall k hk.1
    have h2 := hk.2
    apply hother k hk.1
    revert h1 h2
    cases k <;> (try (rename_i b; cases b)) <;> decide
  · rw [List.mem_filter]
    refine ⟨hmem, ?_⟩
    rcases hd with rfl | rfl <;> decide

/-! `construct`, branch by branch -/

def genericResult (c : Option DClass) (na : NaVal) (xs : List Kind) : Option Result :=
  c.map (fun c => { dclass := c, na := (xs.map (subst na)).map (isNaElem c) })

def npClass (t : Kind) : DClass := match t with
  | .npbool => .bool | .npint => .int | .npfloat => .float | .npdt => .date | _ => .ustr

def npClassUp (t : Kind) (xs : List Kind) : DClass :=
  if npClass t == .int && xs.any (·.missing) then DClass.float else npClass t

theorem construct_single_np (xs : List Kind) (t : Kind) (ht : types xs = [t]) (hn : isNumpyKind t = true) :
    construct xs = some { dclass := npClassUp t xs,
                          na := xs.map (fun x => isNaElem (npClassUp t xs) (subst (naOfClass (npClass t)) x)) } := by
  unfold construct
  simp only [ht, hn, if_true]
  rfl

theorem construct_single (xs : List Kind) (t : Kind) (ht : types xs = [t]) (hn : isNumpyKind t = false) :
    construct xs = genericResult (if t == .date then some DClass.date else if t == .datetime then some DClass.datetime
      else npInfer (xs.map (subst (naOfTypes (types xs))))) (naOfTypes (types xs)) xs := by
  unfold construct
  simp only [ht, hn, Bool.false_eq_true, if_false]
  rfl

theorem construct_multi (xs : List Kind) (ht : ∀ t, types xs ≠ [t]) :
    construct xs = genericResult
      (if (types xs).filter (· != .npdt) == [.date] then some DClass.date
       else if (types xs).filter (· != .npdt) == [.datetime] then some DClass.datetime
       else npInfer (xs.map (subst (naOfTypes (types xs))))) (naOfTypes (types xs)) xs := by
  unfold construct
  simp only []
  rfl

theorem genericResult_mask {c : Option DClass} {na : NaVal} {xs : List Kind} {r : Result}
    (h : genericResult c na xs = some r) (hs : Kind.str true ∉ xs)
    (hm : ∀ cc, c = some cc → xs.any (·.missing) = true → Matched cc na = true) :
    r.na = xs.map Kind.missing := by
  cases c with
  | none => cases h
  | some cc =>
    simp only [genericResult, Option.map_some, Option.some.injEq] at h
    subst h
    simp only [List.map_map]
    exact mask_exact_of cc na xs hs (hm cc rfl)

theorem maskGuard_unpack {xs : List Kind} (hg : maskGuard xs = true) :
    Kind.str true ∉ xs ∧ (xs.any (·.missing) = true →
      types xs ≠ [.npbool] ∧ mixedDates (types xs) = false) := by
  simp only [maskGuard, Bool.and_eq_true, Bool.not_eq_true', Bool.and_eq_false_iff,
    Bool.or_eq_false_iff] at hg
  refine ⟨by simpa using hg.1, ?_⟩
  intro hany
  rcases hg.2 with h | h
  · rw [hany] at h; cases h
  · exact ⟨by simpa using h.1, h.2⟩

/-- in the dateish family without both date and datetime objects, `_std_to_np` picks the
    datetime64 class itself, never reaching NumPy's inference with a date object. -/
theorem not_mixed_cases {ts : List Kind} (hn : ts.Nodup) (hall : ∀ k ∈ ts, isDateish k = true)
    (hmix : mixedDates ts = false) (hd : Kind.date ∈ ts ∨ Kind.datetime ∈ ts) :
    ts.filter (· != .npdt) = [.date] ∨ ts.filter (· != .npdt) = [.datetime] := by
  have hnot : ¬ (Kind.date ∈ ts ∧ Kind.datetime ∈ ts) := by
    rintro ⟨h1, h2⟩
    have : mixedDates ts = true := by
      simp only [mixedDates, Bool.and_eq_true, List.all_eq_true]
      exact ⟨⟨by simpa using h1, by simpa using h2⟩, hall⟩
    rw [hmix] at this; cases this
  rcases hd with hd | hd
  · left
    apply filter_npdt_eq (Or.inl rfl) hn hall hd
    intro k hk hk'
    rcases hk' with rfl | rfl
    · rfl
    · exact absurd ⟨hd, hk⟩ hnot
  · right
    apply filter_npdt_eq (Or.inr rfl) hn hall hd
    intro k hk hk'
    rcases hk' with rfl | rfl
    · exact absurd ⟨hk, hd⟩ hnot
    · rfl

/-- THE GUARDED MAPPING: under `maskGuard`, whenever the inferred-dtype constructor returns a
    vector, `is_na` is true exactly at the positions that held None / NaN. -/
theorem construct_mask_exact (xs : List Kind) (r : Result) (hg : maskGuard xs = true)
    (h : construct xs = some r) : r.na = xs.map Kind.missing := by
  obtain ⟨hs, hg2⟩ := maskGuard_unpack hg
  have hnd := nodup_types xs
  by_cases hsingle : ∃ t, types xs = [t]
  · obtain ⟨t, ht⟩ := hsingle
    cases hn : isNumpyKind t
    · -- one Python class
      rw [construct_single xs t ht hn] at h
      apply genericResult_mask h hs
      intro cc hcc hany
      by_cases hd : t = .date
      · subst hd
        simp only [beq_self_eq_true, if_true, Option.some.injEq] at hcc
        subst hcc; rw [ht]; rfl
      by_cases hdt : t = .datetime
      · subst hdt
        have : (Kind.datetime == Kind.date) = false := by decide
        simp only [this, Bool.false_eq_true, if_false, beq_self_eq_true, if_true,
          Option.some.injEq] at hcc
        subst hcc; rw [ht]; rfl
      have e1 : (t == Kind.date) = false := by simpa using hd
      have e2 : (t == Kind.datetime) = false := by simpa using hdt
      simp only [e1, e2, Bool.false_eq_true, if_false] at hcc
      rcases npInfer_matched hany hcc with hm | ⟨_, hmem⟩
      · exact hm
      · rw [ht] at hmem
        simp only [List.mem_singleton] at hmem
        rcases hmem with hmem | hmem
        · exact absurd hmem.symm hd
        · exact absurd hmem.symm hdt
    · -- NumPy scalars of one type
      rw [construct_single_np xs t ht hn] at h
      simp only [Option.some.injEq] at h
      subst h
      simp only []
      apply mask_exact_of _ _ xs hs
      intro hany
      have hnb : t ≠ .npbool := by
        intro e; subst e; exact (hg2 hany).1 ht
      unfold npClassUp
      rw [hany]
      revert hn hnb
      cases t <;> (try (rename_i b; cases b)) <;> decide
  · -- several classes (or none)
    have hmulti : ∀ t, types xs ≠ [t] := fun t ht => hsingle ⟨t, ht⟩
    rw [construct_multi xs hmulti] at h
    apply genericResult_mask h hs
    intro cc hcc hany
    have hdateish : ∀ d : Kind, d = .date ∨ d = .datetime →
        (types xs).filter (· != .npdt) = [d] → naOfTypes (types xs) = .nat := by
      intro d hd hf
      have hdm : d ∈ types xs := by
        have : d ∈ (types xs).filter (· != .npdt) := by rw [hf]; simp
        exact (List.mem_filter.mp this).1
      apply naOfTypes_dateish (List.ne_nil_of_mem hdm)
      intro k hk
      by_cases hkn : k = .npdt
      · subst hkn; rfl
      · have : k ∈ (types xs).filter (· != .npdt) := List.mem_filter.mpr ⟨hk, by simpa using hkn⟩
        rw [hf] at this
        simp only [List.mem_singleton] at this
        subst this
        rcases hd with rfl | rfl <;> rfl
    by_cases h1 : (types xs).filter (· != .npdt) = [.date]
    · simp only [h1, beq_self_eq_true, if_true, Option.some.injEq] at hcc
      subst hcc
      rw [hdateish _ (Or.inl rfl) h1]; rfl
    by_cases h2 : (types xs).filter (· != .npdt) = [.datetime]
    · have e1 : ((types xs).filter (· != .npdt) == [Kind.date]) = false := by
        rw [h2]; decide
      rw [e1] at hcc
      simp only [h2, Bool.false_eq_true, if_false, beq_self_eq_true, if_true,
        Option.some.injEq] at hcc
      subst hcc
      rw [hdateish _ (Or.inr rfl) h2]; rfl
    have e1 : ((types xs).filter (· != .npdt) == [Kind.date]) = false := by simpa using h1
    have e2 : ((types xs).filter (· != .npdt) == [Kind.datetime]) = false := by simpa using h2
    simp only [e1, e2, Bool.false_eq_true, if_false] at hcc
    rcases npInfer_matched hany hcc with hm | ⟨hnat, hmem⟩
    · exact hm
    · rcases not_mixed_cases hnd (naOfTypes_nat hnat) (hg2 hany).2 hmem with h | h
      · exact absurd h h1
      · exact absurd h h2

/-! ### the guard is exact: outside it the mask is wrong -/

theorem map_ne_of {α β : Type} {f g : α → β} {xs : List α} {x : α} (hx : x ∈ xs) (h : f x ≠ g x) :
    xs.map f ≠ xs.map g := fun e => h (List.map_inj_left.mp e x hx)

theorem genericResult_na {c : Option DClass} {na : NaVal} {xs : List Kind} {r : Result}
    (h : genericResult c na xs = some r) :
    ∃ cc, c = some cc ∧ r.na = xs.map (fun x => isNaElem cc (subst na x)) := by
  cases c with
  | none => cases h
  | some cc =>
    simp only [genericResult, Option.map_some, Option.some.injEq] at h
    subst h
    exact ⟨cc, rfl, by simp only [List.map_map]; rfl⟩

/-- a string in the list: string, or no array at all. -/
theorem npInfer_hasStr {es : List Elem} {cc : DClass} {e : Elem} (hm : e ∈ es) (he : eIsStr e = true)
    (h : npInfer es = some cc) : cc = .str := by
  rw [npInfer_eq, isEmpty_false_of_mem hm] at h
  simp only [Bool.false_eq_true, if_false] at h
  have : es.any eIsStr = true := List.any_eq_true.mpr ⟨_, hm, he⟩
  rw [if_pos this] at h
  split at h
  · simp only [Option.some.injEq] at h; exact h.symm
  · cases h

theorem eDateish_or (e : Elem) (h : eDateish e = true) :
    (eIsDt64 e || e == .k .date || e == .k .datetime) = true := by
  revert h
  cases e with
  | k kk => cases kk <;> (try (rename_i b; cases b)) <;> decide
  | _ => decide

/-- NaT among dates with a date / datetime object: an object array. -/
theorem npInfer_natV_obj {es : List Elem} {d : Kind} (hd : d = .date ∨ d = .datetime)
    (hm : Elem.natV ∈ es) (hdm : Elem.k d ∈ es) (hall : ∀ e ∈ es, eDateish e = true) :
    npInfer es = some .object := by
  rw [npInfer_eq, isEmpty_false_of_mem hm]
  have h1 : es.any eIsStr = false := by
    rw [List.any_eq_false]; intro e he
    rw [(eDateish_facts e (hall e he)).1]; decide
  have h2 : es.any eIsNone = false := by
    rw [List.any_eq_false]; intro e he
    rw [(eDateish_facts e (hall e he)).2.1]; decide
  have h3 : es.all eIsNum = false := by
    cases h3 : es.all eIsNum
    · rfl
    · exact absurd (List.all_eq_true.mp h3 _ hm) (by decide)
  have h4 : es.all eIsDt64 = false := by
    cases h4 : es.all eIsDt64
    · rfl
    · have := List.all_eq_true.mp h4 _ hdm
      rcases hd with rfl | rfl <;> exact absurd this (by decide)
  have h5 : es.all (fun e => eIsDt64 e || e == .k .date || e == .k .datetime) = true := by
    rw [List.all_eq_true]; intro e he; exact eDateish_or e (hall e he)
  rw [h1, h2, h3, h4, h5]
  rfl

theorem naOfTypes_str {ts : List Kind} (h : Kind.str false ∈ ts) : naOfTypes ts = .emptyStr := by
  unfold naOfTypes
  rw [isEmpty_false_of_mem h]
  have : ts.contains (Kind.str false) = true := by simpa using h
  rw [this]
  rfl

/-- family 1: an empty string is flagged although it is not None / NaN. -/
theorem mask_wrong_emptyStr (xs : List Kind) (r : Result) (hs : Kind.str true ∈ xs)
    (h : construct xs = some r) : r.na ≠ xs.map Kind.missing := by
  have hts : Kind.str false ∈ types xs := mem_types.mpr ⟨_, hs, rfl, rfl⟩
  have hna := naOfTypes_str hts
  have hes : Elem.k (.str true) ∈ xs.map (subst (naOfTypes (types xs))) :=
    List.mem_map.mpr ⟨_, hs, rfl⟩
  have hfin : ∀ c : Option DClass, (∀ cc, c = some cc → cc = .str) →
      genericResult c (naOfTypes (types xs)) xs = some r → r.na ≠ xs.map Kind.missing := by
    intro c hc hg
    obtain ⟨cc, hcc, hr⟩ := genericResult_na hg
    rw [hr, hc cc hcc, hna]
    exact map_ne_of hs (by decide)
  by_cases hsingle : ∃ t, types xs = [t]
  · obtain ⟨t, ht⟩ := hsingle
    have htt : t = .str false := by
      rw [ht] at hts; exact (List.mem_singleton.mp hts).symm
    subst htt
    rw [construct_single xs _ ht rfl] at h
    refine hfin _ ?_ h
    intro cc hcc
    have e1 : (Kind.str false == Kind.date) = false := by decide
    have e2 : (Kind.str false == Kind.datetime) = false := by decide
    simp only [e1, e2, Bool.false_eq_true, if_false] at hcc
    exact npInfer_hasStr hes rfl hcc
  · have hmulti : ∀ t, types xs ≠ [t] := fun t ht => hsingle ⟨t, ht⟩
    rw [construct_multi xs hmulti] at h
    refine hfin _ ?_ h
    intro cc hcc
    have hf : Kind.str false ∈ (types xs).filter (· != .npdt) :=
      List.mem_filter.mpr ⟨hts, by decide⟩
    have e1 : ((types xs).filter (· != .npdt) == [Kind.date]) = false := by
      cases e : ((types xs).filter (· != .npdt) == [Kind.date])
      · rfl
      · rw [beq_iff_eq.mp e] at hf; exact absurd hf (by decide)
    have e2 : ((types xs).filter (· != .npdt) == [Kind.datetime]) = false := by
      cases e : ((types xs).filter (· != .npdt) == [Kind.datetime])
      · rfl
      · rw [beq_iff_eq.mp e] at hf; exact absurd hf (by decide)
    rw [e1, e2] at hcc
    simp only [Bool.false_eq_true, if_false] at hcc
    exact npInfer_hasStr hes rfl hcc

/-- family 2: NumPy bool scalars cannot hold the missing value. -/
theorem mask_wrong_npbool (xs : List Kind) (r : Result) (ht : types xs = [.npbool])
    (hany : xs.any (·.missing) = true) (h : construct xs = some r) : r.na ≠ xs.map Kind.missing := by
  rw [construct_single_np xs _ ht rfl] at h
  simp only [Option.some.injEq] at h
  subst h
  obtain ⟨x, hx, hm⟩ := List.any_eq_true.mp hany
  refine map_ne_of hx ?_
  rw [hm]
  have : npClassUp .npbool xs = .bool := rfl
  rw [this]
  simp [isNaElem]

/-- family 3: date and datetime objects mixed make an object array holding NaT objects. -/
theorem mask_wrong_mixedDates (xs : List Kind) (r : Result) (hmix : mixedDates (types xs) = true)
    (hany : xs.any (·.missing) = true) (h : construct xs = some r) : r.na ≠ xs.map Kind.missing := by
  simp only [mixedDates, Bool.and_eq_true, List.all_eq_true] at hmix
  obtain ⟨⟨hd, hdt⟩, hall⟩ := hmix
  have hd' : Kind.date ∈ types xs := by simpa using hd
  have hdt' : Kind.datetime ∈ types xs := by simpa using hdt
  have hna : naOfTypes (types xs) = .nat := naOfTypes_dateish (List.ne_nil_of_mem hd') hall
  have hmulti : ∀ t, types xs ≠ [t] := by
    intro t ht
    rw [ht] at hd' hdt'
    simp only [List.mem_singleton] at hd' hdt'
    rw [← hd'] at hdt'; cases hdt'
  rw [construct_multi xs hmulti] at h
  obtain ⟨cc, hcc, hr⟩ := genericResult_na h
  have hf1 : Kind.date ∈ (types xs).filter (· != .npdt) := List.mem_filter.mpr ⟨hd', by decide⟩
  have hf2 : Kind.datetime ∈ (types xs).filter (· != .npdt) := List.mem_filter.mpr ⟨hdt', by decide⟩
  have e1 : ((types xs).filter (· != .npdt) == [Kind.date]) = false := by
    cases e : ((types xs).filter (· != .npdt) == [Kind.date])
    · rfl
    · rw [beq_iff_eq.mp e] at hf2; exact absurd hf2 (by decide)
  have e2 : ((types xs).filter (· != .npdt) == [Kind.datetime]) = false := by
    cases e : ((types xs).filter (· != .npdt) == [Kind.datetime])
    · rfl
    · rw [beq_iff_eq.mp e] at hf1; exact absurd hf1 (by decide)
  rw [e1, e2, hna] at hcc
  simp only [Bool.false_eq_true, if_false] at hcc
  have hmem := naElem_mem .nat hany
  have hallE : ∀ e ∈ xs.map (subst .nat), eDateish e = true := by
    intro e he
    obtain ⟨x, hx, rfl⟩ := List.mem_map.mp he
    cases hm : x.missing
    · have := hall (normK x) (mem_types.mpr ⟨x, hx, hm, rfl⟩)
      revert this hm
      cases x <;> (try (rename_i b; cases b)) <;> decide
    · simp [subst, hm, eDateish]
  have hdE : Elem.k .date ∈ xs.map (subst .nat) := by
    obtain ⟨x, hx, hm, hn⟩ := mem_types.mp hd'
    refine List.mem_map.mpr ⟨x, hx, ?_⟩
    have : x = .date := by
      revert hn
      cases x <;> (try (rename_i b; cases b)) <;> decide
    subst this; rfl
  rw [npInfer_natV_obj (Or.inl rfl) hmem hdE hallE] at hcc
  simp only [Option.some.injEq] at hcc
  subst hcc
  rw [hr, hna]
  obtain ⟨x, hx, hm⟩ := List.any_eq_true.mp hany
  refine map_ne_of hx ?_
  rw [hm]
  simp only [subst, hm, if_true]
  decide

/-- the guard is exact: whenever the constructor returns a vector, its mask is the mask of the
    None / NaN positions if and only if the guard holds. -/
theorem construct_mask_iff_guard (xs : List Kind) (r : Result) (h : construct xs = some r) :
    r.na = xs.map Kind.missing ↔ maskGuard xs = true := by
  constructor
  · intro hr
    cases hg : maskGuard xs
    · exfalso
      simp only [maskGuard, Bool.and_eq_false_iff, Bool.not_eq_false', Bool.and_eq_true,
        Bool.or_eq_true, beq_iff_eq] at hg
      rcases hg with hg | ⟨hany, hg | hg⟩
      · exact mask_wrong_emptyStr xs r (by simpa using hg) h hr
      · exact mask_wrong_npbool xs r hg hany h hr
      · exact mask_wrong_mixedDates xs r hg hany h hr
    · rfl
  · intro hg; exact construct_mask_exact xs r hg h

/-- the guard is satisfiable, also with missing values and with NumPy scalars … -/
example : maskGuard [.int, .none, .float, .nan] = true ∧ maskGuard [.npint, .none] = true ∧
    maskGuard [.date, .npdt, .none] = true ∧ maskGuard [.bool, .none, .obj] = true ∧
    maskGuard [.npbool, .npbool] = true ∧ maskGuard [.date, .datetime] = true := by decide

/-- … and each clause of it is needed. -/
example : maskGuard [.str true] = false ∧
    construct [.str true] = some { dclass := .str, na := [true] } := by decide
example : maskGuard [.npbool, .none] = false ∧
    construct [.npbool, .none] = some { dclass := .bool, na := [false, false] } := by decide
example : maskGuard [.date, .datetime, .none] = false ∧
    construct [.date, .datetime, .none] = some { dclass := .object, na := [false, false, false] } := by decide
example : maskGuard [.date, .npdt, .datetime, .nan] = false ∧
    construct [.date, .npdt, .datetime, .nan] = some { dclass := .object, na := [false, false, false, false] } := by
  decide

/-- the plain reading of the guard: no NumPy scalars, no empty string, not (missing value with
    mixed date / datetime objects). -/
def plainGuard (xs : List Kind) : Bool :=
  xs.all (fun k => !isNumpyKind k) && !xs.contains (.str true) &&
  !(xs.any (·.missing) && (types xs).contains .date && (types xs).contains .datetime &&
      (types xs).all (fun k => k == .date || k == .datetime))

theorem plainGuard_imp (xs : List Kind) (h : plainGuard xs = true) : maskGuard xs = true := by
  simp only [plainGuard, Bool.and_eq_true, List.all_eq_true, Bool.not_eq_true',
    Bool.and_eq_false_iff] at h
  obtain ⟨⟨hnp, hs⟩, hmix⟩ := h
  have hnb : (types xs == [Kind.npbool]) = false := by
    cases e : (types xs == [Kind.npbool])
    · rfl
    · have hm : Kind.npbool ∈ types xs := by rw [beq_iff_eq.mp e]; simp
      obtain ⟨x, hx, _, hn⟩ := mem_types.mp hm
      have := hnp x hx
      revert hn this
      cases x with
      | str e => cases e <;> decide
      | _ => decide
  have hts : ∀ k ∈ types xs, isNumpyKind k = false := by
    intro k hk
    obtain ⟨x, hx, _, hn⟩ := mem_types.mp hk
    have := hnp x hx
    subst hn
    revert this
    cases x with
    | str e => cases e <;> decide
    | _ => decide
  simp only [maskGuard, Bool.and_eq_true, Bool.not_eq_true', hs, hnb, Bool.false_or, true_and]
  cases hany : xs.any (·.missing)
  · rfl
  · cases hm : mixedDates (types xs)
    · rfl
    · exfalso
      simp only [mixedDates, Bool.and_eq_true, List.all_eq_true] at hm
      obtain ⟨⟨h1, h2⟩, h3⟩ := hm
      have h4 : (types xs).all (fun k => k == .date || k == .datetime) = true := by
        rw [List.all_eq_true]
        intro k hk
        have a := h3 k hk
        have b := hts k hk
        revert a b
        cases k with
        | str e => cases e <;> decide
        | _ => decide
      rcases hmix with ((hmix | hmix) | hmix) | hmix
      · rw [hany] at hmix; cases hmix
      · rw [h1] at hmix; cases hmix
      · rw [h2] at hmix; cases hmix
      · rw [h4] at hmix; cases hmix

theorem construct_mask_exact_plain (xs : List Kind) (r : Result) (hg : plainGuard xs = true)
    (h : construct xs = some r) : r.na = xs.map Kind.missing :=
  construct_mask_exact xs r (plainGuard_imp xs hg) h

example : plainGuard [.int, .none, .float, .nan] = true ∧ plainGuard [.str false, .none] = true ∧
    plainGuard [.date, .none] = true ∧ plainGuard [.bool, .obj, .nan] = true := by decide

end DI.Construct.More

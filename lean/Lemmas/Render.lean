/-
  Lemmas/Render.lean — lemmas about the layout model (C20).
-/
import Model.Render

namespace DI.Render

variable {wc : Char → Option Nat}

def Printable (wc : Char → Option Nat) (s : Str) : Prop := ∀ c ∈ s, (wc c).isSome = true

/-- display width of a printable string as a plain sum. -/
def pwidth (wc : Char → Option Nat) (s : Str) : Nat := (s.map (fun c => (wc c).getD 0)).sum

theorem wsum_printable {s : Str} (h : Printable wc s) : wsum wc s = some (pwidth wc s) := by
  induction s with
  | nil => rfl
  | cons c cs ih =>
    have hc : (wc c).isSome = true := h c (by simp)
    have hcs : Printable wc cs := fun d hd => h d (by simp [hd])
    obtain ⟨a, ha⟩ := Option.isSome_iff_exists.mp hc
    simp [wsum, ih hcs, ha, pwidth]

theorem ulen_printable {s : Str} (h : Printable wc s) : ulen wc s = pwidth wc s := by
  simp [ulen, wsum_printable h]

theorem printable_append {s t : Str} (hs : Printable wc s) (ht : Printable wc t) : Printable wc (s ++ t) := by
  intro c hc
  rcases List.mem_append.mp hc with h | h
  · exact hs c h
  · exact ht c h

theorem pwidth_append (s t : Str) : pwidth wc (s ++ t) = pwidth wc s + pwidth wc t := by
  simp [pwidth]

theorem ulen_append {s t : Str} (hs : Printable wc s) (ht : Printable wc t) :
    ulen wc (s ++ t) = ulen wc s + ulen wc t := by
  rw [ulen_printable (printable_append hs ht), ulen_printable hs, ulen_printable ht, pwidth_append]

theorem printable_replicate {c : Char} (hc : (wc c).isSome = true) (n : Nat) : Printable wc (List.replicate n c) := by
  intro d hd
  rw [(List.mem_replicate.mp hd).2]; exact hc

theorem ulen_replicate {c : Char} (hc : wc c = some 1) (n : Nat) : ulen wc (List.replicate n c) = n := by
  rw [ulen_printable (printable_replicate (by simp [hc]) n)]
  induction n with
  | zero => rfl
  | succ k ih => simp [pwidth, List.replicate_succ, hc] at ih ⊢; omega

theorem ulen_le_maxWidth {xs : List Str} {x : Str} (h : x ∈ xs) : ulen wc x ≤ maxWidth wc xs := by
  induction xs with
  | nil => cases h
  | cons y ys ih =>
    simp only [maxWidth, List.map_cons, List.foldr_cons]
    rcases List.mem_cons.mp h with rfl | h'
    · exact Nat.le_max_left _ _
    · exact Nat.le_trans (ih h') (Nat.le_max_right _ _)

/-- every padded string has the same display width, the maximum. -/
theorem upad_uniform (hsp : wc ' ' = some 1) {xs : List Str} (hp : ∀ x ∈ xs, Printable wc x) :
    ∀ y ∈ upad wc xs, ulen wc y = maxWidth wc xs ∧ Printable wc y := by
  intro y hy
  obtain ⟨x, hx, rfl⟩ := List.mem_map.mp hy
  have hs : Printable wc (spaces (maxWidth wc xs - ulen wc x)) := printable_replicate (by simp [hsp]) _
  refine ⟨?_, printable_append hs (hp x hx)⟩
  rw [ulen_append hs (hp x hx)]
  have := ulen_le_maxWidth (wc := wc) hx
  simp only [spaces, ulen_replicate hsp]
  omega

theorem upad_length (xs : List Str) : (upad wc xs).length = xs.length := by simp [upad]

/-- padding only prepends spaces: the original string is kept. -/
theorem upad_getElem (xs : List Str) (i : Nat) (h : i < xs.length) :
    (upad wc xs)[i]'(by simpa [upad] using h) = spaces (maxWidth wc xs - ulen wc xs[i]) ++ xs[i] := by
  simp [upad]

/-! ### truncation -/

theorem utruncateGo_prefix (s : Str) (width i fuel : Nat) : utruncateGo wc s width i fuel <+: s := by
  induction fuel generalizing i with
  | zero => exact List.prefix_refl s
  | succ k ih =>
    unfold utruncateGo
    split
    · exact List.take_prefix _ s
    · exact ih (i + 1)

theorem utruncate_prefix (s : Str) (width : Nat) : utruncate wc s width <+: s :=
  utruncateGo_prefix s width 1 _

theorem firstLine_no_break (s : Str) : (firstLine s).any isBreak = false := by
  unfold firstLine
  induction s with
  | nil => rfl
  | cons c cs ih =>
    simp only [List.takeWhile_cons]
    split
    · rename_i h
      simp only [List.any_cons, ih, Bool.or_false]
      simpa using h
    · rfl

theorem any_prefix_false {p : Char → Bool} {s t : Str} (h : s <+: t) (ht : t.any p = false) : s.any p = false := by
  obtain ⟨u, rfl⟩ := h
  simp only [List.any_append, Bool.or_eq_false_iff] at ht
  exact ht.1

/-- with a finite truncate width no cell keeps a line break. -/
theorem truncCell_no_break (t : Nat) (s : Str) : (truncCell wc (some t) s).any isBreak = false := by
  unfold truncCell
  simp only
  split
  · simp only [List.any_append, List.any_cons, List.any_nil, Bool.or_false]
    rw [any_prefix_false (utruncate_prefix _ _) (firstLine_no_break s)]
    decide
  · rename_i h
    simp only [Bool.or_eq_true, not_or, Bool.not_eq_true] at h
    exact h.2

theorem toStrings_length (tw : Option Nat) (xs : List Str) : (toStrings wc tw xs).length = xs.length := by
  simp [toStrings, upad]

/-! ### columns and row numbers -/

/-- a list of strings that all have display width `W`, are printable, and there are `m` of them. -/
def Uniform (wc : Char → Option Nat) (W m : Nat) (col : List Str) : Prop :=
  col.length = m ∧ ∀ y ∈ col, ulen wc y = W ∧ Printable wc y

theorem mkColumn_uniform (hsp : wc ' ' = some 1) (hrule : wc '─' = some 1) (name label : Str) (cells : List Str)
    (hn : Printable wc name) (hl : Printable wc label) (hc : ∀ x ∈ cells, Printable wc x) :
    Uniform wc (maxWidth wc (name :: label :: cells)) (cells.length + 3) (mkColumn wc name label cells) := by
  have hp : ∀ x ∈ name :: label :: cells, Printable wc x := by
    intro x hx
    rcases List.mem_cons.mp hx with rfl | hx
    · exact hn
    · rcases List.mem_cons.mp hx with rfl | hx
      · exact hl
      · exact hc x hx
  have hu := upad_uniform hsp hp
  have hlen := upad_length (wc := wc) (name :: label :: cells)
  unfold mkColumn
  generalize upad wc (name :: label :: cells) = padded at hu hlen
  match padded, hlen with
  | a :: b :: rest, hlen =>
    simp only [List.length_cons] at hlen
    refine ⟨by simp only [List.length_cons]; omega, ?_⟩
    intro y hy
    have ha := hu a (by simp)
    rcases List.mem_cons.mp hy with rfl | hy
    · exact ha
    · rcases List.mem_cons.mp hy with rfl | hy
      · exact hu _ (by simp)
      · rcases List.mem_cons.mp hy with rfl | hy
        · exact ⟨by rw [ulen_replicate hrule]; exact ha.1, printable_replicate (by simp [hrule]) _⟩
        · exact hu y (by simp [hy])

theorem natStr_printable (hdig : ∀ c : Char, c.isDigit = true → wc c = some 1) (n : Nat) : Printable wc (natStr n) := by
  intro c hc
  have := Nat.isDigit_of_mem_toDigits (by decide) (by decide) hc
  simp [hdig c this]

theorem rowNumbers_uniform (hsp : wc ' ' = some 1) (hdig : ∀ c : Char, c.isDigit = true → wc c = some 1) (n : Nat) :
    ∃ W, Uniform wc W (n + 3) (rowNumbers wc n) := by
  refine ⟨_, ?_, upad_uniform hsp ?_⟩
  · simp [rowNumbers, upad]
  · intro x hx
    simp only [List.mem_cons, List.mem_map, List.mem_range] at hx
    rcases hx with rfl | rfl | rfl | ⟨k, _, rfl⟩
    · intro c hc; cases hc
    · intro c hc; cases hc
    · intro c hc; cases hc
    · exact natStr_printable hdig k

/-! ### batching -/

theorem zipWith_joinSp_uniform (hsp : wc ' ' = some 1) {W1 W2 m : Nat} {a b : List Str}
    (ha : Uniform wc W1 m a) (hb : Uniform wc W2 m b) :
    Uniform wc (W1 + 1 + W2) m (List.zipWith joinSp a b) := by
  refine ⟨by simp [List.length_zipWith, ha.1, hb.1], ?_⟩
  intro y hy
  obtain ⟨i, hi, rfl⟩ := List.mem_iff_getElem.mp hy
  simp only [List.length_zipWith] at hi
  have hia : i < a.length := by omega
  have hib : i < b.length := by omega
  simp only [List.getElem_zipWith, joinSp]
  have h1 := ha.2 a[i] (List.getElem_mem hia)
  have h2 := hb.2 b[i] (List.getElem_mem hib)
  have hspp : Printable wc [' '] := by intro c hc; simp at hc; simp [hc, hsp]
  have hsw : ulen wc [' '] = 1 := by simp [ulen, wsum, hsp]
  have : a[i] ++ ' ' :: b[i] = a[i] ++ ([' '] ++ b[i]) := by simp
  rw [this]
  refine ⟨?_, printable_append h1.2 (printable_append hspp h2.2)⟩
  rw [ulen_append h1.2 (printable_append hspp h2.2), ulen_append hspp h2.2, hsw, h1.1, h2.1]
  omega

/-- the lines of a batch are the row numbers joined with its columns, left to right. -/
def renderBatch (rownums : List Str) (cols : List (List Str)) : List Str :=
  cols.foldl (List.zipWith joinSp) rownums

theorem renderBatch_uniform (hsp : wc ' ' = some 1) {m : Nat} (cols : List (List Str)) :
    ∀ {W0 : Nat} {rows : List Str}, Uniform wc W0 m rows → (∀ c ∈ cols, ∃ W, Uniform wc W m c) →
    ∃ W, Uniform wc W m (renderBatch rows cols) := by
  induction cols with
  | nil => intro W0 rows h _; exact ⟨W0, h⟩
  | cons c cs ih =>
    intro W0 rows h hc
    obtain ⟨Wc, hWc⟩ := hc c (by simp)
    exact ih (zipWith_joinSp_uniform hsp h hWc) (fun d hd => hc d (by simp [hd]))

theorem renderBatch_snoc (rows : List Str) (cols : List (List Str)) (c : List Str) :
    renderBatch rows (cols ++ [c]) = List.zipWith joinSp (renderBatch rows cols) c := by
  simp [renderBatch, List.foldl_append]

/-- invariant of the batching loop: the current lines are the rendering of the current columns,
    and flattening (current batch ++ later batches) gives back the remaining columns in order. -/
theorem layoutAux_spec (maxw : Nat) (rownums : List Str) (cs : List (List Str)) :
    ∀ (curCols : List (List Str)) (cur : List Str), curCols ≠ [] → cur = renderBatch rownums curCols.reverse →
      let out := layoutAux wc maxw rownums curCols cur cs
      (out.map (·.1)).flatten = curCols.reverse ++ cs ∧
      (∀ b ∈ out, b.1 ≠ [] ∧ b.2 = renderBatch rownums b.1) := by
  induction cs with
  | nil =>
    intro curCols cur hne hcur
    simp only [layoutAux, List.map_cons, List.map_nil, List.flatten_cons, List.flatten_nil, List.append_nil,
      List.mem_singleton, true_and]
    intro b hb; subst hb
    exact ⟨by simpa using hne, hcur⟩
  | cons c cs ih =>
    intro curCols cur hne hcur
    simp only [layoutAux]
    split
    · have := ih [c] (List.zipWith joinSp rownums c) (by simp) (by simp [renderBatch])
      simp only [List.map_cons, List.flatten_cons, List.mem_cons]
      refine ⟨by rw [this.1]; simp, ?_⟩
      intro b hb
      rcases hb with rfl | hb
      · exact ⟨by simpa using hne, hcur⟩
      · exact this.2 b hb
    · have := ih (c :: curCols) (List.zipWith joinSp cur c) (by simp)
        (by rw [hcur, List.reverse_cons, renderBatch_snoc])
      refine ⟨by rw [this.1]; simp, this.2⟩

theorem layout_spec (maxw : Nat) (rownums : List Str) (cols : List (List Str)) :
    ((layout wc maxw rownums cols).map (·.1)).flatten = cols ∧
    (∀ b ∈ layout wc maxw rownums cols, b.1 ≠ [] ∧ b.2 = renderBatch rownums b.1) := by
  cases cols with
  | nil => simp [layout]
  | cons c cs =>
    have := layoutAux_spec (wc := wc) maxw rownums cs [c] (List.zipWith joinSp rownums c) (by simp) (by simp [renderBatch])
    simpa [layout] using this

/-- line `i` of a batch starts with row-number cell `i`, and then holds cell `i` of each of its columns
    in order, separated by single spaces. -/
theorem renderBatch_line (rownums : List Str) (cols : List (List Str)) (i : Nat)
    (hr : i < rownums.length) (hc : ∀ c ∈ cols, i < c.length) :
    (renderBatch rownums cols)[i]? =
      some (rownums[i] ++ (cols.map (fun c => ' ' :: c[i]?.getD [])).flatten) := by
  induction cols generalizing rownums with
  | nil => simp [renderBatch]
  | cons c cs ih =>
    have hci : i < c.length := hc c (by simp)
    have hz : i < (List.zipWith joinSp rownums c).length := by simp [List.length_zipWith]; omega
    have := ih (List.zipWith joinSp rownums c) hz (fun d hd => hc d (by simp [hd]))
    simp only [renderBatch, List.foldl_cons] at this ⊢
    rw [this]
    simp [joinSp, hci]

/-! ### Vector.to_string rows -/

theorem unrows_reverse_addElem (rows : List (List Str)) (s : Str) (hne : rows ≠ []) (h1 : ∀ r ∈ rows, r ≠ []) :
    unrows (addElem wc pw rows s).reverse = unrows rows.reverse ++ [s] ∧
    (addElem wc pw rows s) ≠ [] ∧ ∀ r ∈ addElem wc pw rows s, r ≠ [] := by
  match rows, hne with
  | last :: rest, _ =>
    have key : ∀ (l : List Str), l ≠ [] → unrows ((l ++ [s]) :: rest).reverse = unrows (l :: rest).reverse ++ [s] := by
      intro l hl
      cases hr : rest.reverse with
      | nil => simp [unrows, hr]
      | cons r0 rs =>
        simp only [List.reverse_cons, hr, List.cons_append, unrows, List.map_append, List.map_cons, List.map_nil,
          List.flatten_append, List.flatten_cons, List.flatten_nil, List.append_nil, List.append_assoc]
        congr 2
        cases l with
        | nil => exact absurd rfl hl
        | cons a as => simp
    have hl : last ≠ [] := h1 last (by simp)
    have hmem : ∀ r ∈ (last ++ [s]) :: rest, r ≠ [] := by
      intro r hr
      rcases List.mem_cons.mp hr with rfl | hr
      · simp
      · exact h1 r (by simp [hr])
    have hnew : unrows ([[' '], s] :: last :: rest).reverse = unrows (last :: rest).reverse ++ [s] := by
      cases hr : (last :: rest).reverse with
      | nil => simp at hr
      | cons r0 rs =>
        rw [List.reverse_cons, hr]
        simp [unrows]
    simp only [addElem]
    by_cases hc1 : last.length ≤ 1
    · rw [if_pos hc1]; exact ⟨key last hl, by simp, hmem⟩
    · rw [if_neg hc1]
      by_cases hc2 : ulen wc (((last ++ [s]).intersperse [' ']).flatten) < pw
      · rw [if_pos hc2]; exact ⟨key last hl, by simp, hmem⟩
      · rw [if_neg hc2]
        refine ⟨hnew, by simp, ?_⟩
        intro r hr
        rcases List.mem_cons.mp hr with rfl | hr
        · simp
        · exact h1 r hr

theorem foldl_addElem_cover (toks : List Str) :
    ∀ (rows : List (List Str)), rows ≠ [] → (∀ r ∈ rows, r ≠ []) →
      unrows (toks.foldl (addElem wc pw) rows).reverse = unrows rows.reverse ++ toks := by
  induction toks with
  | nil => intro rows _ _; simp
  | cons t ts ih =>
    intro rows hne h1
    have := unrows_reverse_addElem (wc := wc) (pw := pw) rows t hne h1
    rw [List.foldl_cons, ih _ this.2.1 this.2.2, this.1]
    simp

theorem truncCell_shape (tw : Option Nat) (s : Str) :
    truncCell wc tw s = s ∨ ∃ p, p <+: firstLine s ∧ truncCell wc tw s = p ++ ['…'] := by
  unfold truncCell
  cases tw with
  | none => exact Or.inl rfl
  | some t =>
    simp only
    split
    · exact Or.inr ⟨_, utruncate_prefix _ _, rfl⟩
    · exact Or.inl rfl

end DI.Render

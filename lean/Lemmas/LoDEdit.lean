/-
  Lemmas/LoDEdit.lean — C15: the editing methods change exactly the named keys.
-/
import Model.LoD
import Lemmas.LoD

namespace DI.LoD

theorem Dict.get?_map_set (d : Dict) (k k' : String) (v : Val) (h : k' ≠ k) :
    Dict.get? (d.map (fun p => if p.1 == k then (k, v) else p)) k' = Dict.get? d k' := by
  unfold Dict.get?
  induction d with
  | nil => rfl
  | cons p d ih =>
    rw [List.map_cons, List.find?_cons, List.find?_cons]
    by_cases hp : p.1 = k
    · have h1 : (p.1 == k') = false := by simp [hp, Ne.symm h]
      have h2 : (k == k') = false := by simp [Ne.symm h]
      have h3 : (p.1 == k) = true := by simp [hp]
      simp only [h3, if_true, h2, h1]
      exact ih
    · have h1 : (p.1 == k) = false := by simp [hp]
      simp only [h1, Bool.false_eq_true, if_false]
      cases hk : (p.1 == k')
      · exact ih
      · rfl

/-- `d[k] = v` leaves every other key's value alone … -/
theorem Dict.get?_set_other (d : Dict) (k k' : String) (v : Val) (h : k' ≠ k) :
    (d.set k v).get? k' = d.get? k' := by
  unfold Dict.set
  split
  · exact Dict.get?_map_set d k k' v h
  · simp only [Dict.get?, List.find?_append]
    have : (k == k') = false := by simp [Ne.symm h]
    cases hf : d.find? (fun p => p.1 == k') with
    | some x => simp
    | none => simp [List.find?_cons, this]

/-- … and stores `v` under `k`. -/
theorem Dict.get?_set_self (d : Dict) (k : String) (v : Val) : (d.set k v).get? k = some v := by
  unfold Dict.set
  split
  · rename_i hh
    induction d with
    | nil => simp [Dict.has] at hh
    | cons p d ih =>
      simp only [Dict.get?, List.map_cons, List.find?_cons]
      by_cases hp : p.1 = k
      · simp [hp]
      · have h1 : (p.1 == k) = false := by simp [hp]
        simp only [h1, Bool.false_eq_true, if_false]
        have : Dict.has d k = true := by
          simp only [Dict.has, List.any_cons, h1, Bool.false_or] at hh; exact hh
        exact ih this
  · rename_i hh
    have hnone : d.find? (fun p => p.1 == k) = none := by
      rw [List.find?_eq_none]
      intro x hx
      simp only [Dict.has, List.any_eq_true, not_exists, not_and] at hh
      exact hh x hx
    simp [Dict.get?, List.find?_append, hnone]

theorem Dict.has_iff_get? (d : Dict) (k : String) : d.has k = (d.get? k).isSome := by
  induction d with
  | nil => rfl
  | cons p d ih =>
    simp only [Dict.has, Dict.get?, List.any_cons, List.find?_cons] at ih ⊢
    cases hp : (p.1 == k) <;> simp [ih]

theorem Dict.get?_del_other (d : Dict) (k k' : String) (h : k' ≠ k) : (d.del k).get? k' = d.get? k' := by
  unfold Dict.del Dict.get?
  induction d with
  | nil => rfl
  | cons p d ih =>
    rw [List.filter_cons, List.find?_cons]
    by_cases hp : p.1 = k
    · have h1 : (p.1 == k') = false := by simp [hp, Ne.symm h]
      have h2 : (p.1 != k) = false := by simp [hp]
      simp only [h2, Bool.false_eq_true, if_false, h1]
      exact ih
    · have h2 : (p.1 != k) = true := by simp [hp]
      simp only [h2, if_true]
      rw [List.find?_cons]
      cases hk : (p.1 == k')
      · exact ih
      · rfl

theorem Dict.get?_del_self (d : Dict) (k : String) : (d.del k).get? k = none := by
  simp only [Dict.del, Dict.get?, Option.map_eq_none_iff, List.find?_eq_none]
  intro x hx
  have := (List.mem_filter.mp hx).2
  simpa using this

/-! ### the methods -/

/-- `modify(key=f)`: same items (identities, count, order); every other key keeps its value; the
    named key holds the computed value. -/
theorem modify_spec (xs : List Item) (key : String) (vals : List Val) (hl : vals.length = xs.length)
    (i : Nat) (hi : i < xs.length) :
    ∃ h' : i < (modify xs key vals).length,
      ((modify xs key vals)[i]).tag = xs[i].tag ∧
      ((modify xs key vals)[i]).kv.get? key = some (vals[i]'(by omega)) ∧
      ∀ k', k' ≠ key → ((modify xs key vals)[i]).kv.get? k' = xs[i].kv.get? k' := by
  have hlen : (modify xs key vals).length = xs.length := by simp [modify, hl]
  refine ⟨by omega, ?_⟩
  simp only [modify, List.getElem_map, List.getElem_zip]
  exact ⟨trivial, Dict.get?_set_self _ _ _, fun k' hk => Dict.get?_set_other _ _ _ _ hk⟩

theorem foldl_del_get? (keys : List String) (d : Dict) (k' : String) :
    (keys.foldl (fun d k => d.del k) d).get? k' = if k' ∈ keys then none else d.get? k' := by
  induction keys generalizing d with
  | nil => simp
  | cons k ks ih =>
    simp only [List.foldl_cons, ih, List.mem_cons]
    by_cases h1 : k' ∈ ks
    · simp [h1]
    · by_cases h2 : k' = k
      · subst h2; simp [h1, Dict.get?_del_self]
      · simp [h1, h2, Dict.get?_del_other _ _ _ h2]

/-- `unselect(*keys)`: exactly the named keys disappear, everything else keeps its value. -/
theorem unselect_spec (xs : List Item) (keys : List String) (i : Nat) (hi : i < xs.length) :
    ∃ h' : i < (unselect xs keys).length,
      ((unselect xs keys)[i]).tag = xs[i].tag ∧
      ∀ k', ((unselect xs keys)[i]).kv.get? k' = if k' ∈ keys then none else xs[i].kv.get? k' := by
  refine ⟨by simpa [unselect] using hi, ?_⟩
  simp only [unselect, List.getElem_map]
  exact ⟨trivial, fun k' => foldl_del_get? keys _ k'⟩

theorem foldl_fill_get?_other (kvs : List (String × Val)) (d : Dict) (k' : String) (h : (d.get? k').isSome) :
    (kvs.foldl (fun d p => if d.has p.1 then d else d.set p.1 p.2) d).get? k' = d.get? k' := by
  induction kvs generalizing d with
  | nil => rfl
  | cons p ps ih =>
    simp only [List.foldl_cons]
    split
    · exact ih d h
    · rename_i hh
      have hne : k' ≠ p.1 := by
        intro e; subst e
        rw [Dict.has_iff_get?] at hh; exact hh h
      have e := Dict.get?_set_other d p.1 k' p.2 hne
      rw [ih _ (by rw [e]; exact h), e]

/-- `fill_missing_keys`: a key the item already has keeps its value (even `None`). -/
theorem fillMissing_keeps_existing (xs : List Item) (kvs : List (String × Val)) (i : Nat) (hi : i < xs.length)
    (k' : String) (h : (xs[i].kv.get? k').isSome) :
    ∃ h' : i < (fillMissing xs kvs).length, ((fillMissing xs kvs)[i]).kv.get? k' = xs[i].kv.get? k' ∧
      ((fillMissing xs kvs)[i]).tag = xs[i].tag := by
  refine ⟨by simpa [fillMissing] using hi, ?_⟩
  simp only [fillMissing, List.getElem_map]
  exact ⟨foldl_fill_get?_other kvs _ k' h, trivial⟩

theorem foldl_fill_has (kvs : List (String × Val)) (d : Dict) (k : String) (h : k ∈ kvs.map (·.1)) :
    ((kvs.foldl (fun d p => if d.has p.1 then d else d.set p.1 p.2) d).get? k).isSome := by
  induction kvs generalizing d with
  | nil => simp at h
  | cons p ps ih =>
    simp only [List.foldl_cons]
    simp only [List.map_cons, List.mem_cons] at h
    by_cases hk : k = p.1
    · subst hk
      split
      · rename_i hh
        rw [foldl_fill_get?_other ps d p.1 (by rw [← Dict.has_iff_get?]; exact hh)]
        rw [← Dict.has_iff_get?]; exact hh
      · have hs : ((d.set p.1 p.2).get? p.1).isSome := by rw [Dict.get?_set_self]; rfl
        rw [foldl_fill_get?_other ps _ p.1 hs]; exact hs
    · rcases h with h | h
      · exact absurd h hk
      · split <;> exact ih _ h

/-- … and afterwards every item has every named key. -/
theorem fillMissing_has_all (xs : List Item) (kvs : List (String × Val)) (it : Item) (hit : it ∈ fillMissing xs kvs)
    (k : String) (hk : k ∈ kvs.map (·.1)) : (it.kv.get? k).isSome := by
  simp only [fillMissing, List.mem_map] at hit
  obtain ⟨x, _, rfl⟩ := hit
  exact foldl_fill_has kvs x.kv k hk

end DI.LoD

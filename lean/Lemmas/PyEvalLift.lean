/-
  Lemmas/PyEvalLift.lean — the evaluator of `Model/PyEvalLift.lean` on the normal forms of the element-wise lifting
  helpers of regex.py / dt.py (`Proofs/TieC19.lean`: `liftRe`, `lifted`, `pull`): list semantics of the primitives
  (`flatnonzero` = the positions of the true entries in increasing order; a loop of item assignments over them = a map),
  the loop rule, and the evaluation of every normal form to the element-wise map of `Model/DtRegex.lean`.
-/
import Model.PyEvalLift
import Lemmas.DtRegex
import Lemmas.DtRegexSpec

namespace DI.PyEvalLift

open DI DI.Py DI.DtRe

variable {ε ρ : Type}

/-! ### unfolding -/

theorem evalExpr_sym (C : Ctx ε ρ) (σ : Store ε ρ) (env : Env ε ρ) (s : String) :
    evalExpr C σ env (.sym s) = some (lookupSym env s) := by rw [evalExpr]

theorem evalExpr_app (C : Ctx ε ρ) (σ : Store ε ρ) (env : Env ε ρ) (g : String) (args : List Term)
    (h : σ.find (.app g args) = none) :
    evalExpr C σ env (.app g args) = (evalArgs C σ env args).bind (applyFn C g) := by
  rw [evalExpr]; simp only [h]; cases evalArgs C σ env args <;> rfl

theorem evalExpr_found (C : Ctx ε ρ) (σ : Store ε ρ) (env : Env ε ρ) (g : String) (args : List Term) (v : Val ε ρ)
    (h : σ.find (.app g args) = some v) : evalExpr C σ env (.app g args) = some v := by
  rw [evalExpr]; simp only [h]

theorem evalArgs_nil (C : Ctx ε ρ) (σ : Store ε ρ) (env : Env ε ρ) : evalArgs C σ env [] = some [] := by rw [evalArgs]

theorem evalArgs_cons (C : Ctx ε ρ) (σ : Store ε ρ) (env : Env ε ρ) (t : Term) (ts : List Term) :
    evalArgs C σ env (t :: ts) =
      (evalExpr C σ env t).bind (fun v => (evalArgs C σ env ts).map (fun vs => v :: vs)) := by
  rw [evalArgs]; cases evalExpr C σ env t <;> cases evalArgs C σ env ts <;> rfl

/-! ### the store -/

/-- every array written so far is the one created by the term `k`. -/
def OnlyKey (k : Term) (σ : Store ε ρ) : Prop := ∀ p ∈ σ, p.1 = k

theorem OnlyKey.nil (k : Term) : OnlyKey k ([] : Store ε ρ) := by intro p hp; cases hp

theorem OnlyKey.cons {k : Term} {σ : Store ε ρ} (h : OnlyKey k σ) (v : Val ε ρ) : OnlyKey k ((k, v) :: σ) := by
  intro p hp
  rcases List.mem_cons.mp hp with rfl | hp
  · rfl
  · exact h p hp

theorem find_none {k t : Term} {σ : Store ε ρ} (h : OnlyKey k σ) (hne : t ≠ k) : σ.find t = none := by
  induction σ with
  | nil => rfl
  | cons p r ih =>
    obtain ⟨k', v⟩ := p
    have hk : k' = k := h (k', v) List.mem_cons_self
    have hr : OnlyKey k r := fun q hq => h q (List.mem_cons_of_mem _ hq)
    simp only [Store.find]
    rw [if_neg (by rw [hk]; exact fun e => hne e.symm)]
    exact ih hr

theorem find_cons_self (k : Term) (v : Val ε ρ) (σ : Store ε ρ) : Store.find ((k, v) :: σ) k = some v := by
  simp [Store.find]

theorem app_ne {g g' : String} (a a' : List Term) (h : g ≠ g') : Term.app g a ≠ Term.app g' a' :=
  fun e => h (Term.app.inj e).1

/-- a call whose head is not the head of the written array is evaluated from its arguments. -/
theorem evalExpr_app_ne (C : Ctx ε ρ) {σ : Store ε ρ} (env : Env ε ρ) {g g' : String} (args a' : List Term)
    (h : OnlyKey (Term.app g' a') σ) (hne : g ≠ g') :
    evalExpr C σ env (.app g args) = (evalArgs C σ env args).bind (applyFn C g) :=
  evalExpr_app C σ env g args (find_none h (app_ne _ _ hne))

/-! ### names -/

theorem get?_cons_ne (env : Env ε ρ) (x s : String) (v : Val ε ρ) (h : x ≠ s) :
    Env.get? ((x, v) :: env) s = env.get? s := by
  have hb : (x == s) = false := by simpa using h
  simp [Env.get?, List.find?, hb]

theorem get?_cons_self (env : Env ε ρ) (x : String) (v : Val ε ρ) : Env.get? ((x, v) :: env) x = some v := by
  simp [Env.get?, List.find?]

theorem lookupSym_na (env : Env ε ρ) {s : String} (h : s ∈ naSyms) : lookupSym env s = .na := by
  unfold lookupSym; rw [if_pos (List.contains_iff_mem.mpr h)]

theorem lookupSym_bound (env : Env ε ρ) {s : String} {v : Val ε ρ} (hna : s ∉ naSyms) (h : env.get? s = some v) :
    lookupSym env s = v := by
  unfold lookupSym; rw [if_neg (fun c => hna (List.contains_iff_mem.mp c)), h]

theorem lookupSym_cons_ne (env : Env ε ρ) (x s : String) (v : Val ε ρ) (h : x ≠ s) :
    lookupSym ((x, v) :: env) s = lookupSym env s := by
  unfold lookupSym; rw [get?_cons_ne env x s v h]

/-! ### list semantics of the primitives -/

theorem mem_flatnonzeroFrom (m : List Bool) (k j : Nat) :
    j ∈ flatnonzeroFrom k m ↔ k ≤ j ∧ m[j - k]? = some true := by
  induction m generalizing k with
  | nil => simp [flatnonzeroFrom]
  | cons b m ih =>
    cases b
    · simp only [flatnonzeroFrom, ih]
      constructor
      · rintro ⟨h1, h2⟩
        refine ⟨by omega, ?_⟩
        have : j - k = (j - (k + 1)) + 1 := by omega
        rw [this]; simpa using h2
      · rintro ⟨h1, h2⟩
        by_cases hjk : j = k
        · subst hjk; simp at h2
        · refine ⟨by omega, ?_⟩
          have : j - k = (j - (k + 1)) + 1 := by omega
          rw [this] at h2; simpa using h2
    · simp only [flatnonzeroFrom, List.mem_cons, ih]
      constructor
      · rintro (h | ⟨h1, h2⟩)
        · subst h; simp
        · refine ⟨by omega, ?_⟩
          have : j - k = (j - (k + 1)) + 1 := by omega
          rw [this]; simpa using h2
      · rintro ⟨h1, h2⟩
        by_cases hjk : j = k
        · exact Or.inl hjk
        · refine Or.inr ⟨by omega, ?_⟩
          have : j - k = (j - (k + 1)) + 1 := by omega
          rw [this] at h2; simpa using h2

/-- `np.flatnonzero(m)` lists exactly the positions of the true entries … -/
theorem mem_flatnonzero (m : List Bool) (j : Nat) : j ∈ flatnonzero m ↔ m[j]? = some true := by
  simp [flatnonzero, mem_flatnonzeroFrom]

theorem flatnonzeroFrom_lb (m : List Bool) (k : Nat) : ∀ j ∈ flatnonzeroFrom k m, k ≤ j :=
  fun j hj => ((mem_flatnonzeroFrom m k j).mp hj).1

theorem flatnonzeroFrom_sorted (m : List Bool) (k : Nat) : (flatnonzeroFrom k m).Pairwise (· < ·) := by
  induction m generalizing k with
  | nil => simp [flatnonzeroFrom]
  | cons b m ih =>
    cases b
    · simpa [flatnonzeroFrom] using ih (k + 1)
    · simp only [flatnonzeroFrom, List.pairwise_cons]
      exact ⟨fun j hj => by have := flatnonzeroFrom_lb m (k + 1) j hj; omega, ih (k + 1)⟩

/-- … in increasing order. -/
theorem flatnonzero_sorted (m : List Bool) : (flatnonzero m).Pairwise (· < ·) := flatnonzeroFrom_sorted m 0

/-- a run of item assignments `o[k] = g k` over a list of positions: position `j` holds `g j` if it is listed (and
    exists), and is untouched otherwise — whatever the order and multiplicity of the positions. -/
theorem foldl_set_getElem? {α : Type} (g : Nat → α) (idxs : List Nat) (o : List α) (j : Nat) :
    (idxs.foldl (fun o k => o.set k (g k)) o)[j]? = if j ∈ idxs then (o[j]?).map (fun _ => g j) else o[j]? := by
  induction idxs generalizing o with
  | nil => simp
  | cons k rest ih =>
    simp only [List.foldl_cons, ih, List.mem_cons]
    by_cases hjk : j = k
    · subst hjk
      by_cases hl : j < o.length
      · simp [hl]
      · have : o.length ≤ j := by omega
        simp [this]
    · have hkj : ¬ k = j := fun e => hjk e.symm
      simp [hjk, hkj]

theorem foldl_set_length {α : Type} (g : Nat → α) (idxs : List Nat) (o : List α) :
    (idxs.foldl (fun o k => o.set k (g k)) o).length = o.length := by
  induction idxs generalizing o with
  | nil => rfl
  | cons k rest ih => simp [ih]

/-- the loop of `liftRe` as a list function: from the all-default array, `out[k] = f xs[k]` at the positions of the
    non-missing elements, gives the element-wise map. -/
theorem fill_loop_spec {δ β : Type} (f : δ → β) (xs : List (Option δ)) :
    (flatnonzero ((xs.map (·.isNone)).map (!·))).foldl (fun o k => o.set k ((xs[k]?.join).map f))
        (xs.map (fun _ => none)) = xs.map (fun x => x.map f) := by
  apply List.ext_getElem?
  intro j
  rw [foldl_set_getElem?]
  simp only [mem_flatnonzero, not_isNone_map]
  by_cases hj : j < xs.length
  · simp only [List.getElem?_map, List.getElem?_eq_getElem hj, Option.map_some, Option.some.injEq, Option.join_some]
    cases xs[j] <;> simp
  · have : xs.length ≤ j := by omega
    simp [this]

theorem select_isSome {δ : Type} (xs : List (Option δ)) :
    allSome (select (xs.map (·.isSome)) xs) = some (xs.filterMap id) := by
  induction xs with
  | nil => rfl
  | cons x xs ih => cases x <;> simp [select, allSome, ih]

theorem filter_isSome_length {δ : Type} (xs : List (Option δ)) :
    ((xs.map (·.isSome)).filter id).length = (xs.filterMap id).length := by
  induction xs with
  | nil => rfl
  | cons x xs ih => cases x <;> simp [ih]

theorem allSome_map_map {δ β : Type} (f : δ → β) (xs : List (Option δ)) :
    allSome (xs.map (fun x => x.map f)) = (allSome xs).map (fun l => l.map f) := by
  induction xs with
  | nil => rfl
  | cons x xs ih =>
    cases x with
    | none => rfl
    | some a => simp only [List.map_cons, Option.map_some, allSome, ih]; cases allSome xs <;> rfl

theorem allSome_of_all {δ : Type} (xs : List (Option δ)) (h : xs.all (·.isSome) = true) :
    allSome xs = some (xs.filterMap id) := by
  induction xs with
  | nil => rfl
  | cons x xs ih =>
    cases x with
    | none => simp at h
    | some a =>
      have h' : xs.all (·.isSome) = true := by simpa using h
      simp [allSome, ih h']

theorem allSome_none_of_any {δ : Type} (xs : List (Option δ)) (h : xs.any (·.isNone) = true) : allSome xs = none := by
  induction xs with
  | nil => simp at h
  | cons x xs ih =>
    cases x with
    | none => rfl
    | some a =>
      have h' : xs.any (·.isNone) = true := by simpa using h
      simp [allSome, ih h']

/-! ### primitives on evaluated arguments (all by computation) -/

section prims
variable (C : Ctx ε ρ)

theorem applyFn_tuple (a b : Val ε ρ) : applyFn C "tuple" [a, b] = some (.pair a b) := rfl
theorem applyFn_item0 (a b : Val ε ρ) : applyFn C "item0" [.pair a b] = some a := rfl
theorem applyFn_item1 (a b : Val ε ρ) : applyFn C "item1" [.pair a b] = some b := rfl
theorem applyFn_full_like_na (xs : List (Option ε)) (d : Val ε ρ) :
    applyFn C "np.full_like" [.vec xs, .na, d] = some (.out (xs.map (fun _ => none))) := rfl
theorem applyFn_vector_fast (l : List (Option ρ)) (d : Val ε ρ) : applyFn C "Vector.fast" [.out l, d] = some (.out l) := rfl
theorem applyFn_eq_na (xs : List (Option ε)) : applyFn C "Eq" [.vec xs, .na] = some (.mask (xs.map (·.isNone))) := rfl
theorem applyFn_isnat (xs : List (Option ε)) : applyFn C "np.isnat" [.vec xs] = some (.mask (xs.map (·.isNone))) := rfl
theorem applyFn_not (m : List Bool) : applyFn C "~" [.mask m] = some (.mask (m.map (!·))) := rfl
theorem applyFn_flatnonzero (m : List Bool) : applyFn C "np.flatnonzero" [.mask m] = some (.idx (flatnonzero m)) := rfl
theorem applyFn_all (m : List Bool) : applyFn C ".all" [.mask m] = some (.bool (m.all id)) := rfl
theorem applyFn_any (m : List Bool) : applyFn C ".any" [.mask m] = some (.bool (m.any id)) := rfl
theorem applyFn_getitem_vec (xs : List (Option ε)) (i : Nat) :
    applyFn C "getitem" [.vec xs, .nat i] = xs[i]?.map Val.elem := rfl
theorem applyFn_getitem_mask (xs : List (Option ε)) (m : List Bool) :
    applyFn C "getitem" [.vec xs, .mask m] = if m.length = xs.length then some (.vec (select m xs)) else none := rfl
theorem applyFn_getitem_out (l : List (Option ρ)) (i : Nat) : applyFn C "getitem" [.out l, .nat i] = l[i]?.map Val.res := rfl
theorem applyFn_getitem_iout (l : List ρ) (i : Nat) :
    applyFn C "getitem" [.iout l, .nat i] = l[i]?.map (fun r => Val.res (some r)) := rfl
theorem applyFn_astype (xs : List (Option ε)) : applyFn C ".astype" [.vec xs, .opaque "object"] = some (.vec xs) := rfl
theorem applyFn_vectorize : applyFn C "np.vectorize" [.fn] = some .vfn := rfl
theorem applyFn_call (xs : List (Option ε)) :
    applyFn C "call" [.vfn, .vec xs] = (allSome xs).map (fun l => .vals (l.map C.f)) := rfl
theorem applyFn_as_string (l : List (Option ρ)) : applyFn C ".as_string" [.out l] = some (.out l) := rfl
theorem applyFn_as_integer (l : List (Option ρ)) : applyFn C ".as_integer" [.out l] = (allSome l).map Val.iout := rfl
theorem applyFn_is_scalar_elem (x : Option ε) : applyFn C "util.is_scalar" [.elem x] = some (.bool true) := rfl
theorem applyFn_is_scalar_vec (xs : List (Option ε)) : applyFn C "util.is_scalar" [.vec xs] = some (.bool false) := rfl
theorem applyFn_isinstance_ndarray (xs : List (Option ε)) :
    applyFn C "isinstance" [.vec xs, .opaque "np.ndarray"] = some (.bool true) := rfl
theorem applyFn_dtype (xs : List (Option ε)) : applyFn C ".dtype" [.vec xs] = some (.opaque ".dtype") := rfl
theorem applyFn_isinstance_string :
    applyFn C "isinstance" [.opaque ".dtype", .opaque "StringDType"] = some (.bool true) := rfl
theorem applyFn_issubdtype :
    applyFn C "np.issubdtype" [.opaque ".dtype", .opaque "np.datetime64"] = some (.bool true) := rfl
theorem applyFn_kw_flags (v : Val ε ρ) : applyFn C "=flags" [v] = some v := rfl
theorem applyFn_kw_count (v : Val ε ρ) : applyFn C "=count" [v] = some v := rfl
theorem applyFn_kw_maxsplit (v : Val ε ρ) : applyFn C "=maxsplit" [v] = some v := rfl
theorem applyFn_list (x : Option ε) : applyFn C "list" [.elem x] = some (.vec [x]) := rfl
theorem applyFn_Vector (xs : List (Option ε)) (s : String) : applyFn C "Vector" [.vec xs, .opaque s] = some (.vec xs) := rfl

/-- a function of the module. -/
theorem applyFn_calls {g : String} {h : List (Val ε ρ) → Option (Val ε ρ)} (hp : primNames.contains g = false)
    (hc : C.calls g = some h) (vs : List (Val ε ρ)) : applyFn C g vs = h vs := by
  unfold applyFn; rw [hp]; simp [hc]

/-- the stdlib call. -/
theorem applyFn_std (hp : primNames.contains C.std = false) (hc : C.calls C.std = none) (vs : List (Val ε ρ)) :
    applyFn C C.std vs = (subject vs).map (fun s => Val.res (some (C.f s))) := by
  unfold applyFn; rw [hp]; simp [hc]

end prims

/-! ### the vector branch of a lifted `re` function (`Tie.C19.liftRe`) -/

/-- `_prep(string, dtype, default)`. -/
def prepT (dt dflt : String) : Term := Term.app "_prep" [Term.sym "string", Term.sym dt, Term.sym dflt]
/-- the local `out` (inlined by the translator): the first component of `_prep(…)`. -/
def liftOutT (dt dflt : String) : Term := Term.app "item0" [prepT dt dflt]
/-- the local `na`: the second component. -/
def liftNaT (dt dflt : String) : Term := Term.app "item1" [prepT dt dflt]
/-- `out[i] = call(string[i])`. -/
def liftStore (dt dflt : String) (call : Term → Term) : Term :=
  Term.app "store" [Term.app "getitem" [liftOutT dt dflt, Term.sym "i"],
    call (Term.app "getitem" [Term.sym "string", Term.sym "i"])]
/-- `for i in np.flatnonzero(~na): out[i] = call(string[i])`. -/
def liftFor (dt dflt : String) (call : Term → Term) : Term :=
  Term.app "for" [Term.sym "i", Term.app "np.flatnonzero" [Term.app "~" [liftNaT dt dflt]],
    Term.app "block" [liftStore dt dflt call]]
/-- the normal form `Tie.C19.liftRe (sym dt) (sym dflt) (sym odt) call`. -/
def liftOut (dt dflt odt : String) (call : Term → Term) : Out :=
  Out.ret [liftFor dt dflt call] (Term.app "Vector.fast" [liftOutT dt dflt, Term.sym odt])

/-- the meaning of `_prep` (what `Tie.C19.prep_code` evaluates to): the pair (output pre-filled with the missing
    marker, mask of the missing strings). -/
def PrepOK (C : Ctx ε ρ) : Prop :=
  ∃ h, C.calls "_prep" = some h ∧
    ∀ (xs : List (Option ε)) (d : Val ε ρ),
      h [.vec xs, d, .na] = some (.pair (.out (xs.map (fun _ => none))) (.mask (xs.map (·.isNone))))

/-- `call` denotes the stdlib function: wherever its argument is a non-missing element `s`, `call(arg)` is `f s` —
    inside the loop (`i` bound), whatever has been written into `out` so far. -/
def CallDenotes (C : Ctx ε ρ) (k : Term) (env : Env ε ρ) (call : Term → Term) : Prop :=
  ∀ (σ : Store ε ρ) (j : Nat) (t : Term) (s : ε), OnlyKey k σ →
    evalExpr C σ (("i", .nat j) :: env) t = some (.elem (some s)) →
    evalExpr C σ (("i", .nat j) :: env) (call t) = some (.res (some (C.f s)))

theorem string_not_na : "string" ∉ naSyms := by decide
theorem i_not_na : "i" ∉ naSyms := by decide

section lift
variable (C : Ctx ε ρ) (dt dflt odt : String) (call : Term → Term) (xs : List (Option ε))

theorem eval_prep (hprep : PrepOK C) (hd : dflt ∈ naSyms) {env : Env ε ρ} (hs : env.get? "string" = some (.vec xs))
    {σ : Store ε ρ} (hσ : OnlyKey (liftOutT dt dflt) σ) :
    evalExpr C σ env (prepT dt dflt) =
      some (.pair (.out (xs.map (fun _ => none))) (.mask (xs.map (·.isNone)))) := by
  obtain ⟨h, hc, hh⟩ := hprep
  unfold prepT
  rw [evalExpr_app_ne C env _ _ hσ (by decide)]
  simp only [evalArgs_cons, evalArgs_nil, evalExpr_sym, Option.bind_some, Option.map_some,
    lookupSym_bound env string_not_na hs, lookupSym_na env hd]
  rw [applyFn_calls C (by decide) hc, hh]

/-- `na` evaluates to the mask of the missing strings, whatever has been written into `out`. -/
theorem eval_liftNa (hprep : PrepOK C) (hd : dflt ∈ naSyms) {env : Env ε ρ} (hs : env.get? "string" = some (.vec xs))
    {σ : Store ε ρ} (hσ : OnlyKey (liftOutT dt dflt) σ) :
    evalExpr C σ env (liftNaT dt dflt) = some (.mask (xs.map (·.isNone))) := by
  unfold liftNaT
  rw [evalExpr_app_ne C env _ _ hσ (by decide)]
  simp only [evalArgs_cons, evalArgs_nil, eval_prep C dt dflt xs hprep hd hs hσ, Option.bind_some, Option.map_some,
    applyFn_item1]

/-- before any assignment `out` is the pre-filled array. -/
theorem eval_liftOut0 (hprep : PrepOK C) (hd : dflt ∈ naSyms) {env : Env ε ρ} (hs : env.get? "string" = some (.vec xs)) :
    evalExpr C [] env (liftOutT dt dflt) = some (.out (xs.map (fun _ => none))) := by
  unfold liftOutT
  rw [evalExpr_app C [] env _ _ rfl]
  simp only [evalArgs_cons, evalArgs_nil, eval_prep C dt dflt xs hprep hd hs (OnlyKey.nil _), Option.bind_some,
    Option.map_some, applyFn_item0]

end lift

/-- the store during a loop that writes one array `k`: `l` is its current contents (`l0` before the first write). -/
inductive Inv (k : Term) (l0 : List (Option ρ)) : Store ε ρ → List (Option ρ) → Prop where
  | nil : Inv k l0 [] l0
  | cons {σ : Store ε ρ} {l' : List (Option ρ)} (l : List (Option ρ)) : Inv k l0 σ l' → Inv k l0 ((k, .out l) :: σ) l

theorem Inv.onlyKey {k : Term} {l0 l : List (Option ρ)} {σ : Store ε ρ} (h : Inv k l0 σ l) : OnlyKey k σ := by
  induction h with
  | nil => exact OnlyKey.nil k
  | cons l _ ih => exact ih.cons _

theorem Inv.eval (C : Ctx ε ρ) {g : String} {args : List Term} {l0 l : List (Option ρ)} {σ : Store ε ρ} {env : Env ε ρ}
    (h : Inv (Term.app g args) l0 σ l) (h0 : evalExpr C [] env (Term.app g args) = some (.out l0)) :
    evalExpr C σ env (Term.app g args) = some (.out l) := by
  cases h with
  | nil => exact h0
  | cons l _ => exact evalExpr_found C _ env g args _ (find_cons_self _ _ _)

section lift
variable (C : Ctx ε ρ) (dt dflt odt : String) (call : Term → Term) (xs : List (Option ε))

/-- one iteration: `out[j] = call(string[j])` at a non-missing position `j`. -/
theorem liftStore_step (hprep : PrepOK C) (hd : dflt ∈ naSyms) {env : Env ε ρ}
    (hs : env.get? "string" = some (.vec xs)) (hcall : CallDenotes C (liftOutT dt dflt) env call)
    {σ : Store ε ρ} {l : List (Option ρ)} (hinv : Inv (liftOutT dt dflt) (xs.map (fun _ => none)) σ l)
    (hl : l.length = xs.length) (j : Nat) (s : ε) (hj : xs[j]? = some (some s)) :
    execBlock C (("i", .nat j) :: env) [liftStore dt dflt call] σ =
      some ((liftOutT dt dflt, .out (l.set j (some (C.f s)))) :: σ) := by
  have hs' : Env.get? (("i", Val.nat j) :: env) "string" = some (.vec xs) := by
    rw [get?_cons_ne env "i" "string" _ (by decide)]; exact hs
  have hjl : j < l.length := by
    rw [hl]; exact (List.getElem?_eq_some_iff.mp hj).1
  have harg : evalExpr C σ (("i", .nat j) :: env) (Term.app "getitem" [Term.sym "string", Term.sym "i"]) =
      some (.elem (some s)) := by
    rw [evalExpr_app_ne C _ _ _ hinv.onlyKey (by decide)]
    simp only [evalArgs_cons, evalArgs_nil, evalExpr_sym, Option.bind_some, Option.map_some,
      lookupSym_bound _ string_not_na hs', lookupSym_bound _ i_not_na (get?_cons_self env "i" _), applyFn_getitem_vec,
      hj]
  have hobj : evalExpr C σ (("i", .nat j) :: env) (liftOutT dt dflt) = some (.out l) :=
    Inv.eval C hinv (eval_liftOut0 C dt dflt xs hprep hd hs')
  have hix : evalExpr C σ (("i", .nat j) :: env) (Term.sym "i") = some (.nat j) := by
    rw [evalExpr_sym, lookupSym_bound _ i_not_na (get?_cons_self env "i" _)]
  have he := hcall σ j _ s hinv.onlyKey harg
  unfold liftStore
  rw [execBlock, execStmt]
  simp only [he, hobj, hix, assign, hjl, if_true, Option.map_some]
  rw [execBlock]

/-- the whole loop over a list of non-missing positions: a fold of item assignments. -/
theorem lift_loop (hprep : PrepOK C) (hd : dflt ∈ naSyms) {env : Env ε ρ}
    (hs : env.get? "string" = some (.vec xs)) (hcall : CallDenotes C (liftOutT dt dflt) env call)
    (idxs : List Nat) (hidx : ∀ j ∈ idxs, ∃ s, xs[j]? = some (some s))
    {σ : Store ε ρ} {l : List (Option ρ)} (hinv : Inv (liftOutT dt dflt) (xs.map (fun _ => none)) σ l)
    (hl : l.length = xs.length) :
    ∃ σ', loop (fun σ' k => execBlock C (("i", .nat k) :: env) [liftStore dt dflt call] σ') σ idxs = some σ' ∧
      Inv (liftOutT dt dflt) (xs.map (fun _ => none)) σ'
        (idxs.foldl (fun o k => o.set k ((xs[k]?.join).map C.f)) l) := by
  induction idxs generalizing σ l with
  | nil => exact ⟨σ, rfl, hinv⟩
  | cons j rest ih =>
    obtain ⟨s, hj⟩ := hidx j List.mem_cons_self
    have hstep := liftStore_step C dt dflt call xs hprep hd hs hcall hinv hl j s hj
    have hinv' : Inv (liftOutT dt dflt) (xs.map (fun _ => none))
        ((liftOutT dt dflt, .out (l.set j (some (C.f s)))) :: σ) (l.set j (some (C.f s))) := Inv.cons _ hinv
    obtain ⟨σ', h1, h2⟩ := ih (fun k hk => hidx k (List.mem_cons_of_mem _ hk)) hinv' (by simpa using hl)
    refine ⟨σ', ?_, ?_⟩
    · simp only [loop, hstep]; exact h1
    · simpa [List.foldl_cons, hj] using h2

/-- **the vector branch**: `liftRe` on a vector `xs` is the element-wise map — `f x` at every non-missing position, the
    missing marker (the default) at every missing one. -/
theorem liftOut_run (hprep : PrepOK C) (hd : dflt ∈ naSyms) {env : Env ε ρ}
    (hs : env.get? "string" = some (.vec xs)) (hcall : CallDenotes C (liftOutT dt dflt) env call) :
    runOut C env (liftOut dt dflt odt call) = some (.out (xs.map (fun x => x.map C.f))) := by
  have hiter : evalExpr C [] env (Term.app "np.flatnonzero" [Term.app "~" [liftNaT dt dflt]]) =
      some (.idx (flatnonzero ((xs.map (·.isNone)).map (!·)))) := by
    rw [evalExpr_app C [] env _ _ rfl]
    simp only [evalArgs_cons, evalArgs_nil]
    rw [evalExpr_app C [] env _ _ rfl]
    simp only [evalArgs_cons, evalArgs_nil, eval_liftNa C dt dflt xs hprep hd hs (OnlyKey.nil _), Option.bind_some,
      Option.map_some, applyFn_not, applyFn_flatnonzero]
  have hidx : ∀ j ∈ flatnonzero ((xs.map (·.isNone)).map (!·)), ∃ s, xs[j]? = some (some s) := by
    intro j hj
    rw [mem_flatnonzero, not_isNone_map] at hj
    rcases hx : xs[j]? with _ | x
    · simp [hx] at hj
    · cases x with
      | none => simp [hx] at hj
      | some s => exact ⟨s, rfl⟩
  obtain ⟨σ', h1, h2⟩ := lift_loop C dt dflt call xs hprep hd hs hcall _ hidx Inv.nil (by simp)
  rw [fill_loop_spec] at h2
  unfold liftOut runOut
  have hfor : execBlock C env [liftFor dt dflt call] [] = some σ' := by
    unfold liftFor
    rw [execBlock, execStmt]
    simp only [hiter, h1]
    rw [execBlock]
  have hfin : evalExpr C σ' env (liftOutT dt dflt) = some (.out (xs.map (fun x => x.map C.f))) :=
    Inv.eval C h2 (eval_liftOut0 C dt dflt xs hprep hd hs)
  simp only [hfor]
  rw [evalExpr_app_ne C env _ _ h2.onlyKey (by decide)]
  simp only [evalArgs_cons, evalArgs_nil, evalExpr_sym, Option.bind_some, Option.map_some, hfin, applyFn_vector_fast]

end lift

/-! ### the stdlib call `re.f(pattern, [repl,] string, [count= / maxsplit=,] flags=flags)` (`Tie.C19.reCall`) -/

/-- the same term as `Tie.C19.reCall`. -/
def reCallT (f : String) (extra : List Term) (s : Term) : Term :=
  Term.app f ([Term.sym "pattern"] ++ extra.takeWhile (fun t => match t with | Term.sym "repl" => true | _ => false) ++ [s] ++
              extra.dropWhile (fun t => match t with | Term.sym "repl" => true | _ => false) ++ [Term.app "=flags" [Term.sym "flags"]])

/-- the parameters of the regex functions other than the string. -/
def reParams : List String := ["pattern", "repl", "flags", "count", "maxsplit"]

/-- the other arguments of the call are objects the semantics does not look into (unbound, or bound to opaque values). -/
def OpaqueParams (env : Env ε ρ) : Prop := ∀ p ∈ reParams, isOpaque (lookupSym env p) = true

/-- an argument that only passes a parameter on: `p` or `kw=p`. -/
def isParamArg : Term → Bool
  | .sym p => reParams.contains p
  | .app kw [.sym p] => ["=flags", "=count", "=maxsplit"].contains kw && reParams.contains p
  | _ => false

theorem isOpaque_iff (v : Val ε ρ) : isOpaque v = true ↔ ∃ s, v = .opaque s := by
  cases v <;> simp [isOpaque]

theorem OpaqueParams.cons_i {env : Env ε ρ} (h : OpaqueParams env) (v : Val ε ρ) : OpaqueParams (("i", v) :: env) := by
  intro p hp
  have hne : "i" ≠ p := by
    intro e; subst e; revert hp; decide
  rw [lookupSym_cons_ne env "i" p v hne]
  exact h p hp

theorem opaqueParams_single (v : Val ε ρ) : OpaqueParams [("string", v)] := by
  intro p hp
  simp only [reParams, List.mem_cons, List.not_mem_nil, or_false] at hp
  rcases hp with rfl | rfl | rfl | rfl | rfl <;> rfl

section recall
variable (C : Ctx ε ρ)

theorem eval_paramArg {σ : Store ε ρ} {a : List Term} (hσ : OnlyKey (Term.app "item0" a) σ) {env : Env ε ρ}
    (hop : OpaqueParams env) (t : Term) (ht : isParamArg t = true) :
    ∃ s, evalExpr C σ env t = some (.opaque s) := by
  match t, ht with
  | .sym p, ht =>
    have hp : p ∈ reParams := List.contains_iff_mem.mp ht
    obtain ⟨s, hs⟩ := (isOpaque_iff _).mp (hop p hp)
    exact ⟨s, by rw [evalExpr_sym, hs]⟩
  | .app kw [.sym p], ht =>
    simp only [isParamArg, Bool.and_eq_true] at ht
    have hp : p ∈ reParams := List.contains_iff_mem.mp ht.2
    obtain ⟨s, hs⟩ := (isOpaque_iff _).mp (hop p hp)
    have hkw : kw ∈ ["=flags", "=count", "=maxsplit"] := List.contains_iff_mem.mp ht.1
    simp only [List.mem_cons, List.not_mem_nil, or_false] at hkw
    refine ⟨s, ?_⟩
    rcases hkw with rfl | rfl | rfl
    · rw [evalExpr_app_ne C env _ _ hσ (by decide)]
      simp only [evalArgs_cons, evalArgs_nil, evalExpr_sym, hs, Option.bind_some, Option.map_some, applyFn_kw_flags]
    · rw [evalExpr_app_ne C env _ _ hσ (by decide)]
      simp only [evalArgs_cons, evalArgs_nil, evalExpr_sym, hs, Option.bind_some, Option.map_some, applyFn_kw_count]
    · rw [evalExpr_app_ne C env _ _ hσ (by decide)]
      simp only [evalArgs_cons, evalArgs_nil, evalExpr_sym, hs, Option.bind_some, Option.map_some, applyFn_kw_maxsplit]

theorem evalArgs_append (σ : Store ε ρ) (env : Env ε ρ) (as bs : List Term) :
    evalArgs C σ env (as ++ bs) =
      (evalArgs C σ env as).bind (fun va => (evalArgs C σ env bs).map (fun vb => va ++ vb)) := by
  induction as with
  | nil => simp [evalArgs_nil]
  | cons a as ih =>
    simp only [List.cons_append, evalArgs_cons, ih]
    cases evalExpr C σ env a <;> cases evalArgs C σ env as <;> cases evalArgs C σ env bs <;> rfl

theorem evalArgs_params {σ : Store ε ρ} {a : List Term} (hσ : OnlyKey (Term.app "item0" a) σ) {env : Env ε ρ}
    (hop : OpaqueParams env) (ts : List Term) (hts : ts.all isParamArg = true) :
    ∃ vs, evalArgs C σ env ts = some vs ∧ vs.all isOpaque = true := by
  induction ts with
  | nil => exact ⟨[], evalArgs_nil C σ env, rfl⟩
  | cons t ts ih =>
    simp only [List.all_cons, Bool.and_eq_true] at hts
    obtain ⟨s, hs⟩ := eval_paramArg C hσ hop t hts.1
    obtain ⟨vs, hvs, hall⟩ := ih hts.2
    exact ⟨.opaque s :: vs, by simp only [evalArgs_cons, hs, hvs, Option.bind_some, Option.map_some],
      by simp [isOpaque, hall]⟩

theorem subject_opaque_append (vs ws : List (Val ε ρ)) (s : ε) (hv : vs.all isOpaque = true)
    (hw : ws.all isOpaque = true) : subject (vs ++ Val.elem (some s) :: ws) = some s := by
  induction vs with
  | nil => simp [subject, hw]
  | cons v vs ih =>
    simp only [List.all_cons, Bool.and_eq_true] at hv
    obtain ⟨n, rfl⟩ := (isOpaque_iff v).mp hv.1
    simp only [List.cons_append, subject]
    exact ih hv.2

theorem all_takeWhile {α : Type} (p q : α → Bool) (l : List α) (h : l.all q = true) : (l.takeWhile p).all q = true := by
  induction l with
  | nil => rfl
  | cons x l ih =>
    simp only [List.all_cons, Bool.and_eq_true] at h
    simp only [List.takeWhile_cons]
    split
    · simp [h.1, ih h.2]
    · rfl

theorem all_dropWhile {α : Type} (p q : α → Bool) (l : List α) (h : l.all q = true) : (l.dropWhile p).all q = true := by
  induction l with
  | nil => rfl
  | cons x l ih =>
    simp only [List.all_cons, Bool.and_eq_true] at h
    simp only [List.dropWhile_cons]
    split
    · exact ih h.2
    · simp [h.1, h.2]

/-- the stdlib call on a non-missing element `s` is `f s`: exactly one argument is the string, all the others are
    parameters passed on. -/
theorem reCall_eval (hp : primNames.contains C.std = false) (hc : C.calls C.std = none)
    {σ : Store ε ρ} {a : List Term} (hσ : OnlyKey (Term.app "item0" a) σ) {env : Env ε ρ} (hop : OpaqueParams env)
    (extra : List Term) (hex : extra.all isParamArg = true) (t : Term) (s : ε)
    (ht : evalExpr C σ env t = some (.elem (some s))) :
    evalExpr C σ env (reCallT C.std extra t) = some (.res (some (C.f s))) := by
  have hne : C.std ≠ "item0" := by
    intro e; rw [e] at hp; exact absurd hp (by decide)
  unfold reCallT
  rw [evalExpr_app_ne C env _ _ hσ hne]
  obtain ⟨v1, h1, a1⟩ := evalArgs_params C hσ hop
    ([Term.sym "pattern"] ++ extra.takeWhile (fun t => match t with | Term.sym "repl" => true | _ => false))
    (by rw [List.all_append, all_takeWhile _ _ _ hex]; rfl)
  obtain ⟨v2, h2, a2⟩ := evalArgs_params C hσ hop
    (extra.dropWhile (fun t => match t with | Term.sym "repl" => true | _ => false) ++ [Term.app "=flags" [Term.sym "flags"]])
    (by rw [List.all_append, all_dropWhile _ _ _ hex]; rfl)
  rw [List.append_assoc, List.append_assoc, evalArgs_append, h1]
  simp only [List.singleton_append, Option.bind_some, evalArgs_cons, ht, h2, Option.map_some]
  rw [applyFn_std C hp hc, subject_opaque_append _ _ _ a1 a2]
  rfl

/-- … in particular inside the loop of `liftRe`. -/
theorem reCall_denotes (hp : primNames.contains C.std = false) (hc : C.calls C.std = none) (a : List Term)
    {env : Env ε ρ} (hop : OpaqueParams env) (extra : List Term) (hex : extra.all isParamArg = true) :
    CallDenotes C (Term.app "item0" a) env (reCallT C.std extra) :=
  fun _ j t s hσ ht => reCall_eval C hp hc hσ (hop.cons_i (.nat j)) extra hex t s ht

/-- **the scalar branch**: the `re` call on the string itself. -/
theorem scalar_run (hp : primNames.contains C.std = false) (hc : C.calls C.std = none) {env : Env ε ρ}
    (hop : OpaqueParams env) (extra : List Term) (hex : extra.all isParamArg = true) (s : ε)
    (hs : env.get? "string" = some (.elem (some s))) :
    runOut C env (Out.ret [] (reCallT C.std extra (Term.sym "string"))) = some (.res (some (C.f s))) := by
  have h := reCall_eval C hp hc (OnlyKey.nil (Term.app "item0" [])) hop extra hex _ s
    (show evalExpr C [] env (Term.sym "string") = some (.elem (some s)) by
      rw [evalExpr_sym, lookupSym_bound env string_not_na hs])
  simp only [runOut, execBlock, h]

end recall

/-! ### `_prep` (`Tie.C19.prep_code`) -/

/-- the normal form of the body of `_prep`. -/
def prepBody : Out :=
  Out.ret
    [Term.app "assert" [Term.app "isinstance" [Term.sym "string", Term.sym "np.ndarray"]],
     Term.app "assert" [Term.app "isinstance" [Term.app ".dtype" [Term.sym "string"], Term.sym "StringDType"]]]
    (Term.app "tuple" [Term.app "np.full_like" [Term.sym "string", Term.sym "default", Term.sym "dtype"],
                       Term.app "Eq" [Term.sym "string", Term.sym "dtypes.string.na_object"]])

/-- `_prep(string, dtype, default)` with the missing marker as default: (array of the length of `string` filled with
    the marker, mask of the missing strings). -/
theorem prepBody_run (C : Ctx ε ρ) (xs : List (Option ε)) (d : Val ε ρ) :
    runOut C [("string", .vec xs), ("dtype", d), ("default", .na)] prepBody =
      some (.pair (.out (xs.map (fun _ => none))) (.mask (xs.map (·.isNone)))) := by
  rfl

/-! ### the `_pull_*` helpers of dt.py (`Tie.C19.pull`) -/

/-- the two `assert`s of the vector branch. -/
def pullChecks : List Term :=
  [Term.app "assert" [Term.app "isinstance" [Term.sym "x", Term.sym "np.ndarray"]],
   Term.app "assert" [Term.app "np.issubdtype" [Term.app ".dtype" [Term.sym "x"], Term.sym "np.datetime64"]]]
/-- the local `out` (inlined): `Vector.fast(np.full_like(x, fill, dtype), dtype)`. -/
def pullOutT (fl dt : String) : Term :=
  Term.app "Vector.fast" [Term.app "np.full_like" [Term.sym "x", Term.sym fl, Term.sym dt], Term.sym dt]
/-- the local `na`: `np.isnat(x)`. -/
def pullNaT : Term := Term.app "np.isnat" [Term.sym "x"]
/-- `out[~na] = np.vectorize(function)(x[~na].astype(object))`. -/
def pullStore (fl dt : String) : Term :=
  Term.app "store" [Term.app "getitem" [pullOutT fl dt, Term.app "~" [pullNaT]],
    Term.app "call" [Term.app "np.vectorize" [Term.sym "function"],
      Term.app ".astype" [Term.app "getitem" [Term.sym "x", Term.app "~" [pullNaT]], Term.sym "object"]]]
/-- the vector branch of `Tie.C19.pull`, the test `na.all()` answered by `allNa`. -/
def pullVec (fl dt : String) (allNa : Bool) (finish : Bool → Term → Term) : Out :=
  if allNa then Out.ret pullChecks (finish false (pullOutT fl dt))
  else Out.ret (pullChecks ++ [pullStore fl dt]) (finish true (pullOutT fl dt))

/-- the call `_pull_x(x, function)` on a vector: `function` denotes `Ctx.f`. -/
def pullEnv (xs : List (Option ε)) : Env ε ρ := [("x", .vec xs), ("function", .fn)]

section pull
variable (C : Ctx ε ρ) (fl dt : String) (xs : List (Option ε))

theorem x_not_na : "x" ∉ naSyms := by decide

theorem lookup_x : lookupSym (pullEnv xs : Env ε ρ) "x" = .vec xs := rfl
theorem lookup_function : lookupSym (pullEnv xs : Env ε ρ) "function" = .fn := rfl
theorem lookup_object : lookupSym (pullEnv xs : Env ε ρ) "object" = .opaque "object" := rfl

theorem eval_pullNa {σ : Store ε ρ} {a : List Term} (hσ : OnlyKey (Term.app "Vector.fast" a) σ) :
    evalExpr C σ (pullEnv xs) pullNaT = some (.mask (xs.map (·.isNone))) := by
  unfold pullNaT
  rw [evalExpr_app_ne C _ _ _ hσ (by decide)]
  simp only [evalArgs_cons, evalArgs_nil, evalExpr_sym, lookup_x, Option.bind_some, Option.map_some, applyFn_isnat]

theorem eval_notNa {σ : Store ε ρ} {a : List Term} (hσ : OnlyKey (Term.app "Vector.fast" a) σ) :
    evalExpr C σ (pullEnv xs) (Term.app "~" [pullNaT]) = some (.mask (xs.map (·.isSome))) := by
  rw [evalExpr_app_ne C _ _ _ hσ (by decide)]
  simp only [evalArgs_cons, evalArgs_nil, eval_pullNa C xs hσ, Option.bind_some, Option.map_some, applyFn_not,
    not_isNone_map]

/-- before the assignment `out` is the array filled with the missing marker. -/
theorem eval_pullOut0 (hf : fl ∈ naSyms) :
    evalExpr C [] (pullEnv xs) (pullOutT fl dt) = some (.out (xs.map (fun _ => none))) := by
  unfold pullOutT
  rw [evalExpr_app C [] _ _ _ rfl]
  simp only [evalArgs_cons, evalArgs_nil]
  rw [evalExpr_app C [] _ _ _ rfl]
  simp only [evalArgs_cons, evalArgs_nil, evalExpr_sym, lookup_x, lookupSym_na _ hf, Option.bind_some, Option.map_some,
    applyFn_full_like_na, applyFn_vector_fast]

/-- the three tests of the bodies. -/
theorem eval_is_scalar_vec :
    evalExpr C [] (pullEnv xs) (Term.app "util.is_scalar" [Term.sym "x"]) = some (.bool false) := rfl
theorem eval_all_na :
    evalExpr C [] (pullEnv xs) (Term.app ".all" [pullNaT]) = some (.bool ((xs.map (·.isNone)).all id)) := by
  rw [evalExpr_app C [] _ _ _ rfl]
  simp only [evalArgs_cons, evalArgs_nil, eval_pullNa C xs (OnlyKey.nil (Term.app "Vector.fast" [])), Option.bind_some,
    Option.map_some, applyFn_all]
theorem eval_any_na :
    evalExpr C [] (pullEnv xs) (Term.app ".any" [pullNaT]) = some (.bool ((xs.map (·.isNone)).any id)) := by
  rw [evalExpr_app C [] _ _ _ rfl]
  simp only [evalArgs_cons, evalArgs_nil, eval_pullNa C xs (OnlyKey.nil (Term.app "Vector.fast" [])), Option.bind_some,
    Option.map_some, applyFn_any]

theorem pullChecks_run : execBlock C (pullEnv xs) pullChecks [] = some [] := rfl

theorem execBlock_append (env : Env ε ρ) (as bs : List Term) (σ : Store ε ρ) :
    execBlock C env (as ++ bs) σ = (execBlock C env as σ).bind (execBlock C env bs) := by
  induction as generalizing σ with
  | nil => simp [execBlock]
  | cons a as ih =>
    simp only [List.cons_append, execBlock]
    cases execStmt C env a σ with
    | none => rfl
    | some σ' => exact ih σ'

/-- the values handed to the masked assignment: `function` on exactly the non-missing elements, in order. -/
theorem eval_pullCall :
    evalExpr C [] (pullEnv xs)
      (Term.app "call" [Term.app "np.vectorize" [Term.sym "function"],
        Term.app ".astype" [Term.app "getitem" [Term.sym "x", Term.app "~" [pullNaT]], Term.sym "object"]]) =
      some (.vals ((xs.filterMap id).map C.f)) := by
  have hsel : evalExpr C [] (pullEnv xs) (Term.app "getitem" [Term.sym "x", Term.app "~" [pullNaT]]) =
      some (.vec (select (xs.map (·.isSome)) xs)) := by
    rw [evalExpr_app C [] _ _ _ rfl]
    simp only [evalArgs_cons, evalArgs_nil, evalExpr_sym, lookup_x,
      eval_notNa C xs (OnlyKey.nil (Term.app "Vector.fast" [])), Option.bind_some, Option.map_some,
      applyFn_getitem_mask, List.length_map, if_true]
  rw [evalExpr_app C [] _ _ _ rfl]
  simp only [evalArgs_cons, evalArgs_nil]
  rw [evalExpr_app C [] _ _ _ rfl, evalExpr_app C [] _ _ [_, Term.sym "object"] rfl]
  simp only [evalArgs_cons, evalArgs_nil, evalExpr_sym, lookup_function, lookup_object, hsel, Option.bind_some,
    Option.map_some, applyFn_vectorize, applyFn_astype, applyFn_call, select_isSome]

/-- the statements of the vector branch (the call included) leave in `out` the model's `DtRe.pull`: the missing
    marker at the NaT positions, `function x` elsewhere, nothing shifted. -/
theorem pullStore_run (hf : fl ∈ naSyms) :
    execBlock C (pullEnv xs) (pullChecks ++ [pullStore fl dt]) [] =
      some [(pullOutT fl dt, .out (xs.map (fun x => x.map C.f)))] := by
  rw [execBlock_append, pullChecks_run]
  simp only [Option.bind_some]
  unfold pullStore
  rw [execBlock, execStmt]
  simp only [eval_pullCall, eval_pullOut0 C fl dt xs hf, eval_notNa C xs (OnlyKey.nil (Term.app "Vector.fast" [])),
    assign, List.length_map, filter_isSome_length, and_self, if_true, Option.map_some]
  rw [execBlock, putMask_fill C.f xs _ (by simp)]
  congr 4
  apply List.ext_getElem
  · simp
  · intro i h1 h2
    simp only [List.getElem_map, List.getElem_zip]
    cases xs[i]'(by simpa using h2) <;> rfl

/-- `out` after the assignment. -/
theorem eval_pullOut_after (v : Val ε ρ) :
    evalExpr C [(pullOutT fl dt, v)] (pullEnv xs) (pullOutT fl dt) = some v :=
  evalExpr_found C _ _ _ _ _ (find_cons_self _ _ _)

theorem eval_wrap_pullOut_after (g : String) (hg : g ≠ "Vector.fast") (v : Val ε ρ) :
    evalExpr C [(pullOutT fl dt, v)] (pullEnv xs) (Term.app g [pullOutT fl dt]) = applyFn C g [v] := by
  have hσ : OnlyKey (pullOutT fl dt) [(pullOutT fl dt, v)] := (OnlyKey.nil _).cons v
  rw [evalExpr_app_ne C _ _ _ hσ hg]
  simp only [evalArgs_cons, evalArgs_nil, eval_pullOut_after, Option.bind_some, Option.map_some]

theorem eval_wrap_pullOut0 (hf : fl ∈ naSyms) (g : String) :
    evalExpr C [] (pullEnv xs) (Term.app g [pullOutT fl dt]) = applyFn C g [.out (xs.map (fun _ => none))] := by
  rw [evalExpr_app C [] _ _ _ rfl]
  simp only [evalArgs_cons, evalArgs_nil, eval_pullOut0 C fl dt xs hf, Option.bind_some, Option.map_some]

theorem all_isNone_map {δ β : Type} (f : δ → β) (xs : List (Option δ)) (h : (xs.map (·.isNone)).all id = true) :
    xs.map (fun _ => (none : Option β)) = xs.map (fun x => x.map f) := by
  apply List.map_congr_left
  intro x hx
  have := List.all_eq_true.mp h x.isNone (List.mem_map.mpr ⟨x, hx, rfl⟩)
  cases x <;> simp_all

/-- **`_pull_str`**, vector branch: the element-wise map (the all-missing input without the call). -/
theorem pullVec_run_str (hf : fl ∈ naSyms) :
    runOut C (pullEnv xs) (pullVec fl dt ((xs.map (·.isNone)).all id) (fun _ out => Term.app ".as_string" [out])) =
      some (.out (xs.map (fun x => x.map C.f))) := by
  unfold pullVec
  split
  · rename_i hall
    simp only [runOut, pullChecks_run, eval_wrap_pullOut0 C fl dt xs hf, applyFn_as_string,
      all_isNone_map C.f xs hall]
  · simp only [runOut, pullStore_run C fl dt xs hf, eval_wrap_pullOut_after C fl dt xs ".as_string" (by decide),
      applyFn_as_string]

/-- **`_pull_int`**, vector branch: an integer vector of the values when there is at least one element and none is
    missing (`DtRe.pullIntIsInteger`); otherwise the float vector with the missing marker at the NaT positions. -/
theorem pullVec_run_int (hf : fl ∈ naSyms) :
    runOut C (pullEnv xs) (pullVec fl dt ((xs.map (·.isNone)).all id)
      (fun called out => if called then
        (if (xs.map (·.isNone)).any id then out else Term.app ".as_integer" [out]) else out)) =
      some (if pullIntIsInteger xs then .iout ((xs.filterMap id).map C.f) else .out (xs.map (fun x => x.map C.f))) := by
  unfold pullVec pullIntIsInteger
  simp only []
  split
  · rename_i hall
    simp only [runOut, pullChecks_run, eval_pullOut0 C fl dt xs hf, all_isNone_map C.f xs hall, Bool.false_eq_true,
      if_false]
  · simp only [runOut, pullStore_run C fl dt xs hf, if_true]
    split
    · rename_i hany
      simp only [eval_pullOut_after, hany, Bool.not_true, Bool.false_eq_true, if_false]
    · rename_i hany
      have hany' : (xs.map (·.isNone)).any id = false := Bool.eq_false_iff.mpr hany
      have hall : xs.all (·.isSome) = true := by
        have := any_isNone xs
        simp only [List.any_map] at hany'
        have e1 : (id ∘ fun (x : Option ε) => x.isNone) = (fun x => x.isNone) := rfl
        rw [e1, this] at hany'
        simpa using hany'
      simp only [eval_wrap_pullOut_after C fl dt xs ".as_integer" (by decide), applyFn_as_integer, allSome_map_map,
        allSome_of_all xs hall, Option.map_some, hany', Bool.not_false, if_true]

end pull

/-! ### the scalar branch of the `_pull_*` helpers -/

/-- `_pull_x(Vector([x], np.datetime64), function)[0]`, the callee `name` being a function of the module with meaning
    `h`: the first element of what `h` returns for the one-element vector. -/
theorem pull_scalar_eval (C : Ctx ε ρ) (name : String) (h : List (Val ε ρ) → Option (Val ε ρ))
    (hp : primNames.contains name = false) (hc : C.calls name = some h) (x : Option ε) (r : Val ε ρ)
    (hr : h [.vec [x], .fn] = some r) :
    evalExpr C [] [("x", .elem x), ("function", .fn)]
      (Term.app "getitem" [Term.app name [Term.app "Vector" [Term.app "list" [Term.sym "x"], Term.sym "np.datetime64"],
        Term.sym "function"], Term.int 0]) = applyFn C "getitem" [r, .nat 0] := by
  have hv : evalExpr C [] [("x", .elem x), ("function", .fn)]
      (Term.app "Vector" [Term.app "list" [Term.sym "x"], Term.sym "np.datetime64"]) = some (.vec [x]) := rfl
  have hfn : evalExpr C [] [("x", Val.elem x), ("function", .fn)] (Term.sym "function") = some .fn := rfl
  have h0 : evalExpr C [] [("x", Val.elem x), ("function", .fn)] (Term.int 0) = some (.nat 0) := rfl
  rw [evalExpr_app C [] _ _ _ rfl]
  simp only [evalArgs_cons, evalArgs_nil, h0]
  rw [evalExpr_app C [] _ _ _ rfl]
  simp only [evalArgs_cons, evalArgs_nil, hv, hfn, Option.bind_some, Option.map_some, applyFn_calls C hp hc, hr]


/-! ### the tests -/

theorem agrees_truthOf (C : Ctx ε ρ) (env : Env ε ρ) : Agrees C env (truthOf C env) := by
  intro t b h; simp [truthOf, h]

theorem eval_is_scalar_string_vec (C : Ctx ε ρ) {env : Env ε ρ} {xs : List (Option ε)}
    (hs : env.get? "string" = some (.vec xs)) :
    evalExpr C [] env (Term.app "util.is_scalar" [Term.sym "string"]) = some (.bool false) := by
  rw [evalExpr_app C [] _ _ _ rfl]
  simp only [evalArgs_cons, evalArgs_nil, evalExpr_sym, lookupSym_bound env string_not_na hs, Option.bind_some,
    Option.map_some, applyFn_is_scalar_vec]

theorem eval_is_scalar_string_elem (C : Ctx ε ρ) {env : Env ε ρ} {x : Option ε}
    (hs : env.get? "string" = some (.elem x)) :
    evalExpr C [] env (Term.app "util.is_scalar" [Term.sym "string"]) = some (.bool true) := by
  rw [evalExpr_app C [] _ _ _ rfl]
  simp only [evalArgs_cons, evalArgs_nil, evalExpr_sym, lookupSym_bound env string_not_na hs, Option.bind_some,
    Option.map_some, applyFn_is_scalar_elem]

theorem eval_is_scalar_x_elem (C : Ctx ε ρ) (x : Option ε) :
    evalExpr C [] [("x", .elem x), ("function", .fn)] (Term.app "util.is_scalar" [Term.sym "x"]) = some (.bool true) := rfl


theorem filterMap_id_length_of_all {δ : Type} (xs : List (Option δ)) (h : xs.all (·.isSome) = true) :
    (xs.filterMap id).length = xs.length := by
  induction xs with
  | nil => rfl
  | cons x xs ih =>
    cases x with
    | none => simp at h
    | some a =>
      have h' : xs.all (·.isSome) = true := by simpa using h
      simp [ih h']

end DI.PyEvalLift

/-
  Lemmas/ConvertFields.lean — C13 at the field level: what every record of `to_list_of_dicts`
  holds, what exactly is lost for an empty frame, `from_json` on records with heterogeneous key
  sets (= `fill_missing_keys` then `to_data_frame`), and the dtype class that `Vector(list)`
  infers when a column of one JSON scalar kind comes back.
-/
import Lemmas.Convert
import Lemmas.KeyUnion
import Lemmas.Construct

namespace DI.Convert

open DI.Read

theorem map_fst_pair {α : Type} (f : String → α) (l : List String) :
    (l.map (fun k => (k, f k))).map (·.1) = l := by
  induction l with
  | nil => rfl
  | cons a l ih => simp only [List.map_cons, ih]

theorem toColumns_cons {β : Type} (x : Rec (Option β)) (t : List (Rec (Option β))) :
    toColumns (x :: t) = (x.map (·.1)).map (fun k => (k, pluck (x :: t) k)) := by
  simp [toColumns, List.map_map, Function.comp]

/-! ### to_records, field by field -/

/-- record `i` is, field for field, (column name, that column's value in row `i`). -/
theorem toRecords_getElem? {β : Type} (cols : List (Col β)) (n i : Nat) (hi : i < n) :
    (toRecords cols n)[i]? = some (cols.map (fun c => (c.1, (c.2[i]?).join))) := by
  simp [toRecords, hi]

theorem toRecords_out_of_range {β : Type} (cols : List (Col β)) (n i : Nat) (hi : n ≤ i) :
    (toRecords cols n)[i]? = none := by
  simp [toRecords, hi]

theorem lookup_eq_none_iff {β : Type} (r : Rec β) (k : String) : lookup r k = none ↔ k ∉ r.map (·.1) := by
  induction r with
  | nil => simp [lookup]
  | cons p r ih =>
    by_cases h : p.1 = k
    · simp [lookup, h]
    · have hb : (p.1 == k) = false := by simpa using h
      have hne : ¬ k = p.1 := fun e => h e.symm
      simp only [lookup, List.find?_cons, hb] at ih ⊢
      simp [ih, hne]

theorem lookup_mem {β : Type} (r : Rec β) (k : String) (v : β) (h : lookup r k = some v) : (k, v) ∈ r := by
  simp only [lookup, Option.map_eq_some_iff] at h
  obtain ⟨p, hp, rfl⟩ := h
  have h1 := List.mem_of_find?_eq_some hp
  have h2 := List.find?_some hp
  have : p.1 = k := by simpa using h2
  rw [← this]; exact h1

/-- with distinct keys, `lookup` finds the (only) entry. -/
theorem lookup_of_mem {β : Type} (r : Rec β) (k : String) (v : β) (hnd : (r.map (·.1)).Nodup) (h : (k, v) ∈ r) :
    lookup r k = some v := by
  induction r with
  | nil => cases h
  | cons p r ih =>
    simp only [List.map_cons, List.nodup_cons] at hnd
    rcases List.mem_cons.mp h with rfl | h'
    · simp [lookup]
    · have hne : (p.1 == k) = false := by
        have : p.1 ≠ k := fun e => hnd.1 (e ▸ List.mem_map.mpr ⟨(k, v), h', rfl⟩)
        simpa using this
      have := ih hnd.2 h'
      simp only [lookup, List.find?_cons, hne] at this ⊢
      exact this

/-- field-level description of `to_list_of_dicts`: for every row `i < n` the record exists, its
    keys are exactly the column names in column order, the value under a column's name is that
    column's value in row `i` (`none` where the column is missing there), and no other name is a
    key. -/
theorem toRecords_fields {β : Type} (cols : List (Col β)) (n i : Nat) (hi : i < n)
    (hnd : (cols.map (·.1)).Nodup) :
    ∃ r, (toRecords cols n)[i]? = some r ∧
      r.map (·.1) = cols.map (·.1) ∧
      (∀ c ∈ cols, lookup r c.1 = some ((c.2[i]?).join)) ∧
      (∀ k, k ∉ cols.map (·.1) → lookup r k = none) := by
  refine ⟨_, toRecords_getElem? cols n i hi, ?_, ?_, ?_⟩
  · simp [Function.comp]
  · intro c hc
    exact lookup_map_pair cols (fun c => (c.2[i]?).join) c.1 hnd c hc rfl
  · intro k hk
    rw [lookup_eq_none_iff]
    simpa [Function.comp] using hk

/-- the same, for a column of the right length: the value is the column's own `i`-th entry. -/
theorem toRecords_field_value {β : Type} (cols : List (Col β)) (n i : Nat) (hi : i < n)
    (hnd : (cols.map (·.1)).Nodup) (c : Col β) (hc : c ∈ cols) (hlen : c.2.length = n) :
    ∃ r, (toRecords cols n)[i]? = some r ∧ lookup r c.1 = some (c.2[i]'(by omega)) := by
  obtain ⟨r, hr, _, hv, _⟩ := toRecords_fields cols n i hi hnd
  refine ⟨r, hr, ?_⟩
  rw [hv c hc]
  have : c.2[i]? = some (c.2[i]'(by omega)) := List.getElem?_eq_getElem (by omega)
  simp [this]

theorem toRecords_fields_full {β : Type} (cols : List (Col β)) (n i : Nat) (hi : i < n)
    (hnd : (cols.map (·.1)).Nodup) :
    ∃ r, (toRecords cols n)[i]? = some r ∧
      r = cols.map (fun c => (c.1, (c.2[i]?).join)) ∧
      r.map (·.1) = cols.map (·.1) ∧
      (∀ c ∈ cols, lookup r c.1 = some ((c.2[i]?).join)) ∧
      (∀ k, k ∉ cols.map (·.1) → lookup r k = none) := by
  obtain ⟨r, h1, h2, h3, h4⟩ := toRecords_fields cols n i hi hnd
  refine ⟨r, h1, ?_, h2, h3, h4⟩
  have := toRecords_getElem? cols n i hi
  rw [h1] at this
  exact Option.some.inj this

/-! ### the empty frame -/

/-- a frame without rows has no records at all: the column names and dtypes are not carried. -/
theorem toRecords_zero {β : Type} (cols : List (Col β)) : toRecords cols 0 = [] := by
  simp [toRecords]

theorem toColumns_nil {β : Type} : toColumns ([] : List (Rec (Option β))) = [] := rfl

theorem fromJsonRecords_nil {β : Type} : fromJsonRecords ([] : List (Rec (Option β))) = [] := by
  simp [fromJsonRecords, unionKeys]

/-- exactly when the round trip through ListOfDicts is the identity (for a well-formed frame):
    when there is at least one row, or there was no column to lose. -/
theorem lod_roundtrip_iff {β : Type} (cols : List (Col β)) (n : Nat)
    (hnd : (cols.map (·.1)).Nodup) (hlen : ∀ c ∈ cols, c.2.length = n) :
    toColumns (toRecords cols n) = cols ↔ (0 < n ∨ cols = []) := by
  constructor
  · intro h
    cases n with
    | zero => right; rw [toRecords_zero, toColumns_nil] at h; exact h.symm
    | succ m => left; omega
  · rintro (h | h)
    · exact lod_roundtrip cols n h hnd hlen
    · subst h
      cases n with
      | zero => rfl
      | succ m => simp [toRecords, toColumns, List.range_succ_eq_map]

theorem json_roundtrip_iff {β : Type} (cols : List (Col β)) (n : Nat)
    (hnd : (cols.map (·.1)).Nodup) (hlen : ∀ c ∈ cols, c.2.length = n) :
    fromJsonRecords (toRecords cols n) = cols ↔ (0 < n ∨ cols = []) := by
  constructor
  · intro h
    cases n with
    | zero => right; rw [toRecords_zero, fromJsonRecords_nil] at h; exact h.symm
    | succ m => left; omega
  · rintro (h | h)
    · exact json_roundtrip cols n h hnd hlen
    · subst h
      have : unionKeys (toRecords ([] : List (Col β)) n) = [] := by
        rw [unionKeys_eq_eraseDups]
        have : allKeys (toRecords ([] : List (Col β)) n) = [] := by
          simp [allKeys, toRecords]
        rw [this]; rfl
      simp [fromJsonRecords, this]

/-! ### JSON records with heterogeneous key sets -/

/-- `from_json`: one column per key, in order of first appearance; every column has one entry
    per record; the entry is the record's value, `none` when the record lacks the key (and when
    it holds `null`). -/
theorem fromJsonRecords_spec {β : Type} (recs : List (Rec (Option β))) :
    (fromJsonRecords recs).map (·.1) = (allKeys recs).eraseDups ∧
    (∀ c ∈ fromJsonRecords recs, c.2.length = recs.length ∧
      ∀ i (h : i < recs.length), c.2[i]? = some ((lookup recs[i] c.1).join)) := by
  constructor
  · rw [← unionKeys_eq_eraseDups]; exact map_fst_pair _ _
  · intro c hc
    simp only [fromJsonRecords, List.mem_map] at hc
    obtain ⟨k, _, rfl⟩ := hc
    refine ⟨by simp [pluck], ?_⟩
    intro i h
    simp [pluck, h]

theorem pluck_absent {β : Type} (recs : List (Rec (Option β))) (k : String) (i : Nat) (h : i < recs.length)
    (hk : k ∉ recs[i].map (·.1)) : (pluck recs k)[i]? = some none := by
  have : lookup recs[i] k = none := (lookup_eq_none_iff _ _).mpr hk
  simp [pluck, h, this]

theorem pluck_present {β : Type} (recs : List (Rec (Option β))) (k : String) (v : Option β) (i : Nat)
    (h : i < recs.length) (hnd : (recs[i].map (·.1)).Nodup) (hk : (k, v) ∈ recs[i]) :
    (pluck recs k)[i]? = some v := by
  have : lookup recs[i] k = some v := lookup_of_mem _ _ _ hnd hk
  simp [pluck, h, this]

theorem fromJsonRecords_full {β : Type} (recs : List (Rec (Option β))) :
    (fromJsonRecords recs).map (·.1) = (allKeys recs).eraseDups ∧
    ((allKeys recs).eraseDups).Nodup ∧
    (∀ k, k ∈ (allKeys recs).eraseDups ↔ ∃ r ∈ recs, k ∈ r.map (·.1)) ∧
    (∀ k1 k2, (List.idxOf k1 (allKeys recs).eraseDups < List.idxOf k2 (allKeys recs).eraseDups) ↔
        (List.idxOf k1 (allKeys recs) < List.idxOf k2 (allKeys recs))) ∧
    (∀ c ∈ fromJsonRecords recs, c.2.length = recs.length ∧
      ∀ i (h : i < recs.length), c.2[i]? = some ((lookup recs[i] c.1).join) ∧
        (c.1 ∉ recs[i].map (·.1) → c.2[i]? = some none)) := by
  obtain ⟨h1, h2⟩ := fromJsonRecords_spec recs
  refine ⟨h1, nodup_eraseDups _, ?_, fun k1 k2 => idxOf_eraseDups_lt k1 k2 _, ?_⟩
  · intro k
    rw [← unionKeys_eq_eraseDups]; exact mem_unionKeys recs k
  · intro c hc
    obtain ⟨hl, hv⟩ := h2 c hc
    refine ⟨hl, fun i h => ⟨hv i h, ?_⟩⟩
    intro hk
    rw [hv i h, (lookup_eq_none_iff _ _).mpr hk]; rfl

/-- `fill_missing_keys()` (no arguments): every item gets the keys it lacks, with `None`, appended
    in the order of `keys()` (the first-seen union). -/
def fillMissingKeys {β : Type} (recs : List (Rec (Option β))) : List (Rec (Option β)) :=
  recs.map (fun r => r ++ ((unionKeys recs).filter (fun k => !(r.map (·.1)).contains k)).map (fun k => (k, none)))

theorem lookup_append {β : Type} (r s : Rec β) (k : String) :
    lookup (r ++ s) k = (lookup r k).or (lookup s k) := by
  induction r with
  | nil => simp [lookup]
  | cons p r ih =>
    by_cases h : (p.1 == k) = true
    · simp [lookup, h]
    · simp only [lookup, List.cons_append, List.find?_cons, h] at ih ⊢
      exact ih

theorem lookup_fill_join {β : Type} (r : Rec (Option β)) (ks : List String) (k : String) :
    (lookup (r ++ ks.map (fun k => (k, (none : Option β)))) k).join = (lookup r k).join := by
  rw [lookup_append]
  cases h : lookup r k with
  | some v => simp
  | none =>
    simp only [Option.none_or, Option.join_none]
    cases h2 : lookup (ks.map (fun k => (k, (none : Option β)))) k with
    | none => rfl
    | some v =>
      have := lookup_mem _ _ _ h2
      simp only [List.mem_map, Prod.mk.injEq] at this
      obtain ⟨_, _, _, rfl⟩ := this
      rfl

/-- filling does not change what `pluck` sees: absent and `None` are the same to `.get(k, None)`. -/
theorem pluck_fill {β : Type} (recs : List (Rec (Option β))) (k : String) :
    pluck (fillMissingKeys recs) k = pluck recs k := by
  simp only [pluck, fillMissingKeys, List.map_map]
  apply List.map_congr_left
  intro r _
  exact lookup_fill_join r _ k

/-- after filling, every item has every key of the union. -/
theorem fill_has_all {β : Type} (recs : List (Rec (Option β))) (r : Rec (Option β)) (hr : r ∈ fillMissingKeys recs)
    (k : String) (hk : k ∈ unionKeys recs) : k ∈ r.map (·.1) := by
  simp only [fillMissingKeys, List.mem_map] at hr
  obtain ⟨r0, _, rfl⟩ := hr
  by_cases h : k ∈ r0.map (·.1)
  · simp only [List.map_append, List.mem_append]; left; exact h
  · simp only [List.map_append, List.mem_append]; right
    simp only [List.map_map, List.mem_map, List.mem_filter, Function.comp]
    exact ⟨k, ⟨hk, by simpa using h⟩, rfl⟩

/-- the keys of a filled item: its own, then the missing ones in union order. -/
theorem fill_keys {β : Type} (recs : List (Rec (Option β))) (i : Nat) (h : i < recs.length) :
    ((fillMissingKeys recs)[i]'(by simpa [fillMissingKeys] using h)).map (·.1) =
      recs[i].map (·.1) ++ (unionKeys recs).filter (fun k => !(recs[i].map (·.1)).contains k) := by
  simp only [fillMissingKeys, List.getElem_map, List.map_append]
  rw [map_fst_pair]

/-- the first filled item lists the whole union, in first-seen order. -/
theorem fill_first_keys {β : Type} (r : Rec (Option β)) (rs : List (Rec (Option β))) (hnd : (r.map (·.1)).Nodup) :
    (r ++ ((unionKeys (r :: rs)).filter (fun k => !(r.map (·.1)).contains k)).map (fun k => (k, (none : Option β)))).map (·.1)
      = unionKeys (r :: rs) := by
  rw [List.map_append, map_fst_pair]
  conv => rhs; rw [unionKeys_cons r rs hnd]
  congr 1
  rw [unionKeys_cons r rs hnd, List.filter_append, List.filter_filter]
  have h1 : (r.map (·.1)).filter (fun k => !(r.map (·.1)).contains k) = [] := by
    apply List.filter_eq_nil_iff.mpr
    intro a ha; simpa using ha
  rw [h1, List.nil_append]
  apply List.filter_congr
  intro x _; simp

/-- `from_json` on heterogeneous records = `fill_missing_keys()` followed by `to_data_frame()`
    (which takes the keys of the first item): same columns, same order, same values. -/
theorem fromJson_eq_fill_toColumns {β : Type} (recs : List (Rec (Option β))) (hne : recs ≠ [])
    (hnd : ∀ r ∈ recs.head?, (r.map (·.1)).Nodup) :
    toColumns (fillMissingKeys recs) = fromJsonRecords recs := by
  cases recs with
  | nil => exact absurd rfl hne
  | cons r rs =>
    have hnd' := hnd r (by simp)
    have hk := fill_first_keys r rs hnd'
    have hfill : fillMissingKeys (r :: rs) =
        (r ++ ((unionKeys (r :: rs)).filter (fun k => !(r.map (·.1)).contains k)).map (fun k => (k, (none : Option β))))
          :: (fillMissingKeys (r :: rs)).tail := by
      simp [fillMissingKeys]
    rw [hfill, toColumns_cons, ← hfill, hk]
    unfold fromJsonRecords
    simp only [pluck_fill]

theorem eraseDups_of_nodup (l : List String) (h : l.Nodup) : l.eraseDups = l := by
  induction l with
  | nil => rfl
  | cons a l ih =>
    rw [List.nodup_cons] at h
    rw [List.eraseDups_cons]
    have : l.filter (fun b => !b == a) = l := by
      apply List.filter_eq_self.mpr
      intro x hx
      have : x ≠ a := fun e => h.1 (e ▸ hx)
      simpa using this
    rw [this, ih h.2]

theorem eraseDups_append_of_subset (l m : List String) (h : ∀ x ∈ m, x ∈ l) : (l ++ m).eraseDups = l.eraseDups := by
  rw [List.eraseDups_append]
  have : m.removeAll l = [] := by
    simp only [List.removeAll]
    apply List.filter_eq_nil_iff.mpr
    intro x hx
    simpa using h x hx
  rw [this]; simp

theorem eraseDups_fill (a b : List String) :
    (a ++ ((a ++ b).eraseDups).filter (fun k => !a.contains k)).eraseDups = (a ++ b).eraseDups := by
  have hU : (a ++ b).eraseDups = a.eraseDups ++ (b.removeAll a).eraseDups := List.eraseDups_append
  have hf : ((a ++ b).eraseDups).filter (fun k => !a.contains k) = (b.removeAll a).eraseDups := by
    rw [hU, List.filter_append]
    have h1 : a.eraseDups.filter (fun k => !a.contains k) = [] := by
      apply List.filter_eq_nil_iff.mpr
      intro x hx
      have : x ∈ a := List.mem_eraseDups.mp hx
      simpa using this
    have h2 : (b.removeAll a).eraseDups.filter (fun k => !a.contains k) = (b.removeAll a).eraseDups := by
      apply List.filter_eq_self.mpr
      intro x hx
      have : x ∈ b.removeAll a := List.mem_eraseDups.mp hx
      simp only [List.removeAll, List.mem_filter] at this
      simpa using this.2
    rw [h1, h2, List.nil_append]
  rw [hf, hU, List.eraseDups_append]
  congr 1
  have h3 : ((b.removeAll a).eraseDups).removeAll a = (b.removeAll a).eraseDups := by
    simp only [List.removeAll]
    apply List.filter_eq_self.mpr
    intro x hx
    have : x ∈ List.filter (fun x => !a.elem x) b := List.mem_eraseDups.mp hx
    exact (List.mem_filter.mp this).2
  rw [h3]
  exact eraseDups_of_nodup _ (nodup_eraseDups _)

/-- filling is invisible to the key union ... -/
theorem unionKeys_fill {β : Type} (recs : List (Rec (Option β))) : unionKeys (fillMissingKeys recs) = unionKeys recs := by
  cases recs with
  | nil => rfl
  | cons r rs =>
    have hU : unionKeys (r :: rs) = (r.map (·.1) ++ allKeys rs).eraseDups := by
      rw [unionKeys_eq_eraseDups]; simp [allKeys]
    have hall : allKeys (fillMissingKeys (r :: rs)) =
        (r.map (·.1) ++ (unionKeys (r :: rs)).filter (fun k => !(r.map (·.1)).contains k)) ++
          allKeys ((fillMissingKeys (r :: rs)).tail) := by
      simp only [allKeys, fillMissingKeys, List.map_cons, List.flatMap_cons, List.map_append, List.tail_cons]
      rw [map_fst_pair]
    rw [unionKeys_eq_eraseDups (fillMissingKeys (r :: rs)), hall, eraseDups_append_of_subset]
    · rw [hU]; exact eraseDups_fill _ _
    · intro k hk
      simp only [allKeys, List.mem_flatMap] at hk
      obtain ⟨x, hx, hkx⟩ := hk
      have hx' : x ∈ fillMissingKeys (r :: rs) := List.mem_of_mem_tail hx
      -- every key of a filled item is in the union
      have hku : k ∈ unionKeys (r :: rs) := by
        simp only [fillMissingKeys, List.mem_map] at hx'
        obtain ⟨r0, hr0, rfl⟩ := hx'
        rw [List.map_append, map_fst_pair, List.mem_append] at hkx
        rcases hkx with h | h
        · exact (mem_unionKeys _ _).mpr ⟨r0, hr0, h⟩
        · exact (List.mem_filter.mp h).1
      by_cases h : k ∈ r.map (·.1)
      · exact List.mem_append.mpr (Or.inl h)
      · exact List.mem_append.mpr (Or.inr (List.mem_filter.mpr ⟨hku, by simpa using h⟩))

/-- ... and to `from_json`. -/
theorem fromJson_fill {β : Type} (recs : List (Rec (Option β))) :
    fromJsonRecords (fillMissingKeys recs) = fromJsonRecords recs := by
  unfold fromJsonRecords
  rw [unionKeys_fill]
  simp only [pluck_fill]

end DI.Convert

/-! ### the dtype class that comes back (`Vector(list)` on the plucked values) -/

namespace DI.Construct

/-- the four JSON scalar kinds a column can hold. -/
inductive JKind where
  | bool | int | float | str
  deriving DecidableEq, Repr

def JKind.has : JKind → Kind → Bool
  | .bool, .bool | .int, .int | .float, .float | .str, .str _ => true
  | _, _ => false

def JKind.dclass : JKind → DClass
  | .bool => .bool | .int => .int | .float => .float | .str => .str

/-- the class a column of kind `K` comes back with, given whether it holds a missing value:
    integers widen to float, booleans fall to object; float and str hold their own missing value. -/
def backClass (K : JKind) (anyMissing : Bool) : DClass :=
  match K, anyMissing with
  | .int, true => .float
  | .bool, true => .object
  | K, _ => K.dclass

def JKind.rep : JKind → Kind
  | .bool => .bool | .int => .int | .float => .float | .str => .str false

theorem eraseDups_const {α : Type} [BEq α] [LawfulBEq α] (a : α) (l : List α) (hne : l ≠ []) (h : ∀ x ∈ l, x = a) :
    l.eraseDups = [a] := by
  cases l with
  | nil => exact absurd rfl hne
  | cons b l =>
    have hb : b = a := h b (by simp)
    subst hb
    rw [List.eraseDups_cons]
    have : l.filter (fun x => !x == b) = [] := by
      apply List.filter_eq_nil_iff.mpr
      intro x hx
      have := h x (by simp [hx])
      simp [this]
    rw [this]; rfl

theorem types_oneKind (K : JKind) (xs : List Kind) (h : ∀ x ∈ xs, x.missing = true ∨ K.has x = true)
    (hne : ∃ x ∈ xs, x.missing = false) : types xs = [K.rep] := by
  unfold types
  apply eraseDups_const
  · obtain ⟨x, hx, hm⟩ := hne
    intro hnil
    have : x ∈ xs.filter (fun k => !k.missing) := List.mem_filter.mpr ⟨hx, by simp [hm]⟩
    rw [List.map_eq_nil_iff.mp hnil] at this
    cases this
  · intro y hy
    simp only [List.mem_map, List.mem_filter] at hy
    obtain ⟨x, ⟨hx, hm⟩, rfl⟩ := hy
    rcases h x hx with h1 | h1
    · simp [h1] at hm
    · cases K <;> cases x <;> simp_all [JKind.has, JKind.rep]

theorem types_allMissing (xs : List Kind) (h : ∀ x ∈ xs, x.missing = true) : types xs = [] := by
  unfold types
  have : xs.filter (fun k => !k.missing) = [] := by
    apply List.filter_eq_nil_iff.mpr
    intro x hx; simp [h x hx]
  rw [this]; rfl

/-- NumPy's inference (as modelled) looks at the list only through `any` / `all` / emptiness. -/
theorem npInfer_congr (es es' : List Elem) (h : ∀ e, e ∈ es ↔ e ∈ es') : npInfer es = npInfer es' := by
  have hany : ∀ p : Elem → Bool, es.any p = es'.any p := by
    intro p
    rw [Bool.eq_iff_iff, List.any_eq_true, List.any_eq_true]
    constructor
    · rintro ⟨e, he, hp⟩; exact ⟨e, (h e).mp he, hp⟩
    · rintro ⟨e, he, hp⟩; exact ⟨e, (h e).mpr he, hp⟩
  have hall : ∀ p : Elem → Bool, es.all p = es'.all p := by
    intro p
    rw [Bool.eq_iff_iff, List.all_eq_true, List.all_eq_true]
    constructor
    · intro hp e he; exact hp e ((h e).mpr he)
    · intro hp e he; exact hp e ((h e).mp he)
  have hemp : es.isEmpty = es'.isEmpty := by
    cases es with
    | nil =>
      cases es' with
      | nil => rfl
      | cons b l => exact absurd ((h b).mpr (by simp)) (by simp)
    | cons a l =>
      cases es' with
      | nil => exact absurd ((h a).mp (by simp)) (by simp)
      | cons b l' => rfl
  unfold npInfer
  simp only [hany, hall, hemp]

/-- a list over a finite universe has the members of the universe filtered by occurrence. -/
theorem mem_universe (U es : List Elem) (h : ∀ e ∈ es, e ∈ U) :
    ∀ e, e ∈ es ↔ e ∈ U.filter (fun u => decide (u ∈ es)) := by
  intro e
  simp only [List.mem_filter, decide_eq_true_eq]
  exact ⟨fun he => ⟨h e he, he⟩, fun he => he.2⟩

theorem subst_mem_universe (na : NaVal) (miss : Elem) (hna : ∀ x : Kind, x.missing = true → subst na x = miss)
    (K : JKind) (xs : List Kind) (h : ∀ x ∈ xs, x.missing = true ∨ K.has x = true) :
    ∀ e ∈ xs.map (subst na), e ∈ [miss, Elem.k K.rep, Elem.k (Kind.str true)] := by
  intro e he
  simp only [List.mem_map] at he
  obtain ⟨x, hx, rfl⟩ := he
  rcases h x hx with h1 | h1
  · simp [hna x h1]
  · cases K <;> cases x <;> simp_all [JKind.has, JKind.rep, subst, Kind.missing]

theorem subst_of_not_missing (na : NaVal) (x : Kind) (h : x.missing = false) : subst na x = Elem.k x := by
  simp [subst, h]

/-- the element a missing value is turned into. -/
def missElem : NaVal → Elem
  | .pyNone => .pyNone | .nan => .nanF | .emptyStr => .emptyS | .nat => .natV

theorem subst_of_missing (na : NaVal) (x : Kind) (h : x.missing = true) : subst na x = missElem na := by
  cases na <;> simp [subst, h, missElem]

theorem missElem_mem_iff (na : NaVal) (xs : List Kind) :
    missElem na ∈ xs.map (subst na) ↔ xs.any (·.missing) = true := by
  simp only [List.mem_map, List.any_eq_true]
  constructor
  · rintro ⟨x, hx, he⟩
    refine ⟨x, hx, ?_⟩
    cases hm : x.missing with
    | true => rfl
    | false => rw [subst_of_not_missing na x hm] at he; cases na <;> cases he
  · rintro ⟨x, hx, hm⟩
    exact ⟨x, hx, subst_of_missing na x hm⟩

theorem kind_mem_iff (na : NaVal) (xs : List Kind) (k : Kind) :
    Elem.k k ∈ xs.map (subst na) ↔ k ∈ xs ∧ k.missing = false := by
  simp only [List.mem_map]
  constructor
  · rintro ⟨x, hx, he⟩
    cases hm : x.missing with
    | true => rw [subst_of_missing na x hm] at he; cases na <;> cases he
    | false =>
      rw [subst_of_not_missing na x hm] at he
      cases he; exact ⟨hx, hm⟩
  · rintro ⟨hx, hm⟩
    exact ⟨k, hx, subst_of_not_missing na k hm⟩

/-- the class NumPy infers for a list of one JSON scalar kind plus missing values. -/
theorem npInfer_oneKind (K : JKind) (xs : List Kind) (h : ∀ x ∈ xs, x.missing = true ∨ K.has x = true)
    (hne : ∃ x ∈ xs, x.missing = false) :
    npInfer (xs.map (subst (naOfTypes [K.rep]))) = some (backClass K (xs.any (·.missing))) := by
  have hU := subst_mem_universe (naOfTypes [K.rep]) (missElem (naOfTypes [K.rep]))
    (fun x hx => subst_of_missing _ x hx) K xs h
  rw [npInfer_congr _ _ (mem_universe _ _ hU)]
  have hm := missElem_mem_iff (naOfTypes [K.rep]) xs
  have hk1 := kind_mem_iff (naOfTypes [K.rep]) xs K.rep
  have hk2 := kind_mem_iff (naOfTypes [K.rep]) xs (Kind.str true)
  -- some non-missing element of kind K occurs
  have hsome : K.rep ∈ xs ∨ (K = JKind.str ∧ Kind.str true ∈ xs) := by
    obtain ⟨x, hx, hxm⟩ := hne
    rcases h x hx with h1 | h1
    · rw [h1] at hxm; cases hxm
    · cases K <;> cases x <;> simp_all [JKind.has, JKind.rep]
      rename_i b; cases b <;> simp_all
  have hstr : K ≠ JKind.str → Kind.str true ∉ xs := by
    intro hK hmem
    rcases h _ hmem with h1 | h1
    · cases h1
    · cases K <;> simp_all [JKind.has]
  generalize hes : xs.map (subst (naOfTypes [K.rep])) = es at *
  by_cases ha : xs.any (·.missing) = true
  · have h0 : missElem (naOfTypes [K.rep]) ∈ es := hm.mpr ha
    rw [ha]
    by_cases h1 : Elem.k K.rep ∈ es <;> by_cases h2 : Elem.k (Kind.str true) ∈ es
    · cases K <;> simp only [List.filter, h0, h1, h2, decide_true] <;> first | rfl | (exfalso; exact hstr (by decide) (hk2.mp h2).1)
    · cases K <;> simp only [List.filter, h0, h1, h2, decide_true, decide_false] <;> rfl
    · cases K <;> simp only [List.filter, h0, h1, h2, decide_true, decide_false] <;> first | rfl | (exfalso; exact hstr (by decide) (hk2.mp h2).1)
    · exfalso
      rcases hsome with hs | ⟨_, hs⟩
      · exact h1 (hk1.mpr ⟨hs, by cases K <;> rfl⟩)
      · exact h2 (hk2.mpr ⟨hs, rfl⟩)
  · have h0 : missElem (naOfTypes [K.rep]) ∉ es := fun hh => ha (hm.mp hh)
    have ha' : xs.any (·.missing) = false := by simpa using ha
    rw [ha']
    by_cases h1 : Elem.k K.rep ∈ es <;> by_cases h2 : Elem.k (Kind.str true) ∈ es
    · cases K <;> simp only [List.filter, h0, h1, h2, decide_true, decide_false] <;> first | rfl | (exfalso; exact hstr (by decide) (hk2.mp h2).1)
    · cases K <;> simp only [List.filter, h0, h1, h2, decide_true, decide_false] <;> rfl
    · cases K <;> simp only [List.filter, h0, h1, h2, decide_true, decide_false] <;> first | rfl | (exfalso; exact hstr (by decide) (hk2.mp h2).1)
    · exfalso
      rcases hsome with hs | ⟨_, hs⟩
      · exact h1 (hk1.mpr ⟨hs, by cases K <;> rfl⟩)
      · exact h2 (hk2.mpr ⟨hs, rfl⟩)

/-- a column whose non-missing values all have JSON scalar kind `K`, at least one of them present:
    the class that comes back and the missing-value mask, exactly. -/
theorem construct_oneKind (K : JKind) (xs : List Kind) (h : ∀ x ∈ xs, x.missing = true ∨ K.has x = true)
    (hne : ∃ x ∈ xs, x.missing = false) :
    construct xs = some { dclass := backClass K (xs.any (·.missing)),
                          na := xs.map (fun x => x.missing || isSentinel (backClass K (xs.any (·.missing))) x) } := by
  have ht := types_oneKind K xs h hne
  have hcls := npInfer_oneKind K xs h hne
  have hnp : isNumpyKind K.rep = false := by cases K <;> rfl
  have hd : (K.rep == Kind.date) = false := by cases K <;> rfl
  have hdt : (K.rep == Kind.datetime) = false := by cases K <;> rfl
  unfold construct
  rw [ht]
  simp only [hnp, hd, hdt, Bool.false_eq_true, if_false, hcls, Option.map_some, Option.some.injEq, Result.mk.injEq,
    true_and]
  by_cases ha : xs.any (·.missing) = true
  · rw [ha]
    have hM : Matched (backClass K true) (naOfTypes [K.rep]) = true := by cases K <;> rfl
    exact construct_mask_matched _ _ xs hM
  · have ha' : xs.any (·.missing) = false := by simpa using ha
    rw [ha', List.map_map]
    apply List.map_congr_left
    intro x hx
    have hxm : x.missing = false := by
      cases hm : x.missing with
      | false => rfl
      | true => exact absurd (List.any_eq_true.mpr ⟨x, hx, hm⟩) ha
    simp only [Function.comp, subst_of_not_missing _ x hxm, hxm, Bool.false_or]
    rcases h x hx with h1 | h1
    · rw [h1] at hxm; cases hxm
    · cases K <;> cases x <;> simp_all [JKind.has, backClass, JKind.dclass, isNaElem, isSentinel]
      rename_i b; cases b <;> rfl

/-- a column of missing values only: the "unknown" class is object (float for the empty list),
    every position missing. -/
theorem construct_allMissing (xs : List Kind) (h : ∀ x ∈ xs, x.missing = true) :
    construct xs = some { dclass := if xs.isEmpty then DClass.float else DClass.object, na := xs.map (fun _ => true) } := by
  have ht := types_allMissing xs h
  unfold construct
  rw [ht]
  cases xs with
  | nil => rfl
  | cons x xs =>
    have hes : (x :: xs).map (subst (naOfTypes [])) = (x :: xs).map (fun _ => Elem.pyNone) := by
      apply List.map_congr_left
      intro y hy
      rw [subst_of_missing _ y (h y hy)]; rfl
    have hinf : npInfer ((x :: xs).map (fun _ => Elem.pyNone)) = some DClass.object := by
      rw [npInfer_congr _ [Elem.pyNone]]
      · rfl
      · intro e
        simp only [List.map_cons, List.mem_cons, List.mem_map, List.not_mem_nil, or_false]
        constructor
        · rintro (rfl | ⟨_, _, rfl⟩) <;> rfl
        · intro he; exact Or.inl he
    simp only [hes, hinf]
    simp [isNaElem]

/-- exact answer to "does the column come back in its own class?": float and str always do (they
    hold their own missing value); int and bool do iff no value is missing. -/
theorem class_comes_back_iff (K : JKind) (xs : List Kind) (h : ∀ x ∈ xs, x.missing = true ∨ K.has x = true)
    (hne : ∃ x ∈ xs, x.missing = false) :
    (construct xs).map (·.dclass) = some K.dclass ↔ (K = .float ∨ K = .str ∨ xs.any (·.missing) = false) := by
  rw [construct_oneKind K xs h hne]
  cases K <;> cases xs.any (·.missing) <;> simp [backClass, JKind.dclass]

/-- exact answer for the all-missing column: its class never is one of the four scalar classes
    except float for the empty list. -/
theorem class_unknown_iff (xs : List Kind) (h : ∀ x ∈ xs, x.missing = true) :
    ((construct xs).map (·.dclass) = some DClass.object ↔ xs ≠ []) ∧
    ((construct xs).map (·.dclass) = some DClass.float ↔ xs = []) := by
  rw [construct_allMissing xs h]
  cases xs <;> simp

/-- the mask that comes back flags exactly the missing positions (and `""` in a str column). -/
theorem mask_comes_back (K : JKind) (xs : List Kind) (h : ∀ x ∈ xs, x.missing = true ∨ K.has x = true)
    (hne : ∃ x ∈ xs, x.missing = false) :
    (construct xs).map (·.na) = some (xs.map (fun x => x.missing || (K == .str && x == Kind.str true))) := by
  rw [construct_oneKind K xs h hne]
  simp only [Option.map_some, Option.some.injEq]
  apply List.map_congr_left
  intro x hx
  rcases h x hx with h1 | h1
  · simp [h1]
  · cases K <;> cases xs.any (·.missing) <;> cases x <;> simp_all [JKind.has, backClass, JKind.dclass, isSentinel]
    all_goals (rename_i b; cases b <;> rfl)

end DI.Construct

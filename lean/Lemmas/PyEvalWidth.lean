/-
  Lemmas/PyEvalWidth.lean — what the evaluator of `Model/PyEvalWidth.lean` computes on the translated `ulen`, `upad`,
  `utruncate` of `dataiter/util.py` (`Generated/CodeC20.lean`), and that these are the functions of `Model/Render.lean`
  at the width function `wcOf w` (C20).  Cited by `Proofs/EvalC20.lean`.
-/
import Model.PyEvalWidth
import Lemmas.Render
import Lemmas.RenderSpec
namespace DI.PyEvalWidth
open DI DI.Py DI.Gen

def ulenI (w : Char → Int) (s : Str) : Int := max (wcswidth w s) 0

theorem callUlen_eq (w : Char → Int) (s : Str) : callUlen w s = some (ulenI w s) := by
  unfold callUlen util_ulen ulenI
  by_cases h : wcswidth w s ≥ 0
  · have : max (wcswidth w s) 0 = wcswidth w s := by omega
    simp [h, this]
  · have : max (wcswidth w s) 0 = 0 := by omega
    simp [h, this]

theorem evalUlen_eq (truth : Term → Bool) (w : Char → Int) (s : Str) : evalUlen truth w s = some (ulenI w s) := by
  unfold evalUlen util_ulen ulenI
  by_cases h : wcswidth w s ≥ 0
  · have : max (wcswidth w s) 0 = wcswidth w s := by omega
    simp [h, this]
  · have : max (wcswidth w s) 0 = 0 := by omega
    simp [h, this]

theorem wsum_nonneg (w : Char → Int) (s : Str) (h : ∀ c ∈ s, 0 ≤ w c) :
    Render.wsum (wcOf w) s = some ((s.map w).sum.toNat) ∧ 0 ≤ (s.map w).sum := by
  induction s with
  | nil => exact ⟨rfl, by simp⟩
  | cons c cs ih =>
    have hc : 0 ≤ w c := h c (by simp)
    obtain ⟨h1, h2⟩ := ih (fun d hd => h d (by simp [hd]))
    have hn : ¬ (w c < 0) := by omega
    refine ⟨?_, by simp; omega⟩
    simp only [Render.wsum, wcOf, hn, if_false, h1, List.map_cons, List.sum_cons]
    congr 1; omega

theorem wsum_neg (w : Char → Int) (s : Str) (h : ∃ c ∈ s, w c < 0) : Render.wsum (wcOf w) s = none := by
  induction s with
  | nil => obtain ⟨c, hc, _⟩ := h; cases hc
  | cons c cs ih =>
    by_cases hc : w c < 0
    · simp [Render.wsum, wcOf, hc]
    · have : ∃ d ∈ cs, w d < 0 := by
        obtain ⟨d, hd, hw⟩ := h
        rcases List.mem_cons.mp hd with rfl | hd'
        · exact absurd hw hc
        · exact ⟨d, hd', hw⟩
      simp [Render.wsum, ih this]

theorem ulenI_eq_render (w : Char → Int) (s : Str) : ulenI w s = (Render.ulen (wcOf w) s : Int) := by
  unfold ulenI wcswidth Render.ulen
  by_cases h : ∀ c ∈ s, 0 ≤ w c
  · obtain ⟨h1, h2⟩ := wsum_nonneg w s h
    have : s.all (fun c => decide (0 ≤ w c)) = true := by simpa using h
    simp only [this, if_true, h1, Option.getD_some]
    omega
  · have this : ¬ (s.all (fun c => decide (0 ≤ w c)) = true) := by simpa using h
    have h' : ∃ c ∈ s, w c < 0 := by simpa using this
    simp [this, wsum_neg w s h']
    omega

theorem printable_iff (w : Char → Int) (s : Str) : Render.Printable (wcOf w) s ↔ ∀ c ∈ s, 0 ≤ w c := by
  unfold Render.Printable wcOf
  constructor
  · intro h c hc
    have := h c hc
    by_cases hw : w c < 0
    · simp [hw] at this
    · omega
  · intro h c hc
    have := h c hc
    have hw : ¬ (w c < 0) := by omega
    simp [hw]


/-! ### the primitives -/

theorem strMul_space (n : Int) : strMul [' '] n = Render.spaces n.toNat := by
  unfold strMul Render.spaces
  induction n.toNat with
  | zero => rfl
  | succ k ih => simp [List.replicate_succ, ih]

theorem strSlice_to_nat (s : Str) (k : Nat) : strSlice s none (some (k : Int)) = s.take k := by
  unfold strSlice normBound pmin
  have h1 : ¬ ((k : Int) < 0) := by omega
  simp only [h1, if_false, Int.toNat_zero, List.drop_zero]
  by_cases hk : (s.length : Int) < k
  · simp only [hk, if_true, Int.toNat_natCast]
    rw [List.take_of_length_le (Nat.le_refl _), List.take_of_length_le (by omega)]
  · simp only [hk, if_false, Int.toNat_natCast]

/-- the maximum of a list of integers, from 0. -/
def maxI (l : List Int) : Int := l.foldr max 0

theorem maxI_nonneg (l : List Int) : 0 ≤ maxI l := by
  induction l with
  | nil => simp [maxI]
  | cons a as ih => simp only [maxI, List.foldr_cons] at ih ⊢; omega

theorem foldl_pmax (as : List Int) (a : Int) (ha : 0 ≤ a) : as.foldl pmax a = max a (maxI as) := by
  induction as generalizing a with
  | nil => simp only [List.foldl_nil, maxI, List.foldr_nil]; omega
  | cons b bs ih =>
    have hp : pmax a b = max a b := by unfold pmax; omega
    simp only [List.foldl_cons, hp]
    rw [ih (max a b) (by omega)]
    simp only [maxI, List.foldr_cons]
    omega

/-- Python's `max` of a non-empty list of non-negative integers. -/
theorem pyMax_cons (a : Int) (as : List Int) (ha : 0 ≤ a) : pyMax (a :: as) = some (maxI (a :: as)) := by
  simp only [pyMax, foldl_pmax as a ha, maxI, List.foldr_cons]

theorem ulenI_nonneg (w : Char → Int) (s : Str) : 0 ≤ ulenI w s := by unfold ulenI; omega

theorem maxI_ulenI (w : Char → Int) (xs : List Str) :
    maxI (xs.map (ulenI w)) = (Render.maxWidth (wcOf w) xs : Int) := by
  induction xs with
  | nil => rfl
  | cons x xs ih =>
    simp only [maxI, Render.maxWidth, List.map_cons, List.foldr_cons] at ih ⊢
    rw [ih, ulenI_eq_render]
    omega

/-! ### upad -/

/-- `max(ulen(x) for x in strings)`. -/
def widthT : Term :=
  Term.app "max" [Term.app "GeneratorExp" [Term.app "ulen" [Term.sym "x"], Term.app "in" [Term.sym "x", Term.sym "strings", Term.app "if" []]]]

/-- the body of the `for value in strings` loop. -/
def upadBody : Term :=
  Term.app "block"
    [Term.app "assign" [Term.sym "padding", Term.app "Mult" [Term.sym "' '", Term.app "Sub" [widthT, Term.app "ulen" [Term.sym "value"]]]],
     Term.app "yield" [Term.app "ifexp" [Term.app "Eq" [Term.sym "align", Term.sym "'right'"],
       Term.app "Add" [Term.sym "padding", Term.sym "value"], Term.app "Add" [Term.sym "value", Term.sym "padding"]]]]

theorem util_upad_eq (truth : Term → Bool) :
    util_upad truth = Out.fall [Term.app "for" [Term.sym "value", Term.sym "strings", upadBody]] := rfl

theorem evalE_name (w : Char → Int) (ρ : Env) (x : String) (h1 : x ≠ "None") (h2 : literal? x = none) :
    evalE w (.sym x) ρ = ρ.lookup x := by
  rw [evalE.eq_def]
  simp [h2]

theorem evalE_lit (w : Char → Int) (ρ : Env) (x : String) (s : Str) (h1 : x ≠ "None") (h2 : literal? x = some s) :
    evalE w (.sym x) ρ = some (.str s) := by
  rw [evalE.eq_def]
  simp [h2]

variable (w : Char → Int) (ρ : Env)

theorem evalE_space : evalE w (.sym "' '") ρ = some (.str [' ']) := evalE_lit w ρ _ _ (by decide) (by decide)
theorem evalE_right : evalE w (.sym "'right'") ρ = some (.str ['r', 'i', 'g', 'h', 't']) :=
  evalE_lit w ρ _ _ (by decide) (by decide)
theorem evalE_x : evalE w (.sym "x") ρ = ρ.lookup "x" := evalE_name w ρ _ (by decide) (by decide)
theorem evalE_strings : evalE w (.sym "strings") ρ = ρ.lookup "strings" := evalE_name w ρ _ (by decide) (by decide)
theorem evalE_value : evalE w (.sym "value") ρ = ρ.lookup "value" := evalE_name w ρ _ (by decide) (by decide)
theorem evalE_padding : evalE w (.sym "padding") ρ = ρ.lookup "padding" := evalE_name w ρ _ (by decide) (by decide)
theorem evalE_align : evalE w (.sym "align") ρ = ρ.lookup "align" := evalE_name w ρ _ (by decide) (by decide)
theorem evalE_string : evalE w (.sym "string") ρ = ρ.lookup "string" := evalE_name w ρ _ (by decide) (by decide)
theorem evalE_width : evalE w (.sym "width") ρ = ρ.lookup "width" := evalE_name w ρ _ (by decide) (by decide)
theorem evalE_i : evalE w (.sym "i") ρ = ρ.lookup "i" := evalE_name w ρ _ (by decide) (by decide)
theorem evalE_None : evalE w (.sym "None") ρ = some Val.none := by simp [evalE]

/-- the generator expression: one `ulen` per string. -/
theorem allM_ulen (w : Char → Int) (ρ : Env) (ys : List Str) :
    allM (fun v => (evalE w (Term.app "ulen" [Term.sym "x"]) (("x", v) :: ρ)).bind Val.asInt) (ys.map Val.str) =
      some (ys.map (ulenI w)) := by
  induction ys with
  | nil => rfl
  | cons y ys ih =>
    simp only [List.map_cons, allM, ih]
    simp [evalE, evalE_x, List.lookup, callUlen_eq, Val.asInt]

/-- `width = max(ulen(x) for x in strings)`: ValueError on an empty list. -/
theorem widthT_eval (w : Char → Int) (ρ : Env) (xs : List Str) (h : ρ.lookup "strings" = some (.strs xs)) :
    evalE w widthT ρ = (pyMax (xs.map (ulenI w))).map Val.int := by
  unfold widthT
  rw [evalE]
  simp only [evalE_strings, h, Option.bind_some, iterOf, allM_ulen]

theorem widthT_eval_ne (w : Char → Int) (ρ : Env) (xs : List Str) (h : ρ.lookup "strings" = some (.strs xs))
    (hne : xs ≠ []) : evalE w widthT ρ = some (.int (maxI (xs.map (ulenI w)))) := by
  rw [widthT_eval w ρ xs h]
  cases xs with
  | nil => exact absurd rfl hne
  | cons x xs => simp only [List.map_cons, pyMax_cons _ _ (ulenI_nonneg w x), Option.map_some]

/-- one padded string: `" " * (width - ulen(x))` in front (align "right") or behind (anything else). -/
def padOne (w : Char → Int) (W : Int) (al : Str) (x : Str) : Str :=
  if al = ['r', 'i', 'g', 'h', 't'] then strMul [' '] (W - ulenI w x) ++ x else x ++ strMul [' '] (W - ulenI w x)

theorem upadBody_eval (w : Char → Int) (xs : List Str) (hne : xs ≠ []) (al : Str) (ρ : Env)
    (hs : ρ.lookup "strings" = some (.strs xs)) (ha : ρ.lookup "align" = some (.str al)) (x : Str) (out : List Str) :
    evalS w upadBody ⟨("value", .str x) :: ρ, out⟩ =
      some (Ctl.normal, ⟨("padding", .str (strMul [' '] (maxI (xs.map (ulenI w)) - ulenI w x))) :: ("value", .str x) :: ρ,
        out ++ [padOne w (maxI (xs.map (ulenI w))) al x]⟩) := by
  have hs' : (("value", Val.str x) :: ρ).lookup "strings" = some (.strs xs) := by simp [List.lookup, hs]
  have hW := widthT_eval_ne w _ xs hs' hne
  unfold upadBody
  simp only [evalS, evalB, evalE, hW, evalE_space, evalE_value, evalE_padding, evalE_align, evalE_right, List.lookup,
    callUlen_eq, Option.bind_some, Option.map_some]
  by_cases hal : al = ['r', 'i', 'g', 'h', 't']
  · subst hal
    simp [List.lookup, ha, padOne]
  · simp [List.lookup, ha, padOne, hal]

theorem upadLoop_eval (w : Char → Int) (xs : List Str) (hne : xs ≠ []) (al : Str) (ys : List Str) :
    ∀ (ρ : Env) (out : List Str), ρ.lookup "strings" = some (.strs xs) → ρ.lookup "align" = some (.str al) →
      ∃ ρ', loopOver (evalS w upadBody) "value" (ys.map Val.str) ⟨ρ, out⟩ =
        some (Ctl.normal, ⟨ρ', out ++ ys.map (padOne w (maxI (xs.map (ulenI w))) al)⟩) := by
  induction ys with
  | nil => intro ρ out _ _; exact ⟨ρ, by simp [loopOver]⟩
  | cons y ys ih =>
    intro ρ out hs ha
    simp only [List.map_cons, loopOver, upadBody_eval w xs hne al ρ hs ha y out, Option.bind_some]
    obtain ⟨ρ', h⟩ := ih (("padding", .str (strMul [' '] (maxI (xs.map (ulenI w)) - ulenI w y))) :: ("value", .str y) :: ρ)
      (out ++ [padOne w (maxI (xs.map (ulenI w))) al y]) (by simp [List.lookup, hs]) (by simp [List.lookup, ha])
    exact ⟨ρ', by rw [h]; simp⟩

/-- **upad, evaluated**: every string padded to the greatest display width. -/
theorem evalUpad_eq (truth : Term → Bool) (w : Char → Int) (xs : List Str) (al : Str) :
    evalUpad truth w xs al = some (xs.map (padOne w (maxI (xs.map (ulenI w))) al)) := by
  unfold evalUpad
  rw [util_upad_eq]
  by_cases hne : xs = []
  · subst hne
    simp [runOut, evalB, evalS, evalE_strings, List.lookup, iterOf, loopOver]
  · obtain ⟨ρ', h⟩ := upadLoop_eval w xs hne al xs [("strings", .strs xs), ("align", .str al)] []
      (by simp [List.lookup]) (by simp [List.lookup])
    simp [runOut, evalB, evalS, evalE_strings, List.lookup, iterOf, h]

/-! ### utruncate -/

/-- the body of the `for i in range(1, len(string))` loop. -/
def truncBody : Term :=
  Term.app "block"
    [Term.app "if" [Term.app "Gt" [Term.app "ulen" [Term.app "getitem" [Term.sym "string", Term.app "slice" [Term.sym "None", Term.sym "i"]]], Term.sym "width"],
      Term.app "block" [Term.app "return" [Term.app "getitem" [Term.sym "string", Term.app "slice" [Term.sym "None", Term.app "Sub" [Term.sym "i", Term.int 1]]]]],
      Term.app "block" []]]

theorem util_utruncate_eq (truth : Term → Bool) :
    util_utruncate truth = Out.ret [Term.app "for" [Term.sym "i", Term.app "range" [Term.int 1, Term.app "len" [Term.sym "string"]], truncBody]]
      (Term.sym "string") := rfl

/-- the loop, literally: scanning `i = i₀, i₀+1, …` (`fuel` values), the first `i` with `ulen(s[:i]) > width` ends it with
    `s[:i-1]`; `none` = the loop ran to its end. -/
def truncScan (w : Char → Int) (s : Str) (n : Int) : Nat → Nat → Option Str
  | _, 0 => none
  | i, fuel + 1 => if ulenI w (s.take i) > n then some (s.take (i - 1)) else truncScan w s n (i + 1) fuel

/-- `utruncate(s, n)`: the prefix the loop returns, else the string. -/
def utruncateSpec (w : Char → Int) (s : Str) (n : Int) : Str := (truncScan w s n 1 (s.length - 1)).getD s

theorem truncBody_eval (w : Char → Int) (s : Str) (n : Int) (ρ : Env)
    (hs : ρ.lookup "string" = some (.str s)) (hn : ρ.lookup "width" = some (.int n)) (k : Nat) (hk : 1 ≤ k)
    (out : List Str) :
    evalS w truncBody ⟨("i", .int k) :: ρ, out⟩ =
      some (if ulenI w (s.take k) > n then Ctl.ret (.str (s.take (k - 1))) else Ctl.normal, ⟨("i", .int k) :: ρ, out⟩) := by
  have e : ((k : Int) - 1) = ((k - 1 : Nat) : Int) := by omega
  unfold truncBody
  simp only [evalS, evalB, evalE, evalE_string, evalE_width, evalE_i, evalE_None, List.lookup, Option.bind_some]
  simp only [show ("string" == "i") = false by decide, show ("width" == "i") = false by decide,
    show ("i" == "i") = true by decide, hs, hn, Option.bind_some, Val.asBound, Option.map_some, strSlice_to_nat,
    callUlen_eq, e]
  by_cases hc : ulenI w (s.take k) > n
  · simp [hc]
  · simp [hc]

theorem truncLoop_eval (w : Char → Int) (s : Str) (n : Int) (fuel : Nat) :
    ∀ (i : Nat) (ρ : Env) (out : List Str), 1 ≤ i → ρ.lookup "string" = some (.str s) → ρ.lookup "width" = some (.int n) →
      ∃ ρ', ρ'.lookup "string" = some (.str s) ∧
        loopOver (evalS w truncBody) "i" ((List.range' i fuel).map (fun (k : Nat) => Val.int (k : Int))) ⟨ρ, out⟩ =
          some (match truncScan w s n i fuel with | some p => Ctl.ret (.str p) | none => Ctl.normal, ⟨ρ', out⟩) := by
  induction fuel with
  | zero => intro i ρ out _ hs _; exact ⟨ρ, hs, by simp [loopOver, truncScan]⟩
  | succ f ih =>
    intro i ρ out hi hs hn
    simp only [List.range'_succ, List.map_cons, loopOver, truncBody_eval w s n ρ hs hn i hi out, Option.bind_some, truncScan]
    by_cases hc : ulenI w (s.take i) > n
    · simp only [hc, if_true]
      exact ⟨("i", .int i) :: ρ, by simp [List.lookup, hs], rfl⟩
    · simp only [hc, if_false]
      exact ih (i + 1) (("i", .int i) :: ρ) out (by omega) (by simp [List.lookup, hs]) (by simp [List.lookup, hn])

theorem arange_one_len (n : Nat) : arange 1 (n : Int) = (List.range' 1 (n - 1)).map (fun (k : Nat) => (k : Int)) := by
  unfold arange
  have : ((n : Int) - 1).toNat = n - 1 := by omega
  rw [this, List.range_eq_range', List.range'_eq_map_range (s := 1)]
  simp only [List.map_map, List.range_eq_range']
  apply List.map_congr_left
  intro k _
  simp [Function.comp]

/-- **utruncate, evaluated**: for every width function, string and (possibly negative) width. -/
theorem evalUtruncate_eq (truth : Term → Bool) (w : Char → Int) (s : Str) (n : Int) :
    evalUtruncate truth w s n = some (utruncateSpec w s n) := by
  unfold evalUtruncate utruncateSpec
  rw [util_utruncate_eq]
  obtain ⟨ρ', hρ', h⟩ := truncLoop_eval w s n (s.length - 1) 1 [("string", .str s), ("width", .int n)] []
    (Nat.le_refl _) (by simp [List.lookup]) (by simp [List.lookup])
  have h' : loopOver (evalS w truncBody) "i" ((arange 1 (s.length : Int)).map Val.int)
      ⟨[("string", .str s), ("width", .int n)], []⟩ =
        some (match truncScan w s n 1 (s.length - 1) with | some p => Ctl.ret (.str p) | none => Ctl.normal, ⟨ρ', []⟩) := by
    rw [arange_one_len, List.map_map]; exact h
  simp only [runOut, evalB, evalS, evalE, evalE_string, List.lookup, Option.bind_some, iterOf]
  simp only [show ("string" == "string") = true by decide, Option.bind_some, h']
  cases hsc : truncScan w s n 1 (s.length - 1) with
  | none => simp [hρ']
  | some p => simp

/-! ### what the loop computes -/

theorem ulenI_gt_iff (w : Char → Int) (t : Str) (m : Nat) : ulenI w t > (m : Int) ↔ Render.ulen (wcOf w) t > m := by
  rw [ulenI_eq_render]; omega

/-- for a non-negative width the loop is the model's `utruncateGo`. -/
theorem truncScan_bridge (w : Char → Int) (s : Str) (m : Nat) (fuel : Nat) : ∀ i : Nat,
    (truncScan w s (m : Int) i fuel).getD s = Render.utruncateGo (wcOf w) s m i fuel := by
  induction fuel with
  | zero => intro i; rfl
  | succ f ih =>
    intro i
    unfold truncScan Render.utruncateGo
    by_cases hc : Render.ulen (wcOf w) (s.take i) > m
    · have := (ulenI_gt_iff w (s.take i) m).mpr hc
      simp only [this, hc, if_true, Option.getD_some]
    · have : ¬ (ulenI w (s.take i) > (m : Int)) := fun h => hc ((ulenI_gt_iff w (s.take i) m).mp h)
      simp only [this, hc, if_false]
      exact ih (i + 1)

theorem utruncateSpec_nonneg (w : Char → Int) (s : Str) (m : Nat) :
    utruncateSpec w s (m : Int) = Render.utruncate (wcOf w) s m :=
  truncScan_bridge w s m (s.length - 1) 1

/-- a negative width: every non-empty prefix is "too wide" (`ulen ≥ 0`), so the first test returns `s[:0]`; a string of
    at most one character is not tested at all. -/
theorem utruncateSpec_neg (w : Char → Int) (s : Str) (n : Int) (hn : n < 0) :
    utruncateSpec w s n = if s.length ≤ 1 then s else [] := by
  unfold utruncateSpec
  by_cases hl : s.length ≤ 1
  · have : s.length - 1 = 0 := by omega
    simp [this, truncScan, hl]
  · obtain ⟨f, hf⟩ : ∃ f, s.length - 1 = f + 1 := ⟨s.length - 2, by omega⟩
    have := ulenI_nonneg w (s.take 1)
    have hc : ulenI w (s.take 1) > n := by omega
    simp [hf, truncScan, hc, hl]

/-- the loop, exactly, for EVERY integer width and every width function. -/
theorem truncScan_spec (w : Char → Int) (s : Str) (n : Int) (fuel : Nat) : ∀ i : Nat,
    (∃ k, i ≤ k ∧ k < i + fuel ∧ n < ulenI w (s.take k) ∧
        (∀ j, i ≤ j → j < k → ulenI w (s.take j) ≤ n) ∧ truncScan w s n i fuel = some (s.take (k - 1))) ∨
    ((∀ j, i ≤ j → j < i + fuel → ulenI w (s.take j) ≤ n) ∧ truncScan w s n i fuel = none) := by
  induction fuel with
  | zero => intro i; exact Or.inr ⟨fun j h1 h2 => by omega, rfl⟩
  | succ f ih =>
    intro i
    unfold truncScan
    by_cases h : ulenI w (s.take i) > n
    · rw [if_pos h]
      exact Or.inl ⟨i, Nat.le_refl _, by omega, h, fun j h1 h2 => by omega, rfl⟩
    · rw [if_neg h]
      rcases ih (i + 1) with ⟨k, hk1, hk2, hk3, hk4, hk5⟩ | ⟨h1, h2⟩
      · refine Or.inl ⟨k, by omega, by omega, hk3, ?_, hk5⟩
        intro j hj1 hj2
        by_cases hji : j = i
        · subst hji; omega
        · exact hk4 j (by omega) hj2
      · refine Or.inr ⟨?_, h2⟩
        intro j hj1 hj2
        by_cases hji : j = i
        · subst hji; omega
        · exact h1 j (by omega) (by omega)

/-- `utruncate`, exactly as the loop computes it: a prefix; the first `k` in `1 … len-1` whose prefix is too wide gives
    `s[:k-1]`, and without such a `k` the string itself (`s[:len]` is never measured). -/
theorem utruncateSpec_exact (w : Char → Int) (s : Str) (n : Int) :
    utruncateSpec w s n <+: s ∧
    ((∃ k, 1 ≤ k ∧ k < s.length ∧ n < ulenI w (s.take k) ∧
        (∀ j, 1 ≤ j → j < k → ulenI w (s.take j) ≤ n) ∧ utruncateSpec w s n = s.take (k - 1)) ∨
    ((∀ j, 1 ≤ j → j < s.length → ulenI w (s.take j) ≤ n) ∧ utruncateSpec w s n = s)) := by
  unfold utruncateSpec
  rcases truncScan_spec w s n (s.length - 1) 1 with ⟨k, h1, h2, h3, h4, h5⟩ | ⟨h1, h2⟩
  · rw [h5]
    exact ⟨List.take_prefix _ _, Or.inl ⟨k, h1, by omega, h3, h4, rfl⟩⟩
  · rw [h2]
    exact ⟨List.prefix_refl _, Or.inr ⟨fun j hj1 hj2 => h1 j hj1 (by omega), rfl⟩⟩

/-! ### upad = the model -/

theorem padOne_right (w : Char → Int) (xs : List Str) (x : Str) :
    padOne w (maxI (xs.map (ulenI w))) ['r', 'i', 'g', 'h', 't'] x =
      Render.spaces (Render.maxWidth (wcOf w) xs - Render.ulen (wcOf w) x) ++ x := by
  unfold padOne
  rw [if_pos rfl, strMul_space, maxI_ulenI, ulenI_eq_render]
  congr 2; omega

theorem padOne_left (w : Char → Int) (xs : List Str) (al : Str) (hal : al ≠ ['r', 'i', 'g', 'h', 't']) (x : Str) :
    padOne w (maxI (xs.map (ulenI w))) al x =
      x ++ Render.spaces (Render.maxWidth (wcOf w) xs - Render.ulen (wcOf w) x) := by
  unfold padOne
  rw [if_neg hal, strMul_space, maxI_ulenI, ulenI_eq_render]
  congr 2; omega

theorem evalUpad_right (truth : Term → Bool) (w : Char → Int) (xs : List Str) :
    evalUpad truth w xs ['r', 'i', 'g', 'h', 't'] = some (Render.upad (wcOf w) xs) := by
  rw [evalUpad_eq]
  unfold Render.upad
  congr 1
  apply List.map_congr_left
  intro x _
  exact padOne_right w xs x

theorem evalUpad_left (truth : Term → Bool) (w : Char → Int) (xs : List Str) (al : Str)
    (hal : al ≠ ['r', 'i', 'g', 'h', 't']) : evalUpad truth w xs al = some (Render.upadLeft (wcOf w) xs) := by
  rw [evalUpad_eq]
  unfold Render.upadLeft
  congr 1
  apply List.map_congr_left
  intro x _
  exact padOne_left w xs al hal x

theorem wcOf_space (w : Char → Int) (h : w ' ' = 1) : wcOf w ' ' = some 1 := by
  unfold wcOf; rw [h]; rfl

theorem ulenI_printable (w : Char → Int) (s : Str) (h : ∀ c ∈ s, 0 ≤ w c) : ulenI w s = (s.map w).sum := by
  have h2 := (wsum_nonneg w s h).2
  have : s.all (fun c => decide (0 ≤ w c)) = true := by simpa using h
  unfold ulenI wcswidth
  simp only [this, if_true]
  omega

theorem ulenI_nonprintable (w : Char → Int) (s : Str) (h : ∃ c ∈ s, w c < 0) : ulenI w s = 0 := by
  rw [ulenI_eq_render]
  simp [Render.ulen, wsum_neg w s h]

/-- a padded string is exactly `W` wide, on whichever side the spaces go. -/
theorem ulen_padded {wc : Char → Option Nat} (hsp : wc ' ' = some 1) {x : Str} (hx : Render.Printable wc x) {W : Nat}
    (hle : Render.ulen wc x ≤ W) :
    Render.ulen wc (Render.spaces (W - Render.ulen wc x) ++ x) = W ∧
    Render.ulen wc (x ++ Render.spaces (W - Render.ulen wc x)) = W := by
  have hs : Render.Printable wc (Render.spaces (W - Render.ulen wc x)) :=
    Render.printable_replicate (by simp [hsp]) _
  have hu : Render.ulen wc (Render.spaces (W - Render.ulen wc x)) = W - Render.ulen wc x := Render.ulen_replicate hsp _
  rw [Render.ulen_append hs hx, Render.ulen_append hx hs, hu]
  omega

/-- a width function with a wide, a zero-width and a non-printable character, for the concrete examples. -/
def wDemo : Char → Int := fun c => if c = '中' then 2 else if c = '\u0301' then 0 else if c = '\x01' then -1 else 1

/-- `"right"`. -/
def alignRight : Str := ['r', 'i', 'g', 'h', 't']

theorem alignRight_eq : alignRight = "right".toList := by decide

end DI.PyEvalWidth

/-
  Lemmas/AggSpec.lean — characterisations of the order-dependent and counting helpers of
  Model/Aggregate.lean (C07): mode, count_unique, first / last / nth, all / any; permutation
  invariance of the order-free helpers and the non-invariance of the others.
-/
import Model.Aggregate
import Model.Numba
import Lemmas.Aggregate
import Lemmas.AggStats

namespace DI.Agg

/-! ### firstArgmax: first position of the maximum -/

def amStep (acc : Nat × Nat) (p : Nat × Nat) : Nat × Nat := if p.1 > acc.1 then (p.1, p.2) else acc

theorem firstArgmax_eq (counts : List Nat) :
    firstArgmax counts = (counts.zipIdx.foldl amStep (counts.headD 0, 0)).2 := rfl

/-- loop invariant of the argmax scan: the accumulator `(c, i)` is the entry at position `i`, it
    bounds every position visited so far, and strictly exceeds every position before `i`. -/
theorem argmax_fold_inv (counts : List Nat) (l : List Nat) (k : Nat) (c i : Nat)
    (hl : counts.drop k = l)
    (hi : counts[i]? = some c)
    (hle : ∀ j < k, ∀ x, counts[j]? = some x → x ≤ c)
    (hlt : ∀ j < i, ∀ x, counts[j]? = some x → x < c) :
    counts[((l.zipIdx k).foldl amStep (c, i)).2]? = some ((l.zipIdx k).foldl amStep (c, i)).1 ∧
    (∀ j < k + l.length, ∀ x, counts[j]? = some x → x ≤ ((l.zipIdx k).foldl amStep (c, i)).1) ∧
    (∀ j < ((l.zipIdx k).foldl amStep (c, i)).2, ∀ x, counts[j]? = some x →
      x < ((l.zipIdx k).foldl amStep (c, i)).1) := by
  induction l generalizing k c i with
  | nil => simpa using ⟨hi, hle, hlt⟩
  | cons a l ih =>
    have hk : counts[k]? = some a := by
      have := congrArg (fun t => t[0]?) hl
      simpa using this
    have hl' : counts.drop (k + 1) = l := by
      have := congrArg List.tail hl
      simpa using this
    simp only [List.zipIdx_cons, List.foldl_cons, List.length_cons]
    by_cases hgt : a > c
    · have hs : amStep (c, i) (a, k) = (a, k) := by simp [amStep, hgt]
      rw [hs]
      have := ih (k + 1) a k hl' hk
        (fun j hj x hx => by
          rcases Nat.lt_succ_iff_lt_or_eq.mp hj with h | h
          · have := hle j h x hx; omega
          · subst h; rw [hk] at hx; cases hx; exact Nat.le_refl _)
        (fun j hj x hx => by have := hle j hj x hx; omega)
      rw [show k + (l.length + 1) = k + 1 + l.length by omega]
      exact this
    · have hs : amStep (c, i) (a, k) = (c, i) := by simp [amStep, hgt]
      rw [hs]
      have := ih (k + 1) c i hl' hi
        (fun j hj x hx => by
          rcases Nat.lt_succ_iff_lt_or_eq.mp hj with h | h
          · exact hle j h x hx
          · subst h; rw [hk] at hx; cases hx; omega)
        hlt
      rw [show k + (l.length + 1) = k + 1 + l.length by omega]
      exact this

/-- `firstArgmax` of a non-empty list: a valid position, holding a maximal entry, and every
    earlier position holds a strictly smaller entry. -/
theorem firstArgmax_spec_aux (counts : List Nat) (hne : counts ≠ []) (k : Nat) (hk : firstArgmax counts = k) :
    ∃ h : k < counts.length,
      (∀ j (hj : j < counts.length), counts[j] ≤ counts[k]) ∧
      (∀ j (hj : j < k), counts[j] < counts[k]) := by
  cases counts with
  | nil => exact absurd rfl hne
  | cons a t =>
    have inv := argmax_fold_inv (a :: t) (a :: t) 0 a 0 rfl rfl
      (fun j hj => by omega) (fun j hj => by omega)
    rw [firstArgmax_eq] at hk
    simp only [List.headD_cons] at hk
    generalize ((a :: t).zipIdx.foldl amStep (a, 0)) = r at *
    subst hk
    obtain ⟨h1, h2, h3⟩ := inv
    have hlt : r.2 < (a :: t).length := by
      by_cases h : r.2 < (a :: t).length
      · exact h
      · rw [List.getElem?_eq_none (by omega)] at h1; cases h1
    have hv : (a :: t)[r.2] = r.1 := by
      rw [List.getElem?_eq_getElem hlt] at h1; exact Option.some.inj h1
    refine ⟨hlt, ?_, ?_⟩
    · intro j hj
      rw [hv]
      exact h2 j (by simpa using hj) _ (List.getElem?_eq_getElem hj)
    · intro j hj
      rw [hv]
      exact h3 j hj _ (List.getElem?_eq_getElem (by omega))

theorem firstArgmax_spec (counts : List Nat) (hne : counts ≠ []) :
    ∃ h : firstArgmax counts < counts.length,
      (∀ j (hj : j < counts.length), counts[j] ≤ counts[firstArgmax counts]) ∧
      (∀ j (hj : j < firstArgmax counts), counts[j] < counts[firstArgmax counts]) :=
  firstArgmax_spec_aux counts hne _ rfl

/-! ### mode -/

theorem idxOf_le_of_getElem {xs : List Num} {k : Nat} (hk : k < xs.length) : xs.idxOf xs[k] ≤ k := by
  apply Nat.le_of_not_lt
  intro h
  have := List.not_of_lt_findIdx (p := (· == xs[k])) (xs := xs) (i := k) h
  simp at this

/-- positional form: the mode is the entry at a position `k` whose value is at least as frequent
    as every value, and every earlier position holds a strictly less frequent value. -/
theorem mode_position (xs : List Num) (hne : xs ≠ []) :
    ∃ k, ∃ hk : k < xs.length, modeOf xs = ofNum xs[k] ∧
      (∀ y, xs.count y ≤ xs.count xs[k]) ∧
      (∀ j (hj : j < k), xs.count (xs[j]'(by omega)) < xs.count xs[k]) := by
  have hcne : xs.map (fun y => xs.count y) ≠ [] := by simpa using hne
  obtain ⟨hk, h1, h2⟩ := firstArgmax_spec _ hcne
  have hlen : (xs.map (fun y => xs.count y)).length = xs.length := List.length_map _
  refine ⟨firstArgmax (xs.map (fun y => xs.count y)), by omega, ?_, ?_, ?_⟩
  · cases xs with
    | nil => exact absurd rfl hne
    | cons a l =>
      simp only [modeOf]
      rw [getElem!_pos _ _ (by omega)]
  · intro y
    by_cases hy : y ∈ xs
    · obtain ⟨j, hj, rfl⟩ := List.getElem_of_mem hy
      have := h1 j (by omega)
      simpa [List.getElem_map] using this
    · rw [List.count_eq_zero_of_not_mem hy]; exact Nat.zero_le _
  · intro j hj
    have := h2 j hj
    simpa [List.getElem_map] using this

/-- `mode`: the result is an element of the group; no value occurs more often; every other value
    that occurs equally often first occurs later than the result's first occurrence. -/
theorem mode_most_frequent_first (xs : List Num) (hne : xs ≠ []) :
    ∃ m, modeOf xs = ofNum m ∧ m ∈ xs ∧ (∀ y, xs.count y ≤ xs.count m) ∧
      (∀ y ∈ xs, y ≠ m → xs.count y = xs.count m → xs.idxOf m < xs.idxOf y) := by
  obtain ⟨k, hk, hm, hmax, hfirst⟩ := mode_position xs hne
  refine ⟨xs[k], hm, List.getElem_mem hk, hmax, ?_⟩
  intro y hy hne' hc
  have hj := List.idxOf_lt_length_of_mem hy
  have hyj : xs[xs.idxOf y] = y := List.getElem_idxOf hj
  have hi_le := idxOf_le_of_getElem hk
  have hi_lt : xs.idxOf xs[k] < xs.length := by omega
  have hmi : xs[xs.idxOf xs[k]] = xs[k] := List.getElem_idxOf hi_lt
  have hi : xs.idxOf xs[k] = k := by
    rcases Nat.lt_or_eq_of_le hi_le with h | h
    · have := hfirst _ h
      rw [hmi] at this; omega
    · exact h
  rw [hi]
  rcases Nat.lt_trichotomy (xs.idxOf y) k with h | h | h
  · have := hfirst _ h
    rw [hyj, hc] at this; omega
  · exfalso; apply hne'; rw [← hyj]; simp only [h]
  · exact h

/-- the Numba kernel computes the same mode on a group without missing values. -/
theorem modeNumba_most_frequent_first (xs : List Num) (hne : xs ≠ []) (hna : hasNa xs = false) :
    ∃ m, modeNumba xs = some (ofNum m) ∧ m ∈ xs ∧ (∀ y, xs.count y ≤ xs.count m) ∧
      (∀ y ∈ xs, y ≠ m → xs.count y = xs.count m → xs.idxOf m < xs.idxOf y) := by
  obtain ⟨m, h1, h2⟩ := mode_most_frequent_first xs hne
  refine ⟨m, ?_, h2⟩
  rw [modeNumba_eq xs hna, if_pos (by have := List.length_pos_iff.mpr hne; omega), h1]

theorem count_map_some (l : List Rat) (y : Rat) : (l.map some).count (some y) = l.count y := by
  induction l with
  | nil => rfl
  | cons a t ih => simp [List.count_cons, ih]

theorem idxOf_map_some (l : List Rat) (y : Rat) : (l.map some).idxOf (some y) = l.idxOf y := by
  induction l with
  | nil => rfl
  | cons a t ih => simp [List.idxOf_cons, ih]

/-- on a group of values (no missing value) the mode is a value. -/
theorem mode_of_values (l : List Rat) (hne : l ≠ []) :
    ∃ m, modeOf (l.map some) = .val m ∧ modeNumba (l.map some) = some (.val m) ∧ m ∈ l ∧
      (∀ y, l.count y ≤ l.count m) ∧
      (∀ y ∈ l, y ≠ m → l.count y = l.count m → l.idxOf m < l.idxOf y) := by
  have hne' : l.map some ≠ [] := by simpa using hne
  obtain ⟨m, h1, h2, h3, h4⟩ := mode_most_frequent_first (l.map some) hne'
  obtain ⟨m', h5, h6⟩ := modeNumba_most_frequent_first (l.map some) hne' (hasNa_map_some l)
  obtain ⟨v, hv, rfl⟩ := List.mem_map.mp h2
  have hcount := count_map_some l
  have hidx := idxOf_map_some l
  refine ⟨v, h1, ?_, hv, ?_, ?_⟩
  · rw [modeNumba_eq _ (hasNa_map_some l), if_pos (by
      have := List.length_pos_iff.mpr hne'; omega), h1]; rfl
  · intro y; have := h3 (some y); rwa [hcount, hcount] at this
  · intro y hy hyv hc
    have := h4 (some y) (List.mem_map.mpr ⟨y, hy, rfl⟩) (by simpa using hyv) (by rw [hcount, hcount]; exact hc)
    rwa [hidx, hidx] at this

/-! ### count_unique -/

theorem nodup_eraseDups {α : Type} [BEq α] [LawfulBEq α] (l : List α) : l.eraseDups.Nodup := by
  induction hn : l.length using Nat.strongRecOn generalizing l with
  | _ n ih =>
    cases l with
    | nil => simp
    | cons a as =>
      rw [List.eraseDups_cons, List.nodup_cons]
      constructor
      · intro hmem
        have := List.mem_eraseDups.mp hmem
        simp at this
      · have hlt : (as.filter fun b => !b == a).length < n := by
          have := List.length_filter_le (fun b => !b == a) as
          simp only [List.length_cons] at hn; omega
        exact ih _ hlt _ rfl

theorem eraseDups_length_le {α : Type} [BEq α] [LawfulBEq α] (l : List α) : l.eraseDups.length ≤ l.length :=
  (nodup_eraseDups l).length_le_of_subset (fun _ hx => List.mem_eraseDups.mp hx)

theorem eraseDups_length_eq_zero_iff {α : Type} [BEq α] [LawfulBEq α] (l : List α) :
    l.eraseDups.length = 0 ↔ l = [] := by
  cases l with
  | nil => simp
  | cons a as => rw [List.eraseDups_cons]; simp

/-- `eraseDups.length` is *the* number of distinct values: every duplicate-free list with the same
    elements has this length. -/
theorem eraseDups_length_unique {α : Type} [BEq α] [LawfulBEq α] (l d : List α) (hd : d.Nodup)
    (hmem : ∀ x, x ∈ d ↔ x ∈ l) : d.length = l.eraseDups.length := by
  have : d.Perm l.eraseDups :=
    (List.perm_ext_iff_of_nodup hd (nodup_eraseDups l)).mpr (fun x => by rw [hmem, List.mem_eraseDups])
  exact this.length_eq

theorem eraseDups_length_perm {α : Type} [BEq α] [LawfulBEq α] {a b : List α} (p : a.Perm b) :
    a.eraseDups.length = b.eraseDups.length :=
  eraseDups_length_unique b a.eraseDups (nodup_eraseDups a)
    (fun x => by rw [List.mem_eraseDups]; exact p.mem_iff)

theorem filter_isNone_of_no_na (xs : List Num) (hna : hasNa xs = false) : xs.filter (·.isNone) = [] := by
  rw [List.filter_eq_nil_iff]
  intro a ha
  unfold hasNa at hna
  rw [List.any_eq_false] at hna
  simpa using hna a ha

/-- `count_unique` on a group without missing values: the number of distinct values, on both paths. -/
theorem countUnique_spec (d : Bool) (xs : List Num) (hna : hasNa xs = false) :
    countUniqueOf d xs = (values xs).eraseDups.length ∧ countUniqueNumba xs = (values xs).eraseDups.length ∧
    (values xs).eraseDups.Nodup ∧ (∀ v, v ∈ (values xs).eraseDups ↔ some v ∈ xs) ∧
    countUniqueOf d xs ≤ xs.length ∧ (countUniqueOf d xs = 0 ↔ xs = []) := by
  have h0 : countUniqueOf d xs = (values xs).eraseDups.length := by
    unfold countUniqueOf
    simp [filter_isNone_of_no_na xs hna]
  have hl := values_length_of_no_na xs hna
  refine ⟨h0, ?_, nodup_eraseDups _, fun v => by rw [List.mem_eraseDups, mem_values], ?_, ?_⟩
  · unfold countUniqueNumba; simp [filter_isNone_of_no_na xs hna]
  · rw [h0, ← hl]; exact eraseDups_length_le _
  · rw [h0, eraseDups_length_eq_zero_iff]
    constructor
    · intro h; rw [h] at hl; exact List.eq_nil_of_length_eq_zero hl.symm
    · intro h; subst h; rfl

theorem countUniqueOf_perm (d : Bool) {xs ys : List Num} (p : xs.Perm ys) :
    countUniqueOf d xs = countUniqueOf d ys := by
  unfold countUniqueOf
  simp only [eraseDups_length_perm (values_perm p), (p.filter _).length_eq]

theorem countUniqueNumba_perm {xs ys : List Num} (p : xs.Perm ys) :
    countUniqueNumba xs = countUniqueNumba ys := by
  unfold countUniqueNumba
  simp only [eraseDups_length_perm (values_perm p), (p.filter _).length_eq]

/-! ### first / last / nth -/

theorem nthOf_nonneg (xs : List Num) (i : Int) (h0 : 0 ≤ i) (hlt : i < xs.length) :
    nthOf xs i = ofNum (xs[i.toNat]'(by omega)) := by
  unfold nthOf
  rw [if_pos h0, List.getElem?_eq_getElem (by omega)]

theorem nthOf_neg (xs : List Num) (i : Int) (hneg : i < 0) (hge : -(xs.length : Int) ≤ i) :
    nthOf xs i = ofNum (xs[(i + xs.length).toNat]'(by omega)) := by
  unfold nthOf
  rw [if_neg (by omega), if_pos hge, List.getElem?_eq_getElem (by omega)]

theorem nthOf_out_of_range (xs : List Num) (i : Int) (h : (xs.length : Int) ≤ i ∨ i < -(xs.length : Int)) :
    nthOf xs i = .missing := by
  unfold nthOf
  rcases h with h | h
  · rw [if_pos (by omega), List.getElem?_eq_none (by omega)]
  · rw [if_neg (by omega), if_neg (by omega)]

/-- `first` = `nth 0`: the first element. -/
theorem nthOf_zero (xs : List Num) (hne : xs ≠ []) : nthOf xs 0 = ofNum (xs.head hne) := by
  cases xs with
  | nil => exact absurd rfl hne
  | cons a l => simp [nthOf]

/-- `last` = `nth (-1)`: the last element. -/
theorem nthOf_neg_one (xs : List Num) (hne : xs ≠ []) : nthOf xs (-1) = ofNum (xs.getLast hne) := by
  have hpos := List.length_pos_iff.mpr hne
  rw [nthOf_neg xs (-1) (by omega) (by omega), List.getLast_eq_getElem]
  congr 2
  omega

/-- what `DataFrame.aggregate` ends up with for `nth`: the element, or the column's missing
    value when the index is out of range. -/
theorem nth_kernel_default (xs : List Num) (i : Int) :
    (match kernel (.nth i) xs with | some r => r | none => defaultOf (.nth i)) = nthOf xs i := by
  simp only [kernel, defaultOf]
  cases nthOf xs i <;> rfl

/-! ### all / any -/

theorem truthy_iff (x : Num) : truthy x = true ↔ x ≠ some 0 := by
  cases x with
  | none => simp [truthy]
  | some q => simp [truthy]

theorem npAll_iff (xs : List Num) : npAll xs = .bool true ↔ ∀ x ∈ xs, truthy x = true := by
  simp [npAll]

theorem npAll_false_iff (xs : List Num) : npAll xs = .bool false ↔ ∃ x ∈ xs, truthy x = false := by
  simp [npAll]

theorem npAny_iff (xs : List Num) : npAny xs = .bool true ↔ ∃ x ∈ xs, truthy x = true := by
  simp [npAny]

theorem npAny_false_iff (xs : List Num) : npAny xs = .bool false ↔ ∀ x ∈ xs, truthy x = false := by
  simp [npAny]

theorem npAll_fold (xs : List Num) : npAll xs = .bool (xs.foldr (fun x acc => truthy x && acc) true) := by
  unfold npAll
  induction xs with
  | nil => rfl
  | cons a l ih => simp only [List.all_cons, List.foldr_cons]; injection ih with ih; rw [ih]

theorem npAny_fold (xs : List Num) : npAny xs = .bool (xs.foldr (fun x acc => truthy x || acc) false) := by
  unfold npAny
  induction xs with
  | nil => rfl
  | cons a l ih => simp only [List.any_cons, List.foldr_cons]; injection ih with ih; rw [ih]

theorem npAll_append (a b : List Num) : npAll (a ++ b) = .bool (a.all truthy && b.all truthy) := by
  simp [npAll]

theorem npAny_append (a b : List Num) : npAny (a ++ b) = .bool (a.any truthy || b.any truthy) := by
  simp [npAny]

theorem all_perm {xs ys : List Num} (p : xs.Perm ys) (f : Num → Bool) : xs.all f = ys.all f := by
  rw [Bool.eq_iff_iff]; simp only [List.all_eq_true]
  exact ⟨fun h x hx => h x (p.symm.subset hx), fun h x hx => h x (p.subset hx)⟩

theorem any_perm {xs ys : List Num} (p : xs.Perm ys) (f : Num → Bool) : xs.any f = ys.any f := by
  rw [Bool.eq_iff_iff]; simp only [List.any_eq_true]
  exact ⟨fun ⟨x, hx, h⟩ => ⟨x, p.subset hx, h⟩, fun ⟨x, hx, h⟩ => ⟨x, p.symm.subset hx, h⟩⟩

/-! ### the order of the group's rows: which helpers do not depend on it -/

/-- helpers whose result does not depend on the order of the rows inside the group. -/
def orderFree : Helper → Bool
  | .nth _ => false
  | .mode => false
  | _ => true

theorem npSum_perm {xs ys : List Num} (p : xs.Perm ys) : npSum xs = npSum ys := by
  unfold npSum; rw [hasNa_perm p, rsum_perm (values_perm p)]

theorem npMean_perm {xs ys : List Num} (p : xs.Perm ys) : npMean xs = npMean ys := by
  unfold npMean; rw [hasNa_perm p, rsum_perm (values_perm p), (values_perm p).length_eq]

theorem npVar_perm (ddof : Nat) {xs ys : List Num} (p : xs.Perm ys) : npVar ddof xs = npVar ddof ys := by
  unfold npVar; rw [hasNa_perm p, variance_perm (values_perm p)]

theorem npStd_perm (ddof : Nat) {xs ys : List Num} (p : xs.Perm ys) : npStd ddof xs = npStd ddof ys := by
  unfold npStd; rw [hasNa_perm p, variance_perm (values_perm p)]

theorem npMedian_perm {xs ys : List Num} (p : xs.Perm ys) : npMedian xs = npMedian ys := by
  unfold npMedian; rw [hasNa_perm p, medianOf_perm (values_perm p)]

theorem npQuantile_perm (q : Rat) {xs ys : List Num} (p : xs.Perm ys) : npQuantile q xs = npQuantile q ys := by
  unfold npQuantile; rw [hasNa_perm p, quantileOf_perm (values_perm p)]

theorem handleNa_perm {xs ys : List Num} (p : xs.Perm ys) (d : Bool) :
    (handleNa xs d).Perm (handleNa ys d) := by
  cases d
  · simpa [handleNa] using p
  · simpa [handleNa, dropNa] using p.filter _

/-- the closure's result for one group does not depend on the order of the group's rows, for
    every helper except first / last / nth and mode. -/
theorem kernel_perm (h : Helper) (ho : orderFree h = true) {xs ys : List Num} (p : xs.Perm ys) :
    kernel h xs = kernel h ys := by
  have hl := p.length_eq
  cases h with
  | nth i => simp [orderFree] at ho
  | mode => simp [orderFree] at ho
  | all => simp only [kernel, hl, npAll, all_perm p]
  | any => simp only [kernel, hl, npAny, any_perm p]
  | count => simp only [kernel, hl]
  | countUnique d => simp only [kernel, countUniqueOf_perm d p]
  | min => simp only [kernel, hl, npMin_perm p]
  | max => simp only [kernel, hl, npMax_perm p]
  | mean => simp only [kernel, hl, npMean_perm p]
  | median => simp only [kernel, hl, npMedian_perm p]
  | quantile q => simp only [kernel, hl, npQuantile_perm q p]
  | std d => simp only [kernel, hl, npStd_perm d p]
  | var d => simp only [kernel, hl, npVar_perm d p]
  | sum => simp only [kernel, hl, npSum_perm p]

theorem kernelNumba_perm (h : Helper) (ho : orderFree h = true) {xs ys : List Num} (p : xs.Perm ys) :
    kernelNumba h xs = kernelNumba h ys := by
  cases h with
  | nth i => simp [orderFree] at ho
  | mode => simp [orderFree] at ho
  | countUnique d => simp only [kernelNumba, countUniqueNumba_perm p]
  | all => exact kernel_perm .all rfl p
  | any => exact kernel_perm .any rfl p
  | count => exact kernel_perm .count rfl p
  | min => exact kernel_perm .min rfl p
  | max => exact kernel_perm .max rfl p
  | mean => exact kernel_perm .mean rfl p
  | median => exact kernel_perm .median rfl p
  | quantile q => exact kernel_perm (.quantile q) rfl p
  | std d => exact kernel_perm (.std d) rfl p
  | var d => exact kernel_perm (.var d) rfl p
  | sum => exact kernel_perm .sum rfl p

/-- the vector form (`di.mean(vector)` ...) likewise, including the NA policy. -/
theorem vectorForm_perm (h : Helper) (ho : orderFree h = true) (d : Bool) {xs ys : List Num}
    (p : xs.Perm ys) : vectorForm h d xs = vectorForm h d ys := by
  have p' := handleNa_perm p d
  have hl := p'.length_eq
  cases h with
  | nth i => simp [orderFree] at ho
  | mode => simp [orderFree] at ho
  | all => simp only [vectorForm, npAll, all_perm p]
  | any => simp only [vectorForm, npAny, any_perm p]
  | count => simp only [vectorForm, hl]
  | countUnique d' => simp only [vectorForm, countUniqueOf_perm d' p']
  | min => simp only [vectorForm, hl, npMin_perm p']
  | max => simp only [vectorForm, hl, npMax_perm p']
  | mean => simp only [vectorForm, hl, npMean_perm p']
  | median => simp only [vectorForm, hl, npMedian_perm p']
  | quantile q => simp only [vectorForm, hl, npQuantile_perm q p']
  | std d' => simp only [vectorForm, hl, npStd_perm d' p']
  | var d' => simp only [vectorForm, hl, npVar_perm d' p']
  | sum => simp only [vectorForm, npSum_perm p']

/-- first / last / nth and mode DO depend on the order of the rows ("in their original order"). -/
theorem order_matters_counterexamples :
    ([some 1, some 2] : List Num).Perm [some 2, some 1] ∧
    nthOf [some 1, some 2] 0 ≠ nthOf [some 2, some 1] 0 ∧
    nthOf [some 1, some 2] (-1) ≠ nthOf [some 2, some 1] (-1) ∧
    nthOf [some 1, some 2] 1 ≠ nthOf [some 2, some 1] 1 ∧
    modeOf [some 1, some 2] ≠ modeOf [some 2, some 1] ∧
    modeNumba [some 1, some 2] ≠ modeNumba [some 2, some 1] :=
  ⟨List.Perm.swap _ _ _, by decide, by decide, by decide, by decide, by decide⟩

/-! ### yield_groups without the length hypothesis -/

/-- the chunks are consecutive pieces of the column prefix that has a group id. -/
theorem chunks_flatten_take (ids : List Nat) (xs : List Num) :
    (chunks ids xs).flatten = xs.take ids.length := by
  induction ids generalizing xs with
  | nil => simp [chunks]
  | cons g gs ih =>
    cases xs with
    | nil => simp [chunks]
    | cons x xs =>
      have ih' := ih xs
      simp only [chunks]
      cases gs with
      | nil => simp [chunks]
      | cons g' gs' =>
        cases hc : chunks (g' :: gs') xs with
        | nil =>
          rw [hc] at ih'
          simp only [List.flatten_nil, List.length_cons] at ih' ⊢
          simp [← ih']
        | cons c cs =>
          rw [hc] at ih'
          simp only []
          split
          · simp only [List.flatten_cons, List.cons_append, List.length_cons, List.take_succ_cons] at ih' ⊢
            rw [ih']
          · simp only [List.flatten_cons, List.cons_append, List.nil_append, List.length_cons,
              List.take_succ_cons] at ih' ⊢
            rw [ih']

theorem mem_chunk' (ids : List Nat) (xs : List Num) (xg : List Num)
    (hg : xg ∈ chunks ids xs) (x : Num) (hx : x ∈ xg) : x ∈ xs := by
  have : x ∈ (chunks ids xs).flatten := List.mem_flatten.mpr ⟨xg, hg, hx⟩
  rw [chunks_flatten_take] at this
  exact List.mem_of_mem_take this

theorem hasNa_chunk' (ids : List Nat) (xs : List Num) (xg : List Num)
    (hg : xg ∈ chunks ids xs) (hna : hasNa xs = false) : hasNa xg = false := by
  unfold hasNa at *
  rw [List.any_eq_false] at hna ⊢
  intro x hx
  exact hna x (mem_chunk' ids xs xg hg x hx)

/-- `handleNa_group` without the length hypothesis. -/
theorem handleNa_group' (ids : List Nat) (xs : List Num) (xg : List Num)
    (hg : xg ∈ chunks ids xs) (d : Bool) : handleNa xg (d && hasNa xs) = handleNa xg d := by
  cases d with
  | false => simp [handleNa]
  | true =>
    cases hna : hasNa xs with
    | true => simp
    | false =>
      simp only [Bool.and_false, handleNa, Bool.false_eq_true, if_false, if_true]
      exact (dropNa_of_no_na xg (hasNa_chunk' ids xs xg hg hna)).symm

/-- `group_eq_vector` without the length hypothesis. -/
theorem group_eq_vector' (h : Helper) (d : Bool) (xs : List Num) (ids : List Nat)
    (hall : (h = .all ∨ h = .any) → d = false) :
    groupForm h d xs ids = (chunks ids xs).map (fun xg => vectorForm h d xg) := by
  unfold groupForm
  apply List.map_congr_left
  intro xg hg
  rw [handleNa_group' ids xs xg hg d]
  exact kernel_eq_vector h d xg hall

/-! ### from the kernels on cells to the statistics on values -/

/-- on a group that holds the values `l` and no missing value, the NumPy-level functions are the
    statistics on `l` characterised in Lemmas/AggStats.lean. -/
theorem np_of_values (l : List Rat) (q : Rat) (ddof : Nat) :
    npSum (l.map some) = .val (rsum l) ∧ npMean (l.map some) = .val (meanOf l) ∧
    npVar ddof (l.map some) = .val (variance l ddof) ∧ npStd ddof (l.map some) = .sqrt (variance l ddof) ∧
    npMedian (l.map some) = .val (medianOf l) ∧ npQuantile q (l.map some) = .val (quantileOf l q) ∧
    (∀ v vs, l = v :: vs → npMin (l.map some) = .val (minFold v vs) ∧ npMax (l.map some) = .val (maxFold v vs)) := by
  have h1 := hasNa_map_some l
  have h2 := values_map_some l
  refine ⟨?_, ?_, ?_, ?_, ?_, ?_, ?_⟩ <;>
    try simp only [npSum, npMean, npVar, npStd, npMedian, npQuantile, h1, h2, Bool.false_eq_true, if_false, meanOf]
  intro v vs hl
  subst hl
  simp only [npMin, npMax, h1, h2, Bool.false_eq_true, if_false, minFold, maxFold, and_self]

/-- min ≤ mean, median, quantile ≤ max on every non-empty group without missing values. -/
theorem stats_between_min_max (xs : List Num) (hna : hasNa xs = false) (hne : xs ≠ [])
    (q : Rat) (h0 : 0 ≤ q) (h1 : q ≤ 1) :
    ∃ mn mx mean med qu, npMin xs = .val mn ∧ npMax xs = .val mx ∧ npMean xs = .val mean ∧
      npMedian xs = .val med ∧ npQuantile q xs = .val qu ∧
      mn ≤ mean ∧ mean ≤ mx ∧ mn ≤ med ∧ med ≤ mx ∧ mn ≤ qu ∧ qu ≤ mx := by
  obtain ⟨mn, hmn, _, hlo⟩ := npMin_spec xs hna hne
  obtain ⟨mx, hmx, _, hhi⟩ := npMax_spec xs hna hne
  have hvne : values xs ≠ [] := by
    intro h
    have := values_length_of_no_na xs hna
    rw [h] at this
    exact hne (List.eq_nil_of_length_eq_zero this.symm)
  have b1 := mean_bounds (values xs) hvne mn mx hlo hhi
  have b2 := median_bounds (values xs) hvne mn mx hlo hhi
  have b3 := quantile_bounds (values xs) hvne q h0 h1 mn mx hlo hhi
  refine ⟨mn, mx, meanOf (values xs), medianOf (values xs), quantileOf (values xs) q, hmn, hmx, ?_, ?_, ?_,
    b1.1, b1.2, b2.1, b2.2, b3.1, b3.2⟩ <;> simp [npMean, npMedian, npQuantile, hna, meanOf]

/-- quantile 0 = min, quantile 1 = max, quantile 1/2 = median (non-empty group, no missing value). -/
theorem quantile_special_cases (xs : List Num) (hna : hasNa xs = false) (hne : xs ≠ []) :
    npQuantile 0 xs = npMin xs ∧ npQuantile 1 xs = npMax xs ∧ npQuantile (1 / 2) xs = npMedian xs := by
  obtain ⟨mn, hmn, hmn1, hlo⟩ := npMin_spec xs hna hne
  obtain ⟨mx, hmx, hmx1, hhi⟩ := npMax_spec xs hna hne
  have hvne : values xs ≠ [] := by
    intro h
    have := values_length_of_no_na xs hna
    rw [h] at this
    exact hne (List.eq_nil_of_length_eq_zero this.symm)
  have hpos : 0 < (sortRat (values xs)).length := by
    rw [sortRat_length]; exact List.length_pos_iff.mpr hvne
  obtain ⟨a1, a2⟩ := sortRat_head_is_min (values xs) hpos
  obtain ⟨c1, c2⟩ := sortRat_last_is_max (values xs) hpos
  refine ⟨?_, ?_, ?_⟩
  · rw [hmn]
    simp only [npQuantile, hna, Bool.false_eq_true, if_false, quantile_zero _ hvne]
    congr 1
    exact least_unique a1 a2 hmn1 hlo
  · rw [hmx]
    simp only [npQuantile, hna, Bool.false_eq_true, if_false, quantile_one _ hvne]
    congr 1
    have e : (sortRat (values xs))[(values xs).length - 1]'(by rw [sortRat_length] at hpos ⊢; omega) =
        (sortRat (values xs))[(sortRat (values xs)).length - 1] := by
      simp only [sortRat_length]
    rw [e]
    exact greatest_unique c1 c2 hmx1 hhi
  · simp only [npQuantile, npMedian, hna, Bool.false_eq_true, if_false, quantile_half _ hvne]

/-! ### non-vacuity -/

example : firstArgmax [1, 3, 2, 3] = 1 := by decide
example : modeOf [some 3, some 1, some 1, some 3] = .val 3 := by decide
example : modeNumba [some 3, some 1, some 1, some 3] = some (.val 3) := by decide
example := mode_of_values [3, 1, 1, 3] (by decide)
example : countUniqueOf false [some 3, some 1, some 1, some 3] = 2 ∧
    countUniqueNumba [some 3, some 1, some 1, some 3] = 2 := by decide
example := countUnique_spec false [some 3, some 1, some 1] (by decide)
example : nthOf [some 3, some 1, some 2] 1 = .val 1 ∧ nthOf [some 3, some 1, some 2] (-1) = .val 2 ∧
    nthOf [some 3, some 1, some 2] (-3) = .val 3 ∧ nthOf [some 3, some 1, some 2] 3 = .missing ∧
    nthOf [some 3, some 1, some 2] (-4) = .missing := by decide
example := nthOf_neg [some 3, some 1, some 2] (-2) (by decide) (by decide)
example : npAll [some 1, some 0] = .bool false ∧ npAny [some 1, some 0] = .bool true ∧
    npAll [none] = .bool true := by decide
example : kernel .sum [some 1, some 2] = kernel .sum [some 2, some 1] :=
  kernel_perm .sum rfl (List.Perm.swap _ _ _)
example := stats_between_min_max [some 3, some 1] (by decide) (by decide) (1 / 4) (by grind) (by grind)
example := quantile_special_cases [some 3, some 1] (by decide) (by decide)

end DI.Agg

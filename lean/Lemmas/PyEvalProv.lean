/-
  Lemmas/PyEvalProv.lean — facts about the provenance classifier of `Model/PyEvalProv.lean`, and the provenance of every
  result / store site of the regenerated DataFrame / Vector method bodies, for EVERY interpretation `truth` of the
  library predicates (all branches of the translated control flow).  Statements for C06 are in `Proofs/EvalC06.lean`.
-/
import Model.PyEvalProv
import Model.HeapSites
import Lemmas.Heap
import Generated.CodeC01
import Generated.CodeC02
import Generated.CodeC03
import Generated.CodeC04
import Generated.CodeC05
import Generated.CodeC06
import Generated.CodeC09
import Generated.CodeC10
import Generated.CodeC11
import Generated.CodeC20

namespace DI.PyEvalProv

open DI.Py DI.Gen DI.Heap

/-! ### the rules, as equations for ALL terms / environments -/

/-- `x.copy()` is fresh whatever `x` is (`x` an expression, not a `copy=` keyword). -/
theorem prov_copy (env : Env) (t : Term) (h : mayNotCopy [t] = false) : provIn env (Term.app ".copy" [t]) = .fresh := by
  unfold provIn; unfold provM; simp [h, wrap, allocHeads]
theorem prov_take (env : Env) (args : List Term) (h : mayNotCopy args = false) : provIn env (Term.app "np.take" args) = .fresh := by
  unfold provIn; unfold provM; simp [h, wrap, allocHeads]
theorem prov_delete (env : Env) (args : List Term) (h : mayNotCopy args = false) : provIn env (Term.app "np.delete" args) = .fresh := by
  unfold provIn; unfold provM; simp [h, wrap, allocHeads]
theorem prov_concatenate (env : Env) (args : List Term) (h : mayNotCopy args = false) : provIn env (Term.app "np.concatenate" args) = .fresh := by
  unfold provIn; unfold provM; simp [h, wrap, allocHeads]
theorem prov_where (env : Env) (args : List Term) (h : mayNotCopy args = false) : provIn env (Term.app "np.where" args) = .fresh := by
  unfold provIn; unfold provM; simp [h, wrap, allocHeads]
theorem prov_zeros_like (env : Env) (args : List Term) (h : mayNotCopy args = false) : provIn env (Term.app "np.zeros_like" args) = .fresh := by
  unfold provIn; unfold provM; simp [h, wrap, allocHeads]
/-- `x.astype(…)` WITHOUT a `copy=` keyword (or with `copy=True`) is fresh … -/
theorem prov_astype (env : Env) (args : List Term) (h : mayNotCopy args = false) : provIn env (Term.app ".astype" args) = .fresh := by
  unfold provIn; unfold provM; simp [h, wrap, allocHeads]

/-- a trailing `copy=False` is seen whatever stands before it. -/
theorem mayNotCopy_false_kw (l : List Term) : mayNotCopy (l ++ [.app "=copy" [.sym "False"]]) = true := by
  fun_induction mayNotCopy l <;> simp_all [mayNotCopy]

/-- … and `x.astype(dtype, copy=False)` is NOT: it has the provenance of `x` (NumPy returns `x` itself when it already has
    the dtype) — the receiver's, if `x` is the receiver. -/
theorem prov_astype_nocopy (env : Env) (x d : Term) :
    provIn env (Term.app ".astype" [x, d, .app "=copy" [.sym "False"]]) = provIn env x := by
  have h := mayNotCopy_false_kw [x, d]
  simp only [List.cons_append, List.nil_append] at h
  unfold provIn
  conv => lhs; unfold provM
  simp [h, wrap, allocHeads, provArg]

/-- an element / a view is never classified fresh. -/
theorem elemOf_ne_fresh (p : Prov) : elemOf p ≠ .fresh := by cases p <;> simp [elemOf]

/-- `x[i]` with `i` not an index array (a slice, a key, a bare name): an element / view of `x` — the receiver's if `x` is the
    receiver, a parameter's if `x` is a parameter. -/
theorem prov_getitem_view (env : Env) (x i : Term) (h : isIndexArray i = false) :
    provIn env (Term.app "getitem" [x, i]) = elemOf (provIn env x) := by
  simp [provIn, provM, h, wrap]

/-- … hence never fresh. -/
theorem prov_getitem_view_ne_fresh (env : Env) (x i : Term) (h : isIndexArray i = false) :
    provIn env (Term.app "getitem" [x, i]) ≠ .fresh := by
  rw [prov_getitem_view env x i h]; exact elemOf_ne_fresh _

/-- a slice is not an index array. -/
theorem slice_not_index (a b : Option Int) : isIndexArray (Term.slice a b) = false := rfl

/-- `x[i]` with an index array / a mask: fancy indexing copies. -/
theorem prov_getitem_fancy (env : Env) (x i : Term) (h : isIndexArray i = true) :
    provIn env (Term.app "getitem" [x, i]) = .fresh := by
  simp [provIn, provM, h, wrap]

/-- `x.view(…)` / `np.asarray(x)`: the provenance of `x`. -/
theorem prov_view (env : Env) (x : Term) (rest : List Term) : provIn env (Term.app ".view" (x :: rest)) = provIn env x := rfl
theorem prov_asarray (env : Env) (x : Term) : provIn env (Term.app "np.asarray" [x]) = provIn env x := rfl

/-- `self.__class__(d, …)`: what the constructor takes over from `d`. -/
theorem prov_ctor (env : Env) (r d : Term) (rest : List Term) :
    provIn env (Term.app ".__class__" (r :: d :: rest)) = provM env .data d := rfl
theorem prov_vector_fast (env : Env) (d : Term) (rest : List Term) :
    provIn env (Term.app "Vector.fast" (d :: rest)) = provM env .data d := rfl

/-- `self`, a parameter, a literal. -/
theorem prov_self : prov (Term.sym "self") = .receiver := rfl
theorem prov_unbound (s : String) (h1 : s ≠ "self") (h2 : isLiteral s = false) : prov (Term.sym s) = .argument := by
  simp [prov, provIn, provM, wrap, Env.get, symDefault, h1, h2]

/-- a store target the method owns is neither the receiver nor a parameter. -/
theorem isLocal_not_input (p : Prov) (h : p.isLocal = true) : p ≠ .receiver ∧ p ≠ .argument ∧ p ≠ .unknown := by
  cases p <;> simp [Prov.isLocal] at h ⊢

theorem join_eq_fresh (p q : Prov) : join p q = .fresh ↔ p = .fresh ∧ q = .fresh := by
  unfold join; split
  · rename_i h; subst h; simp
  · rename_i h; constructor
    · intro h'; cases h'
    · rintro ⟨rfl, rfl⟩; exact absurd rfl h

/-- `for colname, column in self.items(): yield colname, g(column)` (`perColumn g`): ONE result site, the term `g(column)`
    read with `column` bound to a column of the receiver. -/
theorem perColumn_site (g : Term → Term) :
    ∃ env : Env, env.lookup "column" = some .receiver ∧
      resultProvs (Out.fall [perColumn g]) = [provIn env (g (Term.sym "column"))] ∧
      storeProvs (Out.fall [perColumn g]) = [] := ⟨_, rfl, rfl, rfl⟩

/-! ### from provenances to a clean effect -/

theorem srcOf_local (i : Nat) (p : Prov) (h : p.isLocal = true) : srcOf i p = Src.fresh i := by
  cases p <;> simp [Prov.isLocal] at h <;> rfl

/-- a body whose result sites are all fresh / delegated and whose stores are all local has a clean effect: the frame
    theorems of `Proofs/C06.lean` apply to the effect READ OFF THE CODE. -/
theorem codeEffect_clean (o : Out) (hr : ∀ p ∈ resultProvs o, p.isLocal = true) (hw : ∀ p ∈ storeProvs o, p.isLocal = true) :
    (codeEffect o).clean := by
  constructor
  · intro w hw'
    simp only [codeEffect, List.mem_map] at hw'
    obtain ⟨p, hp, rfl⟩ := hw'
    simp [wrOf, hw p hp]
  · intro o' ho
    simp only [codeEffect, List.mem_map] at ho
    obtain ⟨x, hx, rfl⟩ := ho
    have hmem : x.1 ∈ resultProvs o := List.fst_mem_of_mem_zipIdx hx
    exact ⟨x.2, srcOf_local x.2 x.1 (hr _ hmem)⟩

/-- against the table: where the table calls every result of the method fresh, a provenance that agrees with it is fresh, or
    the result of a method all of whose results the table calls fresh. -/
theorem agrees_fresh (cls m : String) (p : Prov) (h : agreesWithTable cls m p = true) (hf : allFreshInTable cls m = true) :
    p = .fresh ∨ ∃ m', p = .delegate m' ∧ allFreshInTable cls m' = true := by
  simp only [agreesWithTable, List.any_eq_true] at h
  obtain ⟨c, hc, ha⟩ := h
  have hcf : c = "fresh" := by
    simp only [allFreshInTable, Bool.and_eq_true, List.all_eq_true] at hf
    simpa using hf.2 c hc
  subst hcf
  cases p with
  | fresh => exact Or.inl rfl
  | delegate m' =>
    right
    refine ⟨m', rfl, ?_⟩
    simp only [agrees] at ha
    simpa using ha
  | receiver => simp [agrees] at ha
  | argument => simp [agrees] at ha
  | unknown => simp [agrees] at ha

/-! ### every regenerated method body, every branch -/

theorem filter_sites (truth : Term → Bool) (b : Bool) :
    (∀ p ∈ resultProvs (DataFrame_filter truth b), p = Prov.fresh) ∧ (∀ p ∈ storeProvs (DataFrame_filter truth b), p.isLocal = true) := by
  unfold DataFrame_filter
  try dsimp only
  cases b <;> (repeat' split) <;> (constructor <;> decide)

theorem filter_out_sites (truth : Term → Bool) (b : Bool) :
    (∀ p ∈ resultProvs (DataFrame_filter_out truth b), p = Prov.fresh) ∧ (∀ p ∈ storeProvs (DataFrame_filter_out truth b), p.isLocal = true) := by
  unfold DataFrame_filter_out
  try dsimp only
  cases b <;> (repeat' split) <;> (constructor <;> decide)

theorem slice_sites (truth : Term → Bool) (b : Bool) (c : Bool) :
    (∀ p ∈ resultProvs (DataFrame_slice truth b c), p = Prov.fresh) ∧ (∀ p ∈ storeProvs (DataFrame_slice truth b c), p.isLocal = true) := by
  unfold DataFrame_slice
  try dsimp only
  cases b <;> cases c <;> (repeat' split) <;> (constructor <;> decide)

theorem slice_off_sites (truth : Term → Bool) (b : Bool) (c : Bool) :
    (∀ p ∈ resultProvs (DataFrame_slice_off truth b c), p = Prov.fresh) ∧ (∀ p ∈ storeProvs (DataFrame_slice_off truth b c), p.isLocal = true) := by
  unfold DataFrame_slice_off
  try dsimp only
  cases b <;> cases c <;> (repeat' split) <;> (constructor <;> decide)

theorem sort_sites (truth : Term → Bool) :
    (∀ p ∈ resultProvs (DataFrame_sort truth), p = Prov.fresh) ∧ (∀ p ∈ storeProvs (DataFrame_sort truth), p.isLocal = true) := by
  unfold DataFrame_sort
  try dsimp only
  (repeat' split) <;> (constructor <;> decide)

theorem unique_sites (truth : Term → Bool) :
    (∀ p ∈ resultProvs (DataFrame_unique truth), p = Prov.fresh) ∧ (∀ p ∈ storeProvs (DataFrame_unique truth), p.isLocal = true) := by
  unfold DataFrame_unique
  try dsimp only
  (repeat' split) <;> (constructor <;> decide)

theorem select_sites (truth : Term → Bool) :
    (∀ p ∈ resultProvs (DataFrame_select truth), p = Prov.fresh) ∧ (∀ p ∈ storeProvs (DataFrame_select truth), p.isLocal = true) := by
  unfold DataFrame_select
  try dsimp only
  (repeat' split) <;> (constructor <;> decide)

theorem unselect_sites (truth : Term → Bool) :
    (∀ p ∈ resultProvs (DataFrame_unselect truth), p = Prov.fresh) ∧ (∀ p ∈ storeProvs (DataFrame_unselect truth), p.isLocal = true) := by
  unfold DataFrame_unselect
  try dsimp only
  (repeat' split) <;> (constructor <;> decide)

theorem rename_sites (truth : Term → Bool) :
    (∀ p ∈ resultProvs (DataFrame_rename truth), p = Prov.fresh) ∧ (∀ p ∈ storeProvs (DataFrame_rename truth), p.isLocal = true) := by
  unfold DataFrame_rename
  try dsimp only
  (repeat' split) <;> (constructor <;> decide)

theorem cbind_sites (truth : Term → Bool) :
    (∀ p ∈ resultProvs (DataFrame_cbind truth), p = Prov.fresh) ∧ (∀ p ∈ storeProvs (DataFrame_cbind truth), p.isLocal = true) := by
  unfold DataFrame_cbind
  try dsimp only
  (repeat' split) <;> (constructor <;> decide)

theorem update_sites (truth : Term → Bool) :
    (∀ p ∈ resultProvs (DataFrame_update truth), p = Prov.fresh) ∧ (∀ p ∈ storeProvs (DataFrame_update truth), p.isLocal = true) := by
  unfold DataFrame_update
  try dsimp only
  (repeat' split) <;> (constructor <;> decide)

theorem modify_sites (truth : Term → Bool) :
    (∀ p ∈ resultProvs (DataFrame_modify truth), p = Prov.fresh) ∧ (∀ p ∈ storeProvs (DataFrame_modify truth), p.isLocal = true) := by
  unfold DataFrame_modify
  try dsimp only
  (repeat' split) <;> (constructor <;> decide)

theorem rbind_sites (truth : Term → Bool) :
    (∀ p ∈ resultProvs (DataFrame_rbind truth), p = Prov.fresh) ∧ (∀ p ∈ storeProvs (DataFrame_rbind truth), p.isLocal = true) := by
  unfold DataFrame_rbind
  try dsimp only
  (repeat' split) <;> (constructor <;> decide)

theorem left_join_sites (truth : Term → Bool) :
    (∀ p ∈ resultProvs (DataFrame_left_join truth), p = Prov.fresh) ∧ (∀ p ∈ storeProvs (DataFrame_left_join truth), p.isLocal = true) := by
  unfold DataFrame_left_join
  try dsimp only
  (repeat' split) <;> (constructor <;> decide)

theorem inner_join_sites (truth : Term → Bool) :
    (∀ p ∈ resultProvs (DataFrame_inner_join truth), p = Prov.fresh) ∧ (∀ p ∈ storeProvs (DataFrame_inner_join truth), p.isLocal = true) := by
  unfold DataFrame_inner_join
  try dsimp only
  (repeat' split) <;> (constructor <;> decide)

theorem semi_join_sites (truth : Term → Bool) :
    (∀ p ∈ resultProvs (DataFrame_semi_join truth), p = Prov.fresh) ∧ (∀ p ∈ storeProvs (DataFrame_semi_join truth), p.isLocal = true) := by
  unfold DataFrame_semi_join
  try dsimp only
  (repeat' split) <;> (constructor <;> decide)

theorem anti_join_sites (truth : Term → Bool) :
    (∀ p ∈ resultProvs (DataFrame_anti_join truth), p = Prov.fresh) ∧ (∀ p ∈ storeProvs (DataFrame_anti_join truth), p.isLocal = true) := by
  unfold DataFrame_anti_join
  try dsimp only
  (repeat' split) <;> (constructor <;> decide)

theorem full_join_sites (truth : Term → Bool) :
    (∀ p ∈ resultProvs (DataFrame_full_join truth), p = Prov.delegate "unselect") ∧ (∀ p ∈ storeProvs (DataFrame_full_join truth), p.isLocal = true) := by
  unfold DataFrame_full_join
  try dsimp only
  (repeat' split) <;> (constructor <;> decide)

theorem sample_sites (truth : Term → Bool) (b : Bool) :
    (∀ p ∈ resultProvs (DataFrame_sample truth b), p = Prov.delegate "slice") ∧ (∀ p ∈ storeProvs (DataFrame_sample truth b), p.isLocal = true) := by
  unfold DataFrame_sample
  try dsimp only
  cases b <;> (repeat' split) <;> (constructor <;> decide)

theorem drop_na_sites (truth : Term → Bool) :
    (∀ p ∈ resultProvs (DataFrame_drop_na truth), p = Prov.delegate "filter_out") ∧ (∀ p ∈ storeProvs (DataFrame_drop_na truth), p.isLocal = true) := by
  unfold DataFrame_drop_na
  try dsimp only
  (repeat' split) <;> (constructor <;> decide)

theorem count_sites (truth : Term → Bool) :
    (∀ p ∈ resultProvs (DataFrame_count truth), p = Prov.delegate "aggregate") ∧ (∀ p ∈ storeProvs (DataFrame_count truth), p.isLocal = true) := by
  unfold DataFrame_count
  try dsimp only
  (repeat' split) <;> (constructor <;> decide)

theorem deepcopy_sites (truth : Term → Bool) :
    (∀ p ∈ resultProvs (DataFrame_deepcopy2 truth), p = Prov.delegate "__deepcopy__") ∧ (∀ p ∈ storeProvs (DataFrame_deepcopy2 truth), p.isLocal = true) := by
  unfold DataFrame_deepcopy2
  try dsimp only
  (repeat' split) <;> (constructor <;> decide)

theorem copy_sites (truth : Term → Bool) :
    (∀ p ∈ resultProvs (DataFrame_copy2 truth), p = Prov.delegate "__copy__") ∧ (∀ p ∈ storeProvs (DataFrame_copy2 truth), p.isLocal = true) := by
  unfold DataFrame_copy2
  try dsimp only
  (repeat' split) <;> (constructor <;> decide)

theorem vector_concat_sites (truth : Term → Bool) :
    (∀ p ∈ resultProvs (Vector_concat truth), p = Prov.fresh) ∧ (∀ p ∈ storeProvs (Vector_concat truth), p.isLocal = true) := by
  unfold Vector_concat
  try dsimp only
  (repeat' split) <;> (constructor <;> decide)

theorem vector_range_sites (truth : Term → Bool) :
    (∀ p ∈ resultProvs (Vector_range truth), p = Prov.fresh) ∧ (∀ p ∈ storeProvs (Vector_range truth), p.isLocal = true) := by
  unfold Vector_range
  try dsimp only
  (repeat' split) <;> (constructor <;> decide)

theorem vector_sample_sites (truth : Term → Bool) (b : Bool) :
    (∀ p ∈ resultProvs (Vector_sample truth b), p = Prov.fresh) ∧ (∀ p ∈ storeProvs (Vector_sample truth b), p.isLocal = true) := by
  unfold Vector_sample
  try dsimp only
  cases b <;> (repeat' split) <;> (constructor <;> decide)

theorem vector_map_sites (truth : Term → Bool) :
    (∀ p ∈ resultProvs (Vector_map truth), p = Prov.fresh) ∧ (∀ p ∈ storeProvs (Vector_map truth), p.isLocal = true) := by
  unfold Vector_map
  try dsimp only
  (repeat' split) <;> (constructor <;> decide)

theorem vector_replace_na_sites (truth : Term → Bool) :
    (∀ p ∈ resultProvs (Vector_replace_na truth), p = Prov.fresh) ∧ (∀ p ∈ storeProvs (Vector_replace_na truth), p.isLocal = true) := by
  unfold Vector_replace_na
  try dsimp only
  (repeat' split) <;> (constructor <;> decide)

theorem vector_is_na_sites (truth : Term → Bool) :
    (∀ p ∈ resultProvs (Vector_is_na truth), p = Prov.fresh) ∧ (∀ p ∈ storeProvs (Vector_is_na truth), p.isLocal = true) := by
  unfold Vector_is_na
  try dsimp only
  (repeat' split) <;> (constructor <;> decide)

theorem vector_drop_na_sites (truth : Term → Bool) :
    (∀ p ∈ resultProvs (Vector_drop_na truth), p = Prov.fresh) ∧ (∀ p ∈ storeProvs (Vector_drop_na truth), p.isLocal = true) := by
  unfold Vector_drop_na
  try dsimp only
  (repeat' split) <;> (constructor <;> decide)

theorem vector_as_boolean_sites (truth : Term → Bool) :
    (∀ p ∈ resultProvs (Vector_as_boolean truth), p = Prov.fresh) ∧ (∀ p ∈ storeProvs (Vector_as_boolean truth), p.isLocal = true) := by
  unfold Vector_as_boolean
  try dsimp only
  (repeat' split) <;> (constructor <;> decide)

theorem vector_as_bytes_sites (truth : Term → Bool) :
    (∀ p ∈ resultProvs (Vector_as_bytes truth), p = Prov.fresh) ∧ (∀ p ∈ storeProvs (Vector_as_bytes truth), p.isLocal = true) := by
  unfold Vector_as_bytes
  try dsimp only
  (repeat' split) <;> (constructor <;> decide)

theorem vector_as_date_sites (truth : Term → Bool) :
    (∀ p ∈ resultProvs (Vector_as_date truth), p = Prov.fresh) ∧ (∀ p ∈ storeProvs (Vector_as_date truth), p.isLocal = true) := by
  unfold Vector_as_date
  try dsimp only
  (repeat' split) <;> (constructor <;> decide)

theorem vector_as_datetime_sites (truth : Term → Bool) :
    (∀ p ∈ resultProvs (Vector_as_datetime truth), p = Prov.fresh) ∧ (∀ p ∈ storeProvs (Vector_as_datetime truth), p.isLocal = true) := by
  unfold Vector_as_datetime
  try dsimp only
  (repeat' split) <;> (constructor <;> decide)

theorem vector_as_float_sites (truth : Term → Bool) :
    (∀ p ∈ resultProvs (Vector_as_float truth), p = Prov.fresh) ∧ (∀ p ∈ storeProvs (Vector_as_float truth), p.isLocal = true) := by
  unfold Vector_as_float
  try dsimp only
  (repeat' split) <;> (constructor <;> decide)

theorem vector_as_integer_sites (truth : Term → Bool) :
    (∀ p ∈ resultProvs (Vector_as_integer truth), p = Prov.fresh) ∧ (∀ p ∈ storeProvs (Vector_as_integer truth), p.isLocal = true) := by
  unfold Vector_as_integer
  try dsimp only
  (repeat' split) <;> (constructor <;> decide)

theorem vector_as_object_sites (truth : Term → Bool) :
    (∀ p ∈ resultProvs (Vector_as_object truth), p = Prov.fresh) ∧ (∀ p ∈ storeProvs (Vector_as_object truth), p.isLocal = true) := by
  unfold Vector_as_object
  try dsimp only
  (repeat' split) <;> (constructor <;> decide)

theorem vector_as_string_sites (truth : Term → Bool) :
    (∀ p ∈ resultProvs (Vector_as_string truth), p = Prov.fresh) ∧ (∀ p ∈ storeProvs (Vector_as_string truth), p.isLocal = true) := by
  unfold Vector_as_string
  try dsimp only
  (repeat' split) <;> (constructor <;> decide)

theorem vector_sort_sites (truth : Term → Bool) :
    (∀ p ∈ resultProvs (Vector_sort truth), p = Prov.delegate "concat") ∧ (∀ p ∈ storeProvs (Vector_sort truth), p.isLocal = true) := by
  unfold Vector_sort
  try dsimp only
  (repeat' split) <;> (constructor <;> decide)

theorem vector_rank_sites (truth : Term → Bool) :
    (∀ p ∈ resultProvs (Vector_rank truth), p = Prov.fresh) ∧ (∀ p ∈ storeProvs (Vector_rank truth), p.isLocal = true) := by
  unfold Vector_rank
  try dsimp only
  (repeat' split) <;> (constructor <;> decide)

theorem vector_unique_sites (truth : Term → Bool) :
    (∀ p ∈ resultProvs (Vector_unique truth), p = Prov.fresh) ∧ (∀ p ∈ storeProvs (Vector_unique truth), p.isLocal = true) := by
  unfold Vector_unique
  try dsimp only
  (repeat' split) <;> (constructor <;> decide)

/-! ### the methods with integer parameters (`n`, the length): the sites do not depend on them -/

theorem head_sites (truth : Term → Bool) (b : Bool) (d nrow n : Int) :
    resultProvs (DataFrame_head truth b d nrow n) = [Prov.delegate "slice"] ∧ storeProvs (DataFrame_head truth b d nrow n) = [] := by
  cases b <;> exact ⟨rfl, rfl⟩

theorem tail_sites (truth : Term → Bool) (b : Bool) (d nrow n : Int) :
    resultProvs (DataFrame_tail truth b d nrow n) = [Prov.delegate "slice"] ∧ storeProvs (DataFrame_tail truth b d nrow n) = [] := by
  cases b <;> exact ⟨rfl, rfl⟩

theorem vector_head_sites (truth : Term → Bool) (b : Bool) (d len n : Int) :
    resultProvs (Vector_head truth b d len n) = [Prov.fresh] ∧ storeProvs (Vector_head truth b d len n) = [] := by
  cases b <;> exact ⟨rfl, rfl⟩

theorem vector_tail_sites (truth : Term → Bool) (b : Bool) (d len n : Int) :
    resultProvs (Vector_tail truth b d len n) = [Prov.fresh] ∧ storeProvs (Vector_tail truth b d len n) = [] := by
  cases b <;> exact ⟨rfl, rfl⟩

/-! ### the documented exceptions and the sites the classifier does not decide -/

/-- `group_by`: returns the receiver and stores its mark on the receiver. -/
theorem group_by_sites (truth : Term → Bool) :
    resultProvs (DataFrame_group_by truth) = [Prov.receiver] ∧ storeProvs (DataFrame_group_by truth) = [Prov.receiver] := ⟨rfl, rfl⟩

/-- `__copy__` (what `copy` delegates to): `self.__class__(self)` — the receiver's own columns under a new dict. -/
theorem dunder_copy_sites (truth : Term → Bool) :
    resultProvs (DataFrame_copy truth) = [Prov.receiver] ∧ storeProvs (DataFrame_copy truth) = [] := ⟨rfl, rfl⟩

/-- `__deepcopy__` (what `deepcopy` delegates to): `self.__class__({k: v.copy() for k, v in self.items()})` — fresh values. -/
theorem dunder_deepcopy_sites (truth : Term → Bool) :
    resultProvs (DataFrame_deepcopy truth) = [Prov.fresh] ∧ storeProvs (DataFrame_deepcopy truth) = [] := ⟨rfl, rfl⟩

/-- `aggregate`: the result is delegated to `unselect`; every store is local EXCEPT the one the classifier cannot decide. -/
theorem aggregate_sites (truth : Term → Bool) :
    (∀ p ∈ resultProvs (DataFrame_aggregate truth), p = Prov.delegate "unselect") ∧
    (∀ p ∈ storeProvs (DataFrame_aggregate truth), p.isLocal = true ∨ p = Prov.unknown) := by
  unfold DataFrame_aggregate
  dsimp only
  (repeat' split) <;> (constructor <;> decide)

/-- the undecided store target of `aggregate`, concretely: the bare name `column`, bound in the loop body to
    `function(data)` — the value a group-aware aggregation callable returns (`column[i] = default`). -/
theorem aggregate_unknown_target (truth : Term → Bool) :
    (((collect (DataFrame_aggregate truth)).filter (fun s => !s.isResult && s.prov == Prov.unknown)).map
      (fun s => match s.term with | Term.sym x => x | _ => "")) = ["column"] := by
  unfold DataFrame_aggregate
  dsimp only
  (repeat' split) <;> decide

/-- `to_strings`: every store is local; a result is fresh (the empty vector) or undecided. -/
theorem vector_to_strings_sites (truth : Term → Bool) (b : Bool) :
    (∀ p ∈ resultProvs (Vector_to_strings truth b), p = Prov.fresh ∨ p = Prov.unknown) ∧
    (∀ p ∈ storeProvs (Vector_to_strings truth b), p.isLocal = true) := by
  unfold Vector_to_strings
  dsimp only
  constructor <;> (cases b <;> (repeat' split) <;> decide)

/-- `self.__class__.fast(f(x), str)`: a constructor whose data argument is the value of a CALL of a callable held in a local. -/
def isHelperBuilt : Term → Bool
  | Term.app ".fast" [Term.app ".__class__" [Term.sym "self"], Term.app "call" [_, _], Term.sym "str"] => true
  | _ => false

/-- the undecided result of `to_strings`, concretely: in every branch that returns it, it is the constructor
    `self.__class__.fast(D, str)` whose data argument `D` is a CALL `pad(strings)` of a helper held in a local
    (`util.upad` or the identity lambda) — "a result built in a helper". -/
theorem vector_to_strings_unknown_term (truth : Term → Bool) (b : Bool) :
    ((collect (Vector_to_strings truth b)).filter (fun s => s.isResult && s.prov == Prov.unknown)).all
      (fun s => isHelperBuilt s.term) = true := by
  unfold Vector_to_strings
  dsimp only
  cases b <;> (repeat' split) <;> decide

end DI.PyEvalProv

/-
  Lemmas/PyEvalConv.lean — the evaluator of `Model/PyEvalConv.lean` on the regenerated bodies of the conversions
  (`Generated/CodeC13.lean`): `Vector.tolist`, `DataFrame.to_list_of_dicts` (the nested loop with its item assignments =
  the model's `toRecords`), `ListOfDicts._to_columns` / `to_data_frame` (= `toColumns`), `to_json`.
-/
import Model.PyEvalConv
import Lemmas.PyEvalFrame
import Lemmas.Convert
import Lemmas.ConvertFields

namespace DI.PyEvalConv

open DI DI.Py DI.Read DI.Convert DI.Gen DI.PyEval

/-! ### unfolding the evaluator -/

theorem evalExpr_sym (J : Json) (M : Methods) (σ : Store) (env : Env) (s : String) :
    evalExpr J M σ env (.sym s) = some (lookupSym env s) := by rw [evalExpr]

theorem evalArgs_nil (J : Json) (M : Methods) (σ : Store) (env : Env) : evalArgs J M σ env [] = some [] := by rw [evalArgs]

theorem evalArgs_cons (J : Json) (M : Methods) (σ : Store) (env : Env) (t : Term) (ts : List Term) (v : Val) (vs : List Val)
    (h : evalExpr J M σ env t = some v) (hs : evalArgs J M σ env ts = some vs) :
    evalArgs J M σ env (t :: ts) = some (v :: vs) := by
  rw [evalArgs, h, hs]

theorem evalExpr_found (J : Json) (M : Methods) (σ : Store) (env : Env) (g : String) (args : List Term) (v : Val)
    (h : σ.find (.app g args) = some v) : evalExpr J M σ env (.app g args) = some v := by
  rw [evalExpr.eq_def]; simp only [h]

theorem evalExpr_call (J : Json) (M : Methods) (σ : Store) (env : Env) (g : String) (args : List Term) (vs : List Val)
    (hf : σ.find (.app g args) = none) (h1 : g ≠ "ListComp") (h2 : g ≠ "DictComp")
    (h : evalArgs J M σ env args = some vs) :
    evalExpr J M σ env (.app g args) = if isMethod g vs then M g vs else prim J g vs := by
  rw [evalExpr]
  simp only [hf, h]
  · intro _ _ _ hg _; exact h1 hg
  · intro _ _ _ _ hg _; exact h2 hg

theorem evalExpr_listcomp (J : Json) (M : Methods) (σ : Store) (env : Env) (elem pat src : Term)
    (hf : σ.find (.app "ListComp" [elem, .app "in" [pat, src, .app "if" []]]) = none) :
    evalExpr J M σ env (.app "ListComp" [elem, .app "in" [pat, src, .app "if" []]]) =
      (match evalExpr J M σ env src with
        | none => none
        | some s => match itemsOf s with
          | none => none
          | some its =>
            match allSome (its.map (fun it => match bindPat env pat it with
                | none => none
                | some env' => evalExpr J M σ env' elem)) with
            | none => none
            | some vs => (collectDicts vs).map Val.dicts) := by
  rw [evalExpr]; simp only [hf]; rfl

theorem evalExpr_dictcomp (J : Json) (M : Methods) (σ : Store) (env : Env) (ke ve pat src : Term)
    (hf : σ.find (.app "DictComp" [.app "pair" [ke, ve], .app "in" [pat, src, .app "if" []]]) = none) :
    evalExpr J M σ env (.app "DictComp" [.app "pair" [ke, ve], .app "in" [pat, src, .app "if" []]]) =
      (match evalExpr J M σ env src with
        | none => none
        | some s => match itemsOf s with
          | none => none
          | some its =>
            (loop (fun d it => match bindPat env pat it with
              | none => none
              | some env' => match evalExpr J M σ env' ke, evalExpr J M σ env' ve with
                | some (.str k), some (.list l) => some (dictSet d k l)
                | _, _ => none) [] its).map Val.cols) := by
  rw [evalExpr]; simp only [hf]; rfl

theorem execStmt_for_colnames (J : Json) (M : Methods) (env : Env) (σ : Store) (pat a : Term) (body : List Term) :
    execStmt J M env σ (.app "for" [pat, .app ".colnames" [a], .app "block" body]) =
      (match (match evalExpr J M σ env (.app ".colnames" [a]) with | some v => itemsOf v | none => none) with
       | none => none
       | some its => loop (fun (st : Env × Store) it => match bindPat st.1 pat it with
          | none => none
          | some env' => execBlock J M env' st.2 body) (env, σ) its) := by
  rw [execStmt]
  · rfl
  · intro e h; simp at h

theorem execStmt_for_enumerate (J : Json) (M : Methods) (env : Env) (σ : Store) (pat e : Term) (body : List Term) :
    execStmt J M env σ (.app "for" [pat, .app "enumerate" [e], .app "block" body]) =
      (match (match evalExpr J M σ env e with | some v => (itemsOf v).map enumerate | none => none) with
       | none => none
       | some its => loop (fun (st : Env × Store) it => match bindPat st.1 pat it with
          | none => none
          | some env' => execBlock J M env' st.2 body) (env, σ) its) := by
  rw [execStmt]; rfl

theorem execStmt_store (J : Json) (M : Methods) (env : Env) (σ : Store) (obj i k e : Term) :
    execStmt J M env σ (.app "store" [.app "getitem" [.app "getitem" [obj, i], k], e]) =
    (match evalExpr J M σ env e, evalExpr J M σ env obj, evalExpr J M σ env i, evalExpr J M σ env k with
    | some (.cell v), some (.dicts l), some (.int i), some (.str k) =>
      (match DI.PyEval.normIdx l.length i with
       | none => none
       | some j => some (env, σ.set obj (.dicts (l.modify j (fun r => dictSet r k v)))))
    | _, _, _, _ => none) := by
  rw [execStmt]; rfl

theorem execStmt_setdefault (J : Json) (M : Methods) (env : Env) (σ : Store) (d : String) (key val : Term) :
    execStmt J M env σ (.app ".setdefault" [.sym d, key, val]) =
    (match env.get? d, evalExpr J M σ env key, evalExpr J M σ env val with
    | some (.kwargs kw), some (.name k), some v =>
      (match toOpt v with
       | none => none
       | some o => some ((d, .kwargs (kwSetDefault kw k o)) :: env, σ))
    | _, _, _ => none) := by
  rw [execStmt]; rfl

theorem execBlock_nil (J : Json) (M : Methods) (env : Env) (σ : Store) : execBlock J M env σ [] = some (env, σ) := by
  rw [execBlock]

theorem execBlock_cons (J : Json) (M : Methods) (env env' : Env) (σ σ' : Store) (s : Term) (ss : List Term)
    (h : execStmt J M env σ s = some (env', σ')) : execBlock J M env σ (s :: ss) = execBlock J M env' σ' ss := by
  rw [execBlock, h]

/-! ### basic facts -/

theorem allSome_map {α β : Type} (f : α → Option β) (g : α → β) (l : List α) (h : ∀ x ∈ l, f x = some (g x)) :
    allSome (l.map f) = some (l.map g) := by
  induction l with
  | nil => rfl
  | cons a t ih =>
    have ha := h a (List.mem_cons_self)
    have ht := ih (fun x hx => h x (List.mem_cons_of_mem _ hx))
    simp only [List.map_cons, ha, allSome, ht]

theorem collectDicts_map {α : Type} (f : α → Record) (l : List α) :
    collectDicts (l.map (fun x => Val.dict (f x))) = some (l.map f) := by
  induction l with
  | nil => rfl
  | cons a t ih => simp only [List.map_cons, collectDicts, ih]

theorem get?_cons_self (env : Env) (x : String) (v : Val) : Env.get? ((x, v) :: env) x = some v := by
  simp [Env.get?]

theorem get?_cons_ne (env : Env) (x y : String) (v : Val) (h : y ≠ x) : Env.get? ((y, v) :: env) x = Env.get? env x := by
  have : (y == x) = false := by simpa using h
  simp [Env.get?, this]

/-- a bound, non-constant name. -/
theorem sym_eval (J : Json) (M : Methods) (σ : Store) (env : Env) (s : String) (v : Val)
    (h1 : s ≠ "True") (h2 : s ≠ "False") (h3 : s ≠ "None") (h4 : s ≠ "{}") (h : env.get? s = some v) :
    evalExpr J M σ env (.sym s) = some v := by
  rw [evalExpr_sym]
  unfold lookupSym
  split <;> simp_all

theorem evalArgs1 {J : Json} {M : Methods} {σ : Store} {env : Env} {a : Term} {va : Val}
    (ha : evalExpr J M σ env a = some va) : evalArgs J M σ env [a] = some [va] :=
  evalArgs_cons J M σ env a [] va [] ha (evalArgs_nil J M σ env)

theorem evalArgs2 {J : Json} {M : Methods} {σ : Store} {env : Env} {a b : Term} {va vb : Val}
    (ha : evalExpr J M σ env a = some va) (hb : evalExpr J M σ env b = some vb) :
    evalArgs J M σ env [a, b] = some [va, vb] :=
  evalArgs_cons J M σ env a [b] va [vb] ha (evalArgs1 hb)

theorem evalArgs3 {J : Json} {M : Methods} {σ : Store} {env : Env} {a b c : Term} {va vb vc : Val}
    (ha : evalExpr J M σ env a = some va) (hb : evalExpr J M σ env b = some vb) (hc : evalExpr J M σ env c = some vc) :
    evalArgs J M σ env [a, b, c] = some [va, vb, vc] :=
  evalArgs_cons J M σ env a [b, c] va [vb, vc] ha (evalArgs2 hb hc)

/-! ### the store holds only the objects created by list comprehensions -/

def LCKeys (σ : Store) : Prop := ∀ p ∈ σ, ∃ a, p.1 = Term.app "ListComp" a

theorem LCKeys.nil : LCKeys [] := by intro p hp; cases hp

theorem find_none_of_LCKeys {σ : Store} (h : LCKeys σ) {g : String} (args : List Term) (hg : g ≠ "ListComp") :
    σ.find (.app g args) = none := by
  induction σ with
  | nil => rfl
  | cons p r ih =>
    obtain ⟨k, v⟩ := p
    obtain ⟨a, ha⟩ := h (k, v) List.mem_cons_self
    simp only at ha
    subst ha
    have hne : ¬ (Term.app "ListComp" a = Term.app g args) := by
      intro e
      exact hg (Term.app.inj e).1.symm
    simp only [Store.find, hne, if_false]
    exact ih (fun p hp => h p (List.mem_cons_of_mem _ hp))

theorem find_cons_self (k : Term) (v : Val) (σ : Store) : Store.find ((k, v) :: σ) k = some v := by
  simp [Store.find]

/-- a primitive call under a store of comprehension objects. -/
theorem call_prim {J : Json} {M : Methods} {σ : Store} {env : Env} {g : String} {args : List Term} {vs : List Val}
    (hσ : LCKeys σ) (h1 : g ≠ "ListComp") (h2 : g ≠ "DictComp") (hm : isMethod g vs = false)
    (h : evalArgs J M σ env args = some vs) : evalExpr J M σ env (.app g args) = prim J g vs := by
  rw [evalExpr_call J M σ env g args vs (find_none_of_LCKeys hσ args h1) h1 h2 h, hm]; rfl

theorem call_method {J : Json} {M : Methods} {σ : Store} {env : Env} {g : String} {args : List Term} {vs : List Val}
    (hσ : LCKeys σ) (h1 : g ≠ "ListComp") (h2 : g ≠ "DictComp") (hm : isMethod g vs = true)
    (h : evalArgs J M σ env args = some vs) : evalExpr J M σ env (.app g args) = M g vs := by
  rw [evalExpr_call J M σ env g args vs (find_none_of_LCKeys hσ args h1) h1 h2 h, hm]; rfl

theorem self_eval {J : Json} {M : Methods} {σ : Store} {env : Env} {v : Val} (h : env.get? "self" = some v) :
    evalExpr J M σ env (.sym "self") = some v :=
  sym_eval J M σ env "self" v (by decide) (by decide) (by decide) (by decide) h

/-! ### `Vector.tolist` -/

theorem zipWith_where (c : List Cell) :
    List.zipWith (fun b x => if b then (none : Cell) else x) (c.map (·.isNone)) c = c := by
  induction c with
  | nil => rfl
  | cons x t ih =>
    simp only [List.map_cons, List.zipWith_cons_cons, ih]
    cases x <;> rfl

/-- **tolist**: `np.where(self.is_na(), None, self).tolist()` of a column = its cells as Python values (the missing value
    ↦ None: the same `none`). -/
theorem tolist13_run (J : Json) (truth : Term → Bool) (c : List Cell) :
    runRet J M0 [("self", .col c)] (Vector_tolist13 truth) = some (.list c) := by
  unfold Vector_tolist13
  simp only [runRet]
  rw [execBlock_nil]
  simp only
  have hs : evalExpr J M0 [] [("self", Val.col c)] (.sym "self") = some (.col c) := self_eval rfl
  have hna : evalExpr J M0 [] [("self", Val.col c)] (.app ".is_na" [.sym "self"]) = some (.mask (c.map (·.isNone))) := by
    rw [call_prim LCKeys.nil (by decide) (by decide) rfl (evalArgs1 hs)]; rfl
  have hw : evalExpr J M0 [] [("self", Val.col c)] (.app "np.where" [.app ".is_na" [.sym "self"], .sym "None", .sym "self"])
      = some (.arr c) := by
    rw [call_prim LCKeys.nil (by decide) (by decide) rfl (evalArgs3 hna (evalExpr_sym J M0 [] _ "None") hs)]
    show (if (c.map (·.isNone)).length = c.length then _ else _) = _
    rw [if_pos (by simp), zipWith_where]
  rw [call_prim LCKeys.nil (by decide) (by decide) rfl (evalArgs1 hw)]
  rfl

theorem M1_tolist (J : Json) (c : List Cell) : M1 J ".tolist" [.col c] = some (.list c) :=
  tolist13_run J (truthOf J M0 [("self", .col c)]) c

/-! ### `DataFrame.to_list_of_dicts`: the terms -/

/-- `data = [{} for i in range(self.nrow)]`, inlined at every use. -/
def dataT : Term :=
  .app "ListComp" [.sym "{}", .app "in" [.sym "i", .app "range" [.app ".nrow" [.sym "self"]], .app "if" []]]

/-- `data[i][colname] = value`. -/
def storeT : Term := .app "store" [.app "getitem" [.app "getitem" [dataT, .sym "i"], .sym "colname"], .sym "value"]

/-- `for i, value in enumerate(self[colname].tolist()): data[i][colname] = value`. -/
def innerT : Term :=
  .app "for" [.app "tuple" [.sym "i", .sym "value"],
    .app "enumerate" [.app ".tolist" [.app "getitem" [.sym "self", .sym "colname"]]], .app "block" [storeT]]

/-- `for colname in self.colnames: …`. -/
def outerT : Term := .app "for" [.sym "colname", .app ".colnames" [.sym "self"], .app "block" [innerT]]

theorem to_list_of_dicts_nf (truth : Term → Bool) :
    DataFrame_to_list_of_dicts truth = Out.ret [outerT] (.app "ListOfDicts" [dataT]) := rfl

/-- the contents of `data`: `σ` is still empty and `data` is the fresh list of empty dicts, or `σ` records `l`. -/
def Holds (self : Frame) (σ : Store) (l : List Record) : Prop :=
  (σ = [] ∧ l = (List.range (nrow self)).map (fun _ => [])) ∨ σ = [(dataT, .dicts l)]

theorem Holds.lc {self : Frame} {σ : Store} {l : List Record} (h : Holds self σ l) : LCKeys σ := by
  rcases h with ⟨rfl, _⟩ | rfl
  · exact LCKeys.nil
  · intro p hp
    simp only [List.mem_singleton] at hp
    subst hp
    exact ⟨_, rfl⟩

theorem Holds.set {self : Frame} {σ : Store} {l : List Record} (h : Holds self σ l) (v : Val) :
    σ.set dataT v = [(dataT, v)] := by
  rcases h with ⟨rfl, _⟩ | rfl
  · rfl
  · simp [Store.set]

theorem eval_nrow {J : Json} {M : Methods} {σ : Store} {env : Env} {self : Frame} (hσ : LCKeys σ)
    (hself : env.get? "self" = some (.frame self)) :
    evalExpr J M σ env (.app ".nrow" [.sym "self"]) = some (.int (nrow self : Nat)) := by
  rw [call_prim hσ (by decide) (by decide) rfl (evalArgs1 (self_eval hself))]; rfl

theorem eval_data_nil {J : Json} {M : Methods} {env : Env} {self : Frame}
    (hself : env.get? "self" = some (.frame self)) :
    evalExpr J M [] env dataT = some (.dicts ((List.range (nrow self)).map (fun _ => []))) := by
  unfold dataT
  rw [evalExpr_listcomp J M [] env _ _ _ rfl]
  have hr : evalExpr J M [] env (.app "range" [.app ".nrow" [.sym "self"]]) = some (.range (nrow self)) := by
    rw [call_prim LCKeys.nil (by decide) (by decide) rfl (evalArgs1 (eval_nrow LCKeys.nil hself))]
    show some (Val.range ((nrow self : Nat) : Int).toNat) = _
    simp
  rw [hr]
  simp only [itemsOf, List.map_map]
  rw [allSome_map _ (fun _ => Val.dict []) _ (by
    intro k _
    simp only [Function.comp, bindPat]
    rw [evalExpr_sym]; rfl)]
  simp only
  rw [collectDicts_map (fun _ => ([] : Record))]
  rfl

theorem eval_data {J : Json} {M : Methods} {σ : Store} {env : Env} {self : Frame} {l : List Record}
    (hself : env.get? "self" = some (.frame self)) (h : Holds self σ l) :
    evalExpr J M σ env dataT = some (.dicts l) := by
  rcases h with ⟨rfl, rfl⟩ | rfl
  · exact eval_data_nil hself
  · exact evalExpr_found J M _ env _ _ _ (find_cons_self _ _ _)

/-! ### the item assignment and the inner loop -/

/-- the inner loop's effect on `data`: row `j + t` takes `cs[t]` under key `k`. -/
def writeCol : List Record → Nat → String → List Cell → List Record
  | l, _, _, [] => l
  | l, j, k, c :: cs => writeCol (l.modify j (fun r => dictSet r k c)) (j + 1) k cs

/-- `enumerate(cells)` from position `j`. -/
def itemsFrom (j : Nat) (cs : List Cell) : List Val :=
  ((cs.map Val.cell).zipIdx j).map (fun p => Val.pair (.int (p.2 : Nat)) p.1)

theorem itemsFrom_cons (j : Nat) (c : Cell) (cs : List Cell) :
    itemsFrom j (c :: cs) = Val.pair (.int (j : Nat)) (.cell c) :: itemsFrom (j + 1) cs := by
  simp [itemsFrom, List.zipIdx_cons]

theorem normIdx_nat {n j : Nat} (h : j < n) : normIdx n (j : Int) = some j := by
  rw [normIdx_of_inRange (inRange_ofNat h), wrapIdx_ofNat]

theorem store_step (J : Json) (M : Methods) (self : Frame) (env : Env) (σ : Store) (l : List Record) (j : Nat)
    (k : String) (v : Cell)
    (hi : env.get? "i" = some (.int (j : Nat))) (hk : env.get? "colname" = some (.str k))
    (hv : env.get? "value" = some (.cell v)) (hself : env.get? "self" = some (.frame self))
    (hH : Holds self σ l) (hj : j < l.length) :
    execStmt J M env σ storeT = some (env, [(dataT, .dicts (l.modify j (fun r => dictSet r k v)))]) := by
  unfold storeT
  rw [execStmt_store,
    sym_eval J M σ env "value" _ (by decide) (by decide) (by decide) (by decide) hv,
    eval_data hself hH,
    sym_eval J M σ env "i" _ (by decide) (by decide) (by decide) (by decide) hi,
    sym_eval J M σ env "colname" _ (by decide) (by decide) (by decide) (by decide) hk]
  simp only [normIdx_nat hj, hH.set]

/-- one iteration of the inner loop. -/
def stepI (J : Json) (M : Methods) : Env × Store → Val → Option (Env × Store) :=
  fun st it => match bindPat st.1 (.app "tuple" [.sym "i", .sym "value"]) it with
    | none => none
    | some env' => execBlock J M env' st.2 [storeT]

theorem inner_loop (J : Json) (M : Methods) (self : Frame) (k : String) :
    ∀ (cs : List Cell) (j : Nat) (env : Env) (σ : Store) (l : List Record),
      env.get? "self" = some (.frame self) → env.get? "colname" = some (.str k) → Holds self σ l →
      j + cs.length ≤ l.length →
      ∃ env' σ', loop (stepI J M) (env, σ) (itemsFrom j cs) = some (env', σ') ∧
        env'.get? "self" = some (.frame self) ∧ Holds self σ' (writeCol l j k cs) := by
  intro cs
  induction cs with
  | nil =>
    intro j env σ l hself _ hH _
    exact ⟨env, σ, rfl, hself, hH⟩
  | cons c cs ih =>
    intro j env σ l hself hk hH hlen
    simp only [List.length_cons] at hlen
    rw [itemsFrom_cons]
    let env1 : Env := ("value", .cell c) :: ("i", .int (j : Nat)) :: env
    have h1self : env1.get? "self" = some (.frame self) := by
      show Env.get? (("value", _) :: ("i", _) :: env) "self" = _
      rw [get?_cons_ne _ _ _ _ (by decide), get?_cons_ne _ _ _ _ (by decide)]; exact hself
    have h1k : env1.get? "colname" = some (.str k) := by
      show Env.get? (("value", _) :: ("i", _) :: env) "colname" = _
      rw [get?_cons_ne _ _ _ _ (by decide), get?_cons_ne _ _ _ _ (by decide)]; exact hk
    have h1i : env1.get? "i" = some (.int (j : Nat)) := by
      show Env.get? (("value", _) :: ("i", _) :: env) "i" = _
      rw [get?_cons_ne _ _ _ _ (by decide), get?_cons_self]
    have h1v : env1.get? "value" = some (.cell c) := get?_cons_self _ _ _
    have hst := store_step J M self env1 σ l j k c h1i h1k h1v h1self hH (by omega)
    have hstep : stepI J M (env, σ) (Val.pair (.int (j : Nat)) (.cell c)) =
        some (env1, [(dataT, .dicts (l.modify j (fun r => dictSet r k c)))]) := by
      show (match bindPat env (.app "tuple" [.sym "i", .sym "value"]) (Val.pair (.int (j : Nat)) (.cell c)) with
        | none => none
        | some env' => execBlock J M env' σ [storeT]) = _
      show execBlock J M env1 σ [storeT] = _
      rw [execBlock_cons J M env1 env1 σ _ storeT [] hst, execBlock_nil]
    obtain ⟨env', σ', hl, hs', hH'⟩ := ih (j + 1) env1 _ (l.modify j (fun r => dictSet r k c)) h1self h1k
      (Or.inr rfl) (by rw [List.length_modify]; omega)
    refine ⟨env', σ', ?_, hs', hH'⟩
    rw [loop, hstep]
    exact hl

/-! ### what the inner loop writes -/

theorem writeCol_length (l : List Record) (j : Nat) (k : String) (cs : List Cell) :
    (writeCol l j k cs).length = l.length := by
  induction cs generalizing l j with
  | nil => rfl
  | cons c cs ih => rw [writeCol, ih, List.length_modify]

theorem writeCol_get_out (l : List Record) (j : Nat) (k : String) (cs : List Cell) (i : Nat)
    (h : i < j ∨ j + cs.length ≤ i) : (writeCol l j k cs)[i]? = l[i]? := by
  induction cs generalizing l j with
  | nil => rfl
  | cons c cs ih =>
    simp only [List.length_cons] at h
    rw [writeCol, ih _ _ (by omega), List.getElem?_modify]
    have : ¬ j = i := by omega
    simp [this]

theorem writeCol_get_in (l : List Record) (j : Nat) (k : String) (cs : List Cell) (i : Nat) (c : Cell)
    (hji : j ≤ i) (h : cs[i - j]? = some c) : (writeCol l j k cs)[i]? = (l[i]?).map (fun r => dictSet r k c) := by
  induction cs generalizing l j with
  | nil => simp at h
  | cons c0 cs ih =>
    rw [writeCol]
    by_cases hij : i = j
    · subst hij
      simp only [Nat.sub_self, List.getElem?_cons_zero, Option.some.injEq] at h
      subst h
      rw [writeCol_get_out _ _ _ _ _ (Or.inl (by omega)), List.getElem?_modify]
      simp
    · have e : i - j = (i - (j + 1)) + 1 := by omega
      rw [e, List.getElem?_cons_succ] at h
      rw [ih _ (j + 1) (by omega) h, List.getElem?_modify]
      have : ¬ j = i := fun e => hij e.symm
      simp [this]

theorem dictSet_new {β : Type} (d : List (String × β)) (k : String) (v : β) (h : k ∉ d.map (·.1)) :
    dictSet d k v = d ++ [(k, v)] := by
  unfold dictSet
  have : d.any (fun q => q.1 == k) = false := by
    rw [List.any_eq_false]
    intro q hq he
    exact h (List.mem_map.mpr ⟨q, hq, by simpa using he⟩)
  rw [this]; rfl

theorem toRecords_get (cols : List (Col Key)) (n i : Nat) :
    (toRecords cols n)[i]? = if i < n then some (cols.map (fun c => (c.1, (c.2[i]?).join))) else none := by
  unfold toRecords
  by_cases h : i < n
  · simp [h]
  · simp [h]

/-- one column written into the records of the columns before it = the records of one more column. -/
theorem writeCol_toRecords (pre : List (Col Key)) (n : Nat) (k : String) (cs : List Cell)
    (hk : k ∉ pre.map (·.1)) (hlen : cs.length = n) :
    writeCol (toRecords pre n) 0 k cs = toRecords (pre ++ [(k, cs)]) n := by
  apply List.ext_getElem?
  intro i
  rw [toRecords_get]
  by_cases hi : i < n
  · have hc : cs[i - 0]? = some cs[i] := by simp [List.getElem?_eq_getElem (show i < cs.length by omega)]
    rw [writeCol_get_in _ 0 k cs i _ (Nat.zero_le _) hc, toRecords_get, if_pos hi, if_pos hi]
    simp only [Option.map_some, Option.some.injEq, List.map_append, List.map_cons, List.map_nil]
    rw [dictSet_new _ _ _ (by simpa [List.map_map, Function.comp] using hk)]
    simp [List.getElem?_eq_getElem (show i < cs.length by omega)]
  · rw [if_neg hi, writeCol_get_out _ _ _ _ _ (Or.inr (by omega)), toRecords_get, if_neg hi]

/-! ### the inner `for`, the outer loop -/

theorem inner_for (J : Json) (M : Methods) (self : Frame) (k : String) (cs : List Cell)
    (hM : M ".tolist" [.col cs] = some (.list cs))
    (env : Env) (σ : Store) (l : List Record)
    (hself : env.get? "self" = some (.frame self)) (hk : env.get? "colname" = some (.str k))
    (hcol : colOf? self k = some cs) (hH : Holds self σ l) (hlen : cs.length ≤ l.length) :
    ∃ env' σ', execStmt J M env σ innerT = some (env', σ') ∧ env'.get? "self" = some (.frame self) ∧
      Holds self σ' (writeCol l 0 k cs) := by
  have hg : evalExpr J M σ env (.app "getitem" [.sym "self", .sym "colname"]) = some (.col cs) := by
    rw [call_prim hH.lc (by decide) (by decide) rfl (evalArgs2 (self_eval hself)
      (sym_eval J M σ env "colname" _ (by decide) (by decide) (by decide) (by decide) hk))]
    show (colOf? self k).map Val.col = _
    rw [hcol]; rfl
  have ht : evalExpr J M σ env (.app ".tolist" [.app "getitem" [.sym "self", .sym "colname"]]) = some (.list cs) := by
    rw [call_method hH.lc (by decide) (by decide) rfl (evalArgs1 hg), hM]
  obtain ⟨env', σ', hl, hs', hH'⟩ := inner_loop J M self k cs 0 env σ l hself hk hH (by omega)
  refine ⟨env', σ', ?_, hs', hH'⟩
  unfold innerT
  rw [execStmt_for_enumerate, ht]
  exact hl

/-- one iteration of the outer loop. -/
def stepO (J : Json) (M : Methods) : Env × Store → Val → Option (Env × Store) :=
  fun st it => match bindPat st.1 (.sym "colname") it with
    | none => none
    | some env' => execBlock J M env' st.2 [innerT]

theorem outer_loop (J : Json) (M : Methods) (self : Frame) (hM : ∀ cs, M ".tolist" [.col cs] = some (.list cs))
    (hnd : (names self).Nodup) (hrect : Rect self) :
    ∀ (rest pre : Frame) (env : Env) (σ : Store), self = pre ++ rest →
      env.get? "self" = some (.frame self) → Holds self σ (toRecords pre (nrow self)) →
      ∃ env' σ', loop (stepO J M) (env, σ) ((names rest).map Val.str) = some (env', σ') ∧
        env'.get? "self" = some (.frame self) ∧ Holds self σ' (toRecords (pre ++ rest) (nrow self)) := by
  intro rest
  induction rest with
  | nil =>
    intro pre env σ _ hself hH
    exact ⟨env, σ, rfl, hself, by simpa using hH⟩
  | cons p rest ih =>
    intro pre env σ hsplit hself hH
    obtain ⟨k, cs⟩ := p
    have hmem : (k, cs) ∈ self := by rw [hsplit]; simp
    have hcol : colOf? self k = some cs := colOf?_of_mem hnd hmem
    have hlen : cs.length = nrow self := hrect (k, cs) hmem
    have hk : k ∉ pre.map (·.1) := by
      have : (names self) = pre.map (·.1) ++ k :: rest.map (·.1) := by rw [hsplit]; simp [names]
      rw [this] at hnd
      have := (List.nodup_append.mp hnd).2.2
      intro hin
      exact this k hin k (by simp) rfl
    let env1 : Env := ("colname", .str k) :: env
    have h1self : env1.get? "self" = some (.frame self) := by
      show Env.get? (("colname", _) :: env) "self" = _
      rw [get?_cons_ne _ _ _ _ (by decide)]; exact hself
    have h1k : env1.get? "colname" = some (.str k) := get?_cons_self _ _ _
    have hl0 : (toRecords pre (nrow self)).length = nrow self := by simp [toRecords]
    obtain ⟨env2, σ2, hin, h2self, h2H⟩ := inner_for J M self k cs (hM cs) env1 σ _ h1self h1k hcol hH (by omega)
    rw [writeCol_toRecords pre (nrow self) k cs hk hlen] at h2H
    obtain ⟨env', σ', hl, hs', hH'⟩ := ih (pre ++ [(k, cs)]) env2 σ2 (by rw [hsplit]; simp) h2self h2H
    refine ⟨env', σ', ?_, hs', by simpa using hH'⟩
    have hstep : stepO J M (env, σ) (Val.str k) = some (env2, σ2) := by
      show execBlock J M env1 σ [innerT] = _
      rw [execBlock_cons J M env1 env2 σ σ2 innerT [] hin, execBlock_nil]
    show loop (stepO J M) (env, σ) (Val.str k :: (names rest).map Val.str) = _
    rw [loop, hstep]
    exact hl


/-- **to_list_of_dicts**: the regenerated body, run on a frame with distinct column names whose columns have one length,
    returns the model's `toRecords`: one record per row, the column names as keys in column order, the cell as value
    (missing ↦ None). -/
theorem to_list_of_dicts_run (J : Json) (M : Methods) (truth : Term → Bool) (self : Frame) (env : Env)
    (hM : ∀ cs, M ".tolist" [.col cs] = some (.list cs))
    (hself : env.get? "self" = some (.frame self)) (hnd : (names self).Nodup) (hrect : Rect self) :
    runRet J M env (DataFrame_to_list_of_dicts truth) = some (.dicts (toRecords self (nrow self))) := by
  rw [to_list_of_dicts_nf]
  show (match execBlock J M env [] [outerT] with
    | some (env', σ) => evalExpr J M σ env' (.app "ListOfDicts" [dataT])
    | none => none) = _
  have hcn : evalExpr J M [] env (.app ".colnames" [.sym "self"]) = some (.strs (names self)) := by
    rw [call_prim LCKeys.nil (by decide) (by decide) rfl (evalArgs1 (self_eval hself))]; rfl
  obtain ⟨env', σ', hl, hs', hH'⟩ := outer_loop J M self hM hnd hrect self [] env [] rfl hself (Or.inl ⟨rfl, rfl⟩)
  have hout : execStmt J M env [] outerT = some (env', σ') := by
    unfold outerT
    rw [execStmt_for_colnames, hcn]
    exact hl
  rw [execBlock_cons J M env env' [] σ' outerT [] hout, execBlock_nil]
  simp only [List.nil_append] at hH'
  show evalExpr J M σ' env' (.app "ListOfDicts" [dataT]) = _
  rw [call_prim hH'.lc (by decide) (by decide) rfl (evalArgs1 (eval_data hs' hH'))]
  rfl
/-! ### `ListOfDicts._to_columns` / `to_data_frame` -/

theorem recGet_none (r : Record) (k : String) : recGet r k none = (lookup r k).join := by
  unfold recGet
  cases lookup r k <;> rfl

theorem pluck_eq (recs : List Record) (k : String) : recs.map (fun r => recGet r k none) = pluck recs k := by
  unfold pluck
  exact List.map_congr_left (fun r _ => recGet_none r k)

/-- one iteration of the dict comprehension `{k: self.pluck(k) for k in self[0]}`. -/
def stepC (J : Json) (M : Methods) (σ : Store) (env : Env) : List (String × List Cell) → Val → Option (List (String × List Cell)) :=
  fun d it => match bindPat env (.sym "k") it with
    | none => none
    | some env' => match evalExpr J M σ env' (.sym "k"), evalExpr J M σ env' (.app ".pluck" [.sym "self", .sym "k"]) with
      | some (.str k), some (.list l) => some (dictSet d k l)
      | _, _ => none

theorem stepC_eq (J : Json) (M : Methods) (env : Env) (recs : List Record) (d : List (String × List Cell)) (k : String)
    (hself : env.get? "self" = some (.dicts recs)) :
    stepC J M [] env d (.str k) = some (dictSet d k (pluck recs k)) := by
  have hk : evalExpr J M [] (("k", Val.str k) :: env) (.sym "k") = some (.str k) :=
    sym_eval J M [] _ "k" _ (by decide) (by decide) (by decide) (by decide) (get?_cons_self _ _ _)
  have hs : evalExpr J M [] (("k", Val.str k) :: env) (.sym "self") = some (.dicts recs) :=
    self_eval (by rw [get?_cons_ne _ _ _ _ (by decide)]; exact hself)
  have hp : evalExpr J M [] (("k", Val.str k) :: env) (.app ".pluck" [.sym "self", .sym "k"]) =
      some (.list (pluck recs k)) := by
    rw [call_prim LCKeys.nil (by decide) (by decide) rfl (evalArgs2 hs hk)]
    show some (Val.list (recs.map (fun r => recGet r k none))) = _
    rw [pluck_eq]
  show (match evalExpr J M [] (("k", Val.str k) :: env) (.sym "k"),
      evalExpr J M [] (("k", Val.str k) :: env) (.app ".pluck" [.sym "self", .sym "k"]) with
    | some (.str k), some (.list l) => some (dictSet d k l)
    | _, _ => none) = _
  rw [hk, hp]

theorem dictcomp_loop (J : Json) (M : Methods) (env : Env) (recs : List Record)
    (hself : env.get? "self" = some (.dicts recs)) :
    ∀ (ks : List String) (d : List (String × List Cell)), (d.map (·.1) ++ ks).Nodup →
      loop (stepC J M [] env) d (ks.map Val.str) = some (d ++ ks.map (fun k => (k, pluck recs k))) := by
  intro ks
  induction ks with
  | nil => intro d _; simp [loop]
  | cons k ks ih =>
    intro d hnd
    have hk : k ∉ d.map (·.1) := by
      have := (List.nodup_append.mp hnd).2.2
      intro hin
      exact this k hin k (by simp) rfl
    simp only [List.map_cons]
    rw [loop, stepC_eq J M env recs d k hself, dictSet_new d k _ hk]
    simp only
    rw [ih (d ++ [(k, pluck recs k)]) (by simpa [List.append_assoc] using hnd)]
    simp

/-- what `_to_columns` returns: the empty dict literal for the empty list, else the dict of the model's `toColumns`. -/
def colsVal : List Record → Val
  | [] => .dict []
  | r :: rest => .cols (toColumns (r :: rest))

theorem to_columns_nf (truth : Term → Bool) :
    ListOfDicts_to_columns truth = Out.ret [] (if truth (.sym "self")
      then .app "DictComp" [.app "pair" [.sym "k", .app ".pluck" [.sym "self", .sym "k"]],
             .app "in" [.sym "k", .app "getitem" [.sym "self", .int 0], .app "if" []]]
      else .sym "{}") := rfl

/-- **_to_columns**: for a non-empty list the keys of the FIRST item, in its order, each plucked over all items (the
    model's `toColumns`); for the empty list the empty dict. -/
theorem to_columns_run (J : Json) (M : Methods) (truth : Term → Bool) (env : Env) (recs : List Record)
    (hself : env.get? "self" = some (.dicts recs)) (htruth : truth (.sym "self") = !recs.isEmpty)
    (hnd : ∀ r ∈ recs.head?, (r.map (·.1)).Nodup) :
    runRet J M env (ListOfDicts_to_columns truth) = some (colsVal recs) := by
  rw [to_columns_nf, htruth]
  cases recs with
  | nil =>
    show evalExpr J M [] env (.sym "{}") = _
    rw [evalExpr_sym]; rfl
  | cons r rest =>
    show evalExpr J M [] env (.app "DictComp" _) = _
    rw [evalExpr_dictcomp J M [] env _ _ _ _ rfl]
    have hg : evalExpr J M [] env (.app "getitem" [.sym "self", .int 0]) = some (.dict r) := by
      have h0 : evalExpr J M [] env (.int 0) = some (.int 0) := by rw [evalExpr]
      rw [call_prim LCKeys.nil (by decide) (by decide) rfl (evalArgs2 (self_eval hself) h0)]
      show (match DI.PyEval.normIdx (r :: rest).length ((0 : Nat) : Int) with
        | none => none
        | some k => ((r :: rest)[k]?).map Val.dict) = _
      rw [normIdx_nat (by simp)]
      rfl
    rw [hg]
    simp only [itemsOf]
    have hl := dictcomp_loop J M env (r :: rest) hself (r.map (·.1)) [] (by simpa using hnd r (by simp))
    have hm : r.map (fun p => Val.str p.1) = (r.map (·.1)).map Val.str := by simp [List.map_map]
    rw [hm]
    show (loop (stepC J M [] env) [] ((r.map (·.1)).map Val.str)).map Val.cols = _
    rw [hl]
    simp [colsVal, toColumns, List.map_map, Function.comp]

theorem pluck_length (recs : List Record) (k : String) : (pluck recs k).length = recs.length := by simp [pluck]

theorem dataframe_prim (J : Json) (d : List (String × List Cell)) (n : Nat) (h : ∀ q ∈ d, q.2.length = n) :
    prim J "DataFrame" [.kwstar (.cols d)] = some (.frame d) := by
  cases d with
  | nil => rfl
  | cons p t =>
    show (if t.all (fun q => q.2.length == p.2.length) then some (Val.frame (p :: t)) else none) = _
    rw [if_pos]
    rw [List.all_eq_true]
    intro q hq
    rw [h q (List.mem_cons_of_mem _ hq), h p List.mem_cons_self]
    simp

theorem toColumns_lengths (recs : List Record) : ∀ q ∈ toColumns recs, q.2.length = recs.length := by
  intro q hq
  cases recs with
  | nil => cases hq
  | cons r rest =>
    simp only [toColumns, List.mem_map] at hq
    obtain ⟨p, _, rfl⟩ := hq
    exact pluck_length _ _

/-- **to_data_frame**: `DataFrame(**self._to_columns())` = the frame of the model's `toColumns`. -/
theorem to_data_frame_run (J : Json) (M : Methods) (truth : Term → Bool) (env : Env) (recs : List Record)
    (hself : env.get? "self" = some (.dicts recs))
    (hM : M "._to_columns" [.dicts recs] = some (colsVal recs)) :
    runRet J M env (ListOfDicts_to_data_frame truth) = some (.frame (toColumns recs)) := by
  show evalExpr J M [] env (.app "DataFrame" [.app "=**" [.app "._to_columns" [.sym "self"]]]) = _
  have hc : evalExpr J M [] env (.app "._to_columns" [.sym "self"]) = some (colsVal recs) := by
    rw [call_method LCKeys.nil (by decide) (by decide) rfl (evalArgs1 (self_eval hself)), hM]
  have hk : evalExpr J M [] env (.app "=**" [.app "._to_columns" [.sym "self"]]) = some (.kwstar (colsVal recs)) := by
    rw [call_prim LCKeys.nil (by decide) (by decide) rfl (evalArgs1 hc)]; rfl
  rw [call_prim LCKeys.nil (by decide) (by decide) rfl (evalArgs1 hk)]
  cases recs with
  | nil => rfl
  | cons r rest => exact dataframe_prim J _ _ (toColumns_lengths (r :: rest))

/-! ### the method table -/

theorem truthOf_self_dicts (J : Json) (M : Methods) (env : Env) (recs : List Record)
    (hself : env.get? "self" = some (.dicts recs)) : truthOf J M env (.sym "self") = !recs.isEmpty := by
  unfold truthOf
  rw [self_eval hself]; rfl

theorem M1_to_columns (J : Json) (recs : List Record) (hnd : ∀ r ∈ recs.head?, (r.map (·.1)).Nodup) :
    M1 J "._to_columns" [.dicts recs] = some (colsVal recs) :=
  to_columns_run J M0 _ [("self", .dicts recs)] recs rfl (truthOf_self_dicts J M0 _ recs rfl) hnd

/-- **records.to_data_frame()**, the whole chain run from the regenerated bodies. -/
theorem toDataFrame_run (J : Json) (recs : List Record) (hnd : ∀ r ∈ recs.head?, (r.map (·.1)).Nodup) :
    toDataFrameRun J recs = some (.frame (toColumns recs)) :=
  to_data_frame_run J (M1 J) (truthOf J (M1 J) [("self", .dicts recs)]) [("self", .dicts recs)] recs rfl
    (M1_to_columns J recs hnd)

/-- **frame.to_list_of_dicts()**, the whole chain (`tolist` included) run from the regenerated bodies. -/
theorem toListOfDicts_run (J : Json) (self : Frame) (hnd : (names self).Nodup) (hrect : Rect self) :
    toListOfDictsRun J self = some (.dicts (toRecords self (nrow self))) :=
  to_list_of_dicts_run J (M1 J) (truthOf J (M1 J) [("self", .frame self)]) self [("self", .frame self)]
    (M1_tolist J) rfl hnd hrect

theorem toRecords_head_nodup (self : Frame) (n : Nat) (hnd : (names self).Nodup) :
    ∀ r ∈ (toRecords self n).head?, (r.map (·.1)).Nodup := by
  intro r hr
  have hmem : r ∈ toRecords self n := List.mem_of_mem_head? hr
  rw [((toRecords_shape self n).2 r hmem).2]
  exact hnd

/-- **frame.to_list_of_dicts().to_data_frame()** = the model's round trip. -/
theorem roundtrip_run (J : Json) (self : Frame) (hnd : (names self).Nodup) (hrect : Rect self) :
    roundtripRun J self = some (.frame (toColumns (toRecords self (nrow self)))) := by
  unfold roundtripRun
  rw [toListOfDicts_run J self hnd hrect]
  exact toDataFrame_run J _ (toRecords_head_nodup self _ hnd)

/-! ### `to_json` -/

theorem lod_to_json_run (J : Json) (truth : Term → Bool) (recs : List Record) (kw : List (String × Opt)) :
    runRet J M0 [("self", .dicts recs), ("kwargs", .kwargs kw)] (ListOfDicts_to_json truth) =
      some (.text (J.dumps recs (jsonDefaults kw))) := by
  rfl


theorem M1_to_json (J : Json) (recs : List Record) (kw : List (String × Opt)) :
    M1 J ".to_json" [.dicts recs, .kwstar (.kwargs kw)] = some (.text (J.dumps recs (jsonDefaults kw))) :=
  lod_to_json_run J (truthOf J M0 [("self", .dicts recs), ("kwargs", .kwargs kw)]) recs kw

/-- **DataFrame.to_json**: `self.to_list_of_dicts().to_json(**kwargs)`, both callees being run from their own regenerated
    bodies, = `json.dumps` of the model's `toRecords` with the caller's keyword arguments and the three defaults. -/
theorem to_json_run (J : Json) (truth : Term → Bool) (self : Frame) (kw : List (String × Opt)) (env : Env)
    (hself : env.get? "self" = some (.frame self)) (hkw : env.get? "kwargs" = some (.kwargs kw))
    (hnd : (names self).Nodup) (hrect : Rect self) :
    runRet J (M2 J) env (DataFrame_to_json truth) =
      some (.text (J.dumps (toRecords self (nrow self)) (jsonDefaults kw))) := by
  show evalExpr J (M2 J) [] env (.app ".to_json" [.app ".to_list_of_dicts" [.sym "self"], .app "=**" [.sym "kwargs"]]) = _
  have h1 : evalExpr J (M2 J) [] env (.app ".to_list_of_dicts" [.sym "self"]) =
      some (.dicts (toRecords self (nrow self))) := by
    rw [call_method LCKeys.nil (by decide) (by decide) rfl (evalArgs1 (self_eval hself))]
    exact toListOfDicts_run J self hnd hrect
  have h2 : evalExpr J (M2 J) [] env (.app "=**" [.sym "kwargs"]) = some (.kwstar (.kwargs kw)) := by
    rw [call_prim LCKeys.nil (by decide) (by decide) rfl
      (evalArgs1 (sym_eval J (M2 J) [] env "kwargs" _ (by decide) (by decide) (by decide) (by decide) hkw))]
    rfl
  rw [call_method LCKeys.nil (by decide) (by decide) rfl (evalArgs2 h1 h2)]
  exact M1_to_json J _ kw

theorem toJson_run (J : Json) (self : Frame) (kw : List (String × Opt)) (hnd : (names self).Nodup) (hrect : Rect self) :
    toJsonRun J self kw = some (.text (J.dumps (toRecords self (nrow self)) (jsonDefaults kw))) :=
  to_json_run J (truthOf J (M2 J) [("self", .frame self), ("kwargs", .kwargs kw)]) self kw _ rfl rfl hnd hrect


/-- the records of a frame are JSON-able when its names are distinct and its cells are None / bool / int / str. -/
theorem toRecords_jsonAble (self : Frame) (n : Nat) (hnd : (names self).Nodup)
    (hj : ∀ c ∈ self, ∀ x ∈ c.2, jsonCell x = true) : JsonAble (toRecords self n) := by
  intro r hr
  refine ⟨by rw [((toRecords_shape self n).2 r hr).2]; exact hnd, ?_⟩
  simp only [toRecords, List.mem_map] at hr
  obtain ⟨i, _, rfl⟩ := hr
  intro p hp
  simp only [List.mem_map] at hp
  obtain ⟨c, hc, rfl⟩ := hp
  simp only
  cases h : c.2[i]? with
  | none => rfl
  | some x => exact hj c hc x (List.mem_of_getElem? h)

end DI.PyEvalConv

/-
  Lemmas/PyCore.lean — facts about the target language of the source translator
  (Model/PyCore.lean): Python `min` / `max` on naturals, `np.arange`, slice positions.
-/
import Model.PyCore

namespace DI.Py

theorem pmin_cast (a b : Nat) : pmin (a : Int) (b : Int) = ((min a b : Nat) : Int) := by
  unfold pmin; split <;> omega

theorem pmax_cast (a b : Nat) : pmax (a : Int) (b : Int) = ((max a b : Nat) : Int) := by
  unfold pmax; split <;> omega

/-- `np.arange(lo, lo + m)` for natural bounds. -/
theorem arange_nat (lo m : Nat) (hi : Int) (h : hi = (lo : Int) + (m : Int)) :
    arange (lo : Int) hi = (List.range m).map (fun k => ((lo + k : Nat) : Int)) := by
  subst h
  unfold arange
  have : ((lo : Int) + (m : Int) - (lo : Int)).toNat = m := by omega
  rw [this]
  apply List.map_congr_left
  intro k _
  omega

theorem arange_zero (m : Nat) : arange 0 (m : Int) = (List.range m).map (fun (k : Nat) => (k : Int)) := by
  have := arange_nat 0 m (m : Int) (by simp)
  simpa using this

theorem arange_length (a b : Int) : (arange a b).length = (b - a).toNat := by simp [arange]

theorem arange_empty (a b : Int) (h : b ≤ a) : arange a b = [] := by
  unfold arange
  have : (b - a).toNat = 0 := by omega
  simp [this]

end DI.Py

namespace DI.Py

/-- read a list at integer positions (what `seq[a:b]` returns for the positions of `sliceIdx`). -/
def gatherI {α : Type} [Inhabited α] (xs : List α) (idx : List Int) : List α :=
  idx.map (fun i => xs[i.toNat]!)

theorem map_range_getElem {α : Type} [Inhabited α] (xs : List α) (d m : Nat) (h : d + m ≤ xs.length) :
    (List.range m).map (fun k => xs[d + k]!) = (xs.drop d).take m := by
  apply List.ext_getElem
  · simp; omega
  · intro i h1 h2
    simp at h1
    have : d + i < xs.length := by omega
    simp [this]

/-- `xs[:k]` for a natural `k` (possibly beyond the end) is `xs.take k`. -/
theorem gatherI_slice_take {α : Type} [Inhabited α] (xs : List α) (k : Nat) :
    gatherI xs (sliceIdx xs.length none (some (k : Int))) = xs.take k := by
  unfold gatherI sliceIdx normBound
  have hk : ¬ ((k : Int) < 0) := by omega
  simp only [hk, if_false, pmin_cast, arange_zero, List.map_map]
  have := map_range_getElem xs 0 (min k xs.length) (by omega)
  simp only [Nat.zero_add, List.drop_zero] at this
  have e : xs.take (min k xs.length) = xs.take k := by
    rcases Nat.le_total k xs.length with h | h
    · rw [Nat.min_eq_left h]
    · rw [Nat.min_eq_right h, List.take_of_length_le (Nat.le_refl _), List.take_of_length_le h]
  rw [← e, ← this]
  apply List.map_congr_left
  intro i _
  simp

/-- `xs[d:]` for a natural `d` is `xs.drop d`. -/
theorem gatherI_slice_drop {α : Type} [Inhabited α] (xs : List α) (d : Nat) :
    gatherI xs (sliceIdx xs.length (some (d : Int)) none) = xs.drop d := by
  unfold gatherI sliceIdx normBound
  have hd : ¬ ((d : Int) < 0) := by omega
  simp only [hd, if_false, pmin_cast]
  rcases Nat.le_total d xs.length with h | h
  · have h1 := arange_nat (min d xs.length) (xs.length - d) (xs.length : Int) (by omega)
    rw [h1, List.map_map]
    have h2 := map_range_getElem xs d (xs.length - d) (by omega)
    have e : (xs.drop d).take (xs.length - d) = xs.drop d := by
      apply List.take_of_length_le; simp
    rw [e] at h2
    rw [← h2]
    apply List.map_congr_left
    intro i _
    have : ((((min d xs.length + i : Nat) : Int)).toNat) = d + i := by
      rw [Nat.min_eq_left h]; omega
    simp only [Function.comp_apply, this]
  · rw [arange_empty _ _ (by omega)]
    simp [List.drop_of_length_le h]

end DI.Py

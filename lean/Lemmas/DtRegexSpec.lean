/-
  Lemmas/DtRegexSpec.lean — positional statements about the element-wise lifting of dt.py / regex.py
  (C19, round 3): missing in = missing out at the same position, vector components of `replace` are
  read at the element's own position, and from_string ∘ to_string.
-/
import Model.DtRegex
import Lemmas.DtRegex

namespace DI.DtRe

/-- `ys` has a missing value exactly where `xs` has one, and the lengths agree. -/
def SameMissing {δ β : Type} (ys : List (Option β)) (xs : List (Option δ)) : Prop :=
  ys.length = xs.length ∧ ∀ (i : Nat) (h1 : i < ys.length) (h2 : i < xs.length), ys[i] = none ↔ xs[i] = none

/-- the lifting combinator itself: mapping under `Option` keeps the positions of the missing values. -/
theorem sameMissing_map {δ β : Type} (f : δ → β) (xs : List (Option δ)) :
    SameMissing (xs.map (fun x => x.map f)) xs := by
  refine ⟨by simp, ?_⟩
  intro i h1 h2
  simp

/-- the same with an index-dependent function (the vector-component branch of `replace`). -/
theorem sameMissing_zipIdx_map {δ β : Type} (f : Nat → δ → β) (xs : List (Option δ)) :
    SameMissing (xs.zipIdx.map (fun (x, i) => x.map (f i))) xs := by
  refine ⟨by simp, ?_⟩
  intro i h1 h2
  simp

theorem SameMissing.trans {α β γ : Type} {zs : List (Option γ)} {ys : List (Option β)} {xs : List (Option α)}
    (h1 : SameMissing zs ys) (h2 : SameMissing ys xs) : SameMissing zs xs := by
  refine ⟨h1.1.trans h2.1, ?_⟩
  intro i hz hx
  have hy : i < ys.length := by rw [h2.1]; exact hx
  exact (h1.2 i hz hy).trans (h2.2 i hy hx)

/-- every function built on `_pull_datetime` / `_pull_int` / `_pull_str` (extractors, `to_string`,
    scalar `replace`, `from_string`): NaT in ⇔ missing out, position by position; lengths equal. -/
theorem pull_sameMissing {δ β : Type} (f : δ → β) (xs : List (Option δ)) : SameMissing (pull f xs) xs := by
  rw [pull_elementwise]; exact sameMissing_map f xs

theorem regexMap_sameMissing {β : Type} (f : String → β) (xs : List (Option String)) :
    SameMissing (regexMap f xs) xs := sameMissing_map f xs

theorem replace_sameMissing {δ γ : Type} [Inhabited γ] (repl : δ → List (String × γ) → δ)
    (xs : List (Option δ)) (comps : List (String × Comp γ)) : SameMissing (replace repl xs comps) xs := by
  rw [replace_elementwise]
  exact sameMissing_zipIdx_map (fun i y => repl y (comps.map (fun c => (c.1, c.2.at i)))) xs

/-- `match` / `fullmatch` / `search` return `None` for "no match", which in the resulting object vector
    is the same value as the missing marker: seen from Python the output is missing iff the input is
    missing OR the pattern does not match. -/
theorem regexMap_join_none_iff {μ : Type} (f : String → Option μ) (xs : List (Option String)) (i : Nat)
    (h : i < xs.length) :
    ((regexMap f xs)[i]'(by simpa [regexMap] using h)).join = none ↔
      xs[i] = none ∨ ∃ s, xs[i] = some s ∧ f s = none := by
  simp only [regexMap, List.getElem_map]
  cases xs[i] with
  | none => simp
  | some s => simp

/-! ### replace: vector components are read at the element's own position -/

theorem Comp.at_vector {γ : Type} [Inhabited γ] (vs : List γ) (i : Nat) (h : i < vs.length) :
    (Comp.vector vs).at i = vs[i] := by
  simp [Comp.at, h]

theorem Comp.at_scalar {γ : Type} [Inhabited γ] (v : γ) (i : Nat) : (Comp.scalar v).at i = v := rfl

/-- element `i` of the result is element `i` of the input replaced with, for every component, the
    scalar or the value at position `i` of the vector — the position in the whole vector, not the rank
    among the non-missing elements. -/
theorem replace_getElem {δ γ : Type} [Inhabited γ] (repl : δ → List (String × γ) → δ)
    (xs : List (Option δ)) (comps : List (String × Comp γ)) (i : Nat) (h : i < xs.length) :
    (replace repl xs comps)[i]? =
      some (xs[i].map (fun y => repl y (comps.map (fun c => (c.1, c.2.at i))))) := by
  rw [replace_elementwise]
  simp [h]

/-- the keyword list handed to `datetime.replace` for element `i`, with the vector components
    (all as long as `x`, which the Python asserts) resolved to their `i`-th entry. -/
theorem comps_at_resolved {γ : Type} [Inhabited γ] (comps : List (String × Comp γ)) (n i : Nat) (hi : i < n)
    (hlen : ∀ c ∈ comps, ∀ vs, c.2 = Comp.vector vs → vs.length = n) :
    comps.map (fun c => (c.1, c.2.at i)) =
      comps.map (fun c => (c.1, match c.2 with | .scalar v => v | .vector vs => vs[i]?.getD default)) := by
  apply List.map_congr_left
  intro c hc
  cases hc2 : c.2 with
  | scalar v => rfl
  | vector vs =>
    have := hlen c hc vs hc2
    simp [Comp.at, this, hi]

/-! ### from_string ∘ to_string -/

/-- `dt.from_string(dt.to_string(x, format), format)` for a format pair that round-trips on single
    values: every non-missing element parses (no `ValueError`) to itself, missing stays missing. -/
theorem pull_parse_pull_fmt {δ : Type} (fmt : δ → String) (parse : String → Option δ)
    (h : ∀ x, parse (fmt x) = some x) (xs : List (Option δ)) :
    pull parse (pull fmt xs) = xs.map (fun x => x.map some) := by
  rw [pull_elementwise, pull_elementwise, List.map_map]
  apply List.map_congr_left
  intro x _
  cases x with
  | none => rfl
  | some d => simp [h]

/-- the same, with a failed parse flattened into a missing value: the vector comes back unchanged. -/
theorem pull_parse_pull_fmt_join {δ : Type} (fmt : δ → String) (parse : String → Option δ)
    (h : ∀ x, parse (fmt x) = some x) (xs : List (Option δ)) :
    (pull parse (pull fmt xs)).map Option.join = xs := by
  rw [pull_parse_pull_fmt fmt parse h, List.map_map]
  conv => rhs; rw [← List.map_id xs]
  apply List.map_congr_left
  intro x _
  cases x <;> rfl

/-- the rank among the non-missing elements is NOT what selects the component: with a missing first
    element, element 1 gets component value 20 (position 1), not 10 (the first non-missing one). -/
example : replace (fun (y : Nat) (kw : List (String × Nat)) => y + (kw.map (·.2)).sum) [none, some 1]
    [("day", Comp.vector [10, 20])] = [none, some 21] := by decide

example : SameMissing (pull (fun n : Nat => n + 1) [some 1, none, some 3]) [some 1, none, some 3] ∧
    pull (fun n : Nat => n + 1) [some 1, none, some 3] = [some 2, none, some 4] := by
  refine ⟨pull_sameMissing _ _, by decide⟩

/-- the round-trip hypothesis is satisfiable (unary numerals), and a missing element stays missing. -/
example : pull (fun s : String => some s.length) (pull (fun n : Nat => String.ofList (List.replicate n 'x')) [some 2, none]) =
    [some (some 2), none] :=
  pull_parse_pull_fmt (fun n : Nat => String.ofList (List.replicate n 'x')) (fun s => some s.length)
    (by intro n; simp) [some 2, none]

/-- `replace_getElem` together with what `Comp.at` reads. -/
theorem replace_positionwise {δ γ : Type} [Inhabited γ] (repl : δ → List (String × γ) → δ)
    (xs : List (Option δ)) (comps : List (String × Comp γ)) (i : Nat) (h : i < xs.length) :
    (replace repl xs comps)[i]? =
      some (xs[i].map (fun y => repl y (comps.map (fun c => (c.1, c.2.at i))))) ∧
    (∀ (vs : List γ) (hv : i < vs.length), (Comp.vector vs).at i = vs[i]) ∧
    (∀ v : γ, (Comp.scalar v).at i = v) :=
  ⟨replace_getElem repl xs comps i h, fun vs hv => Comp.at_vector vs i hv, fun v => Comp.at_scalar v i⟩

end DI.DtRe

/-
  Lemmas/GroupOrder.lean — C04: order properties of grouping.

  * grouped `modify`: the value computed for position `p` of group `g` lands on exactly the row it
    was computed from (`modifyPlan` inverts the concatenation of the groups);
  * groups come out in strictly ascending key order (missing last);
  * inside a group the rows keep their original relative order (stability of the sort).
-/
import Model.Group
import Lemmas.Sort
import Lemmas.Vector
import Lemmas.Frame
import Lemmas.DfSort
import Lemmas.Group
import Lemmas.GroupRuns
import Lemmas.JoinFull

namespace DI

/-! ### generic helpers -/

/-- in a duplicate-free list two elements cannot occur in both orders. -/
theorem nodup_pair_sublist_asymm {α : Type} {l : List α} (hn : l.Nodup) {a b : α}
    (h1 : [a, b].Sublist l) (h2 : [b, a].Sublist l) : False := by
  induction l with
  | nil => cases h1
  | cons x t ih =>
    rw [List.nodup_cons] at hn
    rw [List.sublist_cons_iff] at h1 h2
    rcases h1 with h1 | ⟨r1, e1, h1⟩ <;> rcases h2 with h2 | ⟨r2, e2, h2⟩
    · exact ih hn.2 h1 h2
    · -- b = x, [a] ⊆ t, [a, b] ⊆ t → b ∈ t
      simp only [List.cons.injEq] at e2
      obtain ⟨rfl, rfl⟩ := e2
      have : b ∈ t := h1.subset (by simp)
      exact hn.1 this
    · simp only [List.cons.injEq] at e1
      obtain ⟨rfl, rfl⟩ := e1
      have : a ∈ t := h2.subset (by simp)
      exact hn.1 this
    · simp only [List.cons.injEq] at e1 e2
      obtain ⟨rfl, rfl⟩ := e1
      obtain ⟨rfl, rfl⟩ := e2
      exact hn.1 (h1.subset (by simp))

theorem natLe_pre : PreOrd (fun (a b : Nat) => decide (a ≤ b)) := by
  constructor
  · intro a b; simp; omega
  · intro a b c; simp; omega

/-- sorting a permutation of `0 … n-1` gives `0 … n-1`: `flat[argsort(flat)[i]] = i`. -/
theorem gather_argsort_perm_range (flat : List Nat) (n : Nat) (h : flat.Perm (List.range n)) :
    gather flat (argsort (fun (a b : Nat) => decide (a ≤ b)) flat) = List.range n := by
  unfold argsort
  rw [(tagged_sortPairs _ flat).gather]
  apply List.Perm.eq_of_pairwise (le := fun a b => a ≤ b)
  · intro a b _ _ h1 h2; omega
  · rw [List.pairwise_map]
    exact (sortPairs_sorted natLe_pre flat).imp (by intro p q hpq; simpa using hpq)
  · exact List.pairwise_lt_range.imp (by intro a b hab; omega)
  · have := (sortPairs_perm (fun (a b : Nat) => decide (a ≤ b)) flat).map (·.1)
    rw [List.zipIdx_map_fst] at this
    exact this.trans h

/-! ### grouped modify: tags of the concatenated group values -/

/-- for every position of the concatenated groups: (group number, position within the group). -/
def groupTags (L : List (List Nat)) (s : Nat) : List (Nat × Nat) :=
  ((L.zipIdx s).map (fun (g, gi) => (List.range g.length).map (fun p => (gi, p)))).flatten

theorem groupTags_cons (h : List Nat) (t : List (List Nat)) (s : Nat) :
    groupTags (h :: t) s = (List.range h.length).map (fun p => (s, p)) ++ groupTags t (s + 1) := by
  simp [groupTags, List.zipIdx_cons]

theorem groupTags_length (L : List (List Nat)) (s : Nat) : (groupTags L s).length = L.flatten.length := by
  induction L generalizing s with
  | nil => simp [groupTags]
  | cons h t ih => rw [groupTags_cons]; simp [ih (s + 1)]

/-- the tag at position `k` of the concatenation names the group and inner position holding
    the element `flatten[k]`. -/
theorem groupTags_get (L : List (List Nat)) (s k : Nat) (hk : k < L.flatten.length) :
    ∃ g p, (groupTags L s)[k]! = (s + g, p) ∧ g < L.length ∧ p < (L[g]!).length ∧
      (L[g]!)[p]! = L.flatten[k]! := by
  induction L generalizing s k with
  | nil => simp at hk
  | cons h t ih =>
    rw [groupTags_cons]
    by_cases hkh : k < h.length
    · refine ⟨0, k, ?_, by simp, by simpa using hkh, ?_⟩
      · rw [getElem!_pos _ k (by simp; omega), List.getElem_append_left (by simpa using hkh)]
        simp
      · rw [getElem!_pos (h :: t).flatten k hk]
        simp only [List.flatten_cons]
        rw [List.getElem_append_left hkh]
        simp [hkh]
    · have hk' : k - h.length < t.flatten.length := by
        simp only [List.flatten_cons, List.length_append] at hk; omega
      obtain ⟨g, p, e, hg, hp, hv⟩ := ih (s + 1) (k - h.length) hk'
      refine ⟨g + 1, p, ?_, by simpa using hg, by simpa using hp, ?_⟩
      · have hlen : ((List.range h.length).map (fun p => (s, p))).length ≤ k := by simp; omega
        rw [getElem!_pos _ k (by simp [groupTags_length]; simp at hk; omega),
          List.getElem_append_right hlen]
        rw [getElem!_pos (groupTags t (s + 1)) (k - h.length) (by rw [groupTags_length]; exact hk')] at e
        simp only [List.length_map, List.length_range]
        rw [e]
        congr 1; omega
      · rw [getElem!_pos (h :: t).flatten k hk]
        simp only [List.flatten_cons]
        rw [List.getElem_append_right (by omega)]
        rw [getElem!_pos t.flatten (k - h.length) hk'] at hv
        simpa using hv

theorem modifyPlan_eq (n : Nat) (keys : List (ColKind × List Cell)) :
    modifyPlan n keys = gather (groupTags (groupsOf n keys) 0)
      (argsort (fun (a b : Nat) => decide (a ≤ b)) (groupsOf n keys).flatten) := rfl

theorem modifyPlan_length (n : Nat) (keys : List (ColKind × List Cell)) :
    (modifyPlan n keys).length = n := by
  rw [modifyPlan_eq, gather_length, length_argsort]
  exact (groupsOf_partition n keys).length_eq.trans (by simp)

/-- **order restoration**: the value original row `i` receives was computed at a slot `(g, p)` of the
    groups that holds row `i` itself. -/
theorem modifyPlan_aligned (n : Nat) (keys : List (ColKind × List Cell)) (i : Nat) (hi : i < n)
    (g p : Nat) (h : (modifyPlan n keys)[i]! = (g, p)) :
    g < (groupsOf n keys).length ∧ p < ((groupsOf n keys)[g]!).length ∧
      ((groupsOf n keys)[g]!)[p]! = i := by
  have hperm := groupsOf_partition n keys
  have hflen : (groupsOf n keys).flatten.length = n := hperm.length_eq.trans (by simp)
  have hrl : (argsort (fun (a b : Nat) => decide (a ≤ b)) (groupsOf n keys).flatten).length = n := by
    rw [length_argsort, hflen]
  have hsorted := gather_argsort_perm_range _ n hperm
  -- position in the concatenation whose value goes to row i
  have hk : (argsort (fun (a b : Nat) => decide (a ≤ b)) (groupsOf n keys).flatten)[i]! <
      (groupsOf n keys).flatten.length := by
    have hm : (argsort (fun (a b : Nat) => decide (a ≤ b)) (groupsOf n keys).flatten)[i]! ∈
        argsort (fun (a b : Nat) => decide (a ≤ b)) (groupsOf n keys).flatten := by
      rw [getElem!_pos _ i (by omega)]; exact List.getElem_mem _
    simpa using (argsort_perm _ _).mem_iff.mp hm
  have hval : (groupsOf n keys).flatten[(argsort (fun (a b : Nat) => decide (a ≤ b)) (groupsOf n keys).flatten)[i]!]! = i := by
    rw [← gather_get _ _ i (by omega), hsorted]
    simp [hi]
  rw [modifyPlan_eq, gather_get _ _ i (by omega)] at h
  obtain ⟨g', p', e, hg, hp, hv⟩ := groupTags_get (groupsOf n keys) 0 _ hk
  rw [h] at e
  simp only [Nat.zero_add, Prod.mk.injEq] at e
  obtain ⟨rfl, rfl⟩ := e
  exact ⟨hg, hp, hv.trans hval⟩

/-- every computed value is used exactly once. -/
theorem modifyPlan_perm (n : Nat) (keys : List (ColKind × List Cell)) :
    (modifyPlan n keys).Perm (groupTags (groupsOf n keys) 0) := by
  rw [modifyPlan_eq]
  apply gather_perm
  rw [groupTags_length]
  exact argsort_perm _ _

/-! ### order between and inside groups -/

theorem leLexBy_refl_of_cellLt : ∀ (lts : List (Cell → Cell → Bool)) (a : List Cell),
    (∀ lt ∈ lts, lt = cellLt) → leLexBy lts a a = true
  | [], _, _ => by simp [leLexBy]
  | _ :: _, [], _ => by simp [leLexBy]
  | lt :: lts, x :: a, hl => by
    have hlt : lt = cellLt := hl lt (by simp)
    subst hlt
    simp only [leLexBy, cellLt_irrefl, Bool.false_eq_true, if_false]
    exact leLexBy_refl_of_cellLt lts a (fun l h => hl l (by simp [h]))

theorem origRows_get (n : Nat) (keys : List (ColKind × List Cell)) (i : Nat) (hi : i < n) :
    (rowsOf n (origCols (ascKeys keys)))[i]! = keyRow keys i := by
  rw [rowsOf_get n _ i hi]
  simp [keyRow, origCols, ascKeys]

theorem keyRow_length (keys : List (ColKind × List Cell)) (i : Nat) :
    (keyRow keys i).length = (specLts (ascKeys keys)).length := by
  simp [keyRow, specLts, ascKeys]

theorem groupSortIdx_eq (n : Nat) (keys : List (ColKind × List Cell)) :
    groupSortIdx n keys = dfSortIdx n (ascKeys keys) := by simp [groupSortIdx, ascKeys]

theorem groupSortIdx_nodup (n : Nat) (keys : List (ColKind × List Cell)) : (groupSortIdx n keys).Nodup := by
  rw [groupSortIdx_eq]
  exact (dfSortIdx_perm n (ascKeys keys)).nodup_iff.mpr List.nodup_range

theorem mem_groupSortIdx (n : Nat) (keys : List (ColKind × List Cell)) (a : Nat) :
    a ∈ groupSortIdx n keys ↔ a < n := by
  rw [groupSortIdx_eq, (dfSortIdx_perm n (ascKeys keys)).mem_iff]; simp

/-- the sorted row order: keys ascending (missing last), all rows distinct. -/
theorem groupSortIdx_pairwise (n : Nat) (keys : List (ColKind × List Cell)) (hwf : WfKeys n (ascKeys keys)) :
    (groupSortIdx n keys).Pairwise (fun a b =>
      leLexBy (specLts (ascKeys keys)) (keyRow keys a) (keyRow keys b) = true ∧ a ≠ b) := by
  have hs := dfSortIdx_sorted_spec n (ascKeys keys) hwf
  unfold gather at hs
  rw [List.pairwise_map, ← groupSortIdx_eq] at hs
  have hnd : (groupSortIdx n keys).Pairwise (· ≠ ·) := groupSortIdx_nodup n keys
  refine (hs.and hnd).imp_of_mem ?_
  intro a b ha hb hab
  rw [origRows_get n keys a ((mem_groupSortIdx n keys a).mp ha),
    origRows_get n keys b ((mem_groupSortIdx n keys b).mp hb)] at hab
  exact hab

/-- **groups ascending**: a row of an earlier group has a strictly smaller key tuple (ascending,
    missing last) than a row of a later group. -/
theorem groupsOf_ascending (n : Nat) (keys : List (ColKind × List Cell)) (hwf : WfKeys n (ascKeys keys))
    (g1 g2 : Nat) (h12 : g1 < g2) (h2 : g2 < (groupsOf n keys).length)
    (a b : Nat) (ha : a ∈ (groupsOf n keys)[g1]!) (hb : b ∈ (groupsOf n keys)[g2]!) :
    leLexBy (specLts (ascKeys keys)) (keyRow keys a) (keyRow keys b) = true ∧
    leLexBy (specLts (ascKeys keys)) (keyRow keys b) (keyRow keys a) = false ∧
    keyRow keys a ≠ keyRow keys b := by
  have hp := groupSortIdx_pairwise n keys hwf
  rw [← groupsOf_flatten, List.pairwise_flatten] at hp
  have hbetween := (List.pairwise_iff_getElem.mp hp.2) g1 g2 (by omega) h2 h12
  rw [getElem!_pos _ g1 (by omega)] at ha
  rw [getElem!_pos _ g2 h2] at hb
  have hab := hbetween a ha b hb
  have hne : keyRow keys a ≠ keyRow keys b := by
    intro heq
    have hsame := groupsOf_separate n keys hwf _ _ (List.getElem_mem (by omega : g1 < (groupsOf n keys).length))
      (List.getElem_mem h2) a b ha hb heq
    have hb1 : b ∈ (groupsOf n keys)[g1]'(by omega) := by rw [hsame]; exact hb
    exact (hbetween b hb1 b hb).2 rfl
  refine ⟨hab.1, ?_, hne⟩
  cases hrev : leLexBy (specLts (ascKeys keys)) (keyRow keys b) (keyRow keys a) with
  | false => rfl
  | true =>
    exact absurd (leLexBy_asc_antisymm _ _ _ (specLts_asc keys) (keyRow_length keys a)
      (keyRow_length keys b) hab.1 hrev) hne

/-- **original order inside a group**: every group lists its rows with increasing row ids
    (stability of the sort). -/
theorem groupsOf_rows_increasing (n : Nat) (keys : List (ColKind × List Cell)) (hwf : WfKeys n (ascKeys keys))
    (g : List Nat) (hg : g ∈ groupsOf n keys) : g.Pairwise (· < ·) := by
  rw [List.pairwise_iff_forall_sublist]
  intro a b hab
  have hsub : [a, b].Sublist (groupSortIdx n keys) := by
    rw [← groupsOf_flatten]
    exact hab.trans (List.sublist_flatten_of_mem hg)
  have ha : a ∈ g := hab.subset (by simp)
  have hb : b ∈ g := hab.subset (by simp)
  have han : a < n := (mem_groupSortIdx n keys a).mp (hsub.subset (by simp))
  have hbn : b < n := (mem_groupSortIdx n keys b).mp (hsub.subset (by simp))
  have hkey := groupsOf_homogeneous n keys hwf g hg b a hb ha
  have hnd := groupSortIdx_nodup n keys
  rcases Nat.lt_trichotomy a b with h | h | h
  · exact h
  · subst h
    have : [a, a].Pairwise (· ≠ ·) := hnd.sublist hsub
    simp at this
  · exfalso
    have hle : leLexBy (specLts (ascKeys keys)) (rowsOf n (origCols (ascKeys keys)))[b]!
        (rowsOf n (origCols (ascKeys keys)))[a]! = true := by
      rw [origRows_get n keys b hbn, origRows_get n keys a han, hkey]
      exact leLexBy_refl_of_cellLt _ _ (specLts_asc keys)
    have hst := dfSortIdx_stable n (ascKeys keys) hwf b a h han hle
    rw [← groupSortIdx_eq] at hst
    exact nodup_pair_sublist_asymm hnd hsub hst

end DI

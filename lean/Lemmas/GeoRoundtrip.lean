/-
  Lemmas/GeoRoundtrip.lean — C18 beyond well-formedness:
  * a strict parser of the written token stream back into (metadata members, feature blobs), and
    `parse (write metadata feats) = some (metadata, feats)`; conversely the parser accepts nothing
    but written streams;
  * the cells of `GeoJSON.read` (absent key / `null` / value), the column order (first appearance),
    the geometry column;
  * write -> read of a frame's rows gives the frame back.
-/
import Model.GeoJSON
import Model.Convert
import Lemmas.GeoJSON
import Lemmas.Convert
import Lemmas.KeyUnion
import Lemmas.ConvertFields
import Lemmas.ReadRestrict

namespace DI.Geo

open DI.Read DI.Convert

/-! ### parsing the written token stream -/

/-- the member name of the feature array as `write` emits it. -/
def featuresKey : String := "\"features\""

/-- the elements of a non-empty array up to and including `]`; no trailing comma is accepted. -/
def parseElems : List Tok → Option (List String × List Tok)
  | Tok.blob f :: Tok.rbrack :: rest => some ([f], rest)
  | Tok.blob f :: Tok.comma :: rest =>
    match parseElems rest with
    | some (fs, r) => some (f :: fs, r)
    | none => none
  | _ => none

/-- the array after `[`. -/
def parseArr : List Tok → Option (List String × List Tok)
  | Tok.rbrack :: rest => some ([], rest)
  | ts => parseElems ts

/-- the members after `{`: `name : blob ,` repeated, then `"features" : [ ... ] }` and nothing
    after it. -/
def parseMembers : List Tok → Option (List (String × String) × List String)
  | Tok.str k :: Tok.colon :: Tok.blob v :: Tok.comma :: rest =>
    if k = featuresKey then none
    else match parseMembers rest with
      | some (md, fs) => some ((k, v) :: md, fs)
      | none => none
  | Tok.str k :: Tok.colon :: Tok.lbrack :: rest =>
    if k = featuresKey then
      match parseArr rest with
      | some (fs, [Tok.rbrace]) => some ([], fs)
      | _ => none
    else none
  | _ => none

/-- the whole file: metadata members (name, value) in order and the feature blobs in order. -/
def parse : List Tok → Option (List (String × String) × List String)
  | Tok.lbrace :: ts => parseMembers ts
  | _ => none

theorem parseElems_featTokensFrom (k n : Nat) (f : String) (rest : List String) (tail : List Tok)
    (h : k + rest.length = n) :
    parseElems (featTokensFrom k n (f :: rest) ++ Tok.rbrack :: tail) = some (f :: rest, tail) := by
  induction rest generalizing k f with
  | nil =>
    have : ¬ k < n := by simp at h; omega
    simp [featTokensFrom, this, parseElems]
  | cons g rest ih =>
    have hk : k < n := by simp at h; omega
    have := ih (k + 1) g (by simp at h ⊢; omega)
    simp only [featTokensFrom, hk, if_true, List.cons_append, List.nil_append, parseElems] at this ⊢
    rw [this]

theorem parseArr_featTokens (feats : List String) (tail : List Tok) :
    parseArr (featTokens feats ++ Tok.rbrack :: tail) = some (feats, tail) := by
  cases feats with
  | nil => simp [featTokens, featTokensFrom, parseArr]
  | cons f rest =>
    have h := parseElems_featTokensFrom 0 ((f :: rest).length - 1) f rest tail (by simp)
    unfold featTokens
    have hb : featTokensFrom 0 ((f :: rest).length - 1) (f :: rest) ++ Tok.rbrack :: tail =
        Tok.blob f :: ((if 0 < (f :: rest).length - 1 then [Tok.comma] else []) ++
          featTokensFrom 1 ((f :: rest).length - 1) rest ++ Tok.rbrack :: tail) := by
      simp [featTokensFrom]
    rw [hb] at h ⊢
    simpa [parseArr] using h

theorem writeTokens_eq (metadata : List (String × String)) (feats : List String) :
    writeTokens metadata feats = Tok.lbrace ::
      (metadata.flatMap (fun (k, v) => [Tok.str k, Tok.colon, Tok.blob v, Tok.comma]) ++
        (Tok.str featuresKey :: Tok.colon :: Tok.lbrack :: (featTokens feats ++ [Tok.rbrack, Tok.rbrace]))) := by
  simp [writeTokens, featuresKey, List.append_assoc]

theorem parseMembers_write (metadata : List (String × String)) (feats : List String)
    (hk : ∀ m ∈ metadata, m.1 ≠ featuresKey) :
    parseMembers (metadata.flatMap (fun (k, v) => [Tok.str k, Tok.colon, Tok.blob v, Tok.comma]) ++
        (Tok.str featuresKey :: Tok.colon :: Tok.lbrack :: (featTokens feats ++ [Tok.rbrack, Tok.rbrace])))
      = some (metadata, feats) := by
  induction metadata with
  | nil =>
    simp only [List.flatMap_nil, List.nil_append]
    have := parseArr_featTokens feats [Tok.rbrace]
    simp only [parseMembers, if_true, this]
  | cons m ms ih =>
    obtain ⟨k, v⟩ := m
    have hne : k ≠ featuresKey := hk (k, v) (by simp)
    have := ih (fun m hm => hk m (by simp [hm]))
    simp only [List.flatMap_cons, List.cons_append, List.nil_append, parseMembers, hne, if_false, this]

/-- what is written parses back to exactly the metadata members and the features, in order. -/
theorem parse_write (metadata : List (String × String)) (feats : List String)
    (hk : ∀ m ∈ metadata, m.1 ≠ featuresKey) :
    parse (writeTokens metadata feats) = some (metadata, feats) := by
  rw [writeTokens_eq]
  exact parseMembers_write metadata feats hk

/-! the parser accepts nothing but written streams -/

theorem parseElems_sound (ts : List Tok) :
    ∀ fs r, parseElems ts = some (fs, r) →
      ∃ f rest, fs = f :: rest ∧ ∀ k n, k + rest.length = n → ts = featTokensFrom k n (f :: rest) ++ Tok.rbrack :: r := by
  fun_induction parseElems ts with
  | case1 f rest =>
    intro fs r h
    simp only [Option.some.injEq, Prod.mk.injEq] at h
    obtain ⟨rfl, rfl⟩ := h
    refine ⟨f, [], rfl, ?_⟩
    intro k n hkn
    have : ¬ k < n := by simp at hkn; omega
    simp [featTokensFrom, this]
  | case2 f rest fs' r' hrec ih =>
    intro fs r h
    simp only [Option.some.injEq, Prod.mk.injEq] at h
    obtain ⟨rfl, rfl⟩ := h
    obtain ⟨g, rest', rfl, hts⟩ := ih fs' r' hrec
    refine ⟨f, g :: rest', rfl, ?_⟩
    intro k n hkn
    have hk : k < n := by simp at hkn; omega
    have := hts (k + 1) n (by simp at hkn ⊢; omega)
    rw [this]
    simp [featTokensFrom, hk]
  | case3 f rest hrec =>
    intro fs r h; cases h
  | case4 ts h1 h2 =>
    intro fs r h; cases h

theorem parseArr_sound (ts : List Tok) (fs : List String) (r : List Tok) (h : parseArr ts = some (fs, r)) :
    ts = featTokens fs ++ Tok.rbrack :: r := by
  unfold parseArr at h
  split at h
  · simp only [Option.some.injEq, Prod.mk.injEq] at h
    obtain ⟨rfl, rfl⟩ := h
    simp [featTokens, featTokensFrom]
  · obtain ⟨f, rest, rfl, hts⟩ := parseElems_sound ts fs r h
    unfold featTokens
    exact hts 0 _ (by simp)

theorem parseMembers_sound (ts : List Tok) :
    ∀ md fs, parseMembers ts = some (md, fs) →
      (∀ m ∈ md, m.1 ≠ featuresKey) ∧
      ts = md.flatMap (fun (k, v) => [Tok.str k, Tok.colon, Tok.blob v, Tok.comma]) ++
        (Tok.str featuresKey :: Tok.colon :: Tok.lbrack :: (featTokens fs ++ [Tok.rbrack, Tok.rbrace])) := by
  fun_induction parseMembers ts <;> intro md fs h <;> try (cases h; done)
  case case2 k v rest hk md' fs' hrec ih =>
    simp only [Option.some.injEq, Prod.mk.injEq] at h
    obtain ⟨rfl, rfl⟩ := h
    obtain ⟨h1, h2⟩ := ih md' fs' hrec
    refine ⟨?_, ?_⟩
    · intro m hm
      rcases List.mem_cons.mp hm with rfl | hm'
      · exact hk
      · exact h1 m hm'
    · conv => lhs; rw [h2]
      simp
  case case4 rest fs' harr =>
    simp only [Option.some.injEq, Prod.mk.injEq] at h
    obtain ⟨rfl, rfl⟩ := h
    refine ⟨by simp, ?_⟩
    rw [parseArr_sound rest fs' _ harr]
    simp

/-- the parser is exact: it returns `(metadata, feats)` precisely on the stream `write` produces
    for them (and only when no metadata member is called "features"). -/
theorem parse_eq_some_iff (ts : List Tok) (metadata : List (String × String)) (feats : List String) :
    parse ts = some (metadata, feats) ↔
      (ts = writeTokens metadata feats ∧ ∀ m ∈ metadata, m.1 ≠ featuresKey) := by
  constructor
  · intro h
    unfold parse at h
    split at h
    · obtain ⟨h1, h2⟩ := parseMembers_sound _ _ _ h
      exact ⟨by rw [writeTokens_eq, h2], h1⟩
    · cases h
  · rintro ⟨rfl, hk⟩
    exact parse_write metadata feats hk

/-- two written files with the same tokens have the same members and the same features. -/
theorem writeTokens_injective (md1 md2 : List (String × String)) (f1 f2 : List String)
    (h1 : ∀ m ∈ md1, m.1 ≠ featuresKey) (h : writeTokens md1 f1 = writeTokens md2 f2)
    (h2 : ∀ m ∈ md2, m.1 ≠ featuresKey) : md1 = md2 ∧ f1 = f2 := by
  have e1 := parse_write md1 f1 h1
  have e2 := parse_write md2 f2 h2
  rw [h, e2] at e1
  simp only [Option.some.injEq, Prod.mk.injEq] at e1
  exact ⟨e1.1.symm, e1.2.symm⟩

/-- forced hypothesis: a metadata member that is itself called "features" makes the file carry two
    "features" members; the strict parser rejects it. -/
theorem parse_write_counterexample :
    parse (writeTokens [(featuresKey, "1")] ["F0"]) = none := by decide

example : parse (writeTokens [] []) = some ([], []) := by decide
example : parse (writeTokens [("\"type\"", "\"FeatureCollection\"")] ["F0", "F1", "F2"]) =
    some ([("\"type\"", "\"FeatureCollection\"")], ["F0", "F1", "F2"]) := by decide
/-- a trailing comma, a missing comma, a doubled feature are all rejected. -/
example : parse [.lbrace, .str featuresKey, .colon, .lbrack, .blob "F0", .comma, .rbrack, .rbrace] = none := by decide
example : parse [.lbrace, .str featuresKey, .colon, .lbrack, .blob "F0", .blob "F1", .rbrack, .rbrace] = none := by decide

/-! ### read: cells, column order, geometry -/

/-- the JSON text of `null`. -/
def nullBlob : String := "null"

/-- what Python sees in a cell: `properties.get(key, None)` is `None` both when the key is absent
    (`none`) and when its value is JSON `null`. -/
def pyCell : Option String → Option String
  | some v => if v = nullBlob then none else some v
  | none => none

/-- the property keys of all features in file order. -/
def propKeys (feats : List Feature) : List String := allKeys (feats.map (·.props))

theorem readColumns_names_all (feats : List Feature) :
    (readColumns feats []).1.map (·.1) = (propKeys feats).eraseDups := by
  simp only [readColumns, frameFromRecords, List.isEmpty_nil, if_true]
  rw [map_fst_pair, unionKeys_eq_eraseDups]; rfl

theorem readColumns_names_restricted (feats : List Feature) (columns : List String) (hc : columns ≠ []) :
    (readColumns feats columns).1.map (·.1) = ((propKeys feats).eraseDups).filter (fun k => columns.contains k) := by
  have := frameFromRecords_names (feats.map (·.props)) columns hc
  rw [unionKeys_eq_eraseDups] at this
  exact this

theorem mem_propKeys (feats : List Feature) (k : String) :
    k ∈ (propKeys feats).eraseDups ↔ ∃ f ∈ feats, k ∈ f.props.map (·.1) := by
  rw [propKeys, ← unionKeys_eq_eraseDups, mem_unionKeys]
  constructor
  · rintro ⟨r, hr, hk⟩
    obtain ⟨f, hf, rfl⟩ := List.mem_map.mp hr
    exact ⟨f, hf, hk⟩
  · rintro ⟨f, hf, hk⟩
    exact ⟨f.props, List.mem_map.mpr ⟨f, hf, rfl⟩, hk⟩

/-- every column of the read has one cell per feature, and the cell of feature `i` is the
    feature's own entry under the column's name (`none` when it has none). -/
theorem readColumns_cell (feats : List Feature) (columns : List String) (k : String) (vals : List (Option String))
    (h : (k, vals) ∈ (readColumns feats columns).1) :
    vals.length = feats.length ∧ ∀ i (hi : i < feats.length), vals[i]? = some (lookup feats[i].props k) := by
  have h' : (k, vals) ∈ frameFromRecords (feats.map (fun f => f.props)) columns := h
  have hv : vals = (feats.map (fun f => f.props)).map (fun r => lookup r k) :=
    restrict_eq_select (feats.map (fun f => f.props)) columns k vals h'
  subst hv
  refine ⟨by simp, ?_⟩
  intro i hi
  simp [hi]

/-- the three cases of a cell, as Python sees it. -/
theorem pyCell_lookup (r : Rec String) (k : String) :
    (k ∉ r.map (·.1) → pyCell (lookup r k) = none) ∧
    (lookup r k = some nullBlob → pyCell (lookup r k) = none) ∧
    (∀ v, lookup r k = some v → v ≠ nullBlob → pyCell (lookup r k) = some v) ∧
    (pyCell (lookup r k) = none ↔ (k ∉ r.map (·.1) ∨ lookup r k = some nullBlob)) := by
  refine ⟨?_, ?_, ?_, ?_⟩
  · intro h; rw [(lookup_eq_none_iff r k).mpr h]; rfl
  · intro h; rw [h]; simp [pyCell]
  · intro v h hv; rw [h]; simp [pyCell, hv]
  · rw [← lookup_eq_none_iff]
    cases h : lookup r k with
    | none => simp [pyCell]
    | some v =>
      by_cases hv : v = nullBlob
      · simp [pyCell, hv]
      · simp [pyCell, hv]

theorem readColumns_cell_full (feats : List Feature) (columns : List String) (k : String)
    (vals : List (Option String)) (h : (k, vals) ∈ (readColumns feats columns).1) :
    vals.length = feats.length ∧
    ∀ i (hi : i < feats.length),
      vals[i]? = some (lookup feats[i].props k) ∧
      (k ∉ feats[i].props.map (·.1) → pyCell (lookup feats[i].props k) = none) ∧
      (lookup feats[i].props k = some nullBlob → pyCell (lookup feats[i].props k) = none) ∧
      (∀ v, lookup feats[i].props k = some v → v ≠ nullBlob → pyCell (lookup feats[i].props k) = some v) ∧
      (pyCell (lookup feats[i].props k) = none ↔
        (k ∉ feats[i].props.map (·.1) ∨ lookup feats[i].props k = some nullBlob)) := by
  obtain ⟨hl, hc⟩ := readColumns_cell feats columns k vals h
  refine ⟨hl, fun i hi => ⟨hc i hi, pyCell_lookup feats[i].props k⟩⟩

/-- the geometry column: one entry per feature, the feature's own geometry blob, unchanged —
    `null` included — whatever the properties and the `columns` restriction. -/
theorem readColumns_geometry (feats : List Feature) (columns : List String) :
    (readColumns feats columns).2.length = feats.length ∧
    ∀ i : Nat, (readColumns feats columns).2[i]? = (feats[i]?).map (fun f => f.geometry) := by
  simp [readColumns]

/-! ### write -> read -/

/-- the JSON text of a cell: `null` for a missing value. -/
def blobOf : Option String → String
  | some v => v
  | none => nullBlob

/-- the features `write` builds from a frame: `to_list_of_dicts()`, `pop("geometry")`, the rest
    are the properties (missing values as `null`). -/
def featuresOf (cols : List (Col String)) (geoms : List String) : List Feature :=
  ((toRecords cols geoms.length).zip geoms).map
    (fun rg => { props := rg.1.map (fun p => (p.1, blobOf p.2)), geometry := rg.2 })

theorem featuresOf_props (cols : List (Col String)) (geoms : List String) :
    (featuresOf cols geoms).map (·.props) =
      (toRecords cols geoms.length).map (fun r => r.map (fun p => (p.1, blobOf p.2))) := by
  simp only [featuresOf, List.map_map]
  have hlen : (toRecords cols geoms.length).length = geoms.length := by simp [toRecords]
  apply List.ext_getElem
  · simp [hlen]
  · intro i h1 h2
    simp

theorem featuresOf_geometry (cols : List (Col String)) (geoms : List String) :
    (featuresOf cols geoms).map (·.geometry) = geoms := by
  simp only [featuresOf, List.map_map]
  have hlen : (toRecords cols geoms.length).length = geoms.length := by simp [toRecords]
  apply List.ext_getElem
  · simp [hlen]
  · intro i h1 h2
    simp

theorem pyCell_blobOf (v : Option String) (h : v ≠ some nullBlob) : pyCell (some (blobOf v)) = v := by
  cases v with
  | none => simp [pyCell, blobOf]
  | some w =>
    have : w ≠ nullBlob := fun e => h (by rw [e])
    simp [pyCell, blobOf, this]

theorem unionKeys_map_values {β γ : Type} (f : β → γ) (recs : List (Rec β)) :
    unionKeys (recs.map (fun r => r.map (fun p => (p.1, f p.2)))) = unionKeys recs := by
  rw [unionKeys_eq, unionKeys_eq]
  congr 1
  rw [List.flatMap_map]
  congr 1
  funext r
  rw [List.map_map]; rfl

theorem lookup_map_values {β γ : Type} (f : β → γ) (r : Rec β) (k : String) :
    lookup (r.map (fun p => (p.1, f p.2))) k = (lookup r k).map f := by
  induction r with
  | nil => simp [lookup]
  | cons p r ih =>
    by_cases h : (p.1 == k) = true
    · simp [lookup, h]
    · simp only [lookup, List.map_cons, List.find?_cons, h] at ih ⊢
      exact ih

/-- the column read back for a column of the frame is that column (as Python sees the cells). -/
theorem read_back_column (cols : List (Col String)) (geoms : List String)
    (hnd : (cols.map (·.1)).Nodup) (c : Col String) (hc : c ∈ cols) (hlen : c.2.length = geoms.length)
    (hnull : ∀ v ∈ c.2, v ≠ some nullBlob) :
    (((featuresOf cols geoms).map (·.props)).map (fun r => lookup r c.1)).map pyCell = c.2 := by
  rw [featuresOf_props]
  apply List.ext_getElem
  · simp [toRecords, hlen]
  · intro i h1 h2
    simp only [List.getElem_map, toRecords, List.getElem_range]
    rw [lookup_map_values, lookup_map_pair cols (fun c => (c.2[i]?).join) c.1 hnd c hc rfl]
    have : c.2[i]? = some (c.2[i]) := List.getElem?_eq_getElem h2
    simp only [this, Option.join_some, Option.map_some]
    exact pyCell_blobOf _ (hnull _ (List.getElem_mem h2))

/-- write -> read, with a `columns` restriction: the kept columns of the frame come back — names,
    order, values, missing positions — and the geometry column. -/
theorem read_featuresOf_restricted (cols : List (Col String)) (geoms : List String) (columns : List String)
    (hn : 0 < geoms.length) (hnd : (cols.map (·.1)).Nodup) (hlen : ∀ c ∈ cols, c.2.length = geoms.length)
    (hnull : ∀ c ∈ cols, ∀ v ∈ c.2, v ≠ some nullBlob) :
    (readColumns (featuresOf cols geoms) columns).1.map (fun c => (c.1, c.2.map pyCell)) =
      (if columns.isEmpty then cols else cols.filter (fun c => columns.contains c.1)) ∧
    (readColumns (featuresOf cols geoms) columns).2 = geoms := by
  refine ⟨?_, featuresOf_geometry cols geoms⟩
  have hU : unionKeys ((featuresOf cols geoms).map (·.props)) = cols.map (·.1) := by
    rw [featuresOf_props, unionKeys_map_values]
    exact unionKeys_toRecords cols geoms.length hn hnd
  simp only [readColumns, frameFromRecords, hU]
  split
  · rw [List.map_map, List.map_map]
    apply List.ext_getElem
    · simp
    · intro i h1 h2
      simp only [List.getElem_map, Function.comp]
      have hc : cols[i] ∈ cols := List.getElem_mem h2
      rw [read_back_column cols geoms hnd cols[i] hc (hlen _ hc) (hnull _ hc)]
  · have hf : (cols.map (·.1)).filter (fun k => columns.contains k) =
        (cols.filter (fun c => columns.contains c.1)).map (·.1) := by
      rw [List.filter_map]; rfl
    rw [hf, List.map_map, List.map_map]
    apply List.ext_getElem
    · simp
    · intro i h1 h2
      simp only [List.getElem_map, Function.comp]
      have hc' : (cols.filter (fun c => columns.contains c.1))[i] ∈ cols.filter (fun c => columns.contains c.1) :=
        List.getElem_mem h2
      have hc : (cols.filter (fun c => columns.contains c.1))[i] ∈ cols := (List.mem_filter.mp hc').1
      rw [read_back_column cols geoms hnd _ hc (hlen _ hc) (hnull _ hc)]

/-- write -> read without restriction: the frame comes back. -/
theorem read_featuresOf (cols : List (Col String)) (geoms : List String)
    (hn : 0 < geoms.length) (hnd : (cols.map (·.1)).Nodup) (hlen : ∀ c ∈ cols, c.2.length = geoms.length)
    (hnull : ∀ c ∈ cols, ∀ v ∈ c.2, v ≠ some nullBlob) :
    (readColumns (featuresOf cols geoms) []).1.map (fun c => (c.1, c.2.map pyCell)) = cols ∧
    (readColumns (featuresOf cols geoms) []).2 = geoms := by
  have := read_featuresOf_restricted cols geoms [] hn hnd hlen hnull
  simpa using this

/-- with no feature at all every property column is lost (the geometry column is empty). -/
theorem read_featuresOf_empty (cols : List (Col String)) (columns : List String) :
    readColumns (featuresOf cols []) columns = ([], []) := by
  simp [featuresOf, readColumns, frameFromRecords, toRecords, unionKeys]

/-- metadata: everything but the member called "features", in order. -/
theorem readMetadata_split (pre post : List (String × String)) (v : String)
    (h1 : ∀ m ∈ pre, m.1 ≠ "features") (h2 : ∀ m ∈ post, m.1 ≠ "features") :
    readMetadata (pre ++ ("features", v) :: post) = pre ++ post := by
  have hf : ∀ l : List (String × String), (∀ m ∈ l, m.1 ≠ "features") →
      l.filter (fun m => m.1 != "features") = l := by
    intro l hl
    apply List.filter_eq_self.mpr
    intro m hm; simpa using hl m hm
  simp [readMetadata, List.filter_append, hf pre h1, hf post h2]

theorem readMetadata_eq_self_iff (members : List (String × String)) :
    readMetadata members = members ↔ ∀ m ∈ members, m.1 ≠ "features" := by
  simp [readMetadata, List.filter_eq_self]

/-! ### absent ≡ null: for the cells, not for the columns -/

/-- a feature's properties with the `null` ones left out. -/
def dropNulls (r : Rec String) : Rec String := r.filter (fun p => p.2 != nullBlob)

/-- leaving a `null` property out does not change any cell Python sees ... -/
theorem pyCell_dropNulls (r : Rec String) (k : String) (hnd : (r.map (·.1)).Nodup) :
    pyCell (lookup (dropNulls r) k) = pyCell (lookup r k) := by
  induction r with
  | nil => rfl
  | cons p r ih =>
    simp only [List.map_cons, List.nodup_cons] at hnd
    by_cases hk : p.1 = k
    · have hl : lookup (p :: r) k = some p.2 := by simp [lookup, hk]
      rw [hl]
      by_cases hv : p.2 = nullBlob
      · have hd : dropNulls (p :: r) = dropNulls r := by simp [dropNulls, hv]
        have hnone : lookup (dropNulls r) k = none := by
          rw [lookup_eq_none_iff]
          intro hmem
          apply hnd.1
          rw [hk]
          simp only [dropNulls, List.mem_map, List.mem_filter] at hmem ⊢
          obtain ⟨q, ⟨hq, _⟩, hqk⟩ := hmem
          exact ⟨q, hq, hqk⟩
        rw [hd, hnone, hv]; simp [pyCell]
      · have hd : dropNulls (p :: r) = p :: dropNulls r := by simp [dropNulls, hv]
        rw [hd]
        have : lookup (p :: dropNulls r) k = some p.2 := by simp [lookup, hk]
        rw [this]
    · have hb : (p.1 == k) = false := by simpa using hk
      have hl : lookup (p :: r) k = lookup r k := by simp [lookup, hb]
      rw [hl, ← ih hnd.2]
      by_cases hv : p.2 = nullBlob
      · have hd : dropNulls (p :: r) = dropNulls r := by simp [dropNulls, hv]
        rw [hd]
      · have hd : dropNulls (p :: r) = p :: dropNulls r := by simp [dropNulls, hv]
        rw [hd]
        have : lookup (p :: dropNulls r) k = lookup (dropNulls r) k := by simp [lookup, hb]
        rw [this]

/-- ... but it can change which columns exist and their order (a key first seen with `null`). -/
theorem dropNulls_changes_columns :
    let feats : List Feature := [⟨[("a", "null"), ("b", "1")], "G0"⟩, ⟨[("a", "2"), ("b", "3")], "G1"⟩]
    (readColumns feats []).1.map (·.1) = ["a", "b"] ∧
    (readColumns (feats.map (fun f => { f with props := dropNulls f.props })) []).1.map (·.1) = ["b", "a"] := by
  decide

/-- forced hypothesis of the round trip: a cell whose JSON text is `null` *is* the missing value. -/
theorem read_featuresOf_null_counterexample :
    (readColumns (featuresOf [("a", [some "null"])] ["G"]) []).1.map (fun c => (c.1, c.2.map pyCell)) =
      [("a", [none])] := by decide

example : (readColumns (featuresOf [("a", [some "1", none]), ("b", [none, some "x"])] ["G0", "null"]) []) =
    ([("a", [some "1", some "null"]), ("b", [some "null", some "x"])], ["G0", "null"]) := by decide

end DI.Geo

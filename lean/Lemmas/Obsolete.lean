/-
  Lemmas/Obsolete.lean — the obsolescence state machine (C17).
-/
import Model.Obsolete

namespace DI.Obs

/-! ### `_mark_obsolete` marks exactly the predecessor chain -/

theorem markChain_none (fuel : Nat) (ls : List LObj) (r : Nat) (h : ls[r]? = none) :
    markChain (fuel + 1) ls r = ls := by simp [markChain, h]

theorem chain_none (fuel : Nat) (ls : List LObj) (r : Nat) (h : ls[r]? = none) :
    chain (fuel + 1) ls r = [] := by simp [chain, h]

theorem chain_some (fuel : Nat) (ls : List LObj) (r : Nat) (l : LObj) (h : ls[r]? = some l) :
    chain (fuel + 1) ls r = r :: (match l.pred with | some p => chain fuel ls p | none => []) := by
  simp only [chain, h]
  cases l.pred <;> rfl

theorem markChain_some (fuel : Nat) (ls : List LObj) (r : Nat) (l : LObj) (h : ls[r]? = some l) :
    markChain (fuel + 1) ls r =
      let ls' := match l.pred with | some p => markChain fuel ls p | none => ls
      match ls'[r]? with
      | none => ls'
      | some l' => ls'.set r { l' with obsolete := true } := by
  simp only [markChain, h]
  cases l.pred <;> rfl

theorem markChain_get (fuel : Nat) (ls : List LObj) (r i : Nat) :
    (markChain fuel ls r)[i]? =
      (ls[i]?).map (fun l => { l with obsolete := l.obsolete || decide (i ∈ chain fuel ls r) }) := by
  induction fuel generalizing r i with
  | zero =>
    simp only [markChain, chain]
    cases ls[i]? <;> simp
  | succ fuel ih =>
    rcases Option.eq_none_or_eq_some (ls[r]?) with hr | ⟨l, hr⟩
    · rw [markChain_none _ _ _ hr, chain_none _ _ _ hr]
      cases ls[i]? <;> simp
    · rw [markChain_some _ _ _ l hr, chain_some _ _ _ l hr]
      -- the list after marking the predecessor's chain
      have key : ∀ (ls' : List LObj) (c : List Nat),
          (∀ j, ls'[j]? = (ls[j]?).map (fun (l : LObj) => { l with obsolete := l.obsolete || decide (j ∈ c) })) →
          (match ls'[r]? with
            | none => ls'
            | some l' => ls'.set r { l' with obsolete := true })[i]? =
          (ls[i]?).map (fun (l : LObj) => { l with obsolete := l.obsolete || decide (i ∈ r :: c) }) := by
        intro ls' c hls'
        have hr' := hls' r
        rw [hr] at hr'
        simp only [Option.map_some] at hr'
        rw [hr']
        simp only []
        have hlen : r < ls'.length := by
          rcases List.getElem?_eq_some_iff.mp hr' with ⟨h, _⟩; exact h
        by_cases hir : i = r
        · subst hir
          simp [List.getElem?_set, hlen, hr]
        · have hne : ¬ r = i := fun e => hir e.symm
          rw [List.getElem?_set]
          simp only [hne, if_false]
          rw [hls' i]
          cases ls[i]? <;> simp [hir]
      cases hp : l.pred with
      | none =>
        simp only []
        apply key ls []
        intro j; cases ls[j]? <;> simp
      | some p =>
        simp only []
        exact key _ _ (fun j => ih p j)

theorem markChain_length (fuel : Nat) (ls : List LObj) (r : Nat) :
    (markChain fuel ls r).length = ls.length := by
  induction fuel generalizing r with
  | zero => simp [markChain]
  | succ fuel ih =>
    rcases Option.eq_none_or_eq_some (ls[r]?) with hr | ⟨l, hr⟩
    · rw [markChain_none _ _ _ hr]
    · rw [markChain_some _ _ _ l hr]
      simp only []
      cases l.pred with
      | none => simp only []; cases ls[r]? <;> simp
      | some p => simp only []; cases (markChain fuel ls p)[r]? <;> simp [ih]

/-! ### the warning is printed at most once per list -/

theorem touch_warn_iff (w : World) (r : Nat) :
    (touch w r).2 = true ↔ ∃ l, w.lists[r]? = some l ∧ l.obsolete = true ∧ l.warned = false := by
  unfold touch
  cases h : w.lists[r]? with
  | none => simp
  | some l =>
    simp only []
    by_cases hc : (l.obsolete && !l.warned) = true
    · simp [hc]; simpa using hc
    · simp only [hc, Bool.false_eq_true, if_false]
      simp only [Bool.and_eq_true, Bool.not_eq_true', not_and, Bool.not_eq_false] at hc
      constructor
      · intro h'; cases h'
      · rintro ⟨l', h1, h2, h3⟩
        cases h1
        have := hc h2; simp [h3] at this

theorem touch_lists_get (w : World) (r i : Nat) :
    (touch w r).1.lists[i]? =
      (w.lists[i]?).map (fun l => if i = r ∧ l.obsolete = true then { l with warned := true } else l) := by
  unfold touch
  cases h : w.lists[r]? with
  | none =>
    simp only []
    cases hi : w.lists[i]? with
    | none => simp
    | some l =>
      have : i ≠ r := by intro e; subst e; rw [h] at hi; cases hi
      simp [this]
  | some l =>
    simp only []
    by_cases hc : (l.obsolete && !l.warned) = true
    · simp only [hc, if_true]
      have hr : r < w.lists.length := by
        rcases List.getElem?_eq_some_iff.mp h with ⟨h', _⟩; exact h'
      by_cases hir : i = r
      · subst hir
        simp only [Bool.and_eq_true, Bool.not_eq_true'] at hc
        have hget : w.lists[i] = l := by
          have := List.getElem?_eq_some_iff.mp h; exact this.2
        simp [List.getElem?_set, hr, hget, hc.1]
      · have : ¬ r = i := fun e => hir e.symm
        simp only [List.getElem?_set, this, if_false]
        cases w.lists[i]? <;> simp [hir]
    · simp only [hc, Bool.false_eq_true, if_false]
      cases hi : w.lists[i]? with
      | none => simp
      | some l' =>
        by_cases hir : i = r
        · subst hir
          rw [h] at hi; cases hi
          simp only [Bool.and_eq_true, Bool.not_eq_true', not_and, Bool.not_eq_false] at hc
          by_cases ho : l.obsolete = true
          · have := hc ho
            simp [ho]
            cases l; simp_all
          · simp [ho]
        · simp [hir]

/-- after any access the warning is not printed again for the same list, as long as its
    `warned` flag stays set — and nothing ever clears it (see `step_warned_mono`). -/
theorem touch_sets_warned (w : World) (r : Nat) (l : LObj) (h : w.lists[r]? = some l)
    (ho : l.obsolete = true) :
    ∃ l', (touch w r).1.lists[r]? = some l' ∧ l'.warned = true := by
  rw [touch_lists_get, h]
  simp [ho]

theorem touch_no_warn_of_warned (w : World) (r : Nat) (l : LObj) (h : w.lists[r]? = some l)
    (hw : l.warned = true) : (touch w r).2 = false := by
  cases hc : (touch w r).2
  · rfl
  · obtain ⟨l', h1, _, h3⟩ := (touch_warn_iff w r).mp hc
    rw [h] at h1; cases h1; simp [hw] at h3

end DI.Obs

namespace DI.Obs

theorem touch_length (w : World) (r : Nat) : (touch w r).1.lists.length = w.lists.length := by
  unfold touch
  cases w.lists[r]? with
  | none => rfl
  | some l => simp only []; split <;> simp

theorem touch_vers (w : World) (r : Nat) : (touch w r).1.vers = w.vers := by
  unfold touch
  cases w.lists[r]? with
  | none => rfl
  | some l => simp only []; split <;> rfl

theorem touch_obsolete (w : World) (r i : Nat) :
    ((touch w r).1.lists[i]?).map (·.obsolete) = (w.lists[i]?).map (·.obsolete) := by
  rw [touch_lists_get]
  cases w.lists[i]? with
  | none => rfl
  | some l => simp only [Option.map_some]; split <;> rfl

theorem touch_pred (w : World) (r i : Nat) :
    ((touch w r).1.lists[i]?).map (·.pred) = (w.lists[i]?).map (·.pred) := by
  rw [touch_lists_get]
  cases w.lists[i]? with
  | none => rfl
  | some l => simp only [Option.map_some]; split <;> rfl

/-- an in-place editing method: afterwards exactly the lists on the receiver's predecessor
    chain have been marked obsolete (older flags are kept), and the returned list is not. -/
theorem editInPlace_lists (w : World) (r : Nat) (keep : List Nat) (l : LObj)
    (h : (touch w r).1.lists[r]? = some l) :
    (step w (.editInPlace r keep)).1.lists =
      markChain (touch w r).1.lists.length (touch w r).1.lists r ++
        [{ items := pick l.items keep, pred := some r, obsolete := false, warned := false }] := by
  simp only [step, h]

theorem editFresh_lists (w : World) (r : Nat) (l : LObj)
    (h : (touch w r).1.lists[r]? = some l) :
    (step w (.editFresh r)).1.lists =
      markChain (touch w r).1.lists.length (touch w r).1.lists r ++
        [{ items := (List.range l.items.length).map (· + (touch w r).1.vers.length), pred := some r,
           obsolete := false, warned := false }] := by
  simp only [step, h]

/-- obsolete flag of every already existing list after an in-place edit of `r`. -/
theorem editInPlace_obsolete (w : World) (r : Nat) (keep : List Nat) (l : LObj)
    (h : (touch w r).1.lists[r]? = some l) (i : Nat) (hi : i < w.lists.length) :
    ((step w (.editInPlace r keep)).1.lists[i]?).map (·.obsolete) =
      (w.lists[i]?).map (fun x => x.obsolete ||
        decide (i ∈ chain (touch w r).1.lists.length (touch w r).1.lists r)) := by
  rw [editInPlace_lists w r keep l h]
  have hlen : i < (markChain (touch w r).1.lists.length (touch w r).1.lists r).length := by
    rw [markChain_length, touch_length]; exact hi
  rw [List.getElem?_append_left hlen, markChain_get]
  have := touch_obsolete w r i
  cases h1 : (touch w r).1.lists[i]? with
  | none =>
    rw [h1] at this
    cases h2 : w.lists[i]? with
    | none => rfl
    | some x => rw [h2] at this; cases this
  | some y =>
    rw [h1] at this
    cases h2 : w.lists[i]? with
    | none => rw [h2] at this; cases this
    | some x =>
      rw [h2] at this
      simp only [Option.map_some, Option.some.injEq] at this ⊢
      rw [this]

/-- the list returned by an editing method is new, not obsolete, and remembers its receiver. -/
theorem editInPlace_result (w : World) (r : Nat) (keep : List Nat) (l : LObj)
    (h : (touch w r).1.lists[r]? = some l) :
    (step w (.editInPlace r keep)).1.lists[w.lists.length]? =
      some { items := pick l.items keep, pred := some r, obsolete := false, warned := false } := by
  rw [editInPlace_lists w r keep l h]
  have hlen : (markChain (touch w r).1.lists.length (touch w r).1.lists r).length = w.lists.length := by
    rw [markChain_length, touch_length]
  rw [List.getElem?_append_right (by omega), hlen]
  simp

/-- non-modifying calls write no dict. -/
theorem derive_vers (w : World) (r : Nat) (keep : List Nat) (extra : Nat) :
    ∀ d, d < w.vers.length → (step w (.derive r keep extra)).1.vers[d]? = w.vers[d]? := by
  intro d hd
  simp only [step]
  cases h : (touch w r).1.lists[r]? with
  | none => simp only [touch_vers]
  | some l =>
    simp only [touch_vers]
    rw [List.getElem?_append_left hd]

theorem use_vers (w : World) (r : Nat) : (step w (.use r)).1.vers = w.vers := by
  simp only [step, touch_vers]

/-- a deep copy consists of brand-new dict objects: none of them existed before. -/
theorem deepcopy_fresh (w : World) (r : Nat) (l : LObj) (h : (touch w r).1.lists[r]? = some l) :
    ∃ new, (step w (.deepcopy r)).1.lists = (touch w r).1.lists ++ [new] ∧ new.pred = none ∧
      new.obsolete = false ∧ ∀ d ∈ new.items, w.vers.length ≤ d := by
  refine ⟨{ items := (List.range l.items.length).map (· + (touch w r).1.vers.length), pred := none,
            obsolete := false, warned := false }, ?_, rfl, rfl, ?_⟩
  · simp only [step, h]
  · intro d hd
    simp only [List.mem_map, List.mem_range] at hd
    obtain ⟨k, _, rfl⟩ := hd
    rw [touch_vers]; omega

/-- a deep copy writes no existing dict and changes no flag. -/
theorem deepcopy_vers (w : World) (r : Nat) :
    ∀ d, d < w.vers.length → (step w (.deepcopy r)).1.vers[d]? = w.vers[d]? := by
  intro d hd
  simp only [step]
  cases h : (touch w r).1.lists[r]? with
  | none => simp only [touch_vers]
  | some l =>
    simp only [touch_vers]
    rw [List.getElem?_append_left hd]

/-- an in-place edit writes only dicts that are items of its receiver. -/
theorem editInPlace_vers (w : World) (r : Nat) (keep : List Nat) (l : LObj)
    (h : (touch w r).1.lists[r]? = some l) (d : Nat) (hd : d ∉ l.items) :
    (step w (.editInPlace r keep)).1.vers[d]? = w.vers[d]? := by
  simp only [step, h, touch_vers, bump]
  have hnot : d ∉ pick l.items keep := by
    intro hm
    simp only [pick, List.mem_filterMap] at hm
    obtain ⟨i, _, hi⟩ := hm
    exact hd (List.mem_of_getElem? hi)
  rw [List.getElem?_map]
  cases hv : w.vers.zipIdx[d]? with
  | none =>
    simp only [Option.map_none]
    have : w.vers.zipIdx.length = w.vers.length := by simp
    rw [List.getElem?_eq_none_iff] at hv
    symm
    rw [List.getElem?_eq_none_iff]
    omega
  | some p =>
    have hp := List.getElem?_eq_some_iff.mp hv
    obtain ⟨hlt, hp⟩ := hp
    simp only [List.getElem_zipIdx, Nat.zero_add] at hp
    subst hp
    have hlt' : d < w.vers.length := by simpa using hlt
    simp [hnot, hlt']

end DI.Obs

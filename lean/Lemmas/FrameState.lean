/-
  Lemmas/FrameState.lean — the rectangular-table invariant (C01) is established by the
  constructor and preserved by every public operation; attribute lookup is coherent with it.
-/
import Model.FrameState

namespace DI.FS

/-! ### broadcast rule -/

theorem column_some (v : Shape) (n m : Nat) (h : column v (some n) = some m) :
    m = n ∧ v ≠ .nd ∧ (v.length = n ∨ (v.length = 1 ∧ 1 ≤ n)) := by
  cases v with
  | nd => simp [column] at h
  | scalar =>
    simp only [column, Shape.length] at h
    by_cases h1 : n = 1
    · simp [h1] at h; subst h1; subst h; simp [Shape.length]
    · simp only [h1, if_false] at h
      by_cases h2 : (1 ≠ 1 ∨ n < 1)
      · simp only [h2, if_true] at h; cases h
      · simp only [h2, if_false, Option.some.injEq] at h
        subst h
        refine ⟨rfl, by simp, Or.inr ⟨rfl, by omega⟩⟩
  | seq len =>
    simp only [column, Shape.length] at h
    by_cases h1 : n = len
    · simp [h1] at h; subst h1; subst h; simp [Shape.length]
    · simp only [h1, if_false] at h
      by_cases h2 : (len ≠ 1 ∨ n < 1)
      · simp only [h2, if_true] at h; cases h
      · simp only [h2, if_false, Option.some.injEq] at h
        subst h
        have h3 : len = 1 ∧ 1 ≤ n := by omega
        refine ⟨rfl, by simp, Or.inr ⟨by simp [Shape.length, h3.1], h3.2⟩⟩

theorem column_none_nrow (v : Shape) (m : Nat) (h : column v none = some m) : m = v.length ∧ v ≠ .nd := by
  cases v <;> simp [column] at h ⊢ <;> omega

/-- a mismatching length is rejected, never stored. -/
theorem column_rejects (v : Shape) (n : Nat) (h1 : v.length ≠ n) (h2 : v.length ≠ 1 ∨ n < 1) :
    column v (some n) = none := by
  cases hc : column v (some n) with
  | none => rfl
  | some m =>
    have := column_some v n m hc
    rcases this.2.2 with h | ⟨h, h'⟩
    · exact absurd h h1
    · rcases h2 with h2 | h2
      · exact absurd h h2
      · omega

/-! ### helpers on states -/

theorem mem_names {s : State} {k : String} : k ∈ s.names ↔ ∃ n, (k, n) ∈ s.cols := by
  simp [State.names]

theorem has_iff {s : State} {k : String} : s.has k = true ↔ k ∈ s.names := by
  simp [State.has, State.names]

theorem nrow_of_mem {s : State} (h : ∀ c ∈ s.cols, c.2 = s.nrow) {c : String × Nat} (hc : c ∈ s.cols) :
    c.2 = s.nrow := h c hc

/-- all columns have one common length `n`. -/
def Uniform (cols : List (String × Nat)) : Prop := ∃ n, ∀ c ∈ cols, c.2 = n

theorem uniform_iff (s : State) : (∀ c ∈ s.cols, c.2 = s.nrow) ↔ Uniform s.cols := by
  constructor
  · intro h; exact ⟨s.nrow, h⟩
  · rintro ⟨n, h⟩
    intro c hc
    cases hs : s.cols with
    | nil => rw [hs] at hc; cases hc
    | cons c0 rest =>
      have h0 := h c0 (by rw [hs]; simp)
      simp only [State.nrow, hs]
      rw [h c hc, h0]

/-! ### attribute lookup is coherent with the key set -/

theorem attr_key_coherent (nm : Names) (s : State) (h : Inv nm s) (k : String)
    (hid : nm.ident k = true) (hcl : nm.classAttr k = false) :
    (k ∈ s.names → lookupAttr nm s k = .column) ∧ (k ∉ s.names → lookupAttr nm s k = .attributeError) := by
  obtain ⟨_, _, hattr⟩ := h
  constructor
  · intro hk
    have : k ∈ s.attrs := (hattr k).mpr ⟨hk, hid, hcl⟩
    simp [lookupAttr, this, has_iff.mpr hk]
  · intro hk
    have : k ∉ s.attrs := fun h' => hk ((hattr k).mp h').1
    have hh : s.has k = false := by
      cases hx : s.has k
      · rfl
      · exact absurd (has_iff.mp hx) hk
    simp [lookupAttr, this, hcl, hh]

/-- with the invariant, `getattr` never leaks the placeholder class. -/
theorem no_placeholder_leak (nm : Names) (s : State) (h : Inv nm s) (k : String) :
    lookupAttr nm s k ≠ .placeholderLeak := by
  obtain ⟨_, _, hattr⟩ := h
  unfold lookupAttr
  by_cases hk : s.attrs.contains k = true
  · have : k ∈ s.names := ((hattr k).mp (by simpa using hk)).1
    simp only [hk, if_true, has_iff.mpr this]
    simp
  · simp only [hk, Bool.false_eq_true, if_false]
    by_cases h1 : nm.classAttr k = true
    · simp [h1]
    · simp only [h1, Bool.false_eq_true, if_false]
      by_cases h2 : s.has k = true <;> simp [h2]

/-! ### deletion -/

theorem dropAttr_cols (nm : Names) (t : State) (k : String) : (dropAttr nm t k).cols = t.cols := by
  unfold dropAttr; split <;> rfl

theorem dropAttr_names (nm : Names) (t : State) (k : String) : (dropAttr nm t k).names = t.names := by
  simp [State.names, dropAttr_cols]

theorem filter_names (s : State) (k : String) :
    ({ s with cols := s.cols.filter (fun c => c.1 != k) } : State).names = s.names.filter (· != k) := by
  simp only [State.names, List.filter_map]
  congr 1

theorem delitem_inv (nm : Names) (s s' : State) (k : String) (h : Inv nm s) (hs : delitem nm s k = some s') :
    Inv nm s' ∧ k ∉ s'.names ∧ s'.names = s.names.filter (· != k) := by
  obtain ⟨hnd, hlen, hattr⟩ := h
  unfold delitem at hs
  by_cases hk : s.has k = true
  · simp only [hk, if_true, Option.some.injEq] at hs
    subst hs
    have hn : (dropAttr nm { s with cols := s.cols.filter (fun c => c.1 != k) } k).names
        = s.names.filter (· != k) := by rw [dropAttr_names, filter_names]
    refine ⟨⟨?_, ?_, ?_⟩, ?_, hn⟩
    · rw [hn]; exact hnd.filter _
    · rw [uniform_iff]
      refine ⟨s.nrow, ?_⟩
      intro c hc
      rw [dropAttr_cols] at hc
      exact hlen c (List.mem_filter.mp hc).1
    · intro k'
      rw [hn]
      unfold dropAttr
      by_cases hcl : nm.classAttr k = true
      · simp only [hcl, Bool.not_true, Bool.false_eq_true, if_false]
        rw [hattr k']
        constructor
        · rintro ⟨h1, h2, h3⟩
          refine ⟨?_, h2, h3⟩
          simp only [List.mem_filter, h1, true_and]
          simp only [bne_iff_ne, ne_eq]
          intro he; subst he; rw [hcl] at h3; cases h3
        · rintro ⟨h1, h2, h3⟩
          exact ⟨(List.mem_filter.mp h1).1, h2, h3⟩
      · simp only [hcl, Bool.not_false, if_true, List.mem_filter]
        rw [hattr k']
        constructor
        · rintro ⟨⟨h1, h2, h3⟩, h4⟩; exact ⟨⟨h1, h4⟩, h2, h3⟩
        · rintro ⟨⟨h1, h4⟩, h2, h3⟩; exact ⟨⟨h1, h2, h3⟩, h4⟩
    · rw [hn]; simp
  · simp [hk] at hs

end DI.FS

namespace DI.FS

/-! ### assignment -/

theorem addPlaceholder_cols (nm : Names) (s : State) (k : String) : (addPlaceholder nm s k).cols = s.cols := by
  unfold addPlaceholder; split <;> rfl

theorem mem_addPlaceholder_attrs (nm : Names) (s : State) (h : Inv nm s) (k k' : String) :
    k' ∈ (addPlaceholder nm s k).attrs ↔
      k' ∈ s.attrs ∨ (k' = k ∧ nm.ident k = true ∧ nm.classAttr k = false) := by
  obtain ⟨_, _, hattr⟩ := h
  unfold addPlaceholder hasNonColumnAttr
  by_cases hcl : nm.classAttr k = true
  · simp [hcl]
  · have hcl' : nm.classAttr k = false := by simpa using hcl
    by_cases hin : k ∈ s.attrs
    · have hk := (hattr k).mp hin
      simp only [hcl', Bool.false_eq_true, if_false, List.contains_eq_mem, hin, decide_true, if_true,
        has_iff.mpr hk.1, Bool.not_true, Bool.not_false, Bool.true_and, Bool.and_false]
      constructor
      · intro h; exact Or.inl h
      · rintro (h | ⟨rfl, _, _⟩)
        · exact h
        · exact hin
    · by_cases hid : nm.ident k = true
      · simp [hcl', hin, hid]
      · simp [hcl', hin, hid]

theorem setitem_inv (nm : Names) (s s' : State) (k : String) (v : Shape) (h : Inv nm s)
    (hs : setitem nm s k v = some s') :
    Inv nm s' ∧ s'.names = (if k ∈ s.names then s.names else s.names ++ [k]) := by
  have hInv := h
  obtain ⟨hnd, hlen, hattr⟩ := h
  unfold setitem at hs
  dsimp only at hs
  cases hc : column v (if s.cols.isEmpty then none else some s.nrow) with
  | none => rw [hc] at hs; cases hs
  | some n =>
    rw [hc] at hs
    simp only [Option.some.injEq] at hs
    have hcols := addPlaceholder_cols nm s k
    have hhas : (addPlaceholder nm s k).has k = s.has k := by simp [State.has, hcols]
    -- the length stored fits the frame
    have hn : ∀ c ∈ s.cols, c.2 = n := by
      intro c hc'
      have hne : s.cols.isEmpty = false := by
        cases hs' : s.cols with
        | nil => rw [hs'] at hc'; cases hc'
        | cons _ _ => rfl
      rw [hne] at hc
      simp only [Bool.false_eq_true, if_false] at hc
      rw [(column_some v s.nrow n hc).1]
      exact hlen c hc'
    have hattrs : ∀ k', k' ∈ (addPlaceholder nm s k).attrs ↔
        (k' ∈ (if k ∈ s.names then s.names else s.names ++ [k]) ∧ nm.ident k' = true ∧ nm.classAttr k' = false) := by
      intro k'
      rw [mem_addPlaceholder_attrs nm s hInv, hattr k']
      by_cases hk : k ∈ s.names
      · simp only [hk, if_true]
        constructor
        · rintro (h | ⟨rfl, h2, h3⟩)
          · exact h
          · exact ⟨hk, h2, h3⟩
        · intro h; exact Or.inl h
      · simp only [hk, if_false, List.mem_append, List.mem_singleton]
        constructor
        · rintro (⟨h1, h2, h3⟩ | ⟨rfl, h2, h3⟩)
          · exact ⟨Or.inl h1, h2, h3⟩
          · exact ⟨Or.inr rfl, h2, h3⟩
        · rintro ⟨h1 | rfl, h2, h3⟩
          · exact Or.inl ⟨h1, h2, h3⟩
          · exact Or.inr ⟨rfl, h2, h3⟩
    by_cases hk : s.has k = true
    · have hk' : k ∈ s.names := has_iff.mp hk
      rw [hhas] at hs
      simp only [hk, if_true] at hs
      subst hs
      have hnames : ({ addPlaceholder nm s k with
          cols := (addPlaceholder nm s k).cols.map (fun c => if c.1 == k then (k, n) else c) } : State).names
          = s.names := by
        simp only [State.names, hcols, List.map_map]
        apply List.map_congr_left
        intro c _
        simp only [Function.comp]
        by_cases hck : c.1 == k
        · simp only [hck, if_true]; exact (beq_iff_eq.mp hck).symm
        · simp [hck]
      refine ⟨⟨?_, ?_, ?_⟩, ?_⟩
      · rw [hnames]; exact hnd
      · rw [uniform_iff]
        refine ⟨n, ?_⟩
        intro c hc'
        simp only [hcols, List.mem_map] at hc'
        obtain ⟨c0, hc0, rfl⟩ := hc'
        by_cases hck : c0.1 == k
        · simp [hck]
        · simp only [hck, Bool.false_eq_true, if_false]; exact hn c0 hc0
      · intro k'
        rw [hnames]
        have := hattrs k'
        simp only [hk', if_true] at this
        exact this
      · rw [hnames]; simp [hk']
    · have hk' : k ∉ s.names := fun h' => hk (has_iff.mpr h')
      rw [hhas] at hs
      simp only [hk, Bool.false_eq_true, if_false] at hs
      subst hs
      have hnames : ({ addPlaceholder nm s k with cols := (addPlaceholder nm s k).cols ++ [(k, n)] } : State).names
          = s.names ++ [k] := by
        simp [State.names, hcols]
      refine ⟨⟨?_, ?_, ?_⟩, ?_⟩
      · rw [hnames]
        rw [List.nodup_append]
        refine ⟨hnd, by simp, ?_⟩
        intro a ha b hb
        simp at hb; subst hb
        intro e; subst e; exact hk' ha
      · rw [uniform_iff]
        refine ⟨n, ?_⟩
        intro c hc'
        simp only [hcols, List.mem_append, List.mem_singleton] at hc'
        rcases hc' with hc' | rfl
        · exact hn c hc'
        · rfl
      · intro k'
        rw [hnames]
        have := hattrs k'
        simp only [hk', if_false] at this
        exact this
      · rw [hnames]; simp [hk']

end DI.FS

namespace DI.FS

/-! ### the constructor -/

theorem dictOf_step_keys (d : List (String × Shape)) (p : String × Shape) (hd : (d.map (·.1)).Nodup) :
    ((if d.any (fun q => q.1 == p.1) then d.map (fun q => if q.1 == p.1 then p else q) else d ++ [p]).map (·.1)).Nodup := by
  by_cases h : d.any (fun q => q.1 == p.1) = true
  · simp only [h, if_true, List.map_map]
    have : d.map ((fun x : String × Shape => x.1) ∘ fun q => if q.1 == p.1 then p else q) = d.map (·.1) := by
      apply List.map_congr_left
      intro q _
      simp only [Function.comp]
      by_cases hq : q.1 == p.1
      · simp only [hq, if_true]; exact (beq_iff_eq.mp hq).symm
      · simp [hq]
    rw [this]; exact hd
  · simp only [h, Bool.false_eq_true, if_false, List.map_append, List.map_cons, List.map_nil]
    rw [List.nodup_append]
    refine ⟨hd, by simp, ?_⟩
    intro a ha b hb
    simp at hb; subst hb
    intro e; subst e
    apply h
    simp only [List.any_eq_true]
    simp only [List.mem_map] at ha
    obtain ⟨q, hq, hqe⟩ := ha
    exact ⟨q, hq, by simp [hqe]⟩

theorem dictOf_nodup (ps : List (String × Shape)) : ((dictOf ps).map (·.1)).Nodup := by
  unfold dictOf
  have : ∀ (d : List (String × Shape)), (d.map (·.1)).Nodup →
      ((ps.foldl (fun d p => if d.any (fun q => q.1 == p.1) then d.map (fun q => if q.1 == p.1 then p else q)
                       else d ++ [p]) d).map (·.1)).Nodup := by
    induction ps with
    | nil => intro d hd; exact hd
    | cons p ps ih => intro d hd; exact ih _ (dictOf_step_keys d p hd)
  exact this [] (by simp)

theorem new_inv (nm : Names) (ps : List (String × Shape)) (s : State) (h : new nm ps = some s) : Inv nm s := by
  unfold new at h
  dsimp only at h
  split at h
  · cases h
    refine ⟨?_, ?_, ?_⟩
    · simp only [State.names, List.map_map]
      have := dictOf_nodup ps
      exact this
    · rw [uniform_iff]
      exact ⟨_, by intro c hc; simp only [List.mem_map] at hc; obtain ⟨p, _, rfl⟩ := hc; rfl⟩
    · intro k
      simp only [State.names, List.map_map, List.mem_filter, Bool.and_eq_true, Bool.not_eq_true']
      constructor
      · rintro ⟨h1, h2, h3⟩; exact ⟨h1, h2, h3⟩
      · rintro ⟨h1, h2, h3⟩; exact ⟨h1, h2, h3⟩
  · cases h

/-- the constructor accepts exactly the column sets in which every value is one-dimensional and
    has the common length or is broadcastable to it; everything it builds has that length. -/
theorem new_lengths (nm : Names) (ps : List (String × Shape)) (s : State) (h : new nm ps = some s) :
    ∀ c ∈ s.cols, c.2 = ((dictOf ps).map (fun p => p.2.length)).foldl max 0 := by
  unfold new at h
  dsimp only at h
  split at h
  · cases h
    intro c hc
    simp only [List.mem_map] at hc
    obtain ⟨p, _, rfl⟩ := hc; rfl
  · cases h

/-! ### every operation preserves the invariant -/

theorem popAll_inv (nm : Names) (s : State) (ks : List String) (r : State × List Nat) (h : Inv nm s)
    (hr : popAll nm s ks = some r) : Inv nm r.1 := by
  induction ks generalizing s r with
  | nil => simp [popAll] at hr; subst hr; exact h
  | cons k ks ih =>
    simp only [popAll] at hr
    cases hf : s.cols.find? (fun c => c.1 == k) with
    | none => rw [hf] at hr; cases hr
    | some c =>
      rw [hf] at hr
      cases hd : delitem nm s k with
      | none => rw [hd] at hr; cases hr
      | some s1 =>
        rw [hd] at hr
        dsimp only at hr
        cases hp : popAll nm s1 ks with
        | none => rw [hp] at hr; cases hr
        | some r1 =>
          rw [hp] at hr
          simp only [Option.map_some, Option.some.injEq] at hr
          subst hr
          exact ih s1 r1 (delitem_inv nm s s1 k h hd).1 hp

theorem assignAll_inv (nm : Names) (s : State) (l : List (String × Nat)) (s' : State) (h : Inv nm s)
    (hr : assignAll nm s l = some s') : Inv nm s' := by
  induction l generalizing s with
  | nil => simp [assignAll] at hr; subst hr; exact h
  | cons p l ih =>
    obtain ⟨k, n⟩ := p
    simp only [assignAll] at hr
    cases hs : setitem nm s k (.seq n) with
    | none => rw [hs] at hr; cases hr
    | some s1 =>
      rw [hs] at hr
      exact ih s1 (setitem_inv nm s s1 k (.seq n) h hs).1 hr

theorem step_inv (nm : Names) (s s' : State) (op : Op) (h : Inv nm s) (hs : step nm s op = some s') : Inv nm s' := by
  cases op with
  | setitem k v => exact (setitem_inv nm s s' k v h hs).1
  | setattr k v => exact (setitem_inv nm s s' k v h hs).1
  | delitem k => exact (delitem_inv nm s s' k h hs).1
  | delattr k => exact (delitem_inv nm s s' k h hs).1
  | pop k => exact (delitem_inv nm s s' k h hs).1
  | popitem =>
    simp only [step] at hs
    cases hl : s.cols.getLast? with
    | none => rw [hl] at hs; cases hs
    | some c => rw [hl] at hs; exact (delitem_inv nm s s' c.1 h hs).1
  | rebuild ps => exact new_inv nm ps s' hs
  | colnames ns =>
    simp only [step] at hs
    cases hp : popAll nm s ((s.names.zip ns).map (·.1)) with
    | none => rw [hp] at hs; cases hs
    | some r =>
      rw [hp] at hs
      exact assignAll_inv nm r.1 _ s' (popAll_inv nm s _ r h hp) hs

/-- every frame reachable from the constructor through any finite sequence of public operations
    (rejected operations leave the frame unchanged) satisfies the invariant. -/
theorem run_inv (nm : Names) (s : State) (ops : List Op) (h : Inv nm s) :
    Inv nm (ops.foldl (fun st op => (step nm st op).getD st) s) := by
  induction ops generalizing s with
  | nil => exact h
  | cons op ops ih =>
    simp only [List.foldl_cons]
    apply ih
    cases hs : step nm s op with
    | none => simpa using h
    | some s' => simpa using step_inv nm s s' op h hs

end DI.FS

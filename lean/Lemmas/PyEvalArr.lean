/-
  Lemmas/PyEvalArr.lean — the evaluator of `Model/PyEvalArr.lean` on the normal forms of `Vector.rank / sort / unique`
  (`Proofs/TieC11.lean`: `rankBody`, `sort_code`, `unique_code`).

  1. unfolding of the evaluator, the store (`ZKeys`: every written array was created by a `np.zeros_like`), names;
  2. list facts about the trusted primitives (`select`, `maskWrite`, `maskFill`, `fancyWrite`, `npBincount`, `maxD`,
     `npUniqueInverse`) and their relation to the functions the hand-written model uses (`putMask`, `bincount inv n`,
     `uniqueInverse` = number of strictly smaller distinct values, `invPermPlus1`);
  3. transport along an order embedding (`List.map_mergeSort`): stable argsort, sorted distinct values, first occurrences —
     used for `some : κ → Option κ` and for `_optimize_for_argsort` (`OptPreservesOrder`);
  4. the array pipelines of `rank` as list functions (`arrMin / arrMax / arrOrd`) = the model's `rankMinCore / rankMaxCore /
     rankOrdCore`;
  5. symbolic execution of the normal forms: `rankBody` (three methods + ValueError), the guards of `rank` (`rank_run`),
     `sort` (`sort_run_raw` without any assumption on `_optimize_for_argsort`, `sort_run`, `sort_object_run`), `unique`;
     independence of `_optimize_for_argsort` under `OptPreservesOrder` (`rankMinSpec_optv`, … , `sortRaw_eq`);
  6. the direct characterisations (`rankMinDirect`, `rankMaxDirect`, `vrank_all_missing`, `vsort_desc_values`).
-/
import Model.PyEvalArr
import Proofs.TieC11
import Lemmas.Sort
import Lemmas.Rank
import Lemmas.Vector
import Lemmas.VectorOrd

namespace DI.PyEvalArr

open DI DI.Py DI.Tie.C11

set_option linter.unusedSectionVars false

/-! ### 1. unfolding -/

section Unfold

variable {κ : Type} [DecidableEq κ]

theorem evalExpr_int (C : Ctx κ) (σ : Store κ) (env : Env κ) (i : Int) :
    evalExpr C σ env (.int i) = some (.int i) := by rw [evalExpr]

theorem evalExpr_sym (C : Ctx κ) (σ : Store κ) (env : Env κ) (s : String) :
    evalExpr C σ env (.sym s) = some (lookupSym env s) := by rw [evalExpr]

theorem evalExpr_app (C : Ctx κ) (σ : Store κ) (env : Env κ) (g : String) (args : List Term)
    (h : σ.find (.app g args) = none) :
    evalExpr C σ env (.app g args) = (evalArgs C σ env args).bind (prim C g) := by
  rw [evalExpr]; simp only [h]; cases evalArgs C σ env args <;> rfl

theorem evalExpr_found (C : Ctx κ) (σ : Store κ) (env : Env κ) (g : String) (args : List Term) (v : Val κ)
    (h : σ.find (.app g args) = some v) : evalExpr C σ env (.app g args) = some v := by
  rw [evalExpr]; simp only [h]

theorem evalArgs_nil (C : Ctx κ) (σ : Store κ) (env : Env κ) : evalArgs C σ env [] = some [] := by rw [evalArgs]

theorem evalArgs_cons (C : Ctx κ) (σ : Store κ) (env : Env κ) (t : Term) (ts : List Term) :
    evalArgs C σ env (t :: ts) =
      (evalExpr C σ env t).bind (fun v => (evalArgs C σ env ts).map (fun vs => v :: vs)) := by
  rw [evalArgs]; cases evalExpr C σ env t <;> cases evalArgs C σ env ts <;> rfl

/-! ### the store -/

/-- every array written so far was created by a `np.zeros_like(…)`. -/
def ZKeys (σ : Store κ) : Prop := ∀ p ∈ σ, ∃ a, p.1 = Term.app "np.zeros_like" a

theorem ZKeys.nil : ZKeys ([] : Store κ) := by intro p hp; cases hp

theorem ZKeys.cons {σ : Store κ} (h : ZKeys σ) (a : List Term) (v : Val κ) :
    ZKeys ((Term.app "np.zeros_like" a, v) :: σ) := by
  intro p hp
  rcases List.mem_cons.mp hp with rfl | hp
  · exact ⟨a, rfl⟩
  · exact h p hp

theorem find_none_of_ZKeys {σ : Store κ} (h : ZKeys σ) {g : String} (args : List Term)
    (hg : (g == "np.zeros_like") = false) : σ.find (.app g args) = none := by
  induction σ with
  | nil => rfl
  | cons p r ih =>
    obtain ⟨k, v⟩ := p
    obtain ⟨a, ha⟩ := h (k, v) List.mem_cons_self
    have hr : ZKeys r := fun q hq => h q (List.mem_cons_of_mem _ hq)
    simp only at ha
    subst ha
    simp only [Store.find]
    rw [if_neg]
    · exact ih hr
    · intro e
      have := (Term.app.inj e).1
      subst this
      simp at hg

/-- a call whose head is not `np.zeros_like` is evaluated from its arguments. -/
theorem evalExpr_app_nz (C : Ctx κ) {σ : Store κ} (env : Env κ) {g : String} (args : List Term)
    (h : ZKeys σ) (hg : (g == "np.zeros_like") = false) :
    evalExpr C σ env (.app g args) = (evalArgs C σ env args).bind (prim C g) :=
  evalExpr_app C σ env g args (find_none_of_ZKeys h args hg)

theorem find_cons_self (k : Term) (v : Val κ) (σ : Store κ) : Store.find ((k, v) :: σ) k = some v := by
  simp [Store.find]

theorem find_cons_ne (k t : Term) (v : Val κ) (σ : Store κ) (h : k ≠ t) :
    Store.find ((k, v) :: σ) t = Store.find σ t := by
  simp [Store.find, h]

/-! ### names -/

/-- the constant names of the bodies (`True`, dtype / builtin names, string literals). -/
def constNames : List String :=
  ["True", "False", "None", "int", "object", "str", "'stable'", "'min'", "'max'", "'ordinal'"]

/-- the environment binds the parameters of the function only: no constant name of the bodies is shadowed. -/
def Unshadowed (env : Env κ) : Prop := ∀ s ∈ constNames, env.get? s = none

theorem lookupSym_bound (env : Env κ) {s : String} {v : Val κ} (h : env.get? s = some v) : lookupSym env s = v := by
  unfold lookupSym; rw [h]

theorem lookupSym_True {env : Env κ} (h : Unshadowed env) : lookupSym env "True" = .bool true := by
  unfold lookupSym; rw [h "True" (by decide)]; rfl

theorem lookupSym_name {env : Env κ} (h : Unshadowed env) {s : String} (hs : s ∈ constNames)
    (h1 : (s == "True") = false) (h2 : (s == "False") = false) : lookupSym env s = .name s := by
  unfold lookupSym; rw [h s hs]
  have e1 : s ≠ "True" := by simpa using h1
  have e2 : s ≠ "False" := by simpa using h2
  simp [e1, e2]

/-! ### the primitives, on evaluated arguments -/

section prims
variable (C : Ctx κ)

theorem prim_is_na (xs : List (Option κ)) : prim C ".is_na" [.keys xs] = some (.mask (xs.map isNa)) := rfl
theorem prim_is_object (xs : List (Option κ)) : prim C ".is_object" [.keys xs] = some (.bool C.isObject) := rfl
theorem prim_length (xs : List (Option κ)) : prim C ".length" [.keys xs] = some (.int xs.length) := rfl
theorem prim_len_keys (xs : List (Option κ)) : prim C "len" [.keys xs] = some (.int xs.length) := rfl
theorem prim_len_ints (l : List Nat) : prim C "len" [.ints l] = some (.int l.length) := rfl
theorem prim_opt (xs : List (Option κ)) :
    prim C "._optimize_for_argsort" [.keys xs] = some (.keys (xs.map (Option.map C.optKey))) := rfl
theorem prim_argsort (xs : List (Option κ)) :
    prim C ".argsort" [.keys xs, .kw "kind" (.name "'stable'")] = some (.ints (argsort (cle C) xs)) := rfl
theorem prim_unique_inverse (xs : List (Option κ)) :
    prim C "np.unique" [.keys xs, .kw "return_inverse" (.bool true)] =
      some (.pair (.keys (sortedDistinct (cle C) xs)) (.ints (npUniqueInverse (cle C) xs))) := rfl
theorem prim_unique_index (xs : List (Option κ)) :
    prim C "np.unique" [.keys xs, .kw "return_index" (.bool true)] =
      some (.pair (.keys (sortedDistinct (cle C) xs)) (.ints (uniqueIndex (cle C) xs))) := rfl
theorem prim_sorted (xs : List (Option κ)) (r : Bool) :
    prim C "sorted" [.keys xs, .kw "key" (.name "str"), .kw "reverse" (.bool r)] =
      some (.keys (gather xs (argsortPy C.leStr r xs))) := rfl
theorem prim_fast_object (xs ys : List (Option κ)) :
    prim C ".fast" [.keys xs, .keys ys, .name "object"] = some (.keys ys) := rfl
theorem prim_fast_int (xs : List (Option κ)) (l : List Nat) :
    prim C ".fast" [.keys xs, .ints l, .name "int"] = some (.ints l) := rfl
theorem prim_fast_data (xs : List (Option κ)) (l : List Nat) :
    prim C ".fast" [.keys xs, .ints l] = some (.keys (l.map (fun k => some (C.ofNat k)))) := rfl
theorem prim_concat (a b : List (Option κ)) : prim C ".concat" [.keys a, .keys b] = some (.keys (a ++ b)) := rfl
theorem prim_copy (xs : List (Option κ)) : prim C ".copy" [.keys xs] = some (.keys xs) := rfl
theorem prim_class (xs : List (Option κ)) : prim C ".__class__" [.keys xs] = some (.name "Vector") := rfl
theorem prim_getitem_keys_mask (xs : List (Option κ)) (m : List Bool) :
    prim C "getitem" [.keys xs, .mask m] = if m.length = xs.length then some (.keys (select m xs)) else none := rfl
theorem prim_getitem_keys_ints (xs : List (Option κ)) (idx : List Nat) :
    prim C "getitem" [.keys xs, .ints idx] = if inBounds idx xs.length then some (.keys (gather xs idx)) else none := rfl
theorem prim_getitem_keys_rev (xs : List (Option κ)) : prim C "getitem" [.keys xs, .rev] = some (.keys xs.reverse) := rfl
theorem prim_getitem_ints_ints (l idx : List Nat) :
    prim C "getitem" [.ints l, .ints idx] = if inBounds idx l.length then some (.ints (gather l idx)) else none := rfl
theorem prim_getitem_pair1 (a b : Val κ) : prim C "getitem" [.pair a b, .int 1] = some b := rfl
theorem prim_item1 (a b : Val κ) : prim C "item1" [.pair a b] = some b := rfl
theorem prim_slice_rev : prim C "slice" [.name "None", .name "None", .int (-1)] = some .rev := rfl
theorem prim_not (m : List Bool) : prim C "~" [.mask m] = some (.mask (m.map (!·))) := rfl
theorem prim_all (m : List Bool) : prim C ".all" [.mask m] = some (.bool (m.all id)) := rfl
theorem prim_sum (m : List Bool) : prim C ".sum" [.mask m] = some (.int (countTrue m)) := rfl
theorem prim_sort (l : List Nat) :
    prim C ".sort" [.ints l] = some (.ints (l.mergeSort (fun a b => decide (a ≤ b)))) := rfl
theorem prim_repeat (c n : Int) :
    prim C "np.repeat" [.int c, .int n] =
      if 0 ≤ c ∧ 0 ≤ n then some (.ints (List.replicate n.toNat c.toNat)) else none := rfl
theorem prim_arange (n : Int) :
    prim C "np.arange" [.int n] = if 0 ≤ n then some (.ints (List.range n.toNat)) else none := rfl
theorem prim_zeros_like_keys (xs : List (Option κ)) :
    prim C "np.zeros_like" [.keys xs, .name "int"] = some (.ints (List.replicate xs.length 0)) := rfl
theorem prim_zeros_like_ints (l : List Nat) :
    prim C "np.zeros_like" [.ints l] = some (.ints (List.replicate l.length 0)) := rfl
theorem prim_bincount (l : List Nat) : prim C "np.bincount" [.ints l] = some (.ints (npBincount l)) := rfl
theorem prim_cumsum (l : List Nat) : prim C ".cumsum" [.ints l] = some (.ints (cumsum l)) := rfl
theorem prim_concatenate (a b : List Nat) :
    prim C "np.concatenate" [.pair (.ints a) (.ints b)] = some (.ints (a ++ b)) := rfl
theorem prim_max (l : List Nat) : prim C ".max" [.ints l] = if l = [] then none else some (.int (maxD l)) := rfl
theorem prim_view (l : List Nat) (s : String) : prim C ".view" [.ints l, .name s] = some (.ints l) := rfl
theorem prim_list_nil : prim C "list" [] = some (.ints []) := rfl
theorem prim_list_one (i : Int) : prim C "list" [.int i] = if 0 ≤ i then some (.ints [i.toNat]) else none := rfl
theorem prim_tuple (a b : Val κ) : prim C "tuple" [a, b] = some (.pair a b) := rfl
theorem prim_add_ints_int (l : List Nat) (i : Int) :
    prim C "Add" [.ints l, .int i] = if 0 ≤ i then some (.ints (l.map (· + i.toNat))) else none := rfl
theorem prim_add_int_ints (l : List Nat) (i : Int) :
    prim C "Add" [.int i, .ints l] = if 0 ≤ i then some (.ints (l.map (i.toNat + ·))) else none := rfl
theorem prim_add_int_int (a b : Int) : prim C "Add" [.int a, .int b] = some (.int (a + b)) := rfl
theorem prim_eq_int (a b : Int) : prim C "Eq" [.int a, .int b] = some (.bool (a == b)) := rfl
theorem prim_eq_name (a b : String) : prim C "Eq" [.name a, .name b] = some (.bool (a == b)) := rfl
theorem prim_lt (a b : Int) : prim C "Lt" [.int a, .int b] = some (.bool (decide (a < b))) := rfl
theorem prim_kw_kind (v : Val κ) : prim C "=kind" [v] = some (.kw "kind" v) := rfl
theorem prim_kw_return_inverse (v : Val κ) : prim C "=return_inverse" [v] = some (.kw "return_inverse" v) := rfl
theorem prim_kw_return_index (v : Val κ) : prim C "=return_index" [v] = some (.kw "return_index" v) := rfl
theorem prim_kw_key (v : Val κ) : prim C "=key" [v] = some (.kw "key" v) := rfl
theorem prim_kw_reverse (v : Val κ) : prim C "=reverse" [v] = some (.kw "reverse" v) := rfl

end prims

end Unfold

/-! ### 2. list facts about the primitives -/

section Lists

variable {α : Type}

theorem countTrue_cons_true (m : List Bool) : countTrue (true :: m) = countTrue m + 1 := by simp [countTrue]
theorem countTrue_cons_false (m : List Bool) : countTrue (false :: m) = countTrue m := by simp [countTrue]

theorem countTrue_map (p : α → Bool) (l : List α) : countTrue (l.map p) = (l.filter p).length := by
  induction l with
  | nil => rfl
  | cons a l ih => cases h : p a <;> simp [countTrue, h] at ih ⊢ <;> exact ih

/-- `l[p(l)]`: selecting by the mask a predicate gives is filtering. -/
theorem select_map (p : α → Bool) (l : List α) : select (l.map p) l = l.filter p := by
  induction l with
  | nil => rfl
  | cons a l ih => cases h : p a <;> simp [select, h, ih]

theorem length_select (m : List Bool) (l : List α) (h : m.length = l.length) :
    (select m l).length = countTrue m := by
  induction m generalizing l with
  | nil => cases l <;> simp [select, countTrue]
  | cons b m ih =>
    cases l with
    | nil => simp at h
    | cons x l =>
      have h' : m.length = l.length := by simpa using h
      cases b
      · simp only [select, countTrue_cons_false]; exact ih l h'
      · simp only [select, countTrue_cons_true, List.length_cons, ih l h']

theorem length_maskWrite (m : List Bool) (o vs : List α) : (maskWrite m o vs).length = o.length := by
  induction m generalizing o vs with
  | nil => cases o <;> simp [maskWrite]
  | cons b m ih =>
    cases o with
    | nil => cases b <;> simp [maskWrite]
    | cons x o =>
      cases b
      · simp [maskWrite, ih]
      · cases vs with
        | nil => simp [maskWrite]
        | cons v vs => simp [maskWrite, ih]

theorem length_maskFill (m : List Bool) (o : List α) (c : α) : (maskFill m o c).length = o.length := by
  induction m generalizing o with
  | nil => cases o <;> simp [maskFill]
  | cons b m ih =>
    cases o with
    | nil => cases b <;> simp [maskFill]
    | cons x o => cases b <;> simp [maskFill, ih]

/-- the masked assignment of the evaluator is the model's `putMask` (on well-shaped arguments). -/
theorem maskWrite_eq_putMask (m : List Bool) (o vs : List Nat) (h : m.length = o.length)
    (hv : vs.length = countTrue m) : maskWrite m o vs = putMask m o vs := by
  induction m generalizing o vs with
  | nil => cases o <;> simp [maskWrite, putMask] at h ⊢
  | cons b m ih =>
    cases o with
    | nil => simp at h
    | cons x o =>
      have h' : m.length = o.length := by simpa using h
      cases b
      · rw [countTrue_cons_false] at hv
        simp only [maskWrite, putMask, Bool.false_eq_true, if_false, ih o vs h' hv]
      · rw [countTrue_cons_true] at hv
        cases vs with
        | nil => simp at hv
        | cons v vs =>
          have hv' : vs.length = countTrue m := by simpa using hv
          simp only [maskWrite, putMask, if_true, List.headD_cons, List.tail_cons, ih o vs h' hv']

/-- the broadcast assignment is the model's `putMask` with enough copies of the scalar. -/
theorem maskFill_eq_putMask (m : List Bool) (o : List Nat) (c n : Nat) (h : m.length = o.length)
    (hn : countTrue m ≤ n) : maskFill m o c = putMask m o (List.replicate n c) := by
  induction m generalizing o n with
  | nil => cases o <;> simp [maskFill, putMask] at h ⊢
  | cons b m ih =>
    cases o with
    | nil => simp at h
    | cons x o =>
      have h' : m.length = o.length := by simpa using h
      cases b
      · rw [countTrue_cons_false] at hn
        simp only [maskFill, putMask, Bool.false_eq_true, if_false, ih o n h' hn]
      · rw [countTrue_cons_true] at hn
        cases n with
        | zero => omega
        | succ n =>
          simp only [maskFill, putMask, if_true, List.replicate_succ, List.headD_cons, List.tail_cons,
            ih o n h' (by omega)]

theorem length_fancyWrite (o : List α) (idx : List Nat) (vs : List α) :
    (fancyWrite o idx vs).length = o.length := by
  induction idx generalizing o vs with
  | nil => simp [fancyWrite]
  | cons i idx ih =>
    cases vs with
    | nil => simp [fancyWrite]
    | cons v vs => simp [fancyWrite, ih]

/-- an index assignment through pairwise distinct positions: position `p` takes the value paired with it. -/
theorem fancyWrite_getElem? [Inhabited α] (o : List α) (idx : List Nat) (vs : List α) (hn : idx.Nodup)
    (hl : idx.length = vs.length) (p : Nat) :
    (fancyWrite o idx vs)[p]? = if p ∈ idx then (o[p]?).map (fun _ => vs[idx.idxOf p]!) else o[p]? := by
  induction idx generalizing o vs with
  | nil => simp [fancyWrite]
  | cons i idx ih =>
    cases vs with
    | nil => simp at hl
    | cons v vs =>
      have hl' : idx.length = vs.length := by simpa using hl
      have hn' := (List.nodup_cons.mp hn).2
      have hi := (List.nodup_cons.mp hn).1
      simp only [fancyWrite]
      rw [ih (o.set i v) vs hn' hl']
      by_cases hpi : p = i
      · subst hpi
        simp only [hi, if_false, List.mem_cons, true_or, if_true, List.idxOf_cons_self]
        by_cases hlt : p < o.length
        · simp [hlt]
        · have : o.length ≤ p := by omega
          simp [this]
      · have hip : ¬ i = p := fun e => hpi e.symm
        have hne : (i == p) = false := by simpa using hip
        simp only [List.mem_cons, hpi, false_or, List.getElem?_set_ne hip]
        by_cases hm : p ∈ idx
        · have hlt : idx.idxOf p < vs.length := by rw [← hl']; exact List.idxOf_lt_length_of_mem hm
          simp [hm, List.idxOf_cons, hne, hlt]
        · simp [hm]

theorem le_maxD {l : List Nat} {k : Nat} (h : k ∈ l) : k ≤ maxD l := by
  induction l with
  | nil => cases h
  | cons x l ih =>
    rcases List.mem_cons.mp h with rfl | h
    · simp only [maxD]; omega
    · have := ih h; simp only [maxD]; omega

theorem maxD_eq {l : List Nat} {k : Nat} (h1 : ∀ x ∈ l, x ≤ k) (h2 : k ∈ l) : maxD l = k := by
  have := le_maxD h2
  have hle : maxD l ≤ k := by
    clear h2 this
    induction l with
    | nil => simp [maxD]
    | cons x l ih =>
      have := h1 x (by simp)
      have := ih (fun y hy => h1 y (by simp [hy]))
      simp only [maxD]; omega
  omega

theorem inBounds_iff (idx : List Nat) (n : Nat) : inBounds idx n = true ↔ ∀ i ∈ idx, i < n := by
  simp [inBounds]

theorem length_cumsumFrom (acc : Nat) (l : List Nat) : (cumsumFrom acc l).length = l.length := by
  induction l generalizing acc with
  | nil => rfl
  | cons x l ih => simp [cumsumFrom, ih]

theorem length_cumsum (l : List Nat) : (cumsum l).length = l.length := length_cumsumFrom 0 l

theorem length_npBincount_of_mem {l : List Nat} {k : Nat} (h : k ∈ l) : k < (npBincount l).length := by
  have hne : l ≠ [] := by intro e; subst e; cases h
  have := le_maxD h
  simp only [npBincount, if_neg hne, bincount, List.length_map, List.length_range]
  omega

theorem npBincount_of_ne {l : List Nat} (h : l ≠ []) : npBincount l = bincount l (maxD l + 1) := by
  simp [npBincount, h]

end Lists

/-! ### 3. transport along an order embedding -/

section Embed

variable {α β : Type}

theorem sortPairs_map (le : α → α → Bool) (le' : β → β → Bool) (f : α → β) (xs : List α)
    (h : ∀ a b, le' (f a) (f b) = le a b) :
    sortPairs le' (xs.map f) = (sortPairs le xs).map (Prod.map f id) := by
  unfold sortPairs
  rw [List.zipIdx_map]
  exact (List.map_mergeSort (fun a _ b _ => (h a.1 b.1).symm)).symm

/-- the stable argsort only looks at the comparisons. -/
theorem argsort_map (le : α → α → Bool) (le' : β → β → Bool) (f : α → β) (xs : List α)
    (h : ∀ a b, le' (f a) (f b) = le a b) : argsort le' (xs.map f) = argsort le xs := by
  unfold argsort
  rw [sortPairs_map le le' f xs h, List.map_map]
  rfl

theorem dedupAdj_map [DecidableEq α] [DecidableEq β] (f : α → β) (hf : ∀ a b, f a = f b → a = b) :
    ∀ l : List α, dedupAdj (l.map f) = (dedupAdj l).map f
  | [] => rfl
  | [a] => rfl
  | a :: b :: rest => by
    have ih := dedupAdj_map f hf (b :: rest)
    simp only [List.map_cons] at ih ⊢
    simp only [dedupAdj]
    by_cases hab : a = b
    · subst hab; simp only [if_true]; exact ih
    · have : ¬ f a = f b := fun e => hab (hf a b e)
      simp only [hab, this, if_false, List.map_cons, ih]

theorem sortedDistinct_map [DecidableEq α] [DecidableEq β] (le : α → α → Bool) (le' : β → β → Bool) (f : α → β)
    (xs : List α) (h : ∀ a b, le' (f a) (f b) = le a b) (hf : ∀ a b, f a = f b → a = b) :
    sortedDistinct le' (xs.map f) = (sortedDistinct le xs).map f := by
  unfold sortedDistinct
  rw [← List.map_mergeSort (r := le) (s := le') (f := f) (fun a _ b _ => (h a b).symm)]
  exact dedupAdj_map f hf _

theorem idxOf_map_inj [DecidableEq α] [DecidableEq β] (f : α → β) (hf : ∀ a b, f a = f b → a = b) (x : α) :
    ∀ l : List α, (l.map f).idxOf (f x) = l.idxOf x
  | [] => rfl
  | a :: l => by
    have ih := idxOf_map_inj f hf x l
    by_cases hax : a = x
    · subst hax; simp
    · have h1 : (a == x) = false := by simpa using hax
      have h2 : (f a == f x) = false := by simpa using fun e => hax (hf a x e)
      simp [List.idxOf_cons, h1, h2, ih]

theorem npUniqueInverse_map [DecidableEq α] [DecidableEq β] (le : α → α → Bool) (le' : β → β → Bool) (f : α → β)
    (xs : List α) (h : ∀ a b, le' (f a) (f b) = le a b) (hf : ∀ a b, f a = f b → a = b) :
    npUniqueInverse le' (xs.map f) = npUniqueInverse le xs := by
  unfold npUniqueInverse
  rw [sortedDistinct_map le le' f xs h hf, List.map_map]
  apply List.map_congr_left
  intro x _
  exact idxOf_map_inj f hf x _

theorem contains_map_inj [DecidableEq α] [DecidableEq β] (f : α → β) (hf : ∀ a b, f a = f b → a = b) (x : α)
    (l : List α) : (l.map f).contains (f x) = l.contains x := by
  induction l with
  | nil => rfl
  | cons a l ih =>
    by_cases hax : a = x
    · subst hax; simp
    · have h2 : ¬ f x = f a := fun e => hax (hf x a e).symm
      have h3 : ¬ x = a := fun e => hax e.symm
      have e2 : (f x == f a) = false := by simpa using h2
      have e3 : (x == a) = false := by simpa using h3
      simp only [List.map_cons, List.contains_cons, ih, e2, e3]

/-- first occurrences only look at equalities. -/
theorem firstOcc_map_inj [DecidableEq α] [DecidableEq β] [Inhabited α] [Inhabited β] (f : α → β)
    (hf : ∀ a b, f a = f b → a = b) (xs : List α) : firstOcc (xs.map f) = firstOcc xs := by
  unfold firstOcc
  rw [List.length_map]
  apply List.filter_congr
  intro i hi
  have hi : i < xs.length := by simpa using hi
  have e1 : (xs.map f)[i]! = f xs[i]! := by simp [hi]
  rw [e1, ← List.map_take, contains_map_inj f hf]

end Embed

/-! ### `np.unique(…, return_inverse=True)[1]` = the number of strictly smaller distinct values -/

section Inverse

variable {κ : Type} [DecidableEq κ]

theorem dedupAdj_sublist : ∀ l : List κ, (dedupAdj l).Sublist l
  | [] => List.Sublist.refl _
  | [a] => List.Sublist.refl _
  | a :: b :: rest => by
    have ih := dedupAdj_sublist (b :: rest)
    simp only [dedupAdj]
    split
    · exact ih.cons _
    · exact ih.cons_cons _

/-- the sorted distinct values are STRICTLY increasing. -/
theorem sortedDistinct_strict {le : κ → κ → Bool} (h : LinOrd le) (xs : List κ) :
    (sortedDistinct le xs).Pairwise (fun a b => ltOf le a b = true) := by
  have hs : (sortedDistinct le xs).Pairwise (fun a b => le a b = true) := by
    unfold sortedDistinct
    exact (List.pairwise_mergeSort h.trans h.total xs).sublist (dedupAdj_sublist _)
  have hn : (sortedDistinct le xs).Pairwise (fun a b => a ≠ b) := nodup_sortedDistinct h xs
  refine (hs.and hn).imp ?_
  intro a b ⟨h1, h2⟩
  unfold ltOf
  cases hba : le b a
  · simp [h1]
  · exact absurd (h.antisymm a b h1 hba) h2

/-- in a strictly increasing list the index of an element is the number of strictly smaller entries. -/
theorem idxOf_eq_cnt {le : κ → κ → Bool} :
    ∀ (u : List κ), u.Pairwise (fun a b => ltOf le a b = true) → ∀ x ∈ u, u.idxOf x = cnt le u x
  | [], _, x, hx => by cases hx
  | a :: r, hp, x, hx => by
    have hpa : ∀ y ∈ r, ltOf le a y = true := fun y hy => List.rel_of_pairwise_cons hp hy
    have hr := hp.tail
    by_cases hax : a = x
    · subst hax
      have hz : (r.filter (fun v => ltOf le v a)).length = 0 := by
        apply filter_length_zero_of_forall
        intro y hy
        have := hpa y hy
        unfold ltOf at this ⊢
        cases h1 : le a y <;> cases h2 : le y a <;> simp_all
      simp [cnt, ltOf_irrefl, hz]
    · have hxr : x ∈ r := by
        rcases List.mem_cons.mp hx with e | e
        · exact absurd e.symm hax
        · exact e
      have ih := idxOf_eq_cnt r hr x hxr
      have hne : (a == x) = false := by simpa using hax
      have hlt := hpa x hxr
      simp only [cnt] at ih ⊢
      simp [List.idxOf_cons, hne, hlt, ih]

theorem npUniqueInverse_eq {le : κ → κ → Bool} (h : LinOrd le) (xs : List κ) :
    npUniqueInverse le xs = uniqueInverse le xs := by
  rw [uniqueInverse_eq]
  unfold npUniqueInverse
  apply List.map_congr_left
  intro x hx
  exact idxOf_eq_cnt _ (sortedDistinct_strict h xs) x (mem_sortedDistinct.mpr hx)

end Inverse

/-! ### `_optimize_for_argsort` -/

section Opt

variable {κ : Type}

/-- `_optimize_for_argsort` preserves the order of the elements: the optimised copy compares exactly as the original.
    This is what `sort`, `rank` and `unique` rely on when they sort / deduplicate the COPY and apply the result to the
    original.  The known finding "trailing NUL characters" is exactly the failure of this hypothesis: `astype("U<n>")`
    drops trailing NULs, so `"a\0"` and `"a"` become equal (and `"\0"` becomes the blank, i.e. missing, string). -/
def OptPreservesOrder (C : Ctx κ) : Prop := ∀ a b, C.le (C.optKey a) (C.optKey b) = C.le a b

/-- the optimised copy of a data vector. -/
def optv (C : Ctx κ) (xs : List (Option κ)) : List (Option κ) := xs.map (Option.map C.optKey)

theorem optv_isNa (C : Ctx κ) (xs : List (Option κ)) : (optv C xs).map isNa = xs.map isNa := by
  unfold optv
  rw [List.map_map]
  apply List.map_congr_left
  intro x _; cases x <;> rfl

theorem length_optv (C : Ctx κ) (xs : List (Option κ)) : (optv C xs).length = xs.length := by simp [optv]

theorem leRaw_omap {le : κ → κ → Bool} {f : κ → κ} (h : ∀ a b, le (f a) (f b) = le a b) (nf : Bool)
    (a b : Option κ) : leRaw le nf (a.map f) (b.map f) = leRaw le nf a b := by
  cases a <;> cases b <;> simp [leRaw, h]

theorem inj_of_embed {le : κ → κ → Bool} (hl : LinOrd le) {f : κ → κ} (h : ∀ a b, le (f a) (f b) = le a b)
    (a b : κ) (e : f a = f b) : a = b := by
  apply hl.antisymm
  · rw [← h a b, e]; exact hl.pre.refl _
  · rw [← h b a, e]; exact hl.pre.refl _

theorem omap_inj {f : κ → κ} (hf : ∀ a b, f a = f b → a = b) (a b : Option κ) (e : a.map f = b.map f) : a = b := by
  cases a <;> cases b <;> simp at e ⊢
  exact hf _ _ e

theorem argsort_optv {C : Ctx κ} (h : OptPreservesOrder C) (nf : Bool) (xs : List (Option κ)) :
    argsort (leRaw C.le nf) (optv C xs) = argsort (leRaw C.le nf) xs :=
  argsort_map _ _ _ xs (leRaw_omap h nf)

theorem firstOcc_optv [DecidableEq κ] {C : Ctx κ} (hl : LinOrd C.le) (h : OptPreservesOrder C) (xs : List (Option κ)) :
    firstOcc (optv C xs) = firstOcc xs :=
  firstOcc_map_inj _ (omap_inj (inj_of_embed hl h)) xs

end Opt

/-! ### 4. the array pipelines of `rank` as list functions = the model's pipelines -/

section Pipelines

variable {κ : Type}

/-- `~na`. -/
def notNa (zs : List (Option κ)) : List Bool := (zs.map isNa).map (!·)

theorem notNa_eq (zs : List (Option κ)) : notNa zs = zs.map (fun x => !isNa x) := by simp [notNa]

theorem length_notNa (zs : List (Option κ)) : (notNa zs).length = zs.length := by simp [notNa]

/-- `self[~na]`: the non-missing elements, in order. -/
theorem select_notNa (zs : List (Option κ)) : select (notNa zs) zs = (nonNa zs).map some := by
  rw [notNa_eq, select_map]
  induction zs with
  | nil => rfl
  | cons x zs ih => cases x <;> simp_all [nonNa, isNa]

theorem countTrue_notNa (zs : List (Option κ)) : countTrue (notNa zs) = (nonNa zs).length := by
  rw [← length_select _ zs (length_notNa zs), select_notNa, List.length_map]

theorem countTrue_na (zs : List (Option κ)) : countTrue (zs.map isNa) + (nonNa zs).length = zs.length := by
  rw [countTrue_map]; exact length_na_add_nonNa zs

variable [DecidableEq κ]

/-- `rank(method="min")` as the evaluator computes it. -/
def arrMin (cl : Option κ → Option κ → Bool) (zs : List (Option κ)) : List Nat :=
  let inv := npUniqueInverse cl (select (notNa zs) zs)
  let cs := cumsum ([0] ++ npBincount inv)
  maskFill (zs.map isNa) (maskWrite (notNa zs) (List.replicate zs.length 0) ((gather cs inv).map (· + 1)))
    (countTrue (notNa zs) + 1)

/-- `rank(method="max")` as the evaluator computes it. -/
def arrMax (cl : Option κ → Option κ → Bool) (zs : List (Option κ)) : List Nat :=
  let inv := npUniqueInverse cl (select (notNa zs) zs)
  let cs := cumsum (npBincount inv)
  maskFill (zs.map isNa) (maskWrite (notNa zs) (List.replicate zs.length 0) (gather cs inv)) zs.length

/-- the array `rank` of `rank(method="ordinal")`. -/
def arrRk (idx : List Nat) : List Nat :=
  fancyWrite (List.replicate idx.length 0) idx ((List.range idx.length).map (· + 1))

/-- `rank(method="ordinal")` as the evaluator computes it. -/
def arrOrd (cl : Option κ → Option κ → Bool) (zs : List (Option κ)) : List Nat :=
  let rk := arrRk (argsort cl (select (notNa zs) zs))
  maskWrite (zs.map isNa) (maskWrite (notNa zs) (List.replicate zs.length 0) rk)
    (((List.range (countTrue (zs.map isNa))).map (maxD rk + ·)).map (· + 1))

theorem inverse_some {le : κ → κ → Bool} (h : LinOrd le) (nf : Bool) (vals : List κ) :
    npUniqueInverse (leRaw le nf) (vals.map some) = uniqueInverse le vals := by
  rw [npUniqueInverse_map le (leRaw le nf) some vals (fun _ _ => rfl) (fun _ _ e => Option.some.inj e),
    npUniqueInverse_eq h]

theorem mem_uniqueInverse_lt {le : κ → κ → Bool} {vals : List κ} {k : Nat} (hk : k ∈ uniqueInverse le vals) :
    k < (sortedDistinct le vals).length := by
  rw [uniqueInverse_eq] at hk
  obtain ⟨a, ha, rfl⟩ := List.mem_map.mp hk
  exact cnt_lt_length (mem_sortedDistinct.mpr ha)

theorem arrMin_eq {le : κ → κ → Bool} (h : LinOrd le) (nf : Bool) (zs : List (Option κ)) :
    arrMin (leRaw le nf) zs = rankMinCore le zs := by
  unfold arrMin rankMinCore
  simp only []
  rw [select_notNa, inverse_some h]
  have hr : (gather (cumsum ([0] ++ npBincount (uniqueInverse le (nonNa zs)))) (uniqueInverse le (nonNa zs))).map (· + 1)
      = (uniqueInverse le (nonNa zs)).map (fun k =>
          (cumsum (0 :: bincount (uniqueInverse le (nonNa zs)) (sortedDistinct le (nonNa zs)).length))[k]! + 1) := by
    unfold gather
    rw [List.map_map]
    apply List.map_congr_left
    intro k hk
    have hne : uniqueInverse le (nonNa zs) ≠ [] := by intro e; rw [e] at hk; cases hk
    have h1 := le_maxD hk
    simp only [Function.comp, npBincount_of_ne hne, List.cons_append, List.nil_append]
    rw [cumsum_zero_bincount _ _ _ (by omega), cumsum_zero_bincount _ _ _ (Nat.le_of_lt (mem_uniqueInverse_lt hk))]
  have hlen : ((uniqueInverse le (nonNa zs)).map (fun k =>
      (cumsum (0 :: bincount (uniqueInverse le (nonNa zs)) (sortedDistinct le (nonNa zs)).length))[k]! + 1)).length
      = countTrue (notNa zs) := by
    rw [countTrue_notNa]; simp [uniqueInverse]
  rw [hr]
  rw [maskFill_eq_putMask _ _ _ zs.length (by rw [length_maskWrite]; simp) (by have := countTrue_na zs; omega)]
  rw [maskWrite_eq_putMask _ _ _ (by simp [length_notNa]) hlen]
  rw [countTrue_notNa, notNa_eq]
  rfl

theorem arrMax_eq {le : κ → κ → Bool} (h : LinOrd le) (nf : Bool) (zs : List (Option κ)) :
    arrMax (leRaw le nf) zs = rankMaxCore le zs := by
  unfold arrMax rankMaxCore
  simp only []
  rw [select_notNa, inverse_some h]
  have hr : gather (cumsum (npBincount (uniqueInverse le (nonNa zs)))) (uniqueInverse le (nonNa zs))
      = (uniqueInverse le (nonNa zs)).map (fun k =>
          (cumsum (bincount (uniqueInverse le (nonNa zs)) (sortedDistinct le (nonNa zs)).length))[k]!) := by
    unfold gather
    apply List.map_congr_left
    intro k hk
    have hne : uniqueInverse le (nonNa zs) ≠ [] := by intro e; rw [e] at hk; cases hk
    have h1 := le_maxD hk
    simp only [npBincount_of_ne hne]
    rw [cumsum_bincount _ _ _ (by omega), cumsum_bincount _ _ _ (mem_uniqueInverse_lt hk)]
  have hlen : ((uniqueInverse le (nonNa zs)).map (fun k =>
      (cumsum (bincount (uniqueInverse le (nonNa zs)) (sortedDistinct le (nonNa zs)).length))[k]!)).length
      = countTrue (notNa zs) := by
    rw [countTrue_notNa]; simp [uniqueInverse]
  rw [hr]
  rw [maskFill_eq_putMask _ _ _ zs.length (by rw [length_maskWrite]; simp) (by have := countTrue_na zs; omega)]
  rw [maskWrite_eq_putMask _ _ _ (by simp [length_notNa]) hlen]
  rw [notNa_eq]
  rfl

/-- `rank[indices] = arange(len(indices)) + 1` on a permutation: the inverse permutation plus one. -/
theorem arrRk_eq (idx : List Nat) (hp : idx.Perm (List.range idx.length)) : arrRk idx = invPermPlus1 idx := by
  have hn : idx.Nodup := hp.nodup_iff.mpr List.nodup_range
  unfold arrRk invPermPlus1
  apply List.ext_getElem?
  intro p
  rw [fancyWrite_getElem? _ _ _ hn (by simp)]
  by_cases hpk : p < idx.length
  · have hm : p ∈ idx := hp.mem_iff.mpr (by simpa using hpk)
    have hi := List.idxOf_lt_length_of_mem hm
    simp [hm, hpk, hi]
  · have hm : p ∉ idx := fun hm => hpk (by simpa using hp.mem_iff.mp hm)
    have : idx.length ≤ p := by omega
    simp [hm, this]

theorem maxD_invPermPlus1 (idx : List Nat) (hp : idx.Perm (List.range idx.length)) (hpos : 0 < idx.length) :
    maxD (invPermPlus1 idx) = idx.length := by
  have hq := invPermPlus1_perm idx idx.length hp
  apply maxD_eq
  · intro x hx
    have := hq.mem_iff.mp hx
    simp only [List.mem_range'_1] at this
    omega
  · apply hq.mem_iff.mpr
    simp only [List.mem_range'_1]
    omega

theorem argsort_some (le : κ → κ → Bool) (nf : Bool) (vals : List κ) :
    argsort (leRaw le nf) (vals.map some) = argsort le vals :=
  argsort_map le (leRaw le nf) some vals (fun _ _ => rfl)

theorem arrOrd_eq (le : κ → κ → Bool) (nf : Bool) (zs : List (Option κ)) (hpos : 0 < (nonNa zs).length) :
    arrOrd (leRaw le nf) zs = rankOrdCore le zs := by
  unfold arrOrd rankOrdCore
  simp only []
  rw [select_notNa, argsort_some]
  have hp : (argsort le (nonNa zs)).Perm (List.range (argsort le (nonNa zs)).length) := by
    rw [length_argsort]; exact argsort_perm le (nonNa zs)
  have hk : (argsort le (nonNa zs)).length = (nonNa zs).length := length_argsort le _
  rw [arrRk_eq _ hp, maxD_invPermPlus1 _ hp (by omega), hk]
  have hc : countTrue (zs.map isNa) = zs.length - (nonNa zs).length := by
    have := countTrue_na zs; omega
  have hl1 : (invPermPlus1 (argsort le (nonNa zs))).length = countTrue (notNa zs) := by
    rw [countTrue_notNa]; simp [invPermPlus1, hk]
  rw [maskWrite_eq_putMask _ _ _ (by rw [length_maskWrite]; simp) (by simp)]
  rw [maskWrite_eq_putMask _ _ _ (by simp [length_notNa]) hl1]
  rw [hc, notNa_eq, List.map_map]
  rfl

end Pipelines

/-! ### 5. symbolic execution of the normal forms -/

section Exec

variable {κ : Type} [DecidableEq κ]

local macro "ev_simp" "[" ts:Lean.Parser.Tactic.simpLemma,* "]" : tactic =>
  `(tactic| simp +decide only [evalArgs_cons, evalArgs_nil, evalExpr_sym, evalExpr_int, Option.bind_some, Option.map_some,
      prim_is_na, prim_is_object, prim_length, prim_len_keys, prim_len_ints, prim_opt, prim_argsort, prim_unique_inverse,
      prim_unique_index, prim_sorted, prim_fast_object, prim_fast_int, prim_fast_data, prim_concat, prim_copy, prim_class,
      prim_getitem_keys_mask, prim_getitem_keys_ints, prim_getitem_keys_rev, prim_getitem_ints_ints, prim_getitem_pair1,
      prim_item1, prim_slice_rev, prim_not, prim_all, prim_sum, prim_sort, prim_repeat, prim_arange, prim_zeros_like_keys,
      prim_zeros_like_ints, prim_bincount, prim_cumsum, prim_concatenate, prim_max, prim_view, prim_list_nil,
      prim_list_one, prim_tuple, prim_add_ints_int, prim_add_int_ints, prim_add_int_int, prim_eq_int, prim_eq_name, prim_lt,
      prim_kw_kind, prim_kw_return_inverse, prim_kw_return_index, prim_kw_key, prim_kw_reverse,
      if_true, List.length_map, Int.toNat_zero, Int.toNat_one, Int.toNat_natCast, Int.natCast_nonneg, and_self, $ts,*])

/-- what the lemmas about `rankBody` assume of its two sub-terms: `v'` (the optimised vector) evaluates to the data vector
    `zs` and `na` to the mask of its missing elements, whatever has been written so far. -/
structure VecAt (C : Ctx κ) (env : Env κ) (v' na : Term) (zs : List (Option κ)) : Prop where
  v : ∀ σ, ZKeys σ → evalExpr C σ env v' = some (.keys zs)
  na : ∀ σ, ZKeys σ → evalExpr C σ env na = some (.mask (zs.map isNa))

theorem execStmt_store (C : Ctx κ) (env : Env κ) (obj ix e : Term) (σ : Store κ) {v o i o' : Val κ}
    (he : evalExpr C σ env e = some v) (ho : evalExpr C σ env obj = some o) (hi : evalExpr C σ env ix = some i)
    (ha : assign o i v = some o') : execStmt C env (setAt obj ix e) σ = some ((obj, o') :: σ) := by
  unfold setAt
  rw [execStmt]
  simp only [he, ho, hi, ha, Option.map_some]

theorem execBlock_cons (C : Ctx κ) (env : Env κ) (s : Term) (ss : List Term) (σ : Store κ) :
    execBlock C env (s :: ss) σ = (execStmt C env s σ).bind (execBlock C env ss) := by
  rw [execBlock]; cases execStmt C env s σ <;> rfl

theorem execBlock_nil (C : Ctx κ) (env : Env κ) (σ : Store κ) : execBlock C env [] σ = some σ := by rw [execBlock]

theorem execBlock_two (C : Ctx κ) (env : Env κ) {s1 s2 : Term} {σ σ1 σ2 : Store κ}
    (h1 : execStmt C env s1 σ = some σ1) (h2 : execStmt C env s2 σ1 = some σ2) :
    execBlock C env [s1, s2] σ = some σ2 := by
  simp only [execBlock_cons, execBlock_nil, h1, h2, Option.bind_some]

theorem execBlock_three (C : Ctx κ) (env : Env κ) {s1 s2 s3 : Term} {σ σ1 σ2 σ3 : Store κ}
    (h1 : execStmt C env s1 σ = some σ1) (h2 : execStmt C env s2 σ1 = some σ2) (h3 : execStmt C env s3 σ2 = some σ3) :
    execBlock C env [s1, s2, s3] σ = some σ3 := by
  simp only [execBlock_cons, execBlock_nil, h1, h2, h3, Option.bind_some]

theorem runOut_ret (C : Ctx κ) (env : Env κ) (effs : List Term) (t : Term) {σ : Store κ} {v : Val κ}
    (h1 : execBlock C env effs [] = some σ) (h2 : evalExpr C σ env t = some v) :
    runOut C env (Out.ret effs t) = some (.val v) := by
  simp only [runOut, h1, h2, Option.map_some]

theorem evalExpr_cons_self (C : Ctx κ) (env : Env κ) (g : String) (args : List Term) (v : Val κ) (σ : Store κ) :
    evalExpr C ((Term.app g args, v) :: σ) env (Term.app g args) = some v :=
  evalExpr_found C _ env g args v (find_cons_self _ _ _)

/-- the array `out`. -/
def outT (v' : Term) : Term := Term.app "np.zeros_like" [v', Term.sym "int"]
/-- the array `rank` of the ordinal method. -/
def rankT (indices : Term) : Term := Term.app "np.zeros_like" [indices]

theorem outT_ne_rankT (v' indices : Term) : outT v' ≠ rankT indices := by
  intro e; simp [outT, rankT] at e

variable {C : Ctx κ} {env : Env κ} {v' na : Term} {zs : List (Option κ)}

theorem eval_notNa (h : VecAt C env v' na zs) {σ : Store κ} (hσ : ZKeys σ) :
    evalExpr C σ env (Term.app "~" [na]) = some (.mask (notNa zs)) := by
  ev_simp [evalExpr_app_nz C env _ hσ, h.na σ hσ]
  rfl

theorem eval_inv (hu : Unshadowed env) (h : VecAt C env v' na zs) {σ : Store κ} (hσ : ZKeys σ) :
    evalExpr C σ env (inv v' na) = some (.ints (npUniqueInverse (cle C) (select (notNa zs) zs))) := by
  unfold inv
  ev_simp [evalExpr_app_nz C env _ hσ, h.na σ hσ, h.v σ hσ, lookupSym_True hu]
  rfl

/-- `out = np.zeros_like(v', int)` while it has not been assigned to (whatever else has). -/
theorem eval_out0 (hu : Unshadowed env) (h : VecAt C env v' na zs) {σ : Store κ} (hσ : ZKeys σ)
    (hf : σ.find (outT v') = none) :
    evalExpr C σ env (outT v') = some (.ints (List.replicate zs.length 0)) := by
  unfold outT at hf ⊢
  rw [evalExpr_app C σ env _ _ hf]
  ev_simp [h.v σ hσ, lookupSym_name hu]

/-- `out.view(v'.__class__)`: the integer array itself. -/
theorem eval_asVector (h : VecAt C env v' na zs) {σ : Store κ} (hσ : ZKeys σ) (l : List Nat) :
    evalExpr C ((outT v', .ints l) :: σ) env (asVector (outT v') v') = some (.ints l) := by
  have z : ZKeys ((outT v', Val.ints l) :: σ) := hσ.cons _ _
  unfold asVector
  rw [evalExpr_app_nz C env _ z (by decide)]
  unfold outT at z ⊢
  ev_simp [evalExpr_cons_self, evalExpr_app_nz C env _ z, h.v _ z]

/-- **rank, method 'min'**: the body computes `arrMin`. -/
theorem rankBody_min (hu : Unshadowed env) (truth : Term → Bool) (v na : Term) (h : VecAt C env (opt v) na zs)
    (hm : truth (Term.app "Eq" [Term.sym "method", Term.sym "'min'"]) = true) :
    runOut C env (rankBody truth v na) = some (.val (.ints (arrMin (cle C) zs))) := by
  unfold rankBody
  simp only [hm, if_true]
  generalize opt v = v' at h
  have hb : inBounds (npUniqueInverse (cle C) (select (notNa zs) zs))
      (cumsum ([0] ++ npBincount (npUniqueInverse (cle C) (select (notNa zs) zs)))).length = true := by
    rw [inBounds_iff]; intro k hk
    have := length_npBincount_of_mem hk
    rw [length_cumsum]; simp; omega
  have hl : (npUniqueInverse (cle C) (select (notNa zs) zs)).length = countTrue (notNa zs) := by
    unfold npUniqueInverse; rw [List.length_map, length_select _ _ (length_notNa zs)]
  have z0 : ZKeys ([] : Store κ) := ZKeys.nil
  have s1 := execStmt_store C env (outT v') (Term.app "~" [na])
    (Term.app "Add" [Term.app "getitem" [Term.app ".cumsum"
      [Term.app "np.concatenate" [Term.app "tuple" [Term.app "list" [Term.int 0], Term.app "np.bincount" [inv v' na]]]], inv v' na], Term.int 1])
    [] (v := .ints ((gather (cumsum ([0] ++ npBincount (npUniqueInverse (cle C) (select (notNa zs) zs))))
        (npUniqueInverse (cle C) (select (notNa zs) zs))).map (· + 1)))
    (by rw [evalExpr_app_nz C env _ z0 (by decide)]; ev_simp [evalExpr_app_nz C env _ z0, eval_inv hu h z0, hb])
    (eval_out0 hu h z0 rfl) (eval_notNa h z0)
    (o' := .ints (maskWrite (notNa zs) (List.replicate zs.length 0)
      ((gather (cumsum ([0] ++ npBincount (npUniqueInverse (cle C) (select (notNa zs) zs))))
        (npUniqueInverse (cle C) (select (notNa zs) zs))).map (· + 1))))
    (by simp [assign, length_notNa, gather, hl])
  generalize ho1 : maskWrite (notNa zs) (List.replicate zs.length 0)
      ((gather (cumsum ([0] ++ npBincount (npUniqueInverse (cle C) (select (notNa zs) zs))))
        (npUniqueInverse (cle C) (select (notNa zs) zs))).map (· + 1)) = o1 at s1
  have hlo : o1.length = zs.length := by rw [← ho1, length_maskWrite]; simp
  have z1 : ZKeys [(outT v', Val.ints o1)] := z0.cons _ _
  have e : ((countTrue (notNa zs) : Int) + 1).toNat = countTrue (notNa zs) + 1 := by omega
  have s2 := execStmt_store C env (outT v') na
    (Term.app "Add" [Term.app ".sum" [Term.app "~" [na]], Term.int 1]) [(outT v', Val.ints o1)]
    (v := .int ((countTrue (notNa zs) : Int) + 1))
    (by rw [evalExpr_app_nz C env _ z1 (by decide)]; ev_simp [evalExpr_app_nz C env _ z1, h.na _ z1]; rfl)
    (evalExpr_cons_self C env _ _ _ _) (h.na _ z1)
    (o' := .ints (maskFill (zs.map isNa) o1 (countTrue (notNa zs) + 1)))
    (by simp only [assign]; rw [if_pos ⟨by simp [hlo], by omega⟩, e])
  have := runOut_ret C env _ _ (execBlock_two C env s1 s2) (eval_asVector h z1 _)
  subst ho1
  exact this

/-- **rank, method 'max'**: the body computes `arrMax`. -/
theorem rankBody_max (hu : Unshadowed env) (truth : Term → Bool) (v na : Term) (h : VecAt C env (opt v) na zs)
    (hm1 : truth (Term.app "Eq" [Term.sym "method", Term.sym "'min'"]) = false)
    (hm : truth (Term.app "Eq" [Term.sym "method", Term.sym "'max'"]) = true) :
    runOut C env (rankBody truth v na) = some (.val (.ints (arrMax (cle C) zs))) := by
  unfold rankBody
  simp only [hm1, hm, if_true, Bool.false_eq_true, if_false]
  generalize opt v = v' at h
  have hb : inBounds (npUniqueInverse (cle C) (select (notNa zs) zs))
      (cumsum (npBincount (npUniqueInverse (cle C) (select (notNa zs) zs)))).length = true := by
    rw [inBounds_iff]; intro k hk
    have := length_npBincount_of_mem hk
    rw [length_cumsum]; exact this
  have hl : (npUniqueInverse (cle C) (select (notNa zs) zs)).length = countTrue (notNa zs) := by
    unfold npUniqueInverse; rw [List.length_map, length_select _ _ (length_notNa zs)]
  have z0 : ZKeys ([] : Store κ) := ZKeys.nil
  have s1 := execStmt_store C env (outT v') (Term.app "~" [na])
    (Term.app "getitem" [Term.app ".cumsum" [Term.app "np.bincount" [inv v' na]], inv v' na])
    [] (v := .ints (gather (cumsum (npBincount (npUniqueInverse (cle C) (select (notNa zs) zs))))
        (npUniqueInverse (cle C) (select (notNa zs) zs))))
    (by rw [evalExpr_app_nz C env _ z0 (by decide)]; ev_simp [evalExpr_app_nz C env _ z0, eval_inv hu h z0, hb])
    (eval_out0 hu h z0 rfl) (eval_notNa h z0)
    (o' := .ints (maskWrite (notNa zs) (List.replicate zs.length 0)
      (gather (cumsum (npBincount (npUniqueInverse (cle C) (select (notNa zs) zs))))
        (npUniqueInverse (cle C) (select (notNa zs) zs)))))
    (by simp [assign, length_notNa, gather, hl])
  generalize ho1 : maskWrite (notNa zs) (List.replicate zs.length 0)
      (gather (cumsum (npBincount (npUniqueInverse (cle C) (select (notNa zs) zs))))
        (npUniqueInverse (cle C) (select (notNa zs) zs))) = o1 at s1
  have hlo : o1.length = zs.length := by rw [← ho1, length_maskWrite]; simp
  have z1 : ZKeys [(outT v', Val.ints o1)] := z0.cons _ _
  have s2 := execStmt_store C env (outT v') na (Term.app "len" [v']) [(outT v', Val.ints o1)]
    (v := .int (zs.length : Int))
    (by rw [evalExpr_app_nz C env _ z1 (by decide)]; ev_simp [h.v _ z1])
    (evalExpr_cons_self C env _ _ _ _) (h.na _ z1)
    (o' := .ints (maskFill (zs.map isNa) o1 zs.length))
    (by simp only [assign]; rw [if_pos ⟨by simp [hlo], by omega⟩, Int.toNat_natCast])
  have := runOut_ret C env _ _ (execBlock_two C env s1 s2) (eval_asVector h z1 _)
  subst ho1
  exact this

theorem eval_indices (hu : Unshadowed env) (h : VecAt C env v' na zs) {σ : Store κ} (hσ : ZKeys σ) :
    evalExpr C σ env (stableArgsort (Term.app "getitem" [v', Term.app "~" [na]]))
      = some (.ints (argsort (cle C) (select (notNa zs) zs))) := by
  unfold stableArgsort
  ev_simp [evalExpr_app_nz C env _ hσ, h.na σ hσ, h.v σ hσ, lookupSym_name hu]
  rfl

/-- **rank, method 'ordinal'**: the body computes `arrOrd` (some element must be non-missing: `rank.max()`). -/
theorem rankBody_ord (hu : Unshadowed env) (truth : Term → Bool) (v na : Term) (h : VecAt C env (opt v) na zs)
    (hpos : 0 < (nonNa zs).length)
    (hm1 : truth (Term.app "Eq" [Term.sym "method", Term.sym "'min'"]) = false)
    (hm2 : truth (Term.app "Eq" [Term.sym "method", Term.sym "'max'"]) = false)
    (hm : truth (Term.app "Eq" [Term.sym "method", Term.sym "'ordinal'"]) = true) :
    runOut C env (rankBody truth v na) = some (.val (.ints (arrOrd (cle C) zs))) := by
  unfold rankBody
  simp only [hm1, hm2, hm, if_true, Bool.false_eq_true, if_false]
  generalize opt v = v' at h
  generalize hI : argsort (cle C) (select (notNa zs) zs) = I
  have hIl : I.length = countTrue (notNa zs) := by
    rw [← hI, length_argsort, length_select _ _ (length_notNa zs)]
  have hIb : inBounds I I.length = true := by
    rw [inBounds_iff]; intro i hi
    rw [← hI] at hi ⊢
    have := (argsort_perm (cle C) (select (notNa zs) zs)).mem_iff.mp hi
    rw [length_argsort]; simpa using this
  have z0 : ZKeys ([] : Store κ) := ZKeys.nil
  have hind : ∀ σ : Store κ, ZKeys σ →
      evalExpr C σ env (stableArgsort (Term.app "getitem" [v', Term.app "~" [na]])) = some (.ints I) := by
    intro σ hσ; rw [eval_indices hu h hσ, hI]
  generalize stableArgsort (Term.app "getitem" [v', Term.app "~" [na]]) = indices at hind
  -- rank[indices] = np.arange(len(indices)) + 1
  have s1 := execStmt_store C env (rankT indices) indices
    (Term.app "Add" [Term.app "np.arange" [Term.app "len" [indices]], Term.int 1]) []
    (v := .ints ((List.range I.length).map (· + 1)))
    (by rw [evalExpr_app_nz C env _ z0 (by decide)]; ev_simp [evalExpr_app_nz C env _ z0, hind _ z0])
    (o := .ints (List.replicate I.length 0))
    (by unfold rankT; rw [evalExpr_app C [] env _ _ rfl]; ev_simp [hind _ z0])
    (hind _ z0)
    (o' := .ints (arrRk I))
    (by simp [assign, hIb, arrRk])
  have hrl : (arrRk I).length = I.length := by simp [arrRk, length_fancyWrite]
  have hrne : arrRk I ≠ [] := by
    intro e; rw [e] at hrl; rw [countTrue_notNa] at hIl; simp at hrl; omega
  generalize hrk : arrRk I = rk at s1 hrl hrne
  have z1 : ZKeys [(rankT indices, Val.ints rk)] := z0.cons _ _
  -- out[~na] = rank
  have s2 := execStmt_store C env (outT v') (Term.app "~" [na]) (rankT indices) [(rankT indices, Val.ints rk)]
    (evalExpr_cons_self C env _ _ _ _)
    (eval_out0 hu h z1 (by rw [find_cons_ne _ _ _ _ (outT_ne_rankT _ _).symm]; rfl))
    (eval_notNa h z1)
    (o' := .ints (maskWrite (notNa zs) (List.replicate zs.length 0) rk))
    (by simp [assign, length_notNa, hrl, hIl])
  generalize ho1 : maskWrite (notNa zs) (List.replicate zs.length 0) rk = o1 at s2
  have hlo : o1.length = zs.length := by rw [← ho1, length_maskWrite]; simp
  have z2 : ZKeys [(outT v', Val.ints o1), (rankT indices, Val.ints rk)] := z1.cons _ _
  have hrk2 : evalExpr C [(outT v', Val.ints o1), (rankT indices, Val.ints rk)] env (rankT indices) = some (.ints rk) := by
    have hf : Store.find [(outT v', (Val.ints o1 : Val κ)), (rankT indices, Val.ints rk)] (rankT indices) = some (.ints rk) := by
      rw [find_cons_ne _ _ _ _ (outT_ne_rankT _ _)]; exact find_cons_self _ _ _
    exact evalExpr_found C _ env "np.zeros_like" [indices] _ hf
  -- out[na] = rank.max() + np.arange(na.sum()) + 1
  have s3 := execStmt_store C env (outT v') na
    (Term.app "Add" [Term.app "Add" [Term.app ".max" [rankT indices], Term.app "np.arange" [Term.app ".sum" [na]]], Term.int 1])
    [(outT v', Val.ints o1), (rankT indices, Val.ints rk)]
    (v := .ints (((List.range (countTrue (zs.map isNa))).map (maxD rk + ·)).map (· + 1)))
    (by rw [evalExpr_app_nz C env _ z2 (by decide)]
        ev_simp [evalExpr_app_nz C env _ z2, hrk2, h.na _ z2, hrne, if_false])
    (evalExpr_cons_self C env _ _ _ _) (h.na _ z2)
    (o' := .ints (maskWrite (zs.map isNa) o1
      (((List.range (countTrue (zs.map isNa))).map (maxD rk + ·)).map (· + 1))))
    (by simp [assign, hlo])
  have := runOut_ret C env _ _ (execBlock_three C env s1 s2 s3) (eval_asVector h z2 _)
  subst ho1 hrk hI
  exact this

/-- **rank, any other method**: ValueError. -/
theorem rankBody_bad (truth : Term → Bool) (v na : Term)
    (hm1 : truth (Term.app "Eq" [Term.sym "method", Term.sym "'min'"]) = false)
    (hm2 : truth (Term.app "Eq" [Term.sym "method", Term.sym "'max'"]) = false)
    (hm3 : truth (Term.app "Eq" [Term.sym "method", Term.sym "'ordinal'"]) = false) :
    runOut C env (rankBody truth v na) = some (.raise "ValueError") := by
  unfold rankBody
  simp only [hm1, hm2, hm3, Bool.false_eq_true, if_false]
  rfl

/-! ### the whole of `rank` -/

/-- `self.fast(np.repeat(1, self.length))`. -/
def onesT : Term :=
  Term.app ".fast" [Term.sym "self", Term.app "np.repeat" [Term.int 1, Term.app ".length" [Term.sym "self"]]]

/-- the normal form of `Vector.rank` (`Tie.C11.rank_code`). -/
def rankNF (truth : Term → Bool) : Out :=
  if truth (Term.app "Eq" [Term.app ".length" [Term.sym "self"], Term.int 0]) then
    Out.ret [] (Term.app ".fast" [Term.sym "self", Term.app "list" [], Term.sym "int"])
  else if truth (Term.app ".all" [Term.app ".is_na" [Term.sym "self"]]) then
    rankBody truth onesT (Term.app ".is_na" [onesT])
  else rankBody truth (Term.sym "self") (Term.app ".is_na" [Term.sym "self"])

theorem rank_nf (truth : Term → Bool) : Gen.Vector_rank truth = rankNF truth := rank_code truth

theorem evalExpr_app_nil (C : Ctx κ) (env : Env κ) (g : String) (args : List Term) :
    evalExpr C [] env (.app g args) = (evalArgs C [] env args).bind (prim C g) :=
  evalExpr_app C [] env g args rfl

variable {xs : List (Option κ)}

theorem vecAt_self (hself : env.get? "self" = some (.keys xs)) :
    VecAt C env (opt (Term.sym "self")) (Term.app ".is_na" [Term.sym "self"]) (optv C xs) := by
  constructor
  · intro σ hσ
    unfold opt
    ev_simp [evalExpr_app_nz C env _ hσ, lookupSym_bound env hself]
    rfl
  · intro σ hσ
    ev_simp [evalExpr_app_nz C env _ hσ, lookupSym_bound env hself]
    rw [optv_isNa]

/-- the constant vector that replaces an entirely missing one. -/
def onesV (C : Ctx κ) (n : Nat) : List (Option κ) := (List.replicate n 1).map (fun k => some (C.ofNat k))

theorem vecAt_ones (hself : env.get? "self" = some (.keys xs)) :
    VecAt C env (opt onesT) (Term.app ".is_na" [onesT]) (optv C (onesV C xs.length)) := by
  have hones : ∀ σ : Store κ, ZKeys σ → evalExpr C σ env onesT = some (.keys (onesV C xs.length)) := by
    intro σ hσ
    unfold onesT
    ev_simp [evalExpr_app_nz C env _ hσ, lookupSym_bound env hself]
    rfl
  constructor
  · intro σ hσ
    unfold opt
    ev_simp [evalExpr_app_nz C env _ hσ, hones σ hσ]
    rfl
  · intro σ hσ
    ev_simp [evalExpr_app_nz C env _ hσ, hones σ hσ]
    rw [optv_isNa]

theorem optv_onesV (C : Ctx κ) (xs : List (Option κ)) :
    optv C (onesV C xs.length) = xs.map (fun _ => some (C.optKey (C.ofNat 1))) := by
  simp [optv, onesV, List.map_replicate, List.map_const']

theorem test_len (hself : env.get? "self" = some (.keys xs)) :
    evalExpr C [] env (Term.app "Eq" [Term.app ".length" [Term.sym "self"], Term.int 0])
      = some (.bool (decide (xs.length = 0))) := by
  ev_simp [evalExpr_app_nil, lookupSym_bound env hself]
  by_cases h : xs.length = 0
  · simp [h]
  · simp [h]

theorem test_all (hself : env.get? "self" = some (.keys xs)) :
    evalExpr C [] env (Term.app ".all" [Term.app ".is_na" [Term.sym "self"]]) = some (.bool (xs.all isNa)) := by
  ev_simp [evalExpr_app_nil, lookupSym_bound env hself]
  simp [List.all_map, Function.comp_def]

theorem test_min (hu : Unshadowed env) {m : String} (hmeth : env.get? "method" = some (.name m)) :
    evalExpr C [] env (Term.app "Eq" [Term.sym "method", Term.sym "'min'"]) = some (.bool (m == "'min'")) := by
  ev_simp [evalExpr_app_nil, lookupSym_bound env hmeth, lookupSym_name hu]

theorem test_max (hu : Unshadowed env) {m : String} (hmeth : env.get? "method" = some (.name m)) :
    evalExpr C [] env (Term.app "Eq" [Term.sym "method", Term.sym "'max'"]) = some (.bool (m == "'max'")) := by
  ev_simp [evalExpr_app_nil, lookupSym_bound env hmeth, lookupSym_name hu]

theorem test_ordinal (hu : Unshadowed env) {m : String} (hmeth : env.get? "method" = some (.name m)) :
    evalExpr C [] env (Term.app "Eq" [Term.sym "method", Term.sym "'ordinal'"]) = some (.bool (m == "'ordinal'")) := by
  ev_simp [evalExpr_app_nil, lookupSym_bound env hmeth, lookupSym_name hu]

theorem nonNa_pos_of_not_all : ∀ (xs : List (Option κ)), xs.all isNa = false → 0 < (nonNa xs).length
  | [], h => by simp at h
  | none :: xs, h => by
    have := nonNa_pos_of_not_all xs (by simpa [isNa] using h)
    simpa [nonNa] using this
  | some a :: xs, _ => by simp [nonNa]

theorem length_nonNa_optv (C : Ctx κ) (xs : List (Option κ)) : (nonNa (optv C xs)).length = (nonNa xs).length := by
  rw [← countTrue_notNa, ← countTrue_notNa, notNa, notNa, optv_isNa]

/-- **rank, the guards**: the empty vector gives the empty integer vector; an entirely missing vector is replaced by a
    constant one; then the method body `core` runs on the optimised copy. -/
theorem rank_run (hu : Unshadowed env) (hself : env.get? "self" = some (.keys xs)) {truth : Term → Bool}
    (hag : Agrees C env truth) (core : List (Option κ) → List Nat)
    (hbody : ∀ v na zs, VecAt C env (opt v) na zs → 0 < (nonNa zs).length →
      runOut C env (rankBody truth v na) = some (.val (.ints (core zs)))) :
    runOut C env (rankNF truth) = some (.val (.ints
      (if xs.length = 0 then [] else
        core (if xs.all isNa then xs.map (fun _ => some (C.optKey (C.ofNat 1))) else optv C xs)))) := by
  have t1 := hag _ _ (test_len hself)
  have t2 := hag _ _ (test_all hself)
  unfold rankNF
  rw [t1, t2]
  by_cases h0 : xs.length = 0
  · simp only [h0, decide_true, if_true]
    refine runOut_ret C env _ _ (execBlock_nil C env _) ?_
    ev_simp [evalExpr_app_nil, lookupSym_bound env hself, lookupSym_name hu]
  · simp only [h0, decide_false, Bool.false_eq_true, if_false]
    have hpos : 0 < xs.length := by omega
    by_cases hall : xs.all isNa = true
    · simp only [hall, if_true]
      rw [← optv_onesV]
      apply hbody _ _ _ (vecAt_ones hself)
      rw [optv_onesV]
      simp [nonNa, List.filterMap_map, Function.comp_def, hpos]
    · have hall' : xs.all isNa = false := by simpa using hall
      simp only [hall', Bool.false_eq_true, if_false]
      apply hbody _ _ _ (vecAt_self hself)
      rw [length_nonNa_optv]
      exact nonNa_pos_of_not_all xs hall'

/-! ### the three methods: from the array pipeline to the model's `vrank` -/

theorem rankMinSpec_optv (hopt : OptPreservesOrder C) (xs : List (Option κ)) :
    rankMinSpec C.le (optv C xs) = rankMinSpec C.le xs := by
  unfold rankMinSpec optv
  rw [List.map_map]
  apply List.map_congr_left
  intro x _
  simp only [Function.comp]
  rw [List.filter_map, List.length_map]
  congr 2
  apply List.filter_congr
  intro y _
  cases x <;> cases y <;> simp [ltNaLast, ltOf, hopt _ _]

theorem rankMaxSpec_optv (hopt : OptPreservesOrder C) (xs : List (Option κ)) :
    rankMaxSpec C.le (optv C xs) = rankMaxSpec C.le xs := by
  unfold rankMaxSpec optv
  rw [List.map_map]
  apply List.map_congr_left
  intro x _
  simp only [Function.comp]
  rw [List.filter_map, List.length_map]
  congr 1
  apply List.filter_congr
  intro y _
  cases x <;> cases y <;> simp [ltNaLast, ltOf, hopt _ _]

theorem rankOrdSpec_optv (hle : PreOrd C.le) (hopt : OptPreservesOrder C) (xs : List (Option κ)) :
    rankOrdSpec C.le (optv C xs) = rankOrdSpec C.le xs := by
  rw [rankOrdSpec_eq_invPerm hle, rankOrdSpec_eq_invPerm hle]
  unfold leNaLast
  rw [argsort_optv hopt false]

/-- `if empty then [] else core (constant vector | optimised copy)` is the model's `vrank`, for each method. -/
theorem guard_min (hle : LinOrd C.le) (hopt : OptPreservesOrder C) (one : κ) (xs : List (Option κ)) :
    (if xs.length = 0 then [] else
      rankMinCore C.le (if xs.all isNa then xs.map (fun _ => some (C.optKey (C.ofNat 1))) else optv C xs))
      = vrank C.le one .min xs := by
  rw [vrank_min_spec hle]
  by_cases h0 : xs.length = 0
  · have : xs = [] := List.eq_nil_of_length_eq_zero h0
    subst this; simp [rankMinSpec]
  · rw [if_neg h0]
    by_cases hall : xs.all isNa = true
    · rw [if_pos hall, ← vrank_min_spec hle (C.optKey (C.ofNat 1))]
      simp [vrank, h0, hall]
    · rw [if_neg hall, rankMinCore_spec hle, rankMinSpec_optv hopt]

theorem guard_max (hle : LinOrd C.le) (hopt : OptPreservesOrder C) (one : κ) (xs : List (Option κ)) :
    (if xs.length = 0 then [] else
      rankMaxCore C.le (if xs.all isNa then xs.map (fun _ => some (C.optKey (C.ofNat 1))) else optv C xs))
      = vrank C.le one .max xs := by
  rw [vrank_max_spec hle]
  by_cases h0 : xs.length = 0
  · have : xs = [] := List.eq_nil_of_length_eq_zero h0
    subst this; simp [rankMaxSpec]
  · rw [if_neg h0]
    by_cases hall : xs.all isNa = true
    · rw [if_pos hall, ← vrank_max_spec hle (C.optKey (C.ofNat 1))]
      simp [vrank, h0, hall]
    · rw [if_neg hall, rankMaxCore_spec hle, rankMaxSpec_optv hopt]

theorem guard_ord (hle : PreOrd C.le) (hopt : OptPreservesOrder C) (one : κ) (xs : List (Option κ)) :
    (if xs.length = 0 then [] else
      rankOrdCore C.le (if xs.all isNa then xs.map (fun _ => some (C.optKey (C.ofNat 1))) else optv C xs))
      = vrank C.le one .ordinal xs := by
  rw [vrank_ordinal_spec hle]
  by_cases h0 : xs.length = 0
  · have : xs = [] := List.eq_nil_of_length_eq_zero h0
    subst this; simp [rankOrdSpec]
  · rw [if_neg h0]
    by_cases hall : xs.all isNa = true
    · rw [if_pos hall, ← vrank_ordinal_spec hle (C.optKey (C.ofNat 1))]
      simp [vrank, h0, hall]
    · rw [if_neg hall, rankOrdCore_spec hle, rankOrdSpec_optv hle hopt]

variable {truth : Term → Bool}

/-- **rank(method='min')**: code ⇒ semantics ⇒ `vrank … .min`. -/
theorem rank_min_run (hle : LinOrd C.le) (hopt : OptPreservesOrder C) (hu : Unshadowed env)
    (hself : env.get? "self" = some (.keys xs)) (hmeth : env.get? "method" = some (.name "'min'"))
    (hag : Agrees C env truth) (one : κ) :
    runOut C env (rankNF truth) = some (.val (.ints (vrank C.le one .min xs))) := by
  have tm : truth (Term.app "Eq" [Term.sym "method", Term.sym "'min'"]) = true := hag _ _ (test_min hu hmeth)
  rw [rank_run hu hself hag (rankMinCore C.le)
    (fun v na zs hv _ => by rw [rankBody_min hu truth v na hv tm, cle, arrMin_eq hle]), guard_min hle hopt one]

/-- **rank(method='max')**: code ⇒ semantics ⇒ `vrank … .max`. -/
theorem rank_max_run (hle : LinOrd C.le) (hopt : OptPreservesOrder C) (hu : Unshadowed env)
    (hself : env.get? "self" = some (.keys xs)) (hmeth : env.get? "method" = some (.name "'max'"))
    (hag : Agrees C env truth) (one : κ) :
    runOut C env (rankNF truth) = some (.val (.ints (vrank C.le one .max xs))) := by
  have tm1 : truth (Term.app "Eq" [Term.sym "method", Term.sym "'min'"]) = false := hag _ _ (test_min hu hmeth)
  have tm : truth (Term.app "Eq" [Term.sym "method", Term.sym "'max'"]) = true := hag _ _ (test_max hu hmeth)
  rw [rank_run hu hself hag (rankMaxCore C.le)
    (fun v na zs hv _ => by rw [rankBody_max hu truth v na hv tm1 tm, cle, arrMax_eq hle]), guard_max hle hopt one]

/-- **rank(method='ordinal')**: code ⇒ semantics ⇒ `vrank … .ordinal`. -/
theorem rank_ordinal_run (hle : PreOrd C.le) (hopt : OptPreservesOrder C) (hu : Unshadowed env)
    (hself : env.get? "self" = some (.keys xs)) (hmeth : env.get? "method" = some (.name "'ordinal'"))
    (hag : Agrees C env truth) (one : κ) :
    runOut C env (rankNF truth) = some (.val (.ints (vrank C.le one .ordinal xs))) := by
  have tm1 : truth (Term.app "Eq" [Term.sym "method", Term.sym "'min'"]) = false := hag _ _ (test_min hu hmeth)
  have tm2 : truth (Term.app "Eq" [Term.sym "method", Term.sym "'max'"]) = false := hag _ _ (test_max hu hmeth)
  have tm : truth (Term.app "Eq" [Term.sym "method", Term.sym "'ordinal'"]) = true := hag _ _ (test_ordinal hu hmeth)
  rw [rank_run hu hself hag (rankOrdCore C.le)
    (fun v na zs hv hpos => by rw [rankBody_ord hu truth v na hv hpos tm1 tm2 tm, cle, arrOrd_eq _ _ _ hpos]),
    guard_ord hle hopt one]

/-- **rank, any other method**: a non-empty vector raises ValueError (the empty one returns the empty vector BEFORE the
    method is looked at). -/
theorem rank_bad_run (hself : env.get? "self" = some (.keys xs)) (hu : Unshadowed env) {m : String}
    (hmeth : env.get? "method" = some (.name m)) (h1 : m ≠ "'min'") (h2 : m ≠ "'max'") (h3 : m ≠ "'ordinal'")
    (hag : Agrees C env truth) (hne : xs ≠ []) :
    runOut C env (rankNF truth) = some (.raise "ValueError") := by
  have t1 := hag _ _ (test_len (C := C) hself)
  have tm1 : truth (Term.app "Eq" [Term.sym "method", Term.sym "'min'"]) = false := by
    rw [hag _ _ (test_min hu hmeth)]; simpa using h1
  have tm2 : truth (Term.app "Eq" [Term.sym "method", Term.sym "'max'"]) = false := by
    rw [hag _ _ (test_max hu hmeth)]; simpa using h2
  have tm3 : truth (Term.app "Eq" [Term.sym "method", Term.sym "'ordinal'"]) = false := by
    rw [hag _ _ (test_ordinal hu hmeth)]; simpa using h3
  have h0 : ¬ xs.length = 0 := fun e => hne (List.eq_nil_of_length_eq_zero e)
  unfold rankNF
  rw [t1]
  simp only [h0, decide_false, Bool.false_eq_true, if_false]
  split <;> exact rankBody_bad truth _ _ tm1 tm2 tm3

/-- … and the empty vector returns the empty integer vector whatever the method. -/
theorem rank_empty_run (hself : env.get? "self" = some (.keys ([] : List (Option κ)))) (hu : Unshadowed env)
    (hag : Agrees C env truth) : runOut C env (rankNF truth) = some (.val (.ints [])) := by
  have t1 := hag _ _ (test_len (C := C) hself)
  unfold rankNF
  rw [t1]
  simp only [List.length_nil, decide_true, if_true]
  refine runOut_ret C env _ _ (execBlock_nil C env _) ?_
  ev_simp [evalExpr_app_nil, lookupSym_bound env hself, lookupSym_name hu]

/-! ### `sort` -/

/-- the normal form of `Vector.sort` (`Tie.C11.sort_code`). -/
def sortNF (truth : Term → Bool) : Out :=
  if truth (Term.app ".is_object" [Term.sym "self"]) then
    Out.ret [] (naLast (Term.app ".fast" [Term.sym "self",
      Term.app "sorted" [Term.sym "self", Term.app "=key" [Term.sym "str"], Term.app "=reverse" [Term.app "Lt" [Term.sym "dir", Term.int 0]]],
      Term.sym "object"]))
  else
    let asc := Term.app "getitem" [Term.sym "self", stableArgsort (opt (Term.sym "self"))]
    if truth (Term.app "Lt" [Term.sym "dir", Term.int 0]) then
      Out.ret [] (naLast (Term.app "getitem" [asc, Term.app "slice" [Term.sym "None", Term.sym "None", Term.int (-1)]]))
    else Out.ret [] (naLast asc)

theorem sort_nf (truth : Term → Bool) : Gen.Vector_sort truth = sortNF truth := sort_code truth

/-- `new[~na].concat(new[na])`: the non-missing elements in their order, then the missing ones. -/
theorem eval_naLast {new : Term} {ys : List (Option κ)} (hnew : evalExpr C [] env new = some (.keys ys)) :
    evalExpr C [] env (naLast new) = some (.keys (ys.filter (fun y => !isNa y) ++ ys.filter isNa)) := by
  unfold naLast
  ev_simp [evalExpr_app_nil, hnew, List.map_map]
  rw [select_map, select_map]
  rfl

theorem gather_filter {α : Type} [Inhabited α] (xs : List α) (idx : List Nat) (p : α → Bool) :
    (gather xs idx).filter p = gather xs (idx.filter (fun i => p xs[i]!)) := by
  unfold gather
  rw [List.filter_map]
  rfl

/-- the values `Vector.sort` returns are the model's `vsort` positions read in the input. -/
theorem gather_vsort (le : κ → κ → Bool) (nf desc : Bool) (xs : List (Option κ)) :
    (gather xs (if desc then (argsort (leRaw le nf) xs).reverse else argsort (leRaw le nf) xs)).filter (fun y => !isNa y)
      ++ (gather xs (if desc then (argsort (leRaw le nf) xs).reverse else argsort (leRaw le nf) xs)).filter isNa
      = gather xs (vsort le nf desc xs) := by
  rw [gather_filter, gather_filter]
  unfold vsort gather
  simp only [List.map_append]

theorem inBounds_argsort {α : Type} (le : α → α → Bool) (xs : List α) : inBounds (argsort le xs) xs.length = true := by
  rw [inBounds_iff]
  intro i hi
  simpa using (argsort_perm le xs).mem_iff.mp hi

theorem inBounds_argsort_map {α β : Type} (le : β → β → Bool) (f : α → β) (xs : List α) :
    inBounds (argsort le (xs.map f)) xs.length = true := by
  have := inBounds_argsort le (xs.map f)
  simpa using this

/-- `self[opt.argsort(kind='stable')]`. -/
theorem eval_asc (hu : Unshadowed env) (hself : env.get? "self" = some (.keys xs)) :
    evalExpr C [] env (Term.app "getitem" [Term.sym "self", stableArgsort (opt (Term.sym "self"))])
      = some (.keys (gather xs (argsort (cle C) (optv C xs)))) := by
  unfold stableArgsort opt
  ev_simp [evalExpr_app_nil, lookupSym_bound env hself, lookupSym_name hu, inBounds_argsort_map]
  rfl

theorem test_object (hself : env.get? "self" = some (.keys xs)) :
    evalExpr C [] env (Term.app ".is_object" [Term.sym "self"]) = some (.bool C.isObject) := by
  ev_simp [evalExpr_app_nil, lookupSym_bound env hself]

theorem test_dir {d : Int} (hdir : env.get? "dir" = some (.int d)) :
    evalExpr C [] env (Term.app "Lt" [Term.sym "dir", Term.int 0]) = some (.bool (decide (d < 0))) := by
  ev_simp [evalExpr_app_nil, lookupSym_bound env hdir]

/-- what `sort` computes whatever `_optimize_for_argsort` does: the elements of `self` taken at the stable argsort of the
    optimised COPY, reversed for a descending sort, the missing elements moved behind the others. -/
def sortRaw (C : Ctx κ) (xs : List (Option κ)) (desc : Bool) : List (Option κ) :=
  let ys := gather xs (argsort (cle C) (optv C xs))
  let ys := if desc then ys.reverse else ys
  ys.filter (fun y => !isNa y) ++ ys.filter isNa

/-- **sort (non-object dtypes)**, no assumption on `_optimize_for_argsort`: code ⇒ semantics ⇒ `sortRaw`. -/
theorem sort_run_raw (hu : Unshadowed env) (hself : env.get? "self" = some (.keys xs))
    {d : Int} (hdir : env.get? "dir" = some (.int d)) (hobj : C.isObject = false) (hag : Agrees C env truth) :
    runOut C env (sortNF truth) = some (.val (.keys (sortRaw C xs (decide (d < 0))))) := by
  have t1 := hag _ _ (test_object (C := C) hself)
  have t2 := hag _ _ (test_dir (C := C) hdir)
  have hasc := eval_asc (C := C) hu hself
  unfold sortNF sortRaw
  rw [t1, t2, hobj]
  simp only [Bool.false_eq_true, if_false]
  by_cases hd : d < 0
  · simp only [hd, decide_true, if_true]
    refine runOut_ret C env _ _ (execBlock_nil C env _) (eval_naLast ?_)
    rw [evalExpr_app_nil]
    ev_simp [evalExpr_app_nil, hasc, lookupSym_name hu]
  · simp only [hd, decide_false, Bool.false_eq_true, if_false]
    exact runOut_ret C env _ _ (execBlock_nil C env _) (eval_naLast hasc)

/-- when the optimised copy compares as the original, that is the model's `vsort`. -/
theorem sortRaw_eq (hopt : OptPreservesOrder C) (xs : List (Option κ)) (desc : Bool) :
    sortRaw C xs desc = gather xs (vsort C.le C.naFirst desc xs) := by
  unfold sortRaw
  simp only []
  rw [cle, argsort_optv hopt, ← gather_vsort]
  cases desc <;> simp [gather]

/-- **sort (non-object dtypes)**: code ⇒ semantics ⇒ `vsort`. -/
theorem sort_run (hopt : OptPreservesOrder C) (hu : Unshadowed env) (hself : env.get? "self" = some (.keys xs))
    {d : Int} (hdir : env.get? "dir" = some (.int d)) (hobj : C.isObject = false) (hag : Agrees C env truth) :
    runOut C env (sortNF truth) = some (.val (.keys (gather xs (vsort C.le C.naFirst (decide (d < 0)) xs)))) := by
  rw [sort_run_raw hu hself hdir hobj hag, sortRaw_eq hopt]

/-- **sort (object vectors)**: `sorted(self, key=str, reverse=dir<0)` is a primitive (the model's `argsortPy` over the
    parameter order `leStr`); then the missing elements are moved behind the others: the model's `vsortObj`. -/
theorem sort_object_run (hu : Unshadowed env) (hself : env.get? "self" = some (.keys xs))
    {d : Int} (hdir : env.get? "dir" = some (.int d)) (hobj : C.isObject = true) (hag : Agrees C env truth) :
    runOut C env (sortNF truth)
      = some (.val (.keys (gather xs (vsortObj C.leStr (decide (d < 0)) xs (xs.map isNa))))) := by
  have t1 := hag _ _ (test_object (C := C) hself)
  unfold sortNF
  rw [t1, hobj]
  simp only [if_true]
  have hnew : evalExpr C [] env (Term.app ".fast" [Term.sym "self",
      Term.app "sorted" [Term.sym "self", Term.app "=key" [Term.sym "str"], Term.app "=reverse" [Term.app "Lt" [Term.sym "dir", Term.int 0]]],
      Term.sym "object"]) = some (.keys (gather xs (argsortPy C.leStr (decide (d < 0)) xs))) := by
    ev_simp [evalExpr_app_nil, lookupSym_bound env hself, lookupSym_bound env hdir, lookupSym_name hu]
  refine (runOut_ret C env _ _ (execBlock_nil C env _) (eval_naLast hnew)).trans ?_
  congr 3
  rw [gather_filter, gather_filter]
  unfold vsortObj gather
  simp only [List.map_append]
  have hmem : ∀ i ∈ argsortPy C.leStr (decide (d < 0)) xs, i < xs.length := by
    intro i hi
    unfold argsortPy at hi
    simpa using (argsort_perm _ xs).mem_iff.mp hi
  congr 2
  · apply List.filter_congr
    intro i hi
    have := hmem i hi
    simp [this]
  · apply List.filter_congr
    intro i hi
    have := hmem i hi
    simp [this]

/-! ### `unique` -/

/-- the normal form of `Vector.unique` (`Tie.C11.unique_code`). -/
def uniqueNF : Out :=
  let firsts := Term.app "item1" [Term.app "np.unique" [opt (Term.sym "self"), Term.app "=return_index" [Term.sym "True"]]]
  Out.ret [] (Term.app ".copy" [Term.app "getitem" [Term.sym "self", Term.app ".sort" [firsts]]])

theorem unique_nf (truth : Term → Bool) : Gen.Vector_unique truth = uniqueNF := unique_code truth

theorem inBounds_firstOcc (xs : List (Option κ)) : inBounds (firstOcc xs) xs.length = true := by
  rw [inBounds_iff]
  intro i hi
  unfold firstOcc at hi
  simpa using (List.mem_filter.mp hi).1

/-- **unique**: code ⇒ semantics ⇒ `vunique` (= first occurrences, in position order). -/
theorem unique_run (hle : LinOrd C.le) (hopt : OptPreservesOrder C) (hu : Unshadowed env)
    (hself : env.get? "self" = some (.keys xs)) :
    runOut C env uniqueNF = some (.val (.keys (gather xs (vunique C.le C.naFirst xs)))) := by
  have hidx : (uniqueIndex (cle C) (xs.map (Option.map C.optKey))).mergeSort (fun a b => decide (a ≤ b)) = firstOcc xs := by
    have := vunique_eq_firstOcc hle C.naFirst (optv C xs)
    rw [firstOcc_optv hle hopt] at this
    exact this
  unfold uniqueNF
  simp only []
  refine runOut_ret C env _ _ (execBlock_nil C env _) ?_
  unfold opt
  ev_simp [evalExpr_app_nil, lookupSym_bound env hself, lookupSym_True hu, hidx, inBounds_firstOcc]
  rw [vunique_eq_firstOcc hle]

/-- the evaluator's own answers agree with the evaluator. -/
theorem agrees_truthOf (C : Ctx κ) (env : Env κ) : Agrees C env (truthOf C env) := by
  intro t b h
  simp only [truthOf, h]

end Exec

/-! ### 6. the direct characterisations -/

section Direct

variable {κ : Type}

/-- `rank(method='min')`, directly: a non-missing element gets 1 + the number of non-missing elements strictly smaller;
    every missing element gets (number of non-missing elements) + 1. -/
def rankMinDirect (le : κ → κ → Bool) (xs : List (Option κ)) : List Nat :=
  xs.map (fun x => match x with
    | some a => 1 + ((nonNa xs).filter (fun b => ltOf le b a)).length
    | none => (nonNa xs).length + 1)

/-- `rank(method='max')`, directly: a non-missing element gets the number of non-missing elements smaller or equal;
    every missing element gets the length of the vector. -/
def rankMaxDirect (le : κ → κ → Bool) (xs : List (Option κ)) : List Nat :=
  xs.map (fun x => match x with
    | some a => ((nonNa xs).filter (fun b => le b a)).length
    | none => xs.length)

theorem rankMinSpec_eq_direct (le : κ → κ → Bool) (xs : List (Option κ)) :
    rankMinSpec le xs = rankMinDirect le xs := by
  unfold rankMinSpec rankMinDirect
  apply List.map_congr_left
  intro x _
  cases x with
  | none =>
    have e : xs.filter (fun y => ltNaLast le y none) = xs.filter (fun y => y.isSome) := by
      apply List.filter_congr; intro y _; cases y <;> rfl
    simp only [e, length_filter_isSome]; omega
  | some a =>
    simp only []
    rw [length_filter_nonNa']
    congr 2
    apply List.filter_congr; intro y _; cases y <;> rfl

theorem rankMaxSpec_eq_direct {le : κ → κ → Bool} (h : LinOrd le) (xs : List (Option κ)) :
    rankMaxSpec le xs = rankMaxDirect le xs := by
  unfold rankMaxSpec rankMaxDirect
  apply List.map_congr_left
  intro x _
  cases x with
  | none =>
    have e : xs.filter (fun y => !ltNaLast le none y) = xs := by
      rw [List.filter_eq_self]; intro y _; cases y <;> rfl
    simp only [e]
  | some a =>
    simp only []
    rw [length_filter_nonNa']
    congr 1
    apply List.filter_congr; intro y _
    cases y with
    | none => rfl
    | some b =>
      simp only [ltNaLast, onSome]
      cases hlt : ltOf le a b
      · have : le b a = true := by
          have := h.total a b
          unfold ltOf at hlt; cases h1 : le a b <;> cases h2 : le b a <;> simp_all
        simp [this]
      · have : le b a = false := by
          unfold ltOf at hlt; cases hba : le b a <;> simp_all
        simp [this]

variable [DecidableEq κ]

/-- an entirely missing vector is ranked as all ties. -/
theorem vrank_all_missing {le : κ → κ → Bool} (h : LinOrd le) (one : κ) (n : Nat) :
    vrank le one .min (List.replicate n none) = List.replicate n 1
    ∧ vrank le one .max (List.replicate n none) = List.replicate n n
    ∧ vrank le one .ordinal (List.replicate n none) = List.range' 1 n := by
  refine ⟨?_, ?_, ?_⟩
  · rw [vrank_min_spec h, rankMinSpec_eq_direct]
    simp [rankMinDirect, nonNa]
  · rw [vrank_max_spec h, rankMaxSpec_eq_direct h]
    simp [rankMaxDirect]
  · rw [vrank_ordinal_spec h.pre, rankOrdSpec_replicate_none]
    simp [List.range'_eq_map_range, Nat.add_comm]

/-- descending `Vector.sort`, on the values: the non-missing part of the ascending result REVERSED (so ties come out in
    reverse input order), then the missing elements. -/
theorem vsort_desc_values (le : κ → κ → Bool) (nf : Bool) (xs : List (Option κ)) :
    gather xs (vsort le nf true xs)
      = ((gather xs (vsort le nf false xs)).filter (fun y => !isNa y)).reverse
        ++ (gather xs (vsort le nf false xs)).filter isNa := by
  unfold vsort
  simp only [if_true, Bool.false_eq_true, if_false]
  generalize argsort (leRaw le nf) xs = I
  have e1 : (gather xs (I.filter (fun i => !isNa xs[i]!) ++ I.filter (fun i => isNa xs[i]!))).filter (fun y => !isNa y)
      = gather xs (I.filter (fun i => !isNa xs[i]!)) := by
    rw [gather_filter, List.filter_append, List.filter_filter, List.filter_filter]
    have z : I.filter (fun i => (!isNa xs[i]!) && isNa xs[i]!) = [] := by
      rw [List.filter_eq_nil_iff]; intro i _; cases isNa xs[i]! <;> simp
    rw [z, List.append_nil]
    congr 1
    apply List.filter_congr; intro i _; cases isNa xs[i]! <;> rfl
  have e2 : (gather xs (I.filter (fun i => !isNa xs[i]!) ++ I.filter (fun i => isNa xs[i]!))).filter isNa
      = gather xs (I.filter (fun i => isNa xs[i]!)) := by
    rw [gather_filter, List.filter_append, List.filter_filter, List.filter_filter]
    have z : I.filter (fun i => isNa xs[i]! && !isNa xs[i]!) = [] := by
      rw [List.filter_eq_nil_iff]; intro i _; cases isNa xs[i]! <;> simp
    rw [z, List.nil_append]
    congr 1
    apply List.filter_congr; intro i _; cases isNa xs[i]! <;> rfl
  rw [e1, e2]
  unfold gather
  rw [List.map_append, List.filter_reverse, List.filter_reverse, List.map_reverse, List.map_reverse]
  congr 1
  have hM : (I.filter (fun i => isNa xs[i]!)).map (fun i => xs[i]!)
      = List.replicate ((I.filter (fun i => isNa xs[i]!)).map (fun i => xs[i]!)).length none := by
    rw [List.eq_replicate_iff]
    refine ⟨rfl, ?_⟩
    intro y hy
    obtain ⟨i, hi, rfl⟩ := List.mem_map.mp hy
    have := (List.mem_filter.mp hi).2
    cases hx : xs[i]! <;> simp_all [isNa]
  rw [hM, List.reverse_replicate]

end Direct

end DI.PyEvalArr

/-
  Lemmas/VectorOrd.lean — the remaining clauses of property C11:

  * the stable index sort `argsort` is *the* permutation ordered by value with ties in
    index order; position of an index in it = (#strictly smaller) + (#equivalent earlier);
  * `Vector.rank(method="ordinal")` = that count + 1, a permutation of `1..n`, the inverse
    of the ascending `Vector.sort`;
  * `Vector.sort` (ascending) is the stable sort with the missing value last, whatever the raw
    NumPy sort does with the missing value;
  * object-vector `Vector.sort`: permutation, ordered, missing last, stable;
  * `Vector.unique` = positions of first occurrences.
-/
import Model.Vector
import Lemmas.Sort
import Lemmas.Vector
import Lemmas.Rank

namespace DI

/-! ### generic list facts -/

section Generic

variable {α : Type} {β : Type}

/-- In a duplicate-free list two elements cannot occur in both orders. -/
theorem nodup_no_swap {l : List β} (hn : l.Nodup) {a b : β}
    (h1 : [a, b].Sublist l) (h2 : [b, a].Sublist l) : False := by
  induction l with
  | nil => simp at h1
  | cons c t ih =>
    obtain ⟨hc, ht⟩ := List.nodup_cons.mp hn
    rcases List.sublist_cons_iff.mp h1 with h1 | ⟨r1, e1, s1⟩
    · rcases List.sublist_cons_iff.mp h2 with h2 | ⟨r2, e2, s2⟩
      · exact ih ht h1 h2
      · -- b = c, but b ∈ t
        have hb : b = c := by simp at e2; exact e2.1
        have : b ∈ t := h1.subset (by simp)
        exact hc (hb ▸ this)
    · have ha : a = c := by simp at e1; exact e1.1
      rcases List.sublist_cons_iff.mp h2 with h2 | ⟨r2, e2, s2⟩
      · have : a ∈ t := h2.subset (by simp)
        exact hc (ha ▸ this)
      · have hb : b = c := by simp at e2; exact e2.1
        have hr : r1 = [b] := by simp at e1; exact e1.2.symm
        subst hr
        have : b ∈ t := s1.subset (by simp)
        exact hc (hb ▸ this)

/-- In a list ordered by an asymmetric relation the position of an element is the number of
    elements related to it. -/
theorem idxOf_eq_count [DecidableEq β] (R : β → β → Bool)
    (asym : ∀ a b, R a b = true → R b a = false) :
    ∀ (l : List β), l.Pairwise (fun a b => R a b = true) → ∀ a ∈ l,
      l.idxOf a = (l.filter (fun b => R b a)).length
  | [], _, a, ha => by simp at ha
  | c :: t, hp, a, ha => by
    have hct : ∀ x ∈ t, R c x = true := fun x hx => List.rel_of_pairwise_cons hp hx
    have hirr : ∀ x, R x x = false := by
      intro x; cases h : R x x
      · rfl
      · have := asym x x h; simp [h] at this
    by_cases hac : a = c
    · subst hac
      have : (t.filter (fun b => R b a)).length = 0 :=
        filter_length_zero_of_forall t (fun x hx => asym _ _ (hct x hx))
      simp [hirr, this]
    · have hat : a ∈ t := by
        rcases List.mem_cons.mp ha with h | h
        · exact absurd h hac
        · exact h
      have ih := idxOf_eq_count R asym t hp.tail a hat
      have hca : R c a = true := hct a hat
      have hne : (c == a) = false := by simpa using fun h => hac h.symm
      simp [List.idxOf_cons, hne, hca, ih]

theorem length_filter_or_disjoint (p q : β → Bool) (l : List β)
    (h : ∀ x ∈ l, p x = true → q x = false) :
    (l.filter (fun x => p x || q x)).length = (l.filter p).length + (l.filter q).length := by
  induction l with
  | nil => simp
  | cons a l ih =>
    have ih' := ih (fun x hx => h x (by simp [hx]))
    have ha := h a (by simp)
    simp only [List.filter_cons]
    cases hp : p a <;> cases hq : q a <;> simp [hp, hq] at ha ⊢ <;> omega

/-- counting over `zipIdx` with an index bound = counting in a prefix. -/
theorem length_filter_zipIdx_lt (f : β → Bool) (l : List β) (s k : Nat) :
    ((l.zipIdx s).filter (fun q => f q.1 && decide (q.2 < s + k))).length
      = ((l.take k).filter f).length := by
  induction l generalizing s k with
  | nil => simp
  | cons a l ih =>
    cases k with
    | zero =>
      simp only [Nat.add_zero, List.take_zero, List.filter_nil, List.length_nil]
      apply filter_length_zero_of_forall
      intro q hq
      have := List.mem_zipIdx hq
      have : ¬ q.2 < s := by omega
      simp [this]
    | succ k =>
      have ih' := ih (s + 1) k
      have e : s + 1 + k = s + (k + 1) := by omega
      rw [e] at ih'
      simp only [List.zipIdx_cons, List.take_succ_cons, List.filter_cons]
      have hs : s < s + (k + 1) := by omega
      cases hf : f a <;> simp [hs, ih']

theorem length_filter_zipIdx_fst (f : β → Bool) (l : List β) (s : Nat) :
    ((l.zipIdx s).filter (fun q => f q.1)).length = (l.filter f).length := by
  have : (l.zipIdx s).filter (fun q => f q.1) = (l.zipIdx s).filter (f ∘ Prod.fst) := rfl
  rw [this, ← List.length_map (f := Prod.fst), ← List.filter_map, List.zipIdx_map_fst]

theorem zipIdx_eq_map_range [Inhabited β] (l : List β) :
    l.zipIdx = (List.range l.length).map (fun j => (l[j]!, j)) := by
  apply List.ext_getElem
  · simp
  · intro i h1 h2
    have : i < l.length := by simpa using h1
    simp [this]

end Generic

/-! ### the stable index sort is ordered by (value, index) -/

section Stable

variable {α : Type}

/-- "strictly before" for the stable sort, on (value, index) pairs: smaller value, or equivalent
    value and smaller index. -/
def slt (le : α → α → Bool) (p q : α × Nat) : Bool :=
  le p.1 q.1 && (!(le q.1 p.1) || decide (p.2 < q.2))

/-- the same on indices into `xs`. -/
def ilt [Inhabited α] (le : α → α → Bool) (xs : List α) (i j : Nat) : Bool :=
  slt le (xs[i]!, i) (xs[j]!, j)

theorem slt_asymm (le : α → α → Bool) (p q : α × Nat) : slt le p q = true → slt le q p = false := by
  unfold slt
  cases le p.1 q.1 <;> cases le q.1 p.1 <;> simp
  omega

theorem ilt_asymm [Inhabited α] (le : α → α → Bool) (xs : List α) (i j : Nat) :
    ilt le xs i j = true → ilt le xs j i = false := slt_asymm le _ _

theorem nodup_sortPairs_snd (le : α → α → Bool) (xs : List α) :
    ((sortPairs le xs).map (·.2)).Nodup := by
  have h : ((sortPairs le xs).map (·.2)).Perm (List.range xs.length) := argsort_perm le xs
  exact h.symm.nodup List.nodup_range

theorem nodup_argsort (le : α → α → Bool) (xs : List α) : (argsort le xs).Nodup :=
  nodup_sortPairs_snd le xs

theorem nodup_sortPairs (le : α → α → Bool) (xs : List α) : (sortPairs le xs).Nodup :=
  List.Pairwise.of_map (·.2) (fun a b hab he => hab (by rw [he])) (nodup_sortPairs_snd le xs)

/-- two entries of `zipIdx` in index order form a sublist. -/
theorem pair_sublist_zipIdx' (xs : List α) {p q : α × Nat} (hp : p ∈ xs.zipIdx) (hq : q ∈ xs.zipIdx)
    (hpq : p.2 < q.2) : [p, q].Sublist xs.zipIdx := by
  have hlt : xs.zipIdx.Pairwise (fun a b => a.2 < b.2) := by
    have := List.zipIdx_map_snd 0 xs
    have h2 : ((xs.zipIdx).map Prod.snd).Pairwise (· < ·) := by
      rw [this]; exact List.pairwise_lt_range'
    exact List.pairwise_map.mp h2
  -- generic: in a list strictly ordered by `snd`, two members in order form a sublist
  have key : ∀ (l : List (α × Nat)), l.Pairwise (fun a b => a.2 < b.2) → p ∈ l → q ∈ l →
      [p, q].Sublist l := by
    intro l
    induction l with
    | nil => intro _ h; simp at h
    | cons c t ih =>
      intro hl hp hq
      rcases List.mem_cons.mp hp with rfl | hp'
      · rcases List.mem_cons.mp hq with rfl | hq'
        · omega
        · exact List.Sublist.cons_cons _ (List.singleton_sublist.mpr hq')
      · rcases List.mem_cons.mp hq with rfl | hq'
        · have := List.rel_of_pairwise_cons hl hp'
          omega
        · exact (ih hl.tail hp' hq').cons _
  exact key _ hlt hp hq

/-- The sorted pair list is strictly ordered by (value, index): sortedness + stability. -/
theorem sortPairs_pairwise_slt {le : α → α → Bool} (h : PreOrd le) (xs : List α) :
    (sortPairs le xs).Pairwise (fun p q => slt le p q = true) := by
  rw [List.pairwise_iff_forall_sublist]
  intro p q hpq
  have hsorted := List.pairwise_iff_forall_sublist.mp (sortPairs_sorted h xs) hpq
  have hp : p ∈ sortPairs le xs := hpq.subset (by simp)
  have hq : q ∈ sortPairs le xs := hpq.subset (by simp)
  unfold slt
  simp only [hsorted, Bool.true_and, Bool.or_eq_true, Bool.not_eq_true', decide_eq_true_eq]
  cases hqp : le q.1 p.1
  · exact Or.inl rfl
  · right
    -- indices are distinct
    have hne : p.2 ≠ q.2 := by
      have h1 := (hpq.map (·.2)).nodup (nodup_sortPairs_snd le xs)
      simpa using h1
    rcases Nat.lt_or_gt_of_ne hne with hlt | hgt
    · exact hlt
    · exfalso
      have hs := pair_sublist_zipIdx' xs (mem_sortPairs.mp hq) (mem_sortPairs.mp hp) hgt
      have := sortPairs_stable h xs hs hqp
      exact nodup_no_swap (nodup_sortPairs le xs) hpq this

/-- On indices: `argsort` is strictly ordered by (value at the index, index). -/
theorem argsort_pairwise_ilt [Inhabited α] {le : α → α → Bool} (h : PreOrd le) (xs : List α) :
    (argsort le xs).Pairwise (fun i j => ilt le xs i j = true) := by
  unfold argsort
  rw [List.pairwise_map]
  refine List.Pairwise.imp_of_mem ?_ (sortPairs_pairwise_slt h xs)
  intro p q hp hq hpq
  have e1 := mem_sortPairs_get hp
  have e2 := mem_sortPairs_get hq
  unfold ilt
  have v1 : xs[p.2]! = p.1 := by simp [e1]
  have v2 : xs[q.2]! = q.1 := by simp [e2]
  rw [v1, v2]; exact hpq

/-- Uniqueness: a permutation of the positions ordered by (value, index) *is* the stable sort. -/
theorem eq_argsort_of_pairwise_ilt [Inhabited α] {le : α → α → Bool} (h : PreOrd le) (xs : List α)
    (l : List Nat) (hperm : l.Perm (List.range xs.length))
    (hl : l.Pairwise (fun i j => ilt le xs i j = true)) : l = argsort le xs := by
  refine List.Perm.eq_of_pairwise ?_ hl (argsort_pairwise_ilt h xs)
    (hperm.trans (argsort_perm le xs).symm)
  intro a b _ _ h1 h2
  have := ilt_asymm le xs a b h1
  simp [this] at h2

/-- Position of index `i` in the stable sort: the number of strictly smaller values plus the
    number of equivalent values at earlier positions. -/
theorem idxOf_argsort [Inhabited α] {le : α → α → Bool} (h : PreOrd le) (xs : List α) (i : Nat)
    (hi : i < xs.length) :
    (argsort le xs).idxOf i
      = (xs.filter (fun y => le y xs[i] && !(le xs[i] y))).length
        + ((xs.take i).filter (fun y => le y xs[i] && le xs[i] y)).length := by
  have hmem : i ∈ argsort le xs := (argsort_perm le xs).mem_iff.mpr (by simpa using hi)
  rw [idxOf_eq_count (ilt le xs) (ilt_asymm le xs) _ (argsort_pairwise_ilt h xs) i hmem]
  rw [((argsort_perm le xs).filter _).length_eq]
  have e : (List.range xs.length).filter (fun b => ilt le xs b i)
      = (List.range xs.length).filter ((fun q : α × Nat => slt le q (xs[i]!, i)) ∘ (fun j => (xs[j]!, j))) := rfl
  rw [e, ← List.length_map (f := fun j => (xs[j]!, j)), ← List.filter_map, ← zipIdx_eq_map_range]
  have hv : xs[i]! = xs[i] := by simp [hi]
  rw [hv]
  have e2 : xs.zipIdx.filter (fun q => slt le q (xs[i], i))
      = xs.zipIdx.filter (fun q => (le q.1 xs[i] && !(le xs[i] q.1))
          || ((le q.1 xs[i] && le xs[i] q.1) && decide (q.2 < 0 + i))) := by
    apply List.filter_congr
    intro q _
    unfold slt
    simp only [Nat.zero_add]
    cases le q.1 xs[i] <;> cases le xs[i] q.1 <;> simp
  rw [e2, length_filter_or_disjoint]
  · rw [length_filter_zipIdx_fst (fun y => le y xs[i] && !(le xs[i] y)),
      length_filter_zipIdx_lt (fun y => le y xs[i] && le xs[i] y)]
  · intro q _
    cases le q.1 xs[i] <;> cases le xs[i] q.1 <;> simp

end Stable

/-! ### inverse permutation -/

section InvPerm

theorem map_idxOf_self : ∀ (l : List Nat), l.Nodup → l.map (fun x => l.idxOf x) = List.range l.length
  | [], _ => by simp
  | a :: t, hn => by
    obtain ⟨ha, ht⟩ := List.nodup_cons.mp hn
    have ih := map_idxOf_self t ht
    rw [List.length_cons, List.range_succ_eq_map, ← ih, List.map_cons, List.map_map]
    congr 1
    · simp
    · apply List.map_congr_left
      intro x hx
      have : (a == x) = false := by
        simp only [beq_eq_false_iff_ne, ne_eq]; intro e; exact ha (e ▸ hx)
      simp [List.idxOf_cons, this]

/-- reading the inverse permutation along the permutation counts `1, 2, …`. -/
theorem map_invPermPlus1_self (idx : List Nat) (n : Nat) (hp : idx.Perm (List.range n)) :
    idx.map (fun i => (invPermPlus1 idx)[i]!) = List.range' 1 n := by
  have hn : idx.Nodup := hp.symm.nodup List.nodup_range
  have hlen : idx.length = n := by simpa using hp.length_eq
  have : idx.map (fun i => (invPermPlus1 idx)[i]!) = idx.map (fun i => idx.idxOf i + 1) := by
    apply List.map_congr_left
    intro i hi
    have : i < n := by simpa using hp.mem_iff.mp hi
    unfold invPermPlus1
    simp [hlen, this]
  rw [this]
  have e : idx.map (fun i => idx.idxOf i + 1) = (idx.map (fun x => idx.idxOf x)).map (· + 1) := by
    simp [List.map_map]
  rw [e, map_idxOf_self idx hn, hlen, List.range'_eq_map_range]
  apply List.map_congr_left
  intro x _; omega

/-- the inverse of a permutation of `0..n-1`, plus one, is a permutation of `1..n`. -/
theorem invPermPlus1_perm (idx : List Nat) (n : Nat) (hp : idx.Perm (List.range n)) :
    (invPermPlus1 idx).Perm (List.range' 1 n) := by
  have hlen : idx.length = n := by simpa using hp.length_eq
  have h1 : (invPermPlus1 idx).Perm (idx.map (fun p => idx.idxOf p + 1)) := by
    unfold invPermPlus1
    rw [hlen]
    exact (hp.map _).symm
  refine h1.trans ?_
  have hn : idx.Nodup := hp.symm.nodup List.nodup_range
  have e : idx.map (fun i => idx.idxOf i + 1) = (idx.map (fun x => idx.idxOf x)).map (· + 1) := by
    simp [List.map_map]
  rw [e, map_idxOf_self idx hn, hlen, List.range'_eq_map_range]
  have : (List.range n).map (· + 1) = (List.range n).map (fun x => 1 + x) := by
    apply List.map_congr_left; intro x _; omega
  rw [this]

end InvPerm

/-! ### rank(method="ordinal") -/

section Ordinal

variable {κ : Type}

/-- a predicate on values lifted to cells: false on the missing value. -/
def onSome (p : κ → Bool) : Option κ → Bool
  | some b => p b
  | none => false

/-- Specification of `rank(method="ordinal")`, position by position:
    a non-missing `a` at position `i` gets one plus the number of elements ordered strictly
    before `a` plus the number of elements equivalent to `a` at earlier positions (ties broken
    by position); a missing value gets the number of non-missing elements plus the number of
    earlier missing values plus one (missing values last, in position order). -/
def rankOrdSpec (le : κ → κ → Bool) (xs : List (Option κ)) : List Nat :=
  (List.range xs.length).map (fun i =>
    match xs[i]! with
    | some a =>
      1 + (xs.filter (onSome (fun b => ltOf le b a))).length
        + ((xs.take i).filter (onSome (fun b => le b a && le a b))).length
    | none => (nonNa xs).length + ((xs.take i).filter isNa).length + 1)

theorem length_filter_nonNa' (xs : List (Option κ)) (p : κ → Bool) :
    ((nonNa xs).filter p).length = (xs.filter (onSome p)).length := by
  induction xs with
  | nil => simp [nonNa]
  | cons x xs ih =>
    cases x with
    | none => simpa [nonNa, onSome, List.filter_cons] using ih
    | some a =>
      simp only [nonNa, List.filterMap_cons, id, List.filter_cons, onSome] at ih ⊢
      by_cases hp : p a = true <;> simp [hp, ih]

/-- the two masked assignments of `rank` as one pass: non-missing positions consume `R`,
    missing positions consume `V`. -/
def fillMask : List (Option κ) → List Nat → List Nat → List Nat
  | [], _, _ => []
  | some _ :: xs, R, V => R.headD 0 :: fillMask xs R.tail V
  | none :: xs, R, V => V.headD 0 :: fillMask xs R V.tail

theorem putMask_two (xs : List (Option κ)) (base R V : List Nat) (hb : base.length = xs.length) :
    putMask (xs.map isNa) (putMask (xs.map (fun x => !isNa x)) base R) V = fillMask xs R V := by
  induction xs generalizing base R V with
  | nil => simp [putMask, fillMask]
  | cons x xs ih =>
    cases base with
    | nil => simp at hb
    | cons o os =>
      have hb' : os.length = xs.length := by simpa using hb
      cases x with
      | none => simpa [putMask, fillMask, isNa] using ih os R V.tail hb'
      | some a => simpa [putMask, fillMask, isNa] using ih os R.tail V hb'

theorem length_fillMask (xs : List (Option κ)) (R V : List Nat) :
    (fillMask xs R V).length = xs.length := by
  induction xs generalizing R V with
  | nil => simp [fillMask]
  | cons x xs ih => cases x <;> simp [fillMask, ih]

theorem headD_eq_get (R : List Nat) : R.head?.getD 0 = R[0]?.getD 0 := by cases R <;> simp

theorem fillMask_get_some (xs : List (Option κ)) (R V : List Nat) (i : Nat) (a : κ)
    (h : xs[i]? = some (some a)) :
    (fillMask xs R V)[i]? = some (R[(nonNa (xs.take i)).length]?.getD 0) := by
  induction xs generalizing R V i with
  | nil => simp at h
  | cons x xs ih =>
    cases i with
    | zero =>
      simp only [List.getElem?_cons_zero, Option.some.injEq] at h
      subst h
      simp [fillMask, nonNa, headD_eq_get]
    | succ i =>
      simp only [List.getElem?_cons_succ] at h
      cases x with
      | none => simp [fillMask, nonNa, ih R V.tail i h]
      | some b => simp [fillMask, nonNa, ih R.tail V i h]

theorem fillMask_get_none (xs : List (Option κ)) (R V : List Nat) (i : Nat)
    (h : xs[i]? = some none) :
    (fillMask xs R V)[i]? = some (V[((xs.take i).filter isNa).length]?.getD 0) := by
  induction xs generalizing R V i with
  | nil => simp at h
  | cons x xs ih =>
    cases i with
    | zero =>
      simp only [List.getElem?_cons_zero, Option.some.injEq] at h
      subst h
      simp [fillMask, headD_eq_get]
    | succ i =>
      simp only [List.getElem?_cons_succ] at h
      cases x with
      | none => simp [fillMask, isNa, List.filter_cons, ih R V.tail i h]
      | some b => simp [fillMask, isNa, ih R.tail V i h]

theorem split_at (xs : List (Option κ)) (i : Nat) (x : Option κ) (h : xs[i]? = some x) :
    xs = xs.take i ++ x :: xs.drop (i + 1) := by
  obtain ⟨hi, hx⟩ := List.getElem?_eq_some_iff.mp h
  rw [← hx, ← List.drop_eq_getElem_cons hi, List.take_append_drop]

theorem nonNa_append (l₁ l₂ : List (Option κ)) : nonNa (l₁ ++ l₂) = nonNa l₁ ++ nonNa l₂ := by
  simp [nonNa]

theorem nonNa_split (xs : List (Option κ)) (i : Nat) (a : κ) (h : xs[i]? = some (some a)) :
    nonNa xs = nonNa (xs.take i) ++ a :: nonNa (xs.drop (i + 1)) := by
  have := split_at xs i _ h
  conv => lhs; rw [this]
  rw [nonNa_append]; simp [nonNa]

theorem length_na_add_nonNa (xs : List (Option κ)) :
    (xs.filter isNa).length + (nonNa xs).length = xs.length := by
  induction xs with
  | nil => simp [nonNa]
  | cons x xs ih => cases x <;> simp_all [nonNa, isNa, List.filter_cons] <;> omega

theorem length_na_take_lt (xs : List (Option κ)) (i : Nat) (h : xs[i]? = some none) :
    ((xs.take i).filter isNa).length < (xs.filter isNa).length := by
  have := split_at xs i _ h
  conv => rhs; rw [this]
  simp [List.filter_append, isNa]

end Ordinal

section OrdinalMain

variable {κ : Type}

theorem rankOrdSpec_get (le : κ → κ → Bool) (xs : List (Option κ)) (i : Nat) (hi : i < xs.length) :
    (rankOrdSpec le xs)[i]? = some (match xs[i]! with
      | some a =>
        1 + (xs.filter (onSome (fun b => ltOf le b a))).length
          + ((xs.take i).filter (onSome (fun b => le b a && le a b))).length
      | none => (nonNa xs).length + ((xs.take i).filter isNa).length + 1) := by
  unfold rankOrdSpec
  simp [hi]

/-- the `argsort` / inverse-permutation / masked-assignment pipeline of `rank(method="ordinal")`
    computes the counting specification (for every vector, also an entirely missing one). -/
theorem rankOrdCore_spec {le : κ → κ → Bool} (h : PreOrd le) (xs : List (Option κ)) :
    rankOrdCore le xs = rankOrdSpec le xs := by
  unfold rankOrdCore
  simp only []
  rw [putMask_two xs _ _ _ (by simp [zeros])]
  apply List.ext_getElem?
  intro i
  by_cases hi : i < xs.length
  · rw [rankOrdSpec_get le xs i hi]
    have hv : xs[i]! = xs[i] := by simp [hi]
    rw [hv]
    cases hx : xs[i] with
    | none =>
      have hx' : xs[i]? = some none := by simp [hi, hx]
      rw [fillMask_get_none xs _ _ i hx']
      have h1 := length_na_take_lt xs i hx'
      have h2 := length_na_add_nonNa xs
      have hk : ((xs.take i).filter isNa).length < xs.length - (nonNa xs).length := by omega
      simp [hk]
    | some a =>
      have hx' : xs[i]? = some (some a) := by simp [hi, hx]
      rw [fillMask_get_some xs _ _ i a hx']
      have hsplit := nonNa_split xs i a hx'
      have hk : (nonNa (xs.take i)).length < (nonNa xs).length := by
        rw [hsplit]; simp
      have hva : (nonNa xs)[(nonNa (xs.take i)).length] = a := by
        simp [hsplit]
      have htake : (nonNa xs).take (nonNa (xs.take i)).length = nonNa (xs.take i) := by
        conv => lhs; arg 2; rw [hsplit]
        simp
      haveI : Inhabited κ := ⟨a⟩
      have hidx := idxOf_argsort h (nonNa xs) _ hk
      rw [hva, htake] at hidx
      have hlen : (argsort le (nonNa xs)).length = (nonNa xs).length := length_argsort le _
      unfold invPermPlus1
      simp only [hlen, List.getElem?_map, List.getElem?_range hk, Option.map_some, Option.getD_some,
        hidx]
      rw [length_filter_nonNa' xs, length_filter_nonNa' (xs.take i)]
      simp only [ltOf]
      congr 1
      omega
  · have h1 : (fillMask xs (invPermPlus1 (argsort le (nonNa xs)))
        ((List.range (xs.length - (nonNa xs).length)).map
          (fun k => (nonNa xs).length + k + 1)))[i]? = none := by
      rw [List.getElem?_eq_none_iff, length_fillMask]; omega
    have h2 : (rankOrdSpec le xs)[i]? = none := by
      rw [List.getElem?_eq_none_iff]; simp [rankOrdSpec]; omega
    rw [h1, h2]

end OrdinalMain

section OrdinalTop

variable {κ : Type}

theorem length_filter_isSome (xs : List (Option κ)) :
    (xs.filter (fun y => y.isSome)).length = (nonNa xs).length := by
  induction xs with
  | nil => simp [nonNa]
  | cons x xs ih => cases x <;> simp_all [nonNa]

/-- ordinal ranks are the inverse permutation (plus one) of the stable sort with the missing
    value last. -/
theorem rankOrdSpec_eq_invPerm {le : κ → κ → Bool} (h : PreOrd le) (xs : List (Option κ)) :
    rankOrdSpec le xs = invPermPlus1 (argsort (leNaLast le) xs) := by
  unfold rankOrdSpec invPermPlus1
  rw [length_argsort]
  apply List.map_congr_left
  intro i hi
  have hi : i < xs.length := by simpa using hi
  have hp : PreOrd (leNaLast le) := leRaw_pre h false
  rw [idxOf_argsort hp xs i hi]
  have hv : xs[i]! = xs[i] := by simp [hi]
  rw [hv]
  cases hx : xs[i] with
  | none =>
    have e1 : xs.filter (fun y => leNaLast le y none && !(leNaLast le none y))
        = xs.filter (fun y => y.isSome) := by
      apply List.filter_congr; intro y _; cases y <;> simp [leNaLast, leRaw]
    have e2 : (xs.take i).filter (fun y => leNaLast le y none && leNaLast le none y)
        = (xs.take i).filter isNa := by
      apply List.filter_congr; intro y _; cases y <;> simp [leNaLast, leRaw, isNa]
    simp only [leNaLast] at e1 e2 ⊢
    rw [e1, e2, length_filter_isSome]
  | some a =>
    have e1 : xs.filter (fun y => leNaLast le y (some a) && !(leNaLast le (some a) y))
        = xs.filter (onSome (fun b => ltOf le b a)) := by
      apply List.filter_congr; intro y _; cases y <;> simp [leNaLast, leRaw, onSome, ltOf]
    have e2 : (xs.take i).filter (fun y => leNaLast le y (some a) && leNaLast le (some a) y)
        = (xs.take i).filter (onSome (fun b => le b a && le a b)) := by
      apply List.filter_congr; intro y _; cases y <;> simp [leNaLast, leRaw, onSome]
    simp only [leNaLast] at e1 e2 ⊢
    rw [e1, e2]
    omega

theorem rankOrdSpec_replicate_none (le : κ → κ → Bool) (n : Nat) :
    rankOrdSpec le (List.replicate n none) = (List.range n).map (· + 1) := by
  unfold rankOrdSpec
  simp only [List.length_replicate]
  apply List.map_congr_left
  intro i hi
  have hi : i < n := by simpa using hi
  have hm : min i n = i := by omega
  rw [List.take_replicate, hm]
  simp [hi, nonNa, List.filter_replicate, isNa]

theorem rankOrdSpec_replicate_some {le : κ → κ → Bool} (h : PreOrd le) (n : Nat) (c : κ) :
    rankOrdSpec le (List.replicate n (some c)) = (List.range n).map (· + 1) := by
  unfold rankOrdSpec
  simp only [List.length_replicate]
  apply List.map_congr_left
  intro i hi
  have hi : i < n := by simpa using hi
  have hm : min i n = i := by omega
  have hr := h.refl c
  rw [List.take_replicate, hm]
  simp [hi, onSome, ltOf, hr]
  exact Nat.add_comm _ _

variable [DecidableEq κ]

/-- `Vector.rank(method="ordinal")`, with the empty and the all-missing guards, equals the
    counting specification. -/
theorem vrank_ordinal_spec {le : κ → κ → Bool} (h : PreOrd le) (one : κ) (xs : List (Option κ)) :
    vrank le one .ordinal xs = rankOrdSpec le xs := by
  unfold vrank
  split
  · rename_i h0
    have : xs = [] := List.eq_nil_of_length_eq_zero h0
    subst this; simp [rankOrdSpec]
  · simp only []
    split
    · rename_i hall
      rw [rankOrdCore_spec h]
      have hxn : ∀ y ∈ xs, y = none := by
        intro y hy
        have := List.all_eq_true.mp hall y hy
        simpa [isNa] using this
      have e1 : xs = List.replicate xs.length none := List.eq_replicate_iff.mpr ⟨rfl, hxn⟩
      have e2 : xs.map (fun _ => some one) = List.replicate xs.length (some one) := by
        rw [List.eq_replicate_iff]; simp
      rw [e2, rankOrdSpec_replicate_some h]
      conv => rhs; rw [e1, rankOrdSpec_replicate_none]
    · exact rankOrdCore_spec h xs

theorem vrank_ordinal_eq_invPerm {le : κ → κ → Bool} (h : PreOrd le) (one : κ)
    (xs : List (Option κ)) :
    vrank le one .ordinal xs = invPermPlus1 (argsort (leNaLast le) xs) := by
  rw [vrank_ordinal_spec h, rankOrdSpec_eq_invPerm h]

/-- ordinal ranks are a permutation of `1..n`. -/
theorem vrank_ordinal_perm {le : κ → κ → Bool} (h : PreOrd le) (one : κ) (xs : List (Option κ)) :
    (vrank le one .ordinal xs).Perm (List.range' 1 xs.length) := by
  rw [vrank_ordinal_eq_invPerm h]
  exact invPermPlus1_perm _ _ (argsort_perm _ xs)

end OrdinalTop

/-! ### ascending `Vector.sort` is the stable sort with the missing value last -/

section SortStable

variable {κ : Type}

/-- Whatever the raw NumPy sort does with the missing value (`naFirst`), after the relocation of
    missing values the ascending `Vector.sort` is the stable sort for "missing value last". -/
theorem vsort_asc_eq_argsort {le : κ → κ → Bool} (h : PreOrd le) (naFirst : Bool)
    (xs : List (Option κ)) :
    vsort le naFirst false xs = argsort (leNaLast le) xs := by
  have hp : PreOrd (leNaLast le) := leRaw_pre h false
  apply eq_argsort_of_pairwise_ilt hp xs _ (vsort_perm' le naFirst false xs)
  unfold vsort
  simp only [Bool.false_eq_true, if_false]
  have hF := argsort_pairwise_ilt (leRaw_pre h naFirst) xs
  rw [List.pairwise_append]
  refine ⟨?_, ?_, ?_⟩
  · refine List.Pairwise.imp_of_mem ?_ (hF.filter _)
    intro i j hi hj hij
    have hi' := (List.mem_filter.mp hi).2
    have hj' := (List.mem_filter.mp hj).2
    revert hij hi' hj'
    unfold ilt slt leNaLast
    cases xs[i]! <;> cases xs[j]! <;> simp [isNa, leRaw]
  · refine List.Pairwise.imp_of_mem ?_ (hF.filter _)
    intro i j hi hj hij
    have hi' := (List.mem_filter.mp hi).2
    have hj' := (List.mem_filter.mp hj).2
    revert hij hi' hj'
    unfold ilt slt leNaLast
    cases xs[i]! <;> cases xs[j]! <;> simp [isNa, leRaw]
  · intro i hi j hj
    have hi' := (List.mem_filter.mp hi).2
    have hj' := (List.mem_filter.mp hj).2
    revert hi' hj'
    unfold ilt slt leNaLast
    cases xs[i]! <;> cases xs[j]! <;> simp [isNa, leRaw]

/-- stability of the ascending sort: in the output, of two positions holding equivalent
    non-missing values (and of two missing values) the earlier input position comes first. -/
theorem vsort_asc_stable {le : κ → κ → Bool} (h : PreOrd le) (naFirst : Bool)
    (xs : List (Option κ)) :
    (vsort le naFirst false xs).Pairwise
      (fun i j => leNaLast le xs[j]! xs[i]! = true → i < j) := by
  rw [vsort_asc_eq_argsort h]
  have hp : PreOrd (leNaLast le) := leRaw_pre h false
  refine (argsort_pairwise_ilt hp xs).imp ?_
  intro i j hij hji
  unfold ilt slt at hij
  simp only [hji, Bool.not_true, Bool.false_or, Bool.and_eq_true, decide_eq_true_eq] at hij
  exact hij.2

/-- descending sort: the raw stable sort is reversed, so equivalent non-missing values appear in
    *reverse* input order. -/
theorem vsort_desc_ties {le : κ → κ → Bool} (h : PreOrd le) (naFirst : Bool)
    (xs : List (Option κ)) :
    (vsort le naFirst true xs).Pairwise
      (fun i j => ∀ a b, xs[i]! = some a → xs[j]! = some b → le a b = true → j < i) := by
  unfold vsort
  simp only [if_true]
  have hF := argsort_pairwise_ilt (leRaw_pre h naFirst) xs
  have hR : (argsort (leRaw le naFirst) xs).reverse.Pairwise
      (fun i j => ilt (leRaw le naFirst) xs j i = true) := List.pairwise_reverse.mpr hF
  rw [List.pairwise_append]
  refine ⟨?_, ?_, ?_⟩
  · refine List.Pairwise.imp ?_ (hR.filter _)
    intro i j hij a b ha hb hab
    unfold ilt slt at hij
    simp only [ha, hb, leRaw, hab, Bool.not_true, Bool.false_or, Bool.and_eq_true,
      decide_eq_true_eq] at hij
    exact hij.2
  · refine List.Pairwise.imp_of_mem ?_ (hR.filter _)
    intro i j hi _ _ a b ha
    have hi' := (List.mem_filter.mp hi).2
    simp [ha, isNa] at hi'
  · intro i _ j hj a b _ hb
    have hj' := (List.mem_filter.mp hj).2
    simp [hb, isNa] at hj'

variable [DecidableEq κ]

/-- ordinal rank is consistent with sort: the element that the ascending sort puts at place `k`
    (0-based) has ordinal rank `k + 1` — for both raw-sort conventions and for every vector
    (for an entirely missing vector both sides are in position order). -/
theorem vrank_ordinal_sort {le : κ → κ → Bool} (h : PreOrd le) (one : κ) (naFirst : Bool)
    (xs : List (Option κ)) :
    (vsort le naFirst false xs).map (fun i => (vrank le one .ordinal xs)[i]!)
      = List.range' 1 xs.length := by
  rw [vsort_asc_eq_argsort h, vrank_ordinal_eq_invPerm h]
  exact map_invPermPlus1_self _ _ (argsort_perm _ xs)

end SortStable

/-! ### object vectors: `sorted(self, key=str, reverse=dir<0)`, missing values relocated -/

section SortObj

variable {σ : Type}

/-- the comparison Python's `sorted(..., reverse=r)` uses. -/
def leDir (le : σ → σ → Bool) (desc : Bool) (a b : σ) : Bool := if desc then le b a else le a b

theorem leDir_pre {le : σ → σ → Bool} (h : PreOrd le) (desc : Bool) : PreOrd (leDir le desc) := by
  cases desc
  · exact ⟨h.total, h.trans⟩
  · refine ⟨fun a b => ?_, fun a b c h1 h2 => ?_⟩
    · simpa [leDir] using h.total b a
    · simp only [leDir, if_true] at h1 h2 ⊢
      exact h.trans _ _ _ h2 h1

theorem argsortPy_eq (le : σ → σ → Bool) (desc : Bool) (keys : List σ) :
    argsortPy le desc keys = argsort (leDir le desc) keys := rfl

/-- object-vector sort returns a permutation of the positions. -/
theorem vsortObj_perm' (le : σ → σ → Bool) (desc : Bool) (keys : List σ) (na : List Bool) :
    (vsortObj le desc keys na).Perm (List.range keys.length) := by
  unfold vsortObj
  simp only []
  refine List.Perm.trans ?_ (argsort_perm (leDir le desc) keys)
  rw [argsortPy_eq]
  have := List.filter_append_perm (fun i => !na[i]!) (argsort (leDir le desc) keys)
  simpa using this

/-- the cell at position `i` of an object vector given by its keys and its missing mask. -/
def objCell [Inhabited σ] (keys : List σ) (na : List Bool) (i : Nat) : Option σ :=
  if na[i]! then none else some keys[i]!

/-- object-vector sort: non-missing part ordered by key in the requested direction, missing
    values last in both directions (the same specification order `ordDir` as for `vsort`). -/
theorem vsortObj_ordered' [Inhabited σ] {le : σ → σ → Bool} (h : PreOrd le) (desc : Bool)
    (keys : List σ) (na : List Bool) :
    ((vsortObj le desc keys na).map (objCell keys na)).Pairwise
      (fun a b => ordDir le desc a b) := by
  unfold vsortObj
  simp only []
  rw [argsortPy_eq]
  have hF := argsort_pairwise_ilt (leDir_pre h desc) keys
  rw [List.pairwise_map, List.pairwise_append]
  refine ⟨?_, ?_, ?_⟩
  · refine List.Pairwise.imp_of_mem ?_ (hF.filter _)
    intro i j hi hj hij
    have hi' := (List.mem_filter.mp hi).2
    have hj' := (List.mem_filter.mp hj).2
    simp only [Bool.not_eq_true'] at hi' hj'
    unfold ilt slt leDir at hij
    simp only [Bool.and_eq_true] at hij
    simp only [objCell, hi', hj', Bool.false_eq_true, if_false, ordDir]
    exact hij.1
  · refine List.Pairwise.imp_of_mem ?_ (hF.filter _)
    intro i j _ hj _
    have hj' := (List.mem_filter.mp hj).2
    simp [objCell, hj', ordDir]
  · intro i _ j hj
    have hj' := (List.mem_filter.mp hj).2
    simp [objCell, hj', ordDir]

/-- missing values are last: once a missing position appears, only missing positions follow. -/
theorem vsortObj_na_last (le : σ → σ → Bool) (desc : Bool) (keys : List σ) (na : List Bool) :
    (vsortObj le desc keys na).Pairwise (fun i j => na[i]! = true → na[j]! = true) := by
  unfold vsortObj
  simp only []
  rw [List.pairwise_append]
  refine ⟨?_, ?_, ?_⟩
  · rw [List.pairwise_iff_forall_sublist]
    intro i j hij hi
    have : i ∈ (argsortPy le desc keys).filter (fun i => !na[i]!) := hij.subset (by simp)
    have := (List.mem_filter.mp this).2
    simp [hi] at this
  · rw [List.pairwise_iff_forall_sublist]
    intro i j hij _
    have : j ∈ (argsortPy le desc keys).filter (fun i => na[i]!) := hij.subset (by simp)
    exact (List.mem_filter.mp this).2
  · intro i _ j hj _
    exact (List.mem_filter.mp hj).2

/-- Python's `sorted` is stable also with `reverse=True`: positions of the same kind (both
    missing or both non-missing) whose keys are equivalent keep their input order. -/
theorem vsortObj_stable' [Inhabited σ] {le : σ → σ → Bool} (h : PreOrd le) (desc : Bool)
    (keys : List σ) (na : List Bool) :
    (vsortObj le desc keys na).Pairwise
      (fun i j => na[i]! = na[j]! → leDir le desc keys[j]! keys[i]! = true → i < j) := by
  unfold vsortObj
  simp only []
  rw [argsortPy_eq]
  have hF := argsort_pairwise_ilt (leDir_pre h desc) keys
  have key : ∀ i j, ilt (leDir le desc) keys i j = true →
      leDir le desc keys[j]! keys[i]! = true → i < j := by
    intro i j hij hji
    unfold ilt slt at hij
    simp only [hji, Bool.not_true, Bool.false_or, Bool.and_eq_true, decide_eq_true_eq] at hij
    exact hij.2
  rw [List.pairwise_append]
  refine ⟨?_, ?_, ?_⟩
  · refine List.Pairwise.imp ?_ (hF.filter _)
    intro i j hij _; exact key i j hij
  · refine List.Pairwise.imp ?_ (hF.filter _)
    intro i j hij _; exact key i j hij
  · intro i hi j hj hne
    have hi' := (List.mem_filter.mp hi).2
    have hj' := (List.mem_filter.mp hj).2
    simp [hne, hj'] at hi'

end SortObj

/-! ### `Vector.unique` = first occurrences -/

section Unique

variable {α : Type} [DecidableEq α]

theorem idxOf_spec : ∀ (xs : List α) (v : α), v ∈ xs →
    ∃ h : xs.idxOf v < xs.length, xs[xs.idxOf v] = v ∧ v ∉ xs.take (xs.idxOf v)
  | [], v, hv => by simp at hv
  | x :: xs, v, hv => by
    by_cases hxv : x = v
    · subst hxv; simp
    · have hv' : v ∈ xs := by
        rcases List.mem_cons.mp hv with h | h
        · exact absurd h.symm hxv
        · exact h
      obtain ⟨h1, h2, h3⟩ := idxOf_spec xs v hv'
      have hne : (x == v) = false := by simpa using hxv
      have e : (x :: xs).idxOf v = xs.idxOf v + 1 := by simp [List.idxOf_cons, hne]
      refine ⟨by rw [e]; simpa using h1, ?_, ?_⟩
      · simp only [e, List.getElem_cons_succ]; exact h2
      · rw [e, List.take_succ_cons, List.mem_cons, not_or]
        exact ⟨fun h => hxv h.symm, h3⟩

theorem idxOf_getElem_of_not_mem_take : ∀ (xs : List α) (i : Nat) (hi : i < xs.length),
    xs[i] ∉ xs.take i → xs.idxOf xs[i] = i
  | [], i, hi, _ => by simp at hi
  | x :: xs, 0, _, _ => by simp
  | x :: xs, i + 1, hi, hn => by
    have hi' : i < xs.length := by simpa using hi
    simp only [List.getElem_cons_succ, List.take_succ_cons, List.mem_cons, not_or] at hn ⊢
    have ih := idxOf_getElem_of_not_mem_take xs i hi' hn.2
    have hne : (x == xs[i]) = false := by simpa using fun h => hn.1 h.symm
    simp [List.idxOf_cons, hne, ih]

theorem mem_firstOcc [Inhabited α] (xs : List α) (i : Nat) :
    i ∈ firstOcc xs ↔ ∃ h : i < xs.length, xs[i] ∉ xs.take i := by
  unfold firstOcc
  simp only [List.mem_filter, List.mem_range, Bool.not_eq_true', List.contains_eq_mem,
    decide_eq_false_iff_not]
  constructor
  · rintro ⟨h1, h2⟩
    refine ⟨h1, ?_⟩
    have : xs[i]! = xs[i] := by simp [h1]
    rwa [this] at h2
  · rintro ⟨h1, h2⟩
    refine ⟨h1, ?_⟩
    have : xs[i]! = xs[i] := by simp [h1]
    rwa [this]

theorem mem_uniqueIndex (le : α → α → Bool) (xs : List α) (i : Nat) :
    i ∈ uniqueIndex le xs ↔ ∃ v ∈ xs, xs.idxOf v = i := by
  unfold uniqueIndex
  simp only [List.mem_map]
  constructor
  · rintro ⟨v, hv, rfl⟩
    refine ⟨v, ?_, rfl⟩
    unfold sortedDistinct at hv
    rwa [mem_dedupAdj, List.mem_mergeSort] at hv
  · rintro ⟨v, hv, rfl⟩
    refine ⟨v, ?_, rfl⟩
    unfold sortedDistinct
    rwa [mem_dedupAdj, List.mem_mergeSort]

theorem mem_uniqueIndex_iff_firstOcc [Inhabited α] (le : α → α → Bool) (xs : List α) (i : Nat) :
    i ∈ uniqueIndex le xs ↔ i ∈ firstOcc xs := by
  rw [mem_uniqueIndex, mem_firstOcc]
  constructor
  · rintro ⟨v, hv, rfl⟩
    obtain ⟨h1, h2, h3⟩ := idxOf_spec xs v hv
    exact ⟨h1, by rw [h2]; exact h3⟩
  · rintro ⟨h1, h2⟩
    exact ⟨xs[i], List.getElem_mem h1, idxOf_getElem_of_not_mem_take xs i h1 h2⟩

/-- adjacent de-duplication of a list sorted by a linear order leaves no duplicates. -/
theorem nodup_dedupAdj {le : α → α → Bool} (h : LinOrd le) :
    ∀ l : List α, l.Pairwise (fun a b => le a b = true) → (dedupAdj l).Nodup
  | [], _ => by simp [dedupAdj]
  | [a], _ => by simp [dedupAdj]
  | a :: b :: rest, hs => by
    have ih := nodup_dedupAdj h (b :: rest) hs.tail
    simp only [dedupAdj]
    split
    · exact ih
    · rename_i hab
      rw [List.nodup_cons]
      refine ⟨?_, ih⟩
      rw [mem_dedupAdj]
      intro hmem
      rcases List.mem_cons.mp hmem with e | hr
      · exact hab e
      · have h1 : le a b = true := List.rel_of_pairwise_cons hs (by simp)
        have h2 : le b a = true := List.rel_of_pairwise_cons hs.tail hr
        exact hab (h.antisymm _ _ h1 h2)

theorem nodup_sortedDistinct {le : α → α → Bool} (h : LinOrd le) (xs : List α) :
    (sortedDistinct le xs).Nodup := by
  unfold sortedDistinct
  exact nodup_dedupAdj h _ (List.pairwise_mergeSort h.trans h.total xs)

theorem nodup_uniqueIndex {le : α → α → Bool} (h : LinOrd le) (xs : List α) :
    (uniqueIndex le xs).Nodup := by
  unfold uniqueIndex
  unfold List.Nodup
  rw [List.pairwise_map]
  refine List.Pairwise.imp_of_mem ?_ (nodup_sortedDistinct h xs)
  intro a b ha hb hab he
  apply hab
  have ha' : a ∈ xs := mem_sortedDistinct.mp ha
  have hb' : b ∈ xs := mem_sortedDistinct.mp hb
  obtain ⟨h1, h2, _⟩ := idxOf_spec xs a ha'
  obtain ⟨h3, h4, _⟩ := idxOf_spec xs b hb'
  rw [← h2, ← h4]
  simp only [he]

theorem firstOcc_sorted [Inhabited α] (xs : List α) :
    (firstOcc xs).Pairwise (fun a b => a < b) := by
  unfold firstOcc
  exact List.pairwise_lt_range.filter _

/-- `np.unique(return_index=True)` indices, sorted, are exactly the positions of first
    occurrences in increasing order. -/
theorem sorted_uniqueIndex_eq_firstOcc [Inhabited α] {le : α → α → Bool} (h : LinOrd le)
    (xs : List α) :
    (uniqueIndex le xs).mergeSort (fun a b => decide (a ≤ b)) = firstOcc xs := by
  have hs1 : ((uniqueIndex le xs).mergeSort (fun a b => decide (a ≤ b))).Pairwise
      (fun a b => decide (a ≤ b) = true) := by
    apply List.pairwise_mergeSort
    · intro a b c h1 h2; simp only [decide_eq_true_eq] at *; omega
    · intro a b; simp only [Bool.or_eq_true, decide_eq_true_eq]; omega
  have hs2 : (firstOcc xs).Pairwise (fun a b => decide (a ≤ b) = true) := by
    refine (firstOcc_sorted xs).imp ?_
    intro a b hab; simp only [decide_eq_true_eq]; omega
  have hn2 : (firstOcc xs).Nodup := by
    refine (firstOcc_sorted xs).imp ?_
    intro a b hab; omega
  have hperm : ((uniqueIndex le xs).mergeSort (fun a b => decide (a ≤ b))).Perm (firstOcc xs) := by
    refine (List.mergeSort_perm _ _).trans ?_
    rw [List.perm_ext_iff_of_nodup (nodup_uniqueIndex h xs) hn2]
    exact mem_uniqueIndex_iff_firstOcc le xs
  refine List.Perm.eq_of_pairwise ?_ hs1 hs2 hperm
  intro a b _ _ h1 h2
  simp only [decide_eq_true_eq] at h1 h2
  omega

end Unique

section UniqueVec

variable {κ : Type}

theorem leRaw_linOrd {le : κ → κ → Bool} (h : LinOrd le) (naFirst : Bool) :
    LinOrd (leRaw le naFirst) := by
  have hp := leRaw_pre h.pre naFirst
  refine ⟨hp.total, hp.trans, ?_⟩
  intro a b
  cases a <;> cases b <;> cases naFirst <;> simp [leRaw]
  all_goals exact h.antisymm _ _

variable [DecidableEq κ]

/-- `Vector.unique` returns the positions of the first occurrences, in input order — each
    distinct value (the missing value counted as one value) once. -/
theorem vunique_eq_firstOcc {le : κ → κ → Bool} (h : LinOrd le) (naFirst : Bool)
    (xs : List (Option κ)) :
    vunique le naFirst xs = firstOcc xs := by
  unfold vunique
  exact sorted_uniqueIndex_eq_firstOcc (leRaw_linOrd h naFirst) xs

end UniqueVec

/-! ### what "first occurrences" means for the values -/

section FirstOccValues

variable {α : Type} [DecidableEq α] [Inhabited α]

/-- every value of the input is among the values read at the first-occurrence positions. -/
theorem firstOcc_covers (xs : List α) (x : α) (hx : x ∈ xs) : x ∈ gather xs (firstOcc xs) := by
  obtain ⟨h1, h2, h3⟩ := idxOf_spec xs x hx
  unfold gather
  rw [List.mem_map]
  refine ⟨xs.idxOf x, ?_, ?_⟩
  · rw [mem_firstOcc]; exact ⟨h1, by rw [h2]; exact h3⟩
  · simp [h1, h2]

/-- the values read at the first-occurrence positions are pairwise distinct. -/
theorem firstOcc_values_nodup (xs : List α) : (gather xs (firstOcc xs)).Nodup := by
  unfold gather List.Nodup
  rw [List.pairwise_map]
  refine List.Pairwise.imp_of_mem ?_ (firstOcc_sorted xs)
  intro i j _ hj hij he
  obtain ⟨hj1, hj2⟩ := (mem_firstOcc xs j).mp hj
  apply hj2
  have hi1 : i < xs.length := by omega
  have e1 : xs[i]! = xs[i] := by simp [hi1]
  have e2 : xs[j]! = xs[j] := by simp [hj1]
  rw [e1, e2] at he
  rw [← he, List.mem_take_iff_getElem]
  exact ⟨i, by omega, rfl⟩

end FirstOccValues

end DI
